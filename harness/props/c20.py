"""C20  Text content tools are total and consistent (DESIGN.md section 7, C20)."""
from __future__ import annotations

import itertools
import re

from leanfmt import cps, lean_list, lean_str

ID = "C20"
LEAN_MODULES = ["EzdxfVerif.Props.C20"]
DRIVER_DEPS = ["EzdxfVerif.Model.Text", "EzdxfVerif.Model.TextCtx", "EzdxfVerif.Gen.TextTables", "Drivers.Proto"]
RULE = (
    "correspondence X1: every string over a 12-symbol MTEXT control alphabet up to length 4 (quick) / 5 (thorough), "
    "command templates (\\X + all argument strings up to length 2/3 over a numeric alphabet), templates incl. the "
    "counterexamples of the differ_* theorems, seeded random strings to length 600 and digit runs around the 4300-digit "
    "int() limit; ops caret/split (sizes 0,1,2,3,7,250)/fast/ptext/tokens/plain/escape/fix1/safe on the Lean model vs. the "
    "real functions; X3: MTextEditor call sequences (21 methods/constants, in-range random arguments) -> written text, "
    "expected words for both decoders, expected token stream, wf; X5: ParagraphProperties.tostring() and ctx.paragraph after "
    "parsing; X2: the property's sub-grammar is inside agreeClass; X4: differ_* replays; X6: paragraph list (split=True); X7: the "
    "MTextContext of every token (generated contents and every editor output). non-trivial = contains at least one control symbol; "
    "distinct by hash of (op, string). oracle: same strings on the real code (no exception, split/join identity, chunk "
    "bounds, purity, fast==slow on the sub-grammar AND on every generated string the model's recogniser agreeClass "
    "accepts (joined and list form), exact MTextEditor round trip for both decoders incl. split=True and bullet lists, size "
    "estimators / MTextExplode / wrapping / scaling without exception for seven MTEXT attribute sets (attachment points, widths with and "
    "without default tab stops), a layout grid (tabulator / alignment / tab stop contents and editor outputs x 9 attachment points x widths x "
    "heights), font commands with every flag list over b i 1 0 c |, the tags of the real export_mtext_content, MTEXT content through a real DXF file)."
)
TRUSTED_BASE = [
    "CPython str/re semantics for the modelled regexes (hand model of RE_FLOAT/RE_FLOAT_X/\\d+ tied to the pattern text by Gen/TextTables)",
    "MTextContext (Model/TextCtx.lean): float attributes are symbolic (abs(float(f)), previous * abs(float(f))); the harness evaluates them with "
    "CPython floats in the same order (stream X7); CPython float()/int() on the matched texts is trusted",
    "non-ASCII decimal digits (matched by \\d) are outside the model",
    "hand translation of tools/text.py into Model/Text.lean (validated by X1-X5, not proved); command dispatch, token commands "
    "`in` character sets and the context attributes assigned per command (frame conditions) are extracted from the AST each run "
    "(Gen/TextTables dispatch/tokenCmds/inSets/assigns) and proved equal to / respected by the model; the bodies of eight line-by-line "
    "transcribed helpers are pinned by source_bodies_fixed (ast.unparse of the running CPython is trusted to be stable)",
]
ASSUMPTIONS = [
    "sys.get_int_max_str_digits() == 4300",
    "float-text assumption: str(round(x, 3)) and f'{x:g}' of a finite float match RE_FLOAT completely (EdOp.wf / isFloatText; "
    "checked for every generated value by X3/X5); values are compared as texts, float(text) is CPython's",
    "fonts/text size estimators are exercised by the oracle only (not modelled)",
]
OPEN = [
    "completeness of agreeClass: proved as an iff on the argument-free sub-grammar (fast_eq_slow_iff_arg_free: characters, control characters, "
    "braces, escapes, \\P, stroke switches, \\X, \\N, trailing backslash); for commands with arguments, stacking and %-codes only soundness "
    "(fast_eq_slow) and the per-construct counterexample theorems are proved",
    "text size estimators (mtext_size, estimate_mtext_extents, text_size), the layout engine, MTextExplode, text_wrap: totality is searched by the "
    "oracle (O1b, O1c, O1d), not proved; scale_mtext_inline_commands is modelled structurally (scaleSegs), the float formatting '.3g' is CPython's",
    "MText.all_columns_plain_text with linked column entities (DXF R2000-R2013 columns): the model covers entities without linked columns",
    "observations outside the property (not fixed): _continue_stroke is not restored by pop_ctx; scale_mtext_inline_commands rescales the number behind "
    "the TEXT \\H also after an escaped backslash (scale_rescales_visible_text) and deletes an invalid number such as '.' (scale_part_law); "
    "split_mtext_string separates a caret pair '^^' at a chunk boundary (split_separates_caret_pair)",
]

ALPHA = ["\\", "{", "}", ";", "^", "%", ",", "0", "a", " ", "S", "H"]
ARGALPHA = ["0", "1", ".", ":", "e", "x", ";", "+", "-", "\\", "a", ",", "^", "/", "#", "*", "c", "r", "t", "q", "i", "l", "|", "b"]
CMDS = "LlOoKkACcHWQTpfFSPNX~;\\{}%z"
RICH = list("\\\\\\{}{};;^^%%|,,01239.:eExX+-*/# \t\naépqilrtcCHSAQWTFfPNLOK~d")


def extract_dispatch(src: str):
    """AST of tools/text.py -> (parse_properties dispatch [(letter, kind, handler)], next_token commands
    [(letter, token/handler)], character sets used with `in` per function).  `kind` is derived from the body
    of the handler: which extractor it calls (`extract_float_expression(relative=..)`, `extract_int_expression`,
    `extract_expression` (+ whether it evaluates `float()`), `scanner.get`) and whether it consumes the optional
    terminator."""
    import ast

    tree = ast.parse(src)

    def find_func(node, name):
        for n in ast.walk(node):
            if isinstance(n, ast.FunctionDef) and n.name == name:
                return n
        raise ValueError(f"function {name} not found")

    cls = [n for n in tree.body if isinstance(n, ast.ClassDef) and n.name == "MTextParser"][0]
    methods = {n.name: n for n in cls.body if isinstance(n, ast.FunctionDef)}

    def self_calls(fn):
        out = []
        for n in ast.walk(fn):
            if (isinstance(n, ast.Call) and isinstance(n.func, ast.Attribute) and isinstance(n.func.value, ast.Name)
                    and n.func.value.id == "self"):
                out.append((n.func.attr, {k.arg: getattr(k.value, "value", None) for k in n.keywords}))
        return out

    def kind_of(method):
        fn = methods[method]
        calls = self_calls(fn)
        names = [c[0] for c in calls]
        term = "+term" if "consume_optional_terminator" in names else ""
        has_float = any(isinstance(n, ast.Call) and isinstance(n.func, ast.Name) and n.func.id == "float" for n in ast.walk(fn))
        if "parse_float_value_or_factor" in names:
            inner = self_calls(methods["parse_float_value_or_factor"])
            if ("extract_float_expression", {"relative": True}) not in inner:
                raise ValueError("parse_float_value_or_factor no longer uses extract_float_expression(relative=True)")
            return "float_x" + term
        for c, kw in calls:
            if c == "extract_float_expression":
                return ("float_x" if kw.get("relative") else "float") + term
            if c == "extract_int_expression":
                return "int" + term
            if c == "extract_expression":
                return ("expr-floats" if has_float else "expr") + term
        for n in ast.walk(fn):
            if (isinstance(n, ast.Call) and isinstance(n.func, ast.Attribute) and n.func.attr == "get"
                    and isinstance(n.func.value, ast.Attribute) and n.func.value.attr == "scanner"):
                return "get" + term
        return "unknown:" + method

    node = [n for n in methods["parse_properties"].body if isinstance(n, ast.If)][0]
    dispatch = []
    while True:
        comps = [node.test] if isinstance(node.test, ast.Compare) else node.test.values
        letters = []
        for c in comps:
            if not (isinstance(c, ast.Compare) and isinstance(c.left, ast.Name) and c.left.id == "cmd" and isinstance(c.ops[0], ast.Eq)):
                raise ValueError("parse_properties: unexpected test " + ast.unparse(c))
            letters.append(c.comparators[0].value)
        calls = [c for st in node.body for c in self_calls(st)]
        kind = "stroke" if not calls else kind_of(calls[0][0])
        dispatch += [(l, kind, calls[0][0] if calls else "") for l in letters]
        if len(node.orelse) == 1 and isinstance(node.orelse[0], ast.If):
            node = node.orelse[0]
        elif len(node.orelse) == 1 and isinstance(node.orelse[0], ast.Raise):
            break
        else:
            raise ValueError("parse_properties: the if-chain does not end in `raise UnknownCommand`")
    nt = find_func(methods["parse"], "next_token")
    tokens = []
    for n in ast.walk(nt):
        if (isinstance(n, ast.If) and isinstance(n.test, ast.Compare) and isinstance(n.test.left, ast.Name)
                and n.test.left.id == "cmd" and isinstance(n.test.ops[0], ast.Eq) and isinstance(n.body[0], ast.Return)):
            v = n.body[0].value
            tokens.append((n.test.comparators[0].value, v.elts[0].attr if isinstance(v, ast.Tuple) else v.func.attr))

    def insets(fn):
        out = []
        for n in ast.walk(fn):
            if isinstance(n, ast.Compare) and isinstance(n.ops[0], (ast.In, ast.NotIn)):
                c = n.comparators[0]
                out.append(c.value if isinstance(c, ast.Constant) else ast.unparse(c))
        return out

    def assigned(fn):
        out = set()
        for n in ast.walk(fn):
            targets = n.targets if isinstance(n, ast.Assign) else ([n.target] if isinstance(n, (ast.AugAssign, ast.AnnAssign)) else [])
            for tg in targets:
                if isinstance(tg, ast.Attribute) and isinstance(tg.value, ast.Name) and tg.value.id in ("ctx", "new_ctx"):
                    out.add(tg.attr)
        return out

    # frame conditions: which context attributes the branch of a command letter (incl. the handler it calls) assigns
    node = [n for n in methods["parse_properties"].body if isinstance(n, ast.If)][0]
    assigns = []
    while True:
        comps = [node.test] if isinstance(node.test, ast.Compare) else node.test.values
        attrs = set()
        for st in node.body:
            attrs |= assigned(st)
            for c in ast.walk(st):
                if (isinstance(c, ast.Call) and isinstance(c.func, ast.Attribute) and isinstance(c.func.value, ast.Name)
                        and c.func.value.id == "self" and c.func.attr in methods):
                    attrs |= assigned(methods[c.func.attr])
        assigns += [(c.comparators[0].value, sorted(attrs)) for c in comps]
        if len(node.orelse) == 1 and isinstance(node.orelse[0], ast.If):
            node = node.orelse[0]
        else:
            break
    tail = [ast.unparse(s) for s in methods["parse_properties"].body if not isinstance(s, ast.If)]
    if tail != ["new_ctx = self.ctx.copy()", "new_ctx.continue_stroke = self._continue_stroke", "self.ctx = new_ctx"]:
        raise ValueError("parse_properties: statements around the if-chain changed: " + repr(tail))

    sets = [(name, insets(fn)) for name, fn in (
        ("next_token", nt), ("parse_stacking", methods["parse_stacking"]), ("parse_align", methods["parse_align"]),
        ("fast_plain_mtext", find_func(tree, "fast_plain_mtext")), ("plain_text", find_func(tree, "plain_text")),
        ("MTextEditor.stack", find_func(tree, "stack")))]
    return dispatch, tokens, sets, assigns


# small pure helpers whose Lean model is a line by line transcription: their bodies (AST, docstring removed, re-printed by
# ast.unparse) are regenerated into Gen/TextTables.bodies and pinned by the theorem `source_bodies_fixed`
BODY_FUNCS = [
    ("src/ezdxf/entities/mtext.py", "export_mtext_content"),
    ("src/ezdxf/tools/text.py", "load_mtext_content"),
    ("src/ezdxf/tools/text.py", "split_mtext_string"),
    ("src/ezdxf/tools/text.py", "escape_dxf_line_endings"),
    ("src/ezdxf/tools/text.py", "caret_decode"),
    ("src/ezdxf/tools/text.py", "safe_string"),
    ("src/ezdxf/lldxf/validator.py", "fix_one_line_text"),
    ("src/ezdxf/lldxf/validator.py", "is_valid_one_line_text"),
]


def extract_bodies(ctx):
    import ast

    out = []
    for rel, name in BODY_FUNCS:
        tree = ast.parse(ctx.src(rel))
        fn = [n for n in tree.body if isinstance(n, ast.FunctionDef) and n.name == name]
        if len(fn) != 1:
            raise ValueError(f"{rel}: function {name} not found")
        body = fn[0].body
        if body and isinstance(body[0], ast.Expr) and isinstance(body[0].value, ast.Constant) and isinstance(body[0].value.value, str):
            body = body[1:]
        args = ast.unparse(fn[0].args)
        out.append((name, "(" + args + ") " + " ;; ".join(ast.unparse(st).replace("\n", " ;; ") for st in body)))
    return out


def extract_wrapper_bodies(ctx):
    """bodies of MText.plain_text and MText.all_columns_plain_text (methods; AST re-printed, docstrings removed)"""
    import ast

    tree = ast.parse(ctx.src("src/ezdxf/entities/mtext.py"))
    cls = [n for n in tree.body if isinstance(n, ast.ClassDef) and n.name == "MText"][0]
    out = []
    for name in ("plain_text", "all_columns_plain_text"):
        fn = [n for n in cls.body if isinstance(n, ast.FunctionDef) and n.name == name]
        if len(fn) != 1:
            raise ValueError(f"MText.{name} not found")
        body = fn[0].body
        if body and isinstance(body[0], ast.Expr) and isinstance(body[0].value, ast.Constant) and isinstance(body[0].value.value, str):
            body = body[1:]
        out.append(("MText." + name, "(" + ast.unparse(fn[0].args) + ") " + " ;; ".join(ast.unparse(st).replace("\n", " ;; ") for st in body)))
    return out


def regenerate(ctx):
    src = ctx.src("src/ezdxf/tools/text.py")
    ctx.src("src/ezdxf/lldxf/const.py")
    from ezdxf.lldxf import const
    from ezdxf.tools import text as T

    special, kou = [], []
    for o in range(0x110000):
        if 0xD800 <= o < 0xE000:
            continue
        ch = chr(o)
        low = ch.lower()
        v = const.SPECIAL_CHAR_ENCODING.get(low)
        if v:
            if len(v) != 1:
                raise ValueError("SPECIAL_CHAR_ENCODING value is not a single character")
            special.append((o, ord(v)))
        if low in "kou":
            kou.append(o)
    m1 = re.search(r'^RE_FLOAT = re\.compile\(r"(.*)"\)$', src, re.M)
    m2 = re.search(r'^RE_FLOAT_X = re\.compile\(r"(.*)"\)$', src, re.M)
    if not (m1 and m2):
        raise ValueError("RE_FLOAT / RE_FLOAT_X definitions not found")
    assert T.RE_FLOAT.pattern == m1.group(1) and T.RE_FLOAT_X.pattern == m2.group(1)
    dispatch, tokens, sets, assigns = extract_dispatch(src)
    lean_pair = lambda a, b: f"(Char.ofNat {ord(a)}, {lean_str(b)})"
    text = f"""
namespace EzdxfVerif.Gen.TextTables

/-- `MTextParser.parse_properties`: (command letter, kind of its handler) in source order, from the AST;
    kinds: stroke | get+term | int+term | float_x+term | float+term | expr-floats | expr -/
def dispatch : List (Char × String) := {lean_list(lean_pair(l, k) for l, k, _ in dispatch)}

/-- `next_token`: commands that become a token of their own (or the stacking parser), from the AST -/
def tokenCmds : List (Char × String) := {lean_list(lean_pair(l, k) for l, k in tokens)}

/-- `parse_properties`: the MTextContext attributes the branch of a command letter (with the handler it calls)
    assigns, from the AST; `continue_stroke` is assigned behind the if-chain for every command -/
def assigns : List (Char × List String) := {lean_list("(Char.ofNat " + str(ord(l)) + ", " + lean_list(lean_str(a) for a in attrs) + ")" for l, attrs in assigns)}

/-- bodies of the small helpers that the model transcribes line by line (AST re-printed, docstrings removed) -/
def bodies : List (String × String) := {lean_list("(" + lean_str(n) + ", " + lean_str(b) + ")" for n, b in extract_bodies(ctx))}

/-- bodies of the MText wrappers `plain_text`, `all_columns_plain_text` (AST re-printed, docstrings removed) -/
def wrapperBodies : List (String × String) := {lean_list("(" + lean_str(n) + ", " + lean_str(b) + ")" for n, b in extract_wrapper_bodies(ctx))}

/-- character sets used with `in` (function, sets in source order), from the AST -/
def inSets : List (String × List String) := {lean_list("(" + lean_str(n) + ", " + lean_list(lean_str(x) for x in ss) + ")" for n, ss in sets)}

/-- (c, SPECIAL_CHAR_ENCODING[c.lower()]) for every Unicode scalar c with c.lower() in the table -/
def specialList : List (Nat × Nat) := {lean_list(f"({a}, {b})" for a, b in special)}

/-- every Unicode scalar c with `c.lower() in "kou"` -/
def kouList : List Nat := {lean_list(str(a) for a in kou)}

def special (c : Char) : Option Char :=
  (specialList.find? (fun p => p.1 = c.toNat)).map (fun p => Char.ofNat p.2)

def kou (c : Char) : Bool := kouList.contains c.toNat

def reFloat : String := {lean_str(T.RE_FLOAT.pattern)}
def reFloatX : String := {lean_str(T.RE_FLOAT_X.pattern)}
def oneCharCommands : String := {lean_str(T.ONE_CHAR_COMMANDS)}

end EzdxfVerif.Gen.TextTables
"""
    ctx.write_gen("TextTables", text, ["src/ezdxf/tools/text.py", "src/ezdxf/lldxf/const.py", "src/ezdxf/entities/mtext.py", "src/ezdxf/lldxf/validator.py"])


# ------------------------------------------------------------------ implementation side
def _exc(e: BaseException) -> str:
    return "err " + type(e).__name__


def impl_tokens(s: str, yield_props: bool = False) -> str:
    from ezdxf.tools.text import MTextParser, TokenType as TT

    names = {TT.SPACE: "SP", TT.NBSP: "NB", TT.TABULATOR: "TAB", TT.NEW_PARAGRAPH: "NP",
             TT.NEW_COLUMN: "NC", TT.WRAP_AT_DIMLINE: "WD"}
    try:
        out = []
        for t in MTextParser(s, yield_property_commands=yield_props):
            if t.type == TT.PROPERTIES_CHANGED:
                out.append("P:" + cps(t.data))
            elif t.type == TT.WORD:
                out.append("W:" + cps(t.data))
            elif t.type == TT.STACK:
                u, l, d = t.data
                out.append("K:" + cps(u) + "/" + cps(l) + "/" + cps(d))
            else:
                out.append(names[t.type])
        return "ok " + ";".join(out)
    except Exception as e:  # noqa
        return _exc(e)


def impl_plain(s: str) -> str:
    from ezdxf.tools.text import plain_mtext

    try:
        return "ok " + ";".join(cps(l) for l in plain_mtext(s, split=True))
    except Exception as e:  # noqa
        return _exc(e)


def impl(op: str, s: str, size: int = 0) -> str:
    from ezdxf.tools import text as T

    if op == "caret":
        return cps(T.caret_decode(s))
    if op == "fast":
        return cps(T.fast_plain_mtext(s))
    if op == "ptext":
        return cps(T.plain_text(s))
    if op == "tokens":
        return impl_tokens(s)
    if op == "tokensY":
        return impl_tokens(s, True)
    if op == "plain":
        return impl_plain(s)
    if op == "export":
        from ezdxf.entities.mtext import export_mtext_content
        from ezdxf.lldxf.tags import Tags
        from ezdxf.lldxf.types import DXFTag

        class Collector:
            def __init__(self):
                self.tags = []

            def write_tag2(self, code, value):
                self.tags.append((code, value))

        w = Collector()
        export_mtext_content(s, w)
        back = T.load_mtext_content(Tags(DXFTag(c, v) for c, v in w.tags))
        return ";".join(f"{c}:{cps(v)}" for c, v in w.tags) + "|" + cps(back)
    if op == "slow":
        return cps(T.plain_mtext(s))
    if op == "escape":
        return cps(T.escape_dxf_line_endings(s))
    if op == "fix1":
        from ezdxf.lldxf import validator
        return cps(validator.fix_one_line_text(s)) + "|" + ("1" if validator.is_valid_one_line_text(s) else "0")
    if op == "safe":
        return cps(T.safe_string(s, size))
    if op == "split":
        try:
            return ";".join(cps(c) for c in T.split_mtext_string(s, size))
        except ValueError as e:
            return _exc(e)
    raise ValueError(op)


# ------------------------------------------------------------------ generators
def strings(ctx):
    """yield (kind, string)"""
    maxlen = ctx.n(4, 5)
    for n in range(0, maxlen + 1):
        for t in itertools.product(ALPHA, repeat=n):
            yield "exh", "".join(t)
    arglen = ctx.n(2, 3)
    for c in CMDS:
        for n in range(0, arglen + 1):
            # the longest layer uses the font flag symbols "|", "b" only for the commands that read them (thorough run time)
            alpha = ARGALPHA if (n < 3 or c in "fFp") else ARGALPHA[:22]
            for t in itertools.product(alpha, repeat=n):
                yield "cmd", "\\" + c + "".join(t)
    # paragraph / stacking / special templates
    for body in ["i1,l2,r3,qc,t1,c2,r3", "i1:.2", "xqj", "t*,z", "i-1.5e3,l+2.,r.5", "q", "t", "tc", "tr1e", "i1e+"]:
        for tail in ["", ";", ";x"]:
            yield "tmpl", "\\p" + body + tail
    for body in ["1/2", "a^ b", "a#b", "a\\/b/c", "a\\", "\\", "a\\;b;c", "^", "1^J2", "\x01/\x02"]:
        for tail in ["", ";", ";x"]:
            yield "tmpl", "x\\S" + body + tail
    for s in ["%%c", "%%C", "%%d%%p", "%%", "%", "%%%", "%%k%%o%%u%%K", "%%x", "a%%", "%%K", "^", "a^", "^^", "^I^J^M", "^ ", "\\~\\X\\N"]:
        yield "tmpl", s
    # font commands: every flag list over the flag alphabet (truncated flags "|b", "|i|", empty parts, repeated / contradicting
    # flags, code page and pitch parts), with and without family name, terminated / at the end / followed by text
    flaglen = ctx.n(3, 4)
    for d in "fF":
        for name in ("", "A", "Arial Narrow"):
            for n in range(0, flaglen + 1):
                for tpl in itertools.product("bi10c|", repeat=n):
                    for tail in ("", ";x"):
                        yield "font", "\\" + d + name + "|" + "".join(tpl) + tail
    # tabulators in front of content, aligned paragraphs, explicit tab stops (layout engine paths)
    for s in LAYOUT_CONTENTS:
        yield "tmpl", s
    for s, _, _ in DIFFER:
        yield "tmpl", s
    for s in ["\\fa*b;x", "\\fA<>/:?=`\";x", "\\Fa\\b;x", "\\;", "\\ptc;x", "\\ptr,c;x", "\\S;", "\\P\\S;", "a\\N\\S1/2;", "\\N\\S/", "\\Na b", "{\\H10x;A} b"]:
        yield "tmpl", s
    for s in ["\\W.8;", "\\S1\\/2;", "%%%c", "\\z", "\\:\\;", "\\zb", "a\\P", "\\P", "\\P\\P", "\n\\S", "\\S;\\P", "{\\P}", "^J"]:
        yield "tmpl", s
    rng = ctx.rng("strings")
    for _ in range(ctx.n(3000, 60000)):
        n = rng.choice([1, 2, 3, 5, 8, 13, 21, 40, 80, 200, 600])
        yield "rnd", "".join(rng.choice(RICH) for _ in range(rng.randint(0, n)))
    for c in "Cc":
        for k in (4299, 4300, 4301, 5000):
            yield "digits", "a\\" + c + "1" * k + ";b"
    yield "digits", "\\H" + "9" * 5000 + ";b"
    yield "digits", "\\H1e" + "9" * 400 + "x;b"


CONTROL = set("\\{};^%")

# contents for the layout engine: tabulator x paragraph alignment x tab stops x stacking / groups / non breaking space
LAYOUT_CONTENTS = [
    "a^Ib", "^Ib", "a^I", "^I^Ib", "a ^I b c", "1.^Iitem one\\P2.^Iitem two\\P", "\\pqc;a^Ib", "\\pqr;a^Ib", "\\pqj;a^Ib c d e f g h",
    "\\pqd;a^Ib c d", "\\pql;a^Ib", "\\pqc,t2,c4,r6;a^Ib^Ic^Id^Ie", "\\pqr,t1;^Ia", "\\pxi-3,l4,t4;-^Iitem\\P-^Iitem\\P", "{\\pqc;a^Ib}c^Id",
    "\\pqc;\\S1/2;^Ib", "\\pqr;^I\\~x", "\\pqc;a^I\\H3x;b^Ic", "\\pqr;a\\P^Ib\\Pc^I", "\\pqc;^I", "\\pi2,l2,r2,qc;a^Ib", "\\pqc;a^Ib\\Nc^Id",
    "\\pt4;a^Ib", "\\ptc4;a^Ib", "\\ptr4;a^Ib", "\\pt0.1,0.2,0.3;a^Ib^Ic^Id^Ie", "\\pt1000;a^Ib", "\\pqc;" + "w " * 30 + "^Ix",
]

# the counterexample theorems `differ_*` of Props/C20.lean, replayed on the real code: (content, plain_mtext, fast_plain_mtext)
DIFFER = [
    ("\\~", " ", "\\~"), ("a\\Nb", "a\nb", "a b"), ("^I", "    ", "\t"), ("a\\", "a ", "a"), ("\\H1a;", "a;", ""),
    ("\\H1", "", "\\H1"), ("\\zb;", "\\zb;", ""), ("%%", "%%", ""),
]


_SMALL_SPLIT = r"""
import sys, json, resource, signal
resource.setrlimit(resource.RLIMIT_AS, (1 << 30, 1 << 30))
from ezdxf.tools.text import split_mtext_string
out = []
hangs = 0
for s, size in json.load(sys.stdin):
    if hangs >= 3:
        out.append("err Hang(skipped after 3 hangs)")
        continue
    signal.setitimer(signal.ITIMER_REAL, 0.5)
    try:
        r = ";".join(" ".join(str(ord(c)) for c in chunk) for chunk in split_mtext_string(s, size))
    except ValueError:
        r = "err ValueError"
    except BaseException as e:  # MemoryError / alarm: the loop of the unfixed code never ends for size 1 and a caret
        r = "err Hang(" + type(e).__name__ + ")"
        hangs += 1
    signal.setitimer(signal.ITIMER_REAL, 0)
    out.append(r)
json.dump(out, sys.stdout)
"""


def uncps_chunks(r: str):
    return ["".join(chr(int(x)) for x in chunk.split()) for chunk in r.split(";")] if r else []


def split_small_sizes(pairs):
    """split_mtext_string(s, size) for size < 2 in a child process with an address space limit and an alarm:
    before the fix the call never returned for size 1 and content with a caret (memory grows without bound)"""
    import json, os, signal, subprocess, sys

    def handler():
        signal.signal(signal.SIGALRM, lambda *a: (_ for _ in ()).throw(TimeoutError()))

    env = dict(os.environ)
    repo = os.environ.get("VERIF_REPO", "/repo")
    env["PYTHONPATH"] = os.path.join(repo, "src")
    code = "import signal\nsignal.signal(signal.SIGALRM, lambda *a: (_ for _ in ()).throw(TimeoutError()))\n" + _SMALL_SPLIT
    r = subprocess.run([sys.executable, "-c", code], input=json.dumps(pairs), capture_output=True, text=True, env=env, timeout=600)
    if r.returncode != 0:
        return ["err Child(" + str(r.returncode) + ")"] * len(pairs)
    return json.loads(r.stdout)


def correspond(ctx):
    cases = []
    small = []
    seen = set()
    for kind, s in strings(ctx):
        if s in seen:
            continue
        seen.add(s)
        ctx.hist("X1 text tools", kind)
        nontriv = any(c in CONTROL for c in s)
        ops = ["caret", "fast", "ptext", "tokens", "tokensY", "plain", "slow"]
        if kind in ("exh",) and len(s) > 4:
            ops = ["tokens", "fast", "slow"]  # thorough length-5 layer: the two parsers and the string-level spec only
        for op in ops:
            cases.append((f"{op}|{cps(s)}", impl(op, s), nontriv))
        if kind != "cmd":
            lines = s.replace("^", "\r").replace(";", "\n")  # same strings with line ending characters
            for op in ("escape", "fix1"):
                cases.append((f"{op}|{cps(lines)}", impl(op, lines), "\n" in lines or "\r" in lines))
            cases.append((f"safe|3|{cps(lines)}", impl("safe", lines, 3), True))
            cases.append((f"export|{cps(lines)}", impl("export", lines), True))
            for size in (2, 3, 7):
                cases.append((f"split|{size}|{cps(s)}", impl("split", s, size), "^" in s))
            if len(s) <= 3:
                small.append(s)
    pairs = [(s, size) for s in small for size in (0, 1)]  # after the fix: ValueError
    for (s, size), r in zip(pairs, split_small_sizes(pairs)):
        cases.append((f"split|{size}|{cps(s)}", r, True))
        if r.startswith("err Hang(") and "skipped" not in r:
            ctx.fail(f"split/hang/{size}/{s!r}", f"split_mtext_string({s!r}, {size}) does not return (stopped after 0.5 s / 1 GB)",
                     {"op": "splithang", "text": s, "size": size})
        elif not r.startswith("err") and "".join(uncps_chunks(r)) != s:
            ctx.fail(f"split/{size}/{s!r}", f"split_mtext_string({s!r}, {size}) -> chunks that do not join to the content",
                     {"op": "split", "text": s, "size": size})
    rng = ctx.rng("export")
    for _ in range(ctx.n(200, 2000)):
        n = rng.choice([0, 1, 249, 250, 251, 499, 500, 501, 752])
        s = "".join(rng.choice("^^ab\n\r\\P") for _ in range(n))
        cases.append((f"export|{cps(s)}", impl("export", s), True))
    rng = ctx.rng("split")
    for _ in range(ctx.n(300, 3000)):
        n = rng.choice([249, 250, 251, 499, 500, 501, 750, 1000])
        s = "".join(rng.choice("^^^ab") for _ in range(n))
        cases.append((f"split|250|{cps(s)}", impl("split", s, 250), True))
    ctx.correspond("X1 text tools", "C20", cases, build=["EzdxfVerif.Model.Text", "EzdxfVerif.Gen.TextTables", "Drivers.Proto"])
    editor_correspond(ctx)
    para_correspond(ctx)
    argfree_correspond(ctx)
    split_caret_correspond(ctx)
    wrapper_correspond(ctx)
    scale_correspond(ctx)
    context_correspond(ctx)


# ------------------------------------------------------------------ oracle on the real code
SUB_WORDS = ["a", "b0", "é", "x y", "1,2", ""]


SUB_ATOMS = ["\\P", "\\\\", "\\{", "\\}", "{", "}", "\\C1;", "\\H2.5x;", "\\fArial|b0|i1;", "\\A1;", "\\Q15;",
             "\\W0.8;", "\\T1.5;", "\\c255;", "\\pi1,l2;", "\\L", "\\l", "\\O", "\\o", "\\K", "\\k",
             # session 3: stacking, special codes, caret sequences, commands with empty / signed / exponent arguments
             "\\S1/2;", "\\Sa^ b;", "\\S1#4;", "\\Sxy;", "%%c", "%%D", "%%p", "50% ", "%%z", "^J", "^ ", "\\X",
             "\\H;", "\\H-1.5e+2;", "\\Q-12.5;", "\\A;", "\\pxqc,t1,c2,r3;", "\\p;", "\\F;", "\\C;", "\\T2x;"] + SUB_WORDS


def subgrammar_docs(ctx):
    """content made of plain text, \\P, escaped chars, groups and ;-terminated commands"""
    rng = ctx.rng("subdoc")
    atoms = SUB_ATOMS
    for n in range(0, 3):
        for t in itertools.product(atoms, repeat=n):
            yield "".join(t)
    for _ in range(ctx.n(2000, 30000)):
        yield "".join(rng.choice(atoms) for _ in range(rng.randint(3, 25)))


def oracle(ctx):
    from ezdxf.tools import text as T
    import ezdxf

    from ezdxf.tools import text_size as TS
    from ezdxf.addons import MTextExplode

    doc = ezdxf.new()
    msp = doc.modelspace()
    mtext = msp.add_mtext("")
    # size estimators: MTEXT with undefined width (estimated), narrow / wide columns, zero char height; TEXT / ATTRIB
    sized = [msp.add_mtext("", dxfattribs={"width": w, "char_height": h, "attachment_point": ap})
             for w, h, ap in ((0.0, 2.5, 1), (0.5, 2.5, 4), (5, 1, 8), (100, 0.2, 9), (3, 0, 7), (30, 2.5, 2), (60, 1, 6))]
    one_line = msp.add_text("")
    n = 0
    every = ctx.n(37, 11)
    every_size = ctx.n(5, 23)  # thorough: ~15k of the 330k strings (each costs 5 layouts + 2 explodes)
    import inspect
    accurate_estimate = "fast" in inspect.signature(T.estimate_mtext_extents).parameters  # added by fix a3627622f
    for kind, s in strings(ctx):
        n += 1
        ctx.count("O1 totality", s, any(c in CONTROL for c in s))
        for name, fn in (("MTextParser", lambda s: list(T.MTextParser(s))), ("plain_mtext", T.plain_mtext),
                         ("fast_plain_mtext", T.fast_plain_mtext), ("plain_text", T.plain_text)):
            try:
                fn(s)
            except Exception as e:  # noqa
                ctx.fail(f"total/{name}/{type(e).__name__}/{s[:40]!r}", f"{name}({s[:80]!r}) raised {type(e).__name__}: {e}",
                         {"op": "total", "fn": name, "text": s})
        if n % every == 0 or kind in ("tmpl", "digits"):
            try:
                mtext.text = s
                mtext.plain_text()
                mtext.plain_text(fast=False)
                T.estimate_mtext_extents(mtext)
                T.estimate_mtext_content_extents(s, ezdxf.fonts.fonts.MonospaceFont(2.5), 0, 1.0) if hasattr(T, "estimate_mtext_content_extents") else None
            except Exception as e:  # noqa
                ctx.fail(f"total/estimators/{type(e).__name__}/{s[:40]!r}", f"MText tools on {s[:80]!r} raised {type(e).__name__}: {e}",
                         {"op": "estimate", "text": s})
        if (n % every_size == 0 or kind in ("tmpl", "cmd")) and len(s) <= 300:
            ctx.count("O1b size estimators", s, any(c in CONTROL for c in s))
            for i, m in enumerate(sized):
                try:
                    m.text = s
                    TS.mtext_size(m)
                    T.estimate_mtext_extents(m)
                    if accurate_estimate:
                        T.estimate_mtext_extents(m, fast=False)
                except Exception as e:  # noqa
                    ctx.fail(f"total/mtext_size/{type(e).__name__}/{i}/{s[:40]!r}",
                             f"mtext_size / estimate_mtext_extents of MTEXT(width={m.dxf.width}, char_height={m.dxf.char_height}, attachment_point={m.dxf.attachment_point}) with content {s[:80]!r} raised {type(e).__name__}: {e}",
                             {"op": "size", "text": s, "width": m.dxf.width, "char_height": m.dxf.char_height, "attachment_point": m.dxf.attachment_point})
            try:
                one_line.dxf.text = s
                TS.text_size(one_line)
                one_line.plain_text()
            except Exception as e:  # noqa
                ctx.fail(f"total/text_size/{type(e).__name__}/{s[:40]!r}", f"text_size(TEXT {s[:80]!r}) raised {type(e).__name__}: {e}",
                         {"op": "size1", "text": s})
        if (n % every_size == 1 or kind == "tmpl") and len(s) <= 300:
            # other tools built on the parser: MTextExplode add-on, inline command scaling, wrapping
            ctx.count("O1c parser based tools", s, any(c in CONTROL for c in s))
            for w in (0.0, 3.0):
                try:
                    m = msp.add_mtext(s, dxfattribs={"width": w})
                    with MTextExplode(msp) as xpl:
                        xpl.explode(m, destroy=True)
                except Exception as e:  # noqa
                    ctx.fail(f"total/MTextExplode/{type(e).__name__}/{s[:40]!r}", f"MTextExplode of MTEXT(width={w}) with content {s[:80]!r} raised {type(e).__name__}: {e}",
                             {"op": "explode", "text": s, "width": w})
            for name, fn in (("scale_mtext_inline_commands", lambda: T.scale_mtext_inline_commands(s, 2.0)),
                             ("has_inline_formatting_codes", lambda: T.has_inline_formatting_codes(s)),
                             ("text_wrap", lambda: (T.text_wrap(s, 5.0, lambda x: float(len(x))), T.text_wrap(s, None, lambda x: float(len(x))))),
                             ("escape/safe_string", lambda: (T.escape_dxf_line_endings(s), T.safe_string(s, 7)))):
                try:
                    fn()
                except Exception as e:  # noqa
                    ctx.fail(f"total/{name}/{type(e).__name__}/{s[:40]!r}", f"{name}({s[:80]!r}) raised {type(e).__name__}: {e}",
                             {"op": "total", "fn": name, "text": s})
        # split / join
        for size in (2, 3, 7, 250):
            chunks = T.split_mtext_string(s, size)
            ok = "".join(chunks) == s and all(0 < len(c) <= size for c in chunks)
            if not ok:
                ctx.fail(f"split/{size}/{s[:40]!r}", f"split_mtext_string({s[:80]!r}, {size}) -> {chunks[:5]!r}",
                         {"op": "split", "text": s, "size": size})
    # the decoders are pure: a caller that edits a returned line list (MText.all_columns_plain_text does)
    # must not influence later calls
    n = 0
    for kind, s in strings(ctx):
        n += 1
        if n % 5 and kind not in ("tmpl",):
            continue
        ctx.count("O4 purity", s, "\\P" in s)
        for name, fn in (("fast_plain_mtext", T.fast_plain_mtext), ("plain_mtext", T.plain_mtext)):
            try:
                first = fn(s, split=True)
                expect = list(first)
                first.append("<edited by caller>")
                if first:
                    first[0] = "<edited>"
                second = fn(s, split=True)
            except Exception:  # noqa  (totality is checked above)
                continue
            if second != expect:
                ctx.fail(f"impure/{name}/{s[:30]!r}", f"{name}({s[:60]!r}, split=True) returns {second!r} after the caller edited the earlier result {expect!r}",
                         {"op": "purity", "fn": name, "text": s})
    # fast == slow: (a) on the sub-grammar of the property statement, (b) on EVERY generated string that the
    # model's recogniser `agreeClass` accepts (theorem fast_eq_slow instantiated on the real code)
    subs = list(dict.fromkeys(subgrammar_docs(ctx)))
    alls = list(dict.fromkeys(s for _, s in strings(ctx)))
    cls = ctx.driver("C20", [f"agree|{cps(s)}" for s in subs + alls], build=DRIVER_DEPS)
    in_class = dict(zip(subs + alls, cls))
    # list form: model paragraphs `splitNone (slowItems ..)` and the side condition of `fast_eq_slow_lines`
    lined = [s for i, s in enumerate(alls) if ctx.quick or len(s) != 5 or i % 7 == 0]  # thorough: 1/7 of the length-5 layer
    lns = ctx.driver("C20", [f"lines|{cps(s)}" for s in lined], build=DRIVER_DEPS)
    no_lf_char = {}
    for s, out in zip(lined, lns):
        paras, bit = out.rsplit("|", 1)
        no_lf_char[s] = bit == "1"
        ctx.count("X6 paragraph list", s, any(c in CONTROL for c in s))
        try:
            impl_l = ";".join(cps(l) for l in T.plain_mtext(s, split=True))
        except Exception:  # noqa
            continue
        if impl_l != paras:
            ctx.disagree("X6 paragraph list", f"lines|{cps(s)}", impl_l, paras)
    ctx.cov["disagreements_checked"] += len(lined)
    for s in subs:
        ctx.count("O2 fast==slow", s, True)
        if in_class[s] != "1":
            ctx.disagree("X2 class covers sub-grammar", f"agree|{cps(s)}", "1", in_class[s])
        a, b = T.fast_plain_mtext(s), T.plain_mtext(s)
        a2, b2 = T.fast_plain_mtext(s, split=True), T.plain_mtext(s, split=True)
        if a != b or a2 != b2:
            kind = "trailing-paragraph-break" if a == b + "\n" else ("split-list" if a == b else "other")
            ctx.fail(f"fastslow/{kind}/{s[:40]!r}", f"fast_plain_mtext({s!r})={a!r} plain_mtext={b!r}; split=True: {a2!r} / {b2!r}",
                     {"op": "fastslow", "text": s})
    for s in alls:
        try:
            a, b = T.fast_plain_mtext(s), T.plain_mtext(s)
        except Exception:  # noqa (totality is checked above)
            continue
        if in_class[s] == "1":
            ctx.count("O2b fast==slow in class", s, any(c in CONTROL for c in s))
            ctx.hist("O2b fast==slow in class", "in class")
            if no_lf_char.get(s):
                ctx.hist("O2b fast==slow in class", "in class, no LF word character: list forms compared")
                a2, b2 = T.fast_plain_mtext(s, split=True), T.plain_mtext(s, split=True)
                if a2 != b2:
                    ctx.fail(f"fastslow/in-class-lines/{s[:40]!r}", f"content accepted by agreeClass without a LF word character: "
                             f"fast_plain_mtext({s[:80]!r}, split=True)={a2[:8]!r} plain_mtext={b2[:8]!r}", {"op": "fastslow", "text": s})
            if a != b:
                ctx.fail(f"fastslow/in-class/{s[:40]!r}", f"content accepted by agreeClass: fast_plain_mtext({s[:80]!r})={a[:80]!r} plain_mtext={b[:80]!r}",
                         {"op": "fastslow", "text": s})
        else:
            ctx.hist("O2b fast==slow in class", "outside: differ" if a != b else "outside: equal")
    # differ_lines_only: joined forms equal, list forms differ
    ctx.count("O2c differ replays", "\\^Jx", True)
    got = (T.plain_mtext("\\^Jx", split=True), T.fast_plain_mtext("\\^Jx", split=True), T.plain_mtext("\\^Jx") == T.fast_plain_mtext("\\^Jx"))
    if got != (["\\\nx"], ["\\", "x"], True):
        ctx.disagree("X4 differ replays", "\\^Jx", repr(got), "(['\\\\\\nx'], ['\\\\', 'x'], True)")
    for s, slow, fast in DIFFER:
        ctx.count("O2c differ replays", s, True)
        if (T.plain_mtext(s), T.fast_plain_mtext(s)) != (slow, fast):
            ctx.disagree("X4 differ replays", s, f"{T.plain_mtext(s)!r} / {T.fast_plain_mtext(s)!r}", f"{slow!r} / {fast!r}")
    editor_oracle(ctx)
    file_roundtrip_oracle(ctx)
    export_tags_oracle(ctx)
    layout_grid_oracle(ctx)


def layout_grid_oracle(ctx):
    """O1d: totality of the layout engine over (content with tabulators / aligned paragraphs / tab stops, incl. every kind of
    MTextEditor output) x all 9 attachment points x column widths (undefined, narrower than a word, no default tab stop, default
    tab stops, wide) x char heights x line spacing: mtext_size, estimate_mtext_extents, MTextExplode"""
    import ezdxf
    from ezdxf.tools import text as T, text_size as TS
    from ezdxf.tools.text import MTextEditor, ParagraphProperties
    from ezdxf.addons import MTextExplode

    rng = ctx.rng("layout")
    contents = [T.caret_decode(s) if False else s for s in LAYOUT_CONTENTS]
    for al in T.MTextParagraphAlignment:
        e = MTextEditor().paragraph(ParagraphProperties(indent=1, left=2, right=1, align=al, tab_stops=(4, "c8", "r12")))
        contents.append(str(e.append("a" + MTextEditor.TAB + "b c" + MTextEditor.TAB + "d" + MTextEditor.NEW_PARAGRAPH + "e" + MTextEditor.TAB)))
        contents.append(str(MTextEditor().paragraph(ParagraphProperties(align=al)).bullet_list(2, ["-", "1."], ["first item", "second"]).append("x" + MTextEditor.TAB + "y")))
    contents.append(str(MTextEditor().bullet_list(0, ["-"], ["a"])))
    contents.append(str(MTextEditor().bullet_list(40, ["•", "•", "•"], ["a b c d e f g h i j k l m n o p", "", "x"])))
    # a sample of the generated editor call sequences (all methods incl. TAB / bullet lists)
    for i, (desc, req, text, expect) in enumerate(editor_cases(ctx)):
        if i % ctx.n(40, 25) == 0 and text:
            contents.append(text)
    contents = list(dict.fromkeys(contents))
    doc = ezdxf.new()
    msp = doc.modelspace()
    widths = (0.0, 1.0, 8.0, 30.0, 120.0)
    heights = (2.5, 0.5)
    for s in contents:
        for ap in range(1, 10):
            for w in widths:
                for h in heights:
                    ls = rng.choice([1.0, 1.0, 0.25, 4.0])
                    ctx.count("O1d layout grid", (s, ap, w, h), True)
                    attribs = {"width": w, "char_height": h, "attachment_point": ap, "line_spacing_factor": ls}
                    explode = (ap + int(w)) % 3 == 0
                    try:
                        m = msp.add_mtext(s, dxfattribs=attribs)
                        TS.mtext_size(m)
                        T.estimate_mtext_extents(m)
                        if explode:
                            with MTextExplode(msp) as xpl:
                                xpl.explode(m, destroy=False)
                        msp.delete_entity(m)
                    except Exception as e:  # noqa
                        ctx.fail(f"total/layout/{type(e).__name__}/{ap}/{w}/{h}/{s[:40]!r}",
                                 f"mtext_size / MTextExplode of MTEXT(attachment_point={ap}, width={w}, char_height={h}, line_spacing_factor={ls}) "
                                 f"with content {s[:80]!r} raised {type(e).__name__}: {e}",
                                 {"op": "size", "text": s, "width": w, "char_height": h, "attachment_point": ap, "explode": explode})


def export_tags_oracle(ctx):
    """O6: export_mtext_content on the real code (theorem export_tags_wellformed): at least one tag, every value at most 250
    characters and free of LF / CR, group code 3 for all but the last and 1 for the last, values join to the escaped content;
    content lengths around the chunk limit with line feeds (each becomes two characters) and carets"""
    from ezdxf.entities.mtext import export_mtext_content
    from ezdxf.tools import text as T

    class Collector:
        def __init__(self):
            self.tags = []

        def write_tag2(self, code, value):
            self.tags.append((code, value))

    rng = ctx.rng("exporttags")
    for _ in range(ctx.n(1500, 15000)):
        n = rng.choice([0, 1, 2, 124, 125, 126, 200, 245, 246, 247, 248, 249, 250, 251, 252, 498, 499, 500, 501, 502, 748, 749, 750, 1000])
        alphabet = rng.choice(["ab", "ab\n", "a\n\n\n", "^a", "^^a\n", "ab\r\n", "a\\P{};%^\n "])
        s = "".join(rng.choice(alphabet) for _ in range(n))
        ctx.count("O6 export tags", s, "\n" in s or "^" in s)
        w = Collector()
        try:
            export_mtext_content(s, w)
        except Exception as e:  # noqa
            ctx.fail(f"export/raise/{type(e).__name__}/{len(s)}/{s[:30]!r}", f"export_mtext_content(content of length {len(s)}) raised {type(e).__name__}: {e}",
                     {"op": "exporttags", "text": s})
            continue
        tags = w.tags
        ok = (len(tags) >= 1 and all(len(v) <= 250 and "\n" not in v and "\r" not in v for _, v in tags)
              and [c for c, _ in tags] == [3] * (len(tags) - 1) + [1] and "".join(v for _, v in tags) == T.escape_dxf_line_endings(s))
        if not ok:
            ctx.fail(f"export/tags/{len(s)}/{s[:30]!r}",
                     f"export_mtext_content(content of length {len(s)} with {s.count(chr(10))} line feeds) wrote tags (code, len) = {[(c, len(v)) for c, v in tags][:6]}: "
                     f"chunk limit 250 / group codes / join violated", {"op": "exporttags", "text": s})


def file_roundtrip_oracle(ctx):
    """O5: MTEXT content through a real DXF file: export_mtext_content (chunks of 250, group codes 3/1) -> load ->
    the content with escaped line endings (theorem export_load_roundtrip on the real writer and loader)"""
    import io
    import ezdxf
    from ezdxf.tools import text as T

    rng = ctx.rng("file")
    for ver in ("R2000", "R2010", "R2018")[: ctx.n(2, 3)]:
        doc = ezdxf.new(ver)
        msp = doc.modelspace()
        items = []
        for _ in range(ctx.n(40, 200)):
            n = rng.choice([0, 1, 249, 250, 251, 499, 500, 501, 752, 1300])
            s = "".join(rng.choice("^^ab\né\\P{};% ") for _ in range(n))
            items.append((msp.add_mtext(s).dxf.handle, s))
        stream = io.StringIO()
        doc.write(stream)
        doc2 = ezdxf.read(io.StringIO(stream.getvalue()))
        for h, s in items:
            ctx.count("O5 file round trip", (ver, s), "^" in s)
            got = doc2.entitydb[h].text
            if got != T.escape_dxf_line_endings(s):
                ctx.fail(f"file/{ver}/{len(s)}/{s[:30]!r}", f"MTEXT content of length {len(s)} written to a {ver} file is loaded as a different string "
                         f"({got[:40]!r}… instead of {T.escape_dxf_line_endings(s)[:40]!r}…)", {"op": "file", "text": s, "version": ver})


WORDS = ["alpha", "B2", "é", "x", "12", "a b", "1;2", "x,y|z", "Ω≈ç", "", " ", "50 # / ~ ; : ."]  # no TAB, NBSP (U+00A0), FF: used as markers
ARGWORDS = ["Arial", "Times New Roman", "é|x", "a b", "1", "", "txt,2"]
FLOATS = [2.5, 1.5, 0.8, 1.2, 0.0, 1.0, 3, 15, 0.1, 1 / 3, 2.0004, 2.0005, 1e-5, 123456.789, 1e16, 1.5e22, -1.5, -0.0, 1e-300,
          7.0e15, 0.125, 1e15 + 0.5, 100, 0.001, 0.0004]


def editor_cases(ctx):
    """yield (desc, protocol line, editor text, expected words) for generated MTextEditor call sequences;
    the protocol line describes the calls to the Lean model (`EdOp`), floats travel as their Python text"""
    from ezdxf.tools import text as T
    from ezdxf.tools.text import MTextEditor, ParagraphProperties
    from ezdxf.lldxf import const
    from ezdxf.colors import rgb2int

    rng = ctx.rng("editor")
    w = lambda: rng.choice(WORDS)
    aw = lambda: rng.choice(ARGWORDS)
    fl = lambda: rng.choice(FLOATS) if rng.random() < 0.7 else round(rng.uniform(-50, 50) * 10 ** rng.randint(-6, 9), rng.randint(0, 12))

    def para():
        al = rng.choice(list(T.MTextParagraphAlignment))
        tabs = tuple(rng.choice([fl(), "c%g" % abs(fl()), "r%g" % abs(fl()), str(abs(rng.randint(0, 40)))]) for _ in range(rng.randint(0, 4)))
        return ParagraphProperties(indent=rng.choice([0, fl()]), left=rng.choice([0, fl()]), right=rng.choice([0, fl()]),
                                   align=al, tab_stops=tabs)

    def one():
        k = rng.randrange(25)
        if k == 21:
            return ("tab",), lambda e: e.append(MTextEditor.TAB), "tab", "\t"
        if k == 22:
            return ("nbsp",), lambda e: e.append(MTextEditor.NBSP), "nbsp", "\xa0"
        if k == 23:
            return ("newcol",), lambda e: e.append(MTextEditor.NEW_COLUMN), "newcol", "\f"
        if k == 24:
            n = rng.randint(0, 3)
            bl = [rng.choice(["-", "1.", "•", "a)", ""]) for _ in range(n)]
            it = [w() for _ in range(n)]
            ind = rng.choice([0, 2, 4, 1.5, 0.25, 1 / 3, 1e6, fl()])
            ps = ParagraphProperties(indent=-ind * 0.75, left=ind, tab_stops=(ind,)).tostring()
            assert ps.startswith("\\px") and ps.endswith(";")
            rows = ",".join(f"{cps(b)}={cps(c)}" for b, c in zip(bl, it))
            return (("bullet_list", ind, tuple(bl), tuple(it)), lambda e: e.bullet_list(ind, bl, it),
                    f"bullets:{cps(ps[3:-1])}:{rows}", "".join(b + "\t" + c + "\n" for b, c in zip(bl, it)))
        if k == 0:
            a = w(); return ("append", a), lambda e: e.append(a), f"append:{cps(a)}", a
        if k == 1:
            n, bo, it = aw(), rng.random() < 0.5, rng.random() < 0.5
            return ("font", n, bo, it), lambda e: e.font(n, bo, it), f"font:{cps(n)}:{cps(str(int(bo)))}:{cps(str(int(it)))}", ""
        if k in (2, 3, 4, 5):
            name = ["scale_height", "height", "width_factor", "char_tracking_factor"][k - 2]
            x = fl()
            return (name, x), lambda e: getattr(e, name)(x), f"{name}:{cps(str(round(x, 3)))}", ""
        if k == 6:
            x = rng.choice([15, -15, 0, 30.7, -0.5, 1e6, fl()])
            return ("oblique", x), lambda e: e.oblique(x), f"oblique:{cps(str(int(x)))}", ""
        if k == 7:
            n = rng.choice(list(const.MTEXT_COLOR_INDEX))
            return ("color", n), lambda e: e.color(n), f"aci:{cps(str(const.MTEXT_COLOR_INDEX[n.lower()]))}", ""
        if k == 8:
            n = rng.choice([0, 1, 7, 255, 256, rng.randint(0, 256)])
            return ("aci", n), lambda e: e.aci(n), f"aci:{cps(str(n))}", ""
        if k == 9:
            c = (rng.randint(0, 255), rng.randint(0, 255), rng.randint(0, 255))
            r, g, b_ = c
            return ("rgb", c), lambda e: e.rgb(c), f"rgb:{cps(str(rgb2int((b_, g, r))))}", ""
        if k == 10:
            u, l, ty = rng.choice(ARGWORDS + ["x"]), rng.choice(ARGWORDS + ["y"]), rng.choice("^/#")
            u, l = u.replace(";", ""), l.replace(";", "")
            return ("stack", u, l, ty), lambda e: e.stack(u, l, ty), f"stack:{cps(u)}:{cps(l)}:{cps(ty)}", u + ty + l
        if k in (11, 12, 13, 14):
            name = ["group", "underline", "overline", "strike_through"][k - 11]
            a = w()
            return (name, a), lambda e: getattr(e, name)(a), f"{name}:{cps(a)}", a
        if k == 15:
            pp = para()
            s = pp.tostring()
            if s:
                assert s.startswith("\\px") and s.endswith(";")
                return ("paragraph", tuple(pp)), lambda e: e.paragraph(pp), f"paragraph:{cps(s[3:-1])}", ""
            return ("paragraph", tuple(pp)), lambda e: e.paragraph(pp), "paragraph_none", ""
        if k == 16:
            c = rng.choice([MTextEditor.NEW_PARAGRAPH, MTextEditor.NEW_LINE])
            return ("newpar",), lambda e: e.append(c), "newpar", "\n"
        if k == 17:
            c = rng.choice([MTextEditor.ALIGN_BOTTOM, MTextEditor.ALIGN_MIDDLE, MTextEditor.ALIGN_TOP])
            return ("align", c), lambda e: e.append(c), f"align:{cps(c[2])}", ""
        if k == 18:
            c = rng.choice([MTextEditor.UNDERLINE_START, MTextEditor.UNDERLINE_STOP, MTextEditor.OVERSTRIKE_START,
                            MTextEditor.OVERSTRIKE_STOP, MTextEditor.STRIKE_START, MTextEditor.STRIKE_STOP])
            return ("const", c), lambda e: e.append(c), f"const:{cps(c[1])}", ""
        if k == 19:
            return ("group_start",), lambda e: e.append(MTextEditor.GROUP_START), "group_start", ""
        return ("group_end",), lambda e: e.append(MTextEditor.GROUP_END), "group_end", ""

    lengths = [0] + [1] * ctx.n(400, 3000) + [2] * ctx.n(400, 3000) + [rng.randint(3, 14) for _ in range(ctx.n(1200, 12000))]
    for n in lengths:
        e = MTextEditor()
        desc, proto, expect = [], [], ""
        for _ in range(n):
            d, call, pr, ex = one()
            call(e)
            desc.append(d); proto.append(pr); expect += ex
        yield tuple(desc), "xeditor|" + "/".join(proto), str(e), expect


def expect_slow(expect: str) -> str:
    return expect.replace("\t", "    ").replace("\xa0", " ").replace("\f", "\n")


def expect_fast(expect: str):
    """None when NBSP / NEW_COLUMN are used (the fast decoder differs there: differ_nbsp, differ_new_column)"""
    return None if ("\xa0" in expect or "\f" in expect) else expect


def editor_correspond(ctx):
    """X3: the text the real MTextEditor writes == `editorText` of the model, the words the harness expects ==
    `editorWords`, and every generated argument is in range for the theorem (`EdOp.wf`, float-text assumption)"""
    cases = []
    for desc, req, text, expect in editor_cases(ctx):
        for d in desc:
            ctx.hist("X3 editor", d[0])
        ef = expect_fast(expect)
        cases.append((req, f"{cps(text)}|{cps(expect_slow(expect))}|{'-' if ef is None else cps(ef)}|1", len(desc) > 0))
        # token level: what the real parser (yield_property_commands=True) reads from the written text == `xEditorTokens`
        toks = impl_tokens(text, True)
        assert toks.startswith("ok ")
        cases.append((req.replace("xeditor|", "xtokens|", 1), toks[3:] + "|1", len(desc) > 0))
    ctx.correspond("X3 editor", "C20", cases, build=DRIVER_DEPS)


def para_correspond(ctx):
    r"""X5: ParagraphProperties.tostring() == model `toArgs` on the value texts; `ctx.paragraph` after parsing
    `\p<args>;` == model `paraParse` (numbers compared as float(text), i.e. exactly what the parser computes)"""
    from ezdxf.tools import text as T
    from ezdxf.tools.text import ParagraphProperties, MTextParser

    rng = ctx.rng("para")
    g = lambda x: f"{x:g}"
    al_char = {T.MTextParagraphAlignment.DEFAULT: None, T.MTextParagraphAlignment.LEFT: "l", T.MTextParagraphAlignment.RIGHT: "r",
               T.MTextParagraphAlignment.CENTER: "c", T.MTextParagraphAlignment.JUSTIFIED: "j", T.MTextParagraphAlignment.DISTRIBUTED: "d"}
    fl = lambda: rng.choice(FLOATS) if rng.random() < 0.7 else round(rng.uniform(-50, 50) * 10 ** rng.randint(-6, 9), rng.randint(0, 12))
    opt = lambda x: "-" if x is None else cps(x)
    cases, args_pool = [], []
    for _ in range(ctx.n(1500, 15000)):
        ind, lft, rgt = (rng.choice([0, 0, fl()]) for _ in range(3))
        al = rng.choice(list(al_char))
        tabs, mtabs = [], []
        for _ in range(rng.choice([0, 0, 1, 2, 3, 5])):
            k, x = rng.randrange(4), abs(fl())
            if k == 0:
                tabs.append(x); mtabs.append("L=" + cps(g(x)))
            elif k == 1:
                tabs.append(g(x)); mtabs.append("L=" + cps(g(x)))  # a number given as str
            else:
                tabs.append("cr"[k - 2] + g(x)); mtabs.append("CR"[k - 2] + "=" + cps(g(x)))
        pp = ParagraphProperties(ind, lft, rgt, al, tuple(tabs))
        s = pp.tostring()
        impl = "-" if s == "" else cps(s[3:-1])
        if s:
            assert s.startswith("\\px") and s.endswith(";")
            args_pool.append("x" + s[3:-1])
        req = "ptostr|%s|%s|%s|%s|%s" % (opt(g(ind) if ind else None), opt(g(lft) if lft else None), opt(g(rgt) if rgt else None),
                                          opt(al_char[al]), "/".join(mtabs))
        cases.append((req, impl, s != ""))
    ctx.correspond("X5 paragraph tostring", "C20", cases, build=DRIVER_DEPS)
    # parser values
    for body in ["i1,l2,r3,qc,t1,c2,r3", "i1:.2", "xqj", "t*,z", "i-1.5e3,l+2.,r.5", "q", "t", "tc", "tr1e", "i1e+", "i,l,r", "qx,i2", "t1,,2",
                 "ql,qr,qq", "i1i2", "tr,c", "t-1,+2", "i*,l*,r*,q*,t", "xi2,l0", "q,", "tcr1"]:
        args_pool.append(body)
    alpha = "ilrqtcxjd,0159.-+e* "
    for n in range(0, ctx.n(3, 4)):
        for tpl in itertools.product("ilrqtc,1.-x", repeat=n):
            args_pool.append("".join(tpl))
    for _ in range(ctx.n(3000, 40000)):
        args_pool.append("".join(rng.choice(alpha) for _ in range(rng.randint(0, 16))))
    args_pool = list(dict.fromkeys(args_pool))
    outs = ctx.driver("C20", [f"pparse|{cps(a)}" for a in args_pool], build=DRIVER_DEPS)
    un = lambda f: "".join(chr(int(x)) for x in f.split()) if f else ""
    for a, out in zip(args_pool, outs):
        ctx.count("X5 paragraph values", a, any(c in a for c in "ilrqt"))
        toks = list(MTextParser("\\p" + a + ";x"))
        par = toks[0].ctx.paragraph
        impl = (float(par.indent), float(par.left), float(par.right), al_char[par.align],
                tuple(x if isinstance(x, str) else float(x) for x in par.tab_stops))
        i, l, r, al, ts = out.split(";")
        num = lambda f: 0.0 if f == "-" else float(un(f))
        mtabs = []
        for tab in (ts.split("/") if ts else []):
            kind, f = tab.split("=")
            mtabs.append(float(un(f)) if kind == "L" else kind.lower() + un(f))
        model = (num(i), num(l), num(r), None if al == "-" else chr(int(al)), tuple(mtabs))
        if impl != model:
            ctx.disagree("X5 paragraph values", f"pparse|{cps(a)}", repr(impl), repr(model))
    ctx.cov["disagreements_checked"] += len(args_pool)


def context_correspond(ctx):
    r"""X7: the MTextContext attached to every token of MTextParser(s, yield_property_commands=True) == model `parseC`:
    stroke flags, continue_stroke, aci, rgb, line alignment, font face (family, italic, bold), cap height / width factor /
    char tracking (the model's symbolic value evaluated with CPython floats in the same order), oblique, paragraph properties"""
    from ezdxf.tools import text as T
    from ezdxf.tools.text import MTextParser, TokenType as TT
    from ezdxf.fonts import fonts

    names = {TT.SPACE: "SP", TT.NBSP: "NB", TT.TABULATOR: "TAB", TT.NEW_PARAGRAPH: "NP", TT.NEW_COLUMN: "NC", TT.WRAP_AT_DIMLINE: "WD"}
    al_char = {T.MTextParagraphAlignment.DEFAULT: None, T.MTextParagraphAlignment.LEFT: "l", T.MTextParagraphAlignment.RIGHT: "r",
               T.MTextParagraphAlignment.CENTER: "c", T.MTextParagraphAlignment.JUSTIFIED: "j", T.MTextParagraphAlignment.DISTRIBUTED: "d"}
    default_font = fonts.FontFace()
    un = lambda f: "".join(chr(int(x)) for x in f.split()) if f else ""

    def tok_str(t):
        if t.type == TT.PROPERTIES_CHANGED:
            return "P:" + cps(t.data)
        if t.type == TT.WORD:
            return "W:" + cps(t.data)
        if t.type == TT.STACK:
            u, l, d = t.data
            return "K:" + cps(u) + "/" + cps(l) + "/" + cps(d)
        return names[t.type]

    def real_ctx(c):
        p = c.paragraph
        rgb = None if c.rgb is None else (c.rgb.b << 16) | (c.rgb.g << 8) | c.rgb.r
        return (c.underline, c.overline, c.strike_through, bool(c.continue_stroke), c.aci, rgb, int(c.align),
                (c.font_face.family, c.font_face.is_italic, c.font_face.is_bold), float(c.cap_height), float(c.width_factor),
                float(c.char_tracking_factor), float(c.oblique),
                (float(p.indent), float(p.left), float(p.right), al_char[p.align], tuple(x if isinstance(x, str) else float(x) for x in p.tab_stops)))

    def sval(s):
        v = 1.0
        for op in (s.split("+") if s else []):
            kind, f = op[0], un(op[2:])
            v = abs(float(f)) if kind == "A" else v * abs(float(f))
        return v

    def model_ctx(s):
        # the paragraph part (last field) contains "," inside cps? no: cps uses blanks, showPara uses ";" and "/"
        u, o, k, c, aci, rgb, align, font, cap, wf, ct, obl, para = s.split(",")
        if font == "-":
            ff = (default_font.family, default_font.is_italic, default_font.is_bold)
        else:
            n, i, b = font.split("/")
            ff = (un(n), i == "1", b == "1")
        pi, pl, pr, pa, pt = para.split(";")
        num = lambda f: 0.0 if f == "-" else float(un(f))
        tabs = []
        for tab in (pt.split("/") if pt else []):
            kind, f = tab.split("=")
            tabs.append(float(un(f)) if kind == "L" else kind.lower() + un(f))
        return (u == "1", o == "1", k == "1", c == "1", int(aci), None if rgb == "-" else int(rgb), int(align), ff, sval(cap), sval(wf), sval(ct),
                0.0 if obl == "-" else float(un(obl)), (num(pi), num(pl), num(pr), None if pa == "-" else chr(int(pa)), tuple(tabs)))

    strs = []
    n = 0
    for kind, s in strings(ctx):
        n += 1
        if kind == "digits" or (kind == "exh" and (len(s) > 4 or n % 3)):
            continue
        strs.append(s)
    rng = ctx.rng("ctx")
    atoms = SUB_ATOMS + ["\\C300;", "\\c16711935;", "\\c99999999999;", "\\A2;", "\\A7;", "\\fTimes New Roman|b1|i1|c0|p18;", "\\f|b1;", "\\Fa|i1b1;",
                         "\\H0.5x;", "\\H3;", "\\H-2x;", "\\W2x;", "\\T0.5;", "\\Q-30;", "\\pi-1.5,l2,qj,t4,c8,r9;", "\\pt;", "\\L", "\\l", "\\O", "\\o", "\\K", "\\k",
                         "{", "}", "}", "a b", "\\~", "^I", "\\N"]
    for _ in range(ctx.n(3000, 30000)):
        strs.append("".join(rng.choice(atoms) for _ in range(rng.randint(1, 14))))
    strs = list(dict.fromkeys(strs))
    reqs = [f"ctx|{cps(s)}" for s in strs]
    # editor output: the expected tokens with contexts `xEditorCTokens` (theorem editor_contexts_roundtrip) vs the real parser
    for desc, req, text, expect in editor_cases(ctx):
        strs.append(text)
        reqs.append(req.replace("xeditor|", "xctokens|", 1))
    outs = ctx.driver("C20", reqs, build=DRIVER_DEPS)
    for s, out in zip(strs, outs):
        ctx.count("X7 token contexts", s, "\\" in s or "{" in s)
        try:
            impl = [(tok_str(t), real_ctx(t.ctx)) for t in MTextParser(s, yield_property_commands=True)]
        except Exception as e:  # noqa
            impl = "err " + type(e).__name__
        if out.startswith("err"):
            model = out
        else:
            body = out[3:]
            model = []
            for piece in (body.split("#") if body else []):
                tk, cx = piece.split("@", 1)
                model.append((tk, model_ctx(cx)))
        if impl != model:
            first = next((i for i, (a, b) in enumerate(zip(impl, model)) if a != b), min(len(impl), len(model))) if isinstance(impl, list) and isinstance(model, list) else 0
            ctx.disagree("X7 token contexts", f"ctx|{cps(s)}", repr(impl[first:first + 1] if isinstance(impl, list) else impl)[:300],
                         repr(model[first:first + 1] if isinstance(model, list) else model)[:300])
    ctx.cov["disagreements_checked"] += len(strs)


def argfree_correspond(ctx):
    """X8 (final round): theorem fast_eq_slow_iff_arg_free instantiated on the real code: for every generated content of the
    argument-free sub-grammar (model recogniser `argFree`) the real decoders agree exactly when the model predicate
    `argFreeAgree` holds; contents: all generated strings + every string up to length 5/6 over the sub-grammar's own alphabet"""
    from ezdxf.tools import text as T

    atoms = ["a", " ", "{", "}", "\\\\", "\\{", "\\}", "\\P", "\\L", "\\l", "\\O", "\\o", "\\K", "\\k", "\\X", "\\N", "^I", "^J", "^M", "\n", "\\", "é"]
    strs = [s for _, s in strings(ctx) if len(s) <= 300]
    for n in range(0, ctx.n(3, 4) + 1):
        for tpl in itertools.product(atoms, repeat=n):
            strs.append("".join(tpl))
    strs = list(dict.fromkeys(strs))
    outs = ctx.driver("C20", [f"argfree|{cps(s)}" for s in strs], build=DRIVER_DEPS)
    for s, out in zip(strs, outs):
        if out == "out":
            ctx.hist("X8 argument-free fragment", "outside")
            continue
        ctx.count("X8 argument-free fragment", s, "\\" in s or "^" in s)
        impl = "in 1" if T.plain_mtext(s) == T.fast_plain_mtext(s) else "in 0"
        ctx.hist("X8 argument-free fragment", impl)
        if impl != out:
            ctx.disagree("X8 argument-free fragment", f"argfree|{cps(s)}", impl, out)
    ctx.cov["disagreements_checked"] += len(strs)


def split_caret_correspond(ctx):
    """X9 (final round): theorem split_no_caret_at_chunk_end on the real code: the model predicate `noDoubleCaret` == `"^^" not in s`,
    and for every such content no chunk of the real split_mtext_string except the last ends in a caret (sizes 2, 3, 7, 250);
    split_separates_caret_pair: the counterexample on the real code"""
    from ezdxf.tools import text as T

    rng = ctx.rng("splitcaret")
    strs = [s for k, s in strings(ctx) if k != "cmd" and len(s) <= 700]
    for _ in range(ctx.n(1500, 15000)):
        n = rng.choice([3, 7, 8, 249, 250, 251, 499, 500, 501, 752])
        strs.append("".join(rng.choice("^ab") if rng.random() < 0.9 else "^^" for _ in range(n)))
    strs = list(dict.fromkeys(strs))
    outs = ctx.driver("C20", [f"nodc|{cps(s)}" for s in strs], build=DRIVER_DEPS)
    for s, out in zip(strs, outs):
        ctx.count("X9 split caret pairs", s, "^" in s)
        impl = "1" if "^^" not in s else "0"
        if impl != out:
            ctx.disagree("X9 split caret pairs", f"nodc|{cps(s)}", impl, out)
        if out == "1":
            for size in (2, 3, 7, 250):
                chunks = T.split_mtext_string(s, size)
                if any(c.endswith("^") for c in chunks[:-1]):
                    ctx.disagree("X9 split caret pairs", f"split|{size}|{cps(s)}", "a chunk that is not the last ends in '^'", "none does (theorem)")
    if T.split_mtext_string("a^^b", 3) != ["a^", "^b"]:
        ctx.disagree("X9 split caret pairs", "split|3|a^^b", repr(T.split_mtext_string("a^^b", 3)), "['a^', '^b']")
    ctx.cov["disagreements_checked"] += len(strs)


def wrapper_correspond(ctx):
    """X10 (final round): MText.plain_text(split, fast) and MText.all_columns_plain_text(split) of real entities (plain MTEXT and
    MTEXT with embedded R2018 columns, no linked column entities) == model wrappers"""
    import ezdxf

    doc = ezdxf.new("R2018")
    msp = doc.modelspace()
    plain = msp.add_mtext("")
    cols = msp.add_mtext_dynamic_auto_height_columns("x", width=20, gutter_width=1, height=50, count=2)
    cases = []
    n = 0
    for kind, s in strings(ctx):
        n += 1
        if kind == "digits" or len(s) > 300 or (kind in ("exh", "cmd") and n % 4):
            continue
        for fast in (True, False):
            plain.text = s
            cols.text = s
            try:
                a = cps(plain.plain_text(split=False, fast=fast))
            except Exception as e:  # noqa
                a = _exc(e)
            try:
                b = ";".join(cps(x) for x in plain.plain_text(split=True, fast=fast))
            except Exception as e:  # noqa
                b = _exc(e)
            c = cps(plain.all_columns_plain_text(split=False))
            d = ";".join(cps(x) for x in plain.all_columns_plain_text(split=True))
            e2 = ";".join(cps(x) for x in cols.all_columns_plain_text(split=True))
            cases.append((f"wrap|{int(fast)}|{cps(s)}", f"{a}|{b}|{c}|{d}|{e2}", "\\" in s or "^" in s))
    ctx.correspond("X10 MText wrappers", "C20", cases, build=DRIVER_DEPS)


def scale_correspond(ctx):
    """X11 (final round): scale_mtext_inline_commands(s, factor) on the real code == the model segments `scaleSegs s` with every
    scaled number n rendered as f"{float(n) * abs(factor):.3g}" (the float formatting is CPython's, the structure is the model's)"""
    from ezdxf.tools import text as T

    rng = ctx.rng("scale")
    atoms = ["\\H2.5;", "\\H.5;", "\\H.;", "\\H1..2;", "\\H3x;", "\\H0.25x;", "\\\\H2;", "\\H", "\\H12", "\\Hx", "\\H1e3;", "\\H-2;", "\\H;", "\\H1.;",
             "a", " ", "{", "}", "\\", "\\P", "\\C1;", "H", ".", "9", "x", "\\h1;", "\\H0;", "\\H00012.50;", "\\H1.5.x;"]
    strs = [s for _, s in strings(ctx) if "\\H" in s and len(s) <= 300]
    for n in range(0, 3):
        for tpl in itertools.product(atoms, repeat=n):
            strs.append("".join(tpl))
    for _ in range(ctx.n(2000, 20000)):
        strs.append("".join(rng.choice(atoms) for _ in range(rng.randint(3, 12))))
    strs = list(dict.fromkeys(strs))
    outs = ctx.driver("C20", [f"scale|{cps(s)}" for s in strs], build=DRIVER_DEPS)
    un = lambda f: "".join(chr(int(x)) for x in f.split()) if f else ""
    for s, out in zip(strs, outs):
        ctx.count("X11 scale inline commands", s, "\\H" in s)
        for factor in (2.0, 0.5, -3.0, 1.0):
            model = "".join((un(g[2:]) if g.startswith("T:") else f"{float(un(g[2:])) * abs(factor):.3g}") for g in (out.split(";") if out else []))
            try:
                impl = T.scale_mtext_inline_commands(s, factor)
            except Exception as e:  # noqa
                impl = _exc(e)
            if impl != model:
                ctx.disagree("X11 scale inline commands", f"scale|{cps(s)} factor={factor}", impl, model)
    ctx.cov["disagreements_checked"] += len(strs)


def editor_oracle(ctx):
    from ezdxf.tools import text as T

    for desc, req, s, expect in editor_cases(ctx):
        ctx.count("O3 editor", desc, len(desc) > 0)
        try:
            got = T.plain_mtext(s)
            gotf = T.fast_plain_mtext(s)
            gotl = T.plain_mtext(s, split=True)
        except Exception as ex:  # noqa
            ctx.fail(f"editor/raise/{desc[:4]}", f"MTextEditor {desc} -> {s!r} raised {type(ex).__name__}", {"op": "editor", "text": s, "expect": expect})
            continue
        es, ef = expect_slow(expect), expect_fast(expect)
        if got != es or (ef is not None and gotf != ef) or gotl != es.split("\n"):
            ctx.fail(f"editor/words/{desc[:4]}", f"MTextEditor {desc} -> {s!r} decodes to {got!r} / fast {gotf!r}, expected {expect!r}",
                     {"op": "editor", "text": s, "expect": expect})
    # bullet lists (TAB and paragraph properties; the fast decoder keeps the TAB character, the parser writes 4 blanks)
    from ezdxf.tools.text import MTextEditor
    rng = ctx.rng("bullets")
    for _ in range(ctx.n(200, 2000)):
        k = rng.randint(0, 4)
        bullets = [rng.choice(["-", "1.", "•", "a)"]) for _ in range(k)]
        items = [rng.choice(WORDS) for _ in range(k)]
        indent = rng.choice(FLOATS[:12])
        s = str(MTextEditor().bullet_list(indent, bullets, items))
        expect = "".join(b + "\t" + c + "\n" for b, c in zip(bullets, items))
        ctx.count("O3 editor", ("bullet_list", indent, tuple(bullets), tuple(items)), k > 0)
        got, gotf = T.plain_mtext(s), T.fast_plain_mtext(s)
        if gotf != expect or got != expect.replace("\t", "    "):
            ctx.fail(f"editor/bullets/{indent}/{bullets}", f"bullet_list({indent}, {bullets}, {items}) -> {s!r} decodes to {got!r} / fast {gotf!r}",
                     {"op": "editor", "text": s, "expect": expect})


def replay(ctx, rep):
    from ezdxf.tools import text as T

    bad = []
    for f in rep.get("failing_inputs", []):
        r = f["replay"]
        try:
            if r["op"] in ("total", "estimate"):
                T.plain_mtext(r["text"]); T.fast_plain_mtext(r["text"]); T.plain_text(r["text"]); list(T.MTextParser(r["text"]))
            elif r["op"] == "split":
                c = T.split_mtext_string(r["text"], r["size"])
                assert "".join(c) == r["text"] and all(0 < len(x) <= r["size"] for x in c)
            elif r["op"] == "splithang":
                assert split_small_sizes([(r["text"], r["size"])])[0] == "err ValueError"
            elif r["op"] == "fastslow":
                assert T.fast_plain_mtext(r["text"]) == T.plain_mtext(r["text"])
                assert T.fast_plain_mtext(r["text"], split=True) == T.plain_mtext(r["text"], split=True)
            elif r["op"] == "exporttags":
                from ezdxf.entities.mtext import export_mtext_content

                class W:
                    tags = []

                    def write_tag2(self, c, v):
                        self.tags.append((c, v))

                w = W(); w.tags = []
                export_mtext_content(r["text"], w)
                assert all(len(v) <= 250 for _, v in w.tags) and [c for c, _ in w.tags] == [3] * (len(w.tags) - 1) + [1]
                assert "".join(v for _, v in w.tags) == T.escape_dxf_line_endings(r["text"])
            elif r["op"] == "file":
                import io, ezdxf
                doc = ezdxf.new(r["version"]); h = doc.modelspace().add_mtext(r["text"]).dxf.handle
                stream = io.StringIO(); doc.write(stream)
                assert ezdxf.read(io.StringIO(stream.getvalue())).entitydb[h].text == T.escape_dxf_line_endings(r["text"])
            elif r["op"] == "explode":
                import ezdxf
                from ezdxf.addons import MTextExplode
                msp = ezdxf.new().modelspace()
                with MTextExplode(msp) as xpl:
                    xpl.explode(msp.add_mtext(r["text"], dxfattribs={"width": r["width"]}))
            elif r["op"] == "size":
                import ezdxf
                from ezdxf.tools import text_size as TS
                m = ezdxf.new().modelspace().add_mtext(r["text"], dxfattribs={"width": r["width"], "char_height": r["char_height"],
                                                                             "attachment_point": r.get("attachment_point", 1)})
                TS.mtext_size(m); T.estimate_mtext_extents(m)
                if r.get("explode"):
                    from ezdxf.addons import MTextExplode
                    with MTextExplode(m.doc.modelspace()) as xpl:
                        xpl.explode(m)
            elif r["op"] == "size1":
                import ezdxf
                from ezdxf.tools import text_size as TS
                TS.text_size(ezdxf.new().modelspace().add_text(r["text"]))
            elif r["op"] == "editor":
                assert T.plain_mtext(r["text"]) == expect_slow(r["expect"])
            elif r["op"] == "purity":
                fn = getattr(T, r["fn"])
                first = fn(r["text"], split=True); keep = list(first); first.append("x")
                assert fn(r["text"], split=True) == keep
        except Exception as e:  # noqa
            bad.append(f"{f['key']}: {type(e).__name__}")
    return (not bad, "; ".join(bad) or "all recorded failing inputs pass now")

"""C16  Copies, virtual entities and documents never share mutable state (DESIGN.md section 7, C16).

T-heap (section "object graphs"): explicit traversal of the reachable Python object graph.
Graph.add(root) follows __dict__ entries, __slots__ of every class in the MRO, and the items of
list/tuple/dict/set/frozenset/deque; array.array, bytearray, numpy arrays and extension objects
without visible attributes are opaque mutable leaves (a numpy view gets an edge to its base).
Traversal stops at classes, modules, functions (atoms).  Navigation edges are recorded but
not followed.  Nothing here uses gc.
"""
from __future__ import annotations

import ast
import array
import collections
import datetime
import enum
import fractions
import re
import types
import uuid
import weakref

import logging

import ezdxf
from ezdxf.math import Matrix44, Vec2, Vec3
from ezdxf.lldxf.tags import Tags
from ezdxf.lldxf.types import DXFTag

from leanfmt import lean_list, lean_str

logging.getLogger("ezdxf").setLevel(logging.ERROR)  # the harness exports R12 documents: no warning spam

ATOM_TYPES = (type(None), bool, int, float, complex, str, bytes, range, slice, type(Ellipsis), type(NotImplemented),
              enum.Enum, uuid.UUID, datetime.datetime, datetime.date, datetime.timedelta, fractions.Fraction,
              re.Pattern, type, types.ModuleType, types.FunctionType, types.BuiltinFunctionType, types.MethodDescriptorType,
              types.WrapperDescriptorType, types.GetSetDescriptorType, types.MemberDescriptorType, property,
              staticmethod, classmethod, weakref.ReferenceType, types.MappingProxyType, types.CodeType)

# attribute names that are navigation (non-owning back/side references) on DXF entities: recorded, not followed
NAV_ATTRS = {
    "_source_of_copy": "back reference copy -> source (DXFEntity.set_source_of_copy), documented navigation aid",
    "_source_block_reference": "back reference virtual entity -> INSERT that produced it",
}
# an edge whose target is an instance of one of these classes is a navigation edge (target recorded by identity)
NAV_TARGET_TYPES = {
    "Drawing": "entity.doc / layout.doc: every entity of a document points to the document (shared by design)",
}
# classes whose instances are immutable by contract (no public mutator, value semantics): kind imm
IMM_BY_CONTRACT = {
    "ezdxf.lldxf.types.DXFTag": "tag value object (code, value), no mutator",
    "ezdxf.lldxf.types.DXFVertex": "tag value object (code, Vec3), no mutator",
    "ezdxf.lldxf.types.DXFBinaryTag": "tag value object (code, bytes), no mutator",
}


def qname(o) -> str:
    return type(o).__module__ + "." + type(o).__name__

KIND_IMM, KIND_CELL, KIND_CONT = 0, 1, 2  # immutable object | mutable object with named slots / opaque | container


def tname(o) -> str:
    return type(o).__name__


try:
    import numpy as _numpy
except Exception:  # pragma: no cover
    _numpy = None


def _np():
    return _numpy


_ATOM_CLASS: dict = {}  # type -> 1 atom | 0 object | 2 tuple-like (atom iff all items are atoms)


def _classify(t) -> int:
    if issubclass(t, ATOM_TYPES):
        return 1
    if t.__name__ in ("Vec2", "Vec3") and t.__module__.startswith("ezdxf."):
        return 1
    if issubclass(t, (tuple, frozenset)):
        return 2
    if _numpy is not None and issubclass(t, _numpy.generic):
        return 1
    return 0


def is_atom(o) -> bool:
    t = type(o)
    r = _ATOM_CLASS.get(t)
    if r is None:
        r = _ATOM_CLASS[t] = _classify(t)
    if r == 1:
        return True
    if r == 0:
        return False
    for x in o:
        if not is_atom(x):
            return False
    return True


_SLOTS: dict = {}


def slots_of(o):
    t = type(o)
    names = _SLOTS.get(t)
    if names is not None:
        return names
    names = []
    for klass in t.__mro__:
        s = klass.__dict__.get("__slots__", ())
        if isinstance(s, str):
            s = (s,)
        for n in s:
            if n in ("__dict__", "__weakref__"):
                continue
            if n.startswith("__") and not n.endswith("__"):
                n = "_" + klass.__name__.lstrip("_") + n
            if n not in names:
                names.append(n)
    _SLOTS[t] = names
    return names


def children(o):
    """-> (kind, [(edge_label, child)])  for a non-atom object"""
    np = _np()
    if isinstance(o, (list, collections.deque)):
        return KIND_CONT, [(str(i), x) for i, x in enumerate(o)]
    if isinstance(o, tuple):
        return KIND_IMM, [(str(i), x) for i, x in enumerate(o)]
    if isinstance(o, dict):
        out = []
        for i, (k, v) in enumerate(o.items()):
            if not is_atom(k):
                out.append((f"key{i}", k))
            out.append((f"[{k!r}]" if is_atom(k) else f"val{i}", v))
        return KIND_CONT, out
    if isinstance(o, (set, frozenset)):
        items = list(o)
        try:
            items.sort(key=repr)
        except Exception:
            pass
        return (KIND_IMM if isinstance(o, frozenset) else KIND_CONT), [(f"elem{i}", x) for i, x in enumerate(items)]
    if isinstance(o, (bytearray, array.array)):
        return KIND_CONT, []
    if np is not None and isinstance(o, np.ndarray):
        return KIND_CONT, ([("base", o.base)] if o.base is not None else [])
    if isinstance(o, types.MethodType):
        return KIND_IMM, [("__self__", o.__self__)]
    out = []
    d = getattr(o, "__dict__", None)
    if isinstance(d, dict):
        out += list(d.items())
    for n in slots_of(o):
        try:
            out.append((n, getattr(o, n)))
        except AttributeError:
            pass
    kind = KIND_IMM if qname(o) in IMM_BY_CONTRACT else KIND_CELL
    return kind, out


class Graph:
    """nodes[i] = dict(obj, kind, type, edges=[(label, j)], nav=[(label, typename, id)], path)"""

    def __init__(self):
        self.nodes = []
        self.index = {}  # id(obj) -> node index
        self.keep = []  # keeps objects alive so ids stay unique
        self.dict_owner = {}  # id(instance __dict__) -> node index: objects that share their attribute dict are ONE cell

    def add(self, root, path="", stop=None, limit=2_000_000):
        """walk from root; returns node index of root (or None for atoms). `stop(obj)` -> True: node is
        recorded but not expanded."""
        if is_atom(root):
            return None
        if id(root) in self.index:
            return self.index[id(root)]
        todo = [(root, path, None)]
        first = None
        while todo:
            o, p, par = todo.pop()
            if id(o) in self.index:
                continue
            d = None if isinstance(o, (list, tuple, dict, set, frozenset, collections.deque)) else getattr(o, "__dict__", None)
            if isinstance(d, dict):
                j = self.dict_owner.get(id(d))
                if j is not None and self.nodes[j]["obj"] is not o:
                    # copy.copy() of an object whose __getstate__/__setstate__ hand over the __dict__ itself (DXFNamespace):
                    # a second wrapper around the same state
                    self.index[id(o)] = j
                    self.keep.append(o)
                    if first is None:
                        first = j
                    continue
            kind, ch = children(o)
            i = len(self.nodes)
            if isinstance(d, dict):
                self.dict_owner[id(d)] = i
            if first is None:
                first = i
            node = {"obj": o, "kind": kind, "type": tname(o), "edges": [], "nav": [], "path": p, "pending": [], "parent": par}
            self.nodes.append(node)
            self.index[id(o)] = i
            self.keep.append(o)
            if len(self.nodes) > limit:
                raise RuntimeError("object graph too large")
            if stop is not None and stop(o):
                node["stopped"] = True
                continue
            for label, c in ch:
                if is_atom(c):
                    continue
                if (label in NAV_ATTRS and _is_entity(o)) or tname(c) in NAV_TARGET_TYPES:
                    node["nav"].append((label, tname(c), id(c)))
                    continue
                node["pending"].append((label, c))
                if id(c) not in self.index:
                    todo.append((c, p + "." + label if p else label, (id(o), label)))
        for node in self.nodes:
            if node["pending"]:
                node["edges"] += [(label, self.index[id(c)]) for label, c in node["pending"]]
                node["pending"] = []
        return first

    def via(self, i):
        """(owner type, attribute label with [] per container step) by which node i was discovered"""
        suffix = ""
        while True:
            par = self.nodes[i]["parent"]
            if par is None:
                return ("<root>", suffix or "<root>")
            pi, label = self.index[par[0]], par[1]
            pobj = self.nodes[pi]["obj"]
            if isinstance(pobj, (list, tuple, dict, set, frozenset, collections.deque)):
                suffix = "[]" + suffix
                i = pi
                continue
            return (self.nodes[pi]["type"], label + suffix)

    def reach(self, i, cut=()):
        """node indices reachable from i (nodes in `cut` are reached but not expanded)"""
        seen, todo = {i}, [i]
        while todo:
            n = todo.pop()
            if n in cut and n != i:
                continue
            for _, j in self.nodes[n]["edges"]:
                if j not in seen:
                    seen.add(j)
                    todo.append(j)
        return seen


def _is_entity(o) -> bool:
    return hasattr(o, "dxf") or hasattr(o, "DXFTYPE")


# ----------------------------------------------------------------------------- deep fingerprint
def fingerprint(root, ignore_attr=None, stop_at=None):
    """canonical hashable value tree of everything reachable from root through owning edges; object
    identity does not enter (cycles become back references by discovery index, navigation targets
    become ('nav', typename)).  ignore_attr(obj, label) -> True drops an attribute."""
    np = _np()
    seen = {}
    out = []

    def atom(o):
        if isinstance(o, float):
            return ("f", repr(o))
        if isinstance(o, (tuple, frozenset)):
            items = [atom(x) for x in o]
            if isinstance(o, frozenset):
                items.sort(key=repr)
            return ("t", tuple(items))
        if tname(o) in ("Vec2", "Vec3"):
            return ("v", tuple(repr(float(c)) for c in o))
        if isinstance(o, enum.Enum):
            return ("e", type(o).__name__, o.name)
        if isinstance(o, (type, types.ModuleType, types.FunctionType, types.BuiltinFunctionType)):
            return ("c", getattr(o, "__qualname__", getattr(o, "__name__", "?")))
        if isinstance(o, (type(None), bool, int, str, bytes)):
            return o
        if isinstance(o, uuid.UUID):
            return ("uuid",)
        if isinstance(o, weakref.ReferenceType):
            return ("weakref",)
        return ("a", type(o).__name__, repr(o)[:80] if isinstance(o, (complex, range, slice, fractions.Fraction, datetime.date, datetime.timedelta, re.Pattern)) else "")

    def visit(o):
        if is_atom(o):
            return atom(o)
        if id(o) in seen:
            return ("ref", seen[id(o)])
        if stop_at is not None and o is not root:
            r = stop_at(o)
            if r is not None:
                return r
        seen[id(o)] = len(seen)
        if isinstance(o, (bytearray,)):
            return ("ba", bytes(o))
        if isinstance(o, array.array):
            return ("arr", o.typecode, tuple(repr(x) for x in o))
        if np is not None and isinstance(o, np.ndarray):
            return ("np", o.shape, tuple(repr(x) for x in o.ravel().tolist()))
        kind, ch = children(o)
        if not ch and kind == KIND_CELL and not hasattr(o, "__dict__") and not slots_of(o):
            # opaque extension object (e.g. cython Matrix44): use its repr / iteration
            try:
                return ("opaque", tname(o), tuple(repr(float(x)) for x in o))
            except Exception:
                return ("opaque", tname(o), repr(o))
        items = []
        for label, c in ch:
            if ignore_attr is not None and ignore_attr(o, label):
                continue
            if not is_atom(c) and ((label in NAV_ATTRS and _is_entity(o)) or tname(c) in NAV_TARGET_TYPES):
                items.append((label, ("nav", tname(c))))
                continue
            items.append((label, visit(c)))
        if isinstance(o, (dict, set, frozenset)):
            items.sort(key=repr)
        return (tname(o), tuple(items))

    return visit(root)


# ----------------------------------------------------------------------------- builders
# one fully populated instance per registered entity class, through the public factory API where one exists
def decorate(e, doc, xdict=True):
    """attach XDATA, app data, reactors and an extension dictionary"""
    if not doc.appids.has_entry("VERIF"):
        doc.appids.new("VERIF")
    e.set_xdata("VERIF", [(1000, "text"), (1002, "{"), (1040, 1.5), (1070, 7), (1002, "}"), (1005, "FF")])
    e.set_app_data("VERIF_APP", [(1, "appdata"), (70, 3)])
    e.append_reactor_handle("AB")
    e.append_reactor_handle("CD")
    if xdict:
        xd = e.new_extension_dict()
        xr = xd.add_xrecord("XREC")
        xr.tags.extend([DXFTag(1, "one"), DXFTag(40, 2.0)])
        xd.add_dictionary_var("DVAR", "value")
        sub = xd.add_dictionary("SUBDICT")
        sub.add_xrecord("INNER").tags.append(DXFTag(90, 9))
        # entries attached WITHOUT ownership transfer (index operator / Dictionary.add do not take ownership; loaded
        # files with sloppy 330 handles have the same state): owner "0", owner = another object, owner = the entity
        att = doc.objects.add_xrecord()
        att.tags.append(DXFTag(1, "attached, owner 0"))
        xd["ATTACHED0"] = att
        att2 = doc.objects.add_xrecord(owner=doc.rootdict.dxf.handle)
        att2.tags.append(DXFTag(1, "attached, foreign owner"))
        xd.dictionary.add("ATTACHED1", att2)
        xd.dictionary.add("ATTACHED2", doc.objects.add_dictionary_var(owner=e.dxf.handle or "0", value="attached"))
        sub.add("ATTACHED3", doc.objects.add_xrecord(owner=xd.dictionary.dxf.handle))
    return e

SAT = ["400 0 1 0", "body $-1 $1 $-1 $-1 #", "End-of-ACIS-data"]

def new_doc():
    doc = ezdxf.new("R2018", setup=True)
    blk = doc.blocks.new("VBLK")
    blk.add_line((0, 0), (1, 1))
    blk.add_circle((0, 0), 1)
    blk.add_attdef("TAG1", (0, 0), "dflt")
    return doc

def _acis(e):
    e.sat = SAT
    return e

def B(doc):
    """name -> builder(doc) -> fully populated entity (built through the public factory API where one exists)"""
    msp = doc.modelspace()
    psp = doc.paperspace()
    objs = doc.objects
    from ezdxf.entities import factory

    import itertools
    counter = itertools.count()

    def U(base):  # unique resource names: builders are called repeatedly on one document
        return f"{base}_{next(counter)}"

    def raw(dxftype_, **attribs):
        def f():
            e = factory.create_db_entry(dxftype_, attribs, doc)
            return e
        return f

    def hatch():
        h = msp.add_hatch(color=2)
        h.paths.add_polyline_path([(0, 0, 0.5), (4, 0), (4, 4), (0, 4)], is_closed=True)
        ep = h.paths.add_edge_path()
        ep.add_line((0, 0), (1, 0))
        ep.add_arc((1, 1), 1, 270, 360)
        ep.add_ellipse((2, 1), (1, 0), 0.5, 0, 180)
        ep.add_spline(control_points=[(3, 1), (3, 2), (2, 2), (0, 0)], knot_values=[0, 0, 0, 0, 1, 1, 1, 1], fit_points=[(3, 1), (0, 0)])
        h.set_pattern_fill("ANSI31", scale=0.5)
        h.set_seed_points([(1, 1), (2, 2)])
        return h

    def hatch_gradient():
        h = msp.add_hatch()
        h.paths.add_polyline_path([(0, 0), (1, 0), (1, 1)])
        h.set_gradient((1, 2, 3), (4, 5, 6), rotation=30)
        return h

    def mpolygon():
        h = msp.add_mpolygon(color=1, fill_color=3)
        h.paths.add_polyline_path([(0, 0), (4, 0), (4, 4), (0, 4)], is_closed=True)
        h.set_pattern_fill("ANSI31", scale=0.5)
        return h

    def spline():
        s = msp.add_spline(fit_points=[(0, 0), (1, 2), (3, 1)])
        s.control_points = [(0, 0), (1, 1), (2, 0), (3, 1)]
        s.knots = [0, 0, 0, 0, 1, 1, 1, 1]
        s.weights = [1, 2, 2, 1]
        return s

    def mesh():
        m = msp.add_mesh()
        with m.edit_data() as d:
            d.vertices = [(0, 0, 0), (1, 0, 0), (1, 1, 0), (0, 1, 0)]
            d.faces = [[0, 1, 2, 3]]
            d.edges = [(0, 1), (1, 2)]
            d.edge_crease_values = [1.0, 2.0]
        return m

    def mline():
        return msp.add_mline([(0, 0), (5, 0), (5, 5)], close=False)

    def leader():
        return msp.add_leader([(0, 0), (1, 1), (2, 1)])

    def mleader_mtext():
        b = msp.add_multileader_mtext("Standard")
        b.set_content("Line1\nLine2", style="OpenSans")
        b.add_leader_line(ezdxf.render.ConnectionSide.left, [Vec2(-5, -5), Vec2(-6, -8)])
        b.add_leader_line(ezdxf.render.ConnectionSide.right, [Vec2(15, -5)])
        b.build(insert=Vec2(5, 0))
        return b.multileader

    def mleader_block():
        blk = doc.blocks.get("MLBLK") or doc.blocks.new("MLBLK")
        if len(blk) == 0:
            blk.add_circle((0, 0), 1)
            blk.add_attdef("ONE", (0, 0), "1")
        b = msp.add_multileader_block("Standard")
        b.set_content("MLBLK")
        b.set_attribute("ONE", "text")
        b.add_leader_line(ezdxf.render.ConnectionSide.left, [Vec2(-5, -5)])
        b.build(insert=Vec2(5, 0))
        return b.multileader

    def image():
        idef = doc.add_image_def("img.png", (640, 480))
        im = msp.add_image(idef, (0, 0), (6.4, 4.8))
        im.set_boundary_path([(0, 0), (100, 0), (100, 100), (0, 100)])
        return im

    def wipeout():
        return msp.add_wipeout([(0, 0), (1, 0), (1, 1), (0, 1)])

    def underlay(fmt):
        def f():
            udef = doc.add_underlay_def("u." + fmt, fmt=fmt, name="1")
            u = msp.add_underlay(udef, (0, 0, 0))
            u.set_boundary_path([(0, 0), (10, 0), (10, 10)])
            return u
        return f

    def insert():
        i = msp.add_blockref("VBLK", (1, 2), dxfattribs={"xscale": 2, "rotation": 30})
        i.add_attrib("TAG1", "val1", (1, 1))
        a = i.add_attrib("TAG2", "val2", (2, 2))
        a.set_mtext(msp.add_mtext("embedded"), graphic_properties=True) if hasattr(a, "set_mtext") else None
        return i

    def polyline2d():
        return msp.add_polyline2d([(0, 0), (1, 0, 0, 0, 0.5) if False else (1, 0), (1, 1)], format="xy")

    def polyline3d():
        return msp.add_polyline3d([(0, 0, 0), (1, 0, 1), (1, 1, 2)])

    def polymesh():
        p = msp.add_polymesh((3, 3))
        p.set_mesh_vertex((1, 1), (1, 1, 5))
        return p

    def polyface():
        p = msp.add_polyface()
        p.append_face([(0, 0, 0), (1, 0, 0), (1, 1, 0)])
        p.append_face([(0, 0, 1), (1, 0, 1), (1, 1, 1), (0, 1, 1)])
        return p

    def mtext():
        m = msp.add_mtext("some {\\C1;red} text\\Pline2", dxfattribs={"char_height": 0.5, "width": 10})
        m.set_bg_color(2, scale=1.5)
        return m

    def mtext_columns():
        m = msp.add_mtext_static_columns(["col1", "col2", "col3"], width=10, gutter_width=1, height=20)
        if m.doc is None:  # the factory stores the entity in the database without binding it
            m.doc = doc
        return m

    def mtext_linked_columns():
        # R2000 style columns: the following columns are linked MTEXT entities (MTextColumns.linked_columns)
        from ezdxf.entities.mtext_columns import make_static_columns_r2000
        m = make_static_columns_r2000(["col1", "col2", "col3"], 10, 1, 20, {"char_height": 0.5})
        factory.bind(m, doc)
        msp.add_entity(m)
        return m

    def viewport():
        v = psp.add_viewport((5, 5), (4, 4), (0, 0), 10)
        v.frozen_layers = ["L1", "L2"]
        return v

    def dimension():
        d = msp.add_linear_dim(base=(3, 2), p1=(0, 0), p2=(3, 0), override={"dimtxt": 0.5})
        d.render()
        return d.dimension

    def arc_dimension():
        d = msp.add_arc_dim_3p(base=(0, 7), center=(0, 0), p1=(-3, 5), p2=(3, 5))
        d.render()
        return d.dimension

    def radius_dimension():
        d = msp.add_radius_dim(center=(0, 0), radius=3, angle=45)
        d.render()
        return d.dimension

    def large_radial():
        return factory.create_db_entry("LARGE_RADIAL_DIMENSION", {"defpoint": (0, 0), "chord_point": (2, 2), "override_center": (3, 3), "jog_point": (4, 4), "text_midpoint": (1, 2), "insert": (0, 0)}, doc)

    def acis(method):
        def f():
            return _acis(getattr(msp, method)())
        return f

    def surface_m(method, names):
        def f():
            e = _acis(getattr(msp, method)())
            for n in names:
                setattr(e, n, Matrix44.translate(1, 2, 3))
            return e
        return f

    def dictionary():
        d = objs.add_dictionary(owner=objs.rootdict.dxf.handle, hard_owned=True)
        d.add_xrecord("XR").tags.append(DXFTag(1, "x"))
        d.add_dict_var("DV", "v")
        d.add("FOREIGN0", objs.add_xrecord())  # attached without ownership transfer
        d.add("FOREIGN1", objs.add_xrecord(owner=objs.rootdict.dxf.handle))
        return d

    def dictionary_soft():
        d = objs.add_dictionary(owner=objs.rootdict.dxf.handle, hard_owned=False)
        d["LAYER0"] = doc.layers.get("0")
        return d

    def dict_with_default():
        ph = objs.add_placeholder(objs.rootdict.dxf.handle)
        d = objs.add_dictionary_with_default(owner=objs.rootdict.dxf.handle, default=ph.dxf.handle, hard_owned=True)
        d.set_default(ph)
        d.add_xrecord("XR").tags.append(DXFTag(1, "x"))
        return d

    def dict_with_default_soft():
        ph = objs.add_placeholder(objs.rootdict.dxf.handle)
        d = objs.add_dictionary_with_default(owner=objs.rootdict.dxf.handle, default=ph.dxf.handle, hard_owned=False)
        d.set_default(ph)
        d["LAYER0"] = doc.layers.get("0")
        return d

    def xrecord():
        x = objs.add_xrecord(objs.rootdict.dxf.handle)
        x.tags.extend([DXFTag(1, "a"), DXFTag(40, 1.5), DXFTag(90, 2)])
        return x

    def ltype():
        return doc.linetypes.new(U("VERIF_LT"), dxfattribs={"description": "verif", "pattern": [0.6, 0.5, -0.1]})

    def ltype_complex():
        return doc.linetypes.new(U("VERIF_LTC"), dxfattribs={"description": "c", "length": 1.0, "pattern": 'A,.5,-.2,["GAS",STANDARD,S=.1,U=0.0,X=-0.1,Y=-.05],-.25'})

    def mlinestyle():
        s = doc.mline_styles.new(U("VERIF_MLS"))
        s.elements.append(0.5, 1)
        s.elements.append(-0.5, 2, "DASHED")
        return s

    def material():
        m = doc.materials.new(U("VERIF_MAT"))
        m.diffuse_mapper_matrix = Matrix44.translate(1, 2, 3)
        m.specular_mapper_matrix = Matrix44.scale(2, 2, 2)
        m.reflexion_mapper_matrix = Matrix44()
        m.opacity_mapper_matrix = Matrix44()
        m.bump_mapper_matrix = Matrix44()
        m.refraction_mapper_matrix = Matrix44()
        m.normal_mapper_matrix = Matrix44()
        return m

    def sortents():
        t = factory.create_db_entry("SORTENTSTABLE", {"block_record_handle": msp.block_record_handle}, doc)
        t.table["A1"] = "B1"
        t.table["A2"] = "B2"
        return t

    def vba():
        v = factory.create_db_entry("VBA_PROJECT", {}, doc)
        v.data = b"\x01\x02vba"
        return v

    def idbuffer(name):
        def f():
            b = factory.create_db_entry(name, {}, doc)
            b.handles.extend(["A1", "B2"])
            return b
        return f

    def spatial_filter():
        s = factory.create_db_entry("SPATIAL_FILTER", {}, doc)
        s.set_boundary_vertices([(0, 0), (1, 0), (1, 1)])
        s.set_inverse_insert_matrix(Matrix44.translate(1, 2, 3))
        s.set_transform_matrix(Matrix44.scale(2, 2, 2))
        return s

    def visualstyle():
        v = factory.create_db_entry("VISUALSTYLE", {"description": "verif"}, doc)
        v.acad_xdata = Tags([DXFTag(70, 58), DXFTag(90, 1), DXFTag(176, 1)])
        return v

    def block_record():
        return doc.blocks.new(U("VERIF_BR")).block_record

    def block():
        return doc.blocks.new(U("VERIF_B")).block

    def endblk():
        return doc.blocks.new(U("VERIF_E")).endblk

    def dxflayout():
        return doc.layouts.new(U("VERIF_LAYOUT")).dxf_layout

    def geodata_free():
        return None

    b = {
        "LINE": lambda: msp.add_line((0, 0, 0), (1, 2, 3), dxfattribs={"layer": "L", "color": 3, "linetype": "DASHED", "lineweight": 25, "thickness": 1.5, "ltscale": 2.0, "true_color": 0x102030, "transparency": 0x0200007F, "extrusion": (0, 0, 1)}),
        "POINT": lambda: msp.add_point((1, 2, 3), dxfattribs={"angle": 30}),
        "CIRCLE": lambda: msp.add_circle((1, 2), 3),
        "ARC": lambda: msp.add_arc((1, 2), 3, 10, 200),
        "ELLIPSE": lambda: msp.add_ellipse((1, 2), (3, 0), 0.5, 0.1, 3.0),
        "SOLID": lambda: msp.add_solid([(0, 0), (1, 0), (0, 1), (1, 1)]),
        "TRACE": lambda: msp.add_trace([(0, 0), (1, 0), (0, 1), (1, 1)]),
        "3DFACE": lambda: msp.add_3dface([(0, 0, 0), (1, 0, 1), (1, 1, 2), (0, 1, 1)]),
        "TEXT": lambda: msp.add_text("text", height=0.5, rotation=15).set_placement((1, 1), (3, 1), ezdxf.enums.TextEntityAlignment.ALIGNED),
        "ATTDEF": lambda: msp.add_attdef("TAG", (1, 1), "text", height=0.4),
        "SHAPE": lambda: msp.add_shape("S1", (1, 1), 2.0),
        "RAY": lambda: msp.add_ray((0, 0), (1, 1, 0)),
        "XLINE": lambda: msp.add_xline((0, 0), (1, 1, 0)),
        "LWPOLYLINE": lambda: msp.add_lwpolyline([(0, 0, 0.1, 0.2, 0.5), (3, 0), (3, 3, 0, 0, -1)], close=True, dxfattribs={"const_width": 0.3, "elevation": 2}),
        "POLYLINE": polyline2d, "POLYLINE/3d": polyline3d, "POLYLINE/mesh": polymesh, "POLYLINE/face": polyface,
        "SPLINE": spline,
        "HELIX": lambda: msp.add_helix(2, 1, 3),
        "HATCH": hatch, "HATCH/gradient": hatch_gradient, "MPOLYGON": mpolygon,
        "MTEXT": mtext, "MTEXT/columns": mtext_columns, "MTEXT/linked-columns": mtext_linked_columns,
        "MESH": mesh, "MLINE": mline, "LEADER": leader,
        "MULTILEADER": mleader_mtext, "MULTILEADER/block": mleader_block,
        "MLEADER": raw("MLEADER"),
        "IMAGE": image, "WIPEOUT": wipeout,
        "PDFUNDERLAY": underlay("pdf"), "DWFUNDERLAY": underlay("dwf"), "DGNUNDERLAY": underlay("dgn"),
        "PDFREFERENCE": raw("PDFREFERENCE"),
        "INSERT": insert,
        "VIEWPORT": viewport,
        "DIMENSION": dimension, "DIMENSION/radius": radius_dimension, "ARC_DIMENSION": arc_dimension, "LARGE_RADIAL_DIMENSION": large_radial,
        "TOLERANCE": raw("TOLERANCE", content="{\\Fgdt;j}%%v0.1", insert=(1, 1), dimstyle="EZDXF"),
        "LIGHT": raw("LIGHT", name="L1", location=(1, 2, 3), target=(0, 0, 0)),
        "BODY": acis("add_body"), "REGION": acis("add_region"), "3DSOLID": acis("add_3dsolid"), "SURFACE": acis("add_surface"),
        "EXTRUDEDSURFACE": surface_m("add_extruded_surface", ["transformation_matrix_extruded_entity", "sweep_entity_transformation_matrix", "path_entity_transformation_matrix"]),
        "LOFTEDSURFACE": surface_m("add_lofted_surface", ["transformation_matrix_lofted_entity"]),
        "REVOLVEDSURFACE": surface_m("add_revolved_surface", ["transformation_matrix_revolved_entity"]),
        "SWEPTSURFACE": surface_m("add_swept_surface", ["transformation_matrix_sweep_entity", "transformation_matrix_path_entity", "sweep_entity_transformation_matrix", "path_entity_transformation_matrix"]),
        "VERTEX": raw("VERTEX", location=(1, 2, 3), bulge=0.5),
        "ATTRIB": raw("ATTRIB", tag="T", text="v", insert=(1, 1)),
        "SEQEND": raw("SEQEND"),
        # objects
        "DICTIONARY": dictionary, "DICTIONARY/soft": dictionary_soft, "ACDBDICTIONARYWDFLT": dict_with_default, "ACDBDICTIONARYWDFLT/soft": dict_with_default_soft,
        "DICTIONARYVAR": lambda: objs.add_dictionary_var(objs.rootdict.dxf.handle, "val"),
        "ACDBPLACEHOLDER": lambda: objs.add_placeholder(objs.rootdict.dxf.handle),
        "XRECORD": xrecord,
        "IMAGEDEF": lambda: doc.add_image_def("i2.png", (10, 10)),
        "IMAGEDEF_REACTOR": lambda: objs.add_image_def_reactor("FF"),
        "PDFDEFINITION": lambda: doc.add_underlay_def("x.pdf", fmt="pdf", name="1"),
        "DWFDEFINITION": lambda: doc.add_underlay_def("x.dwf", fmt="dwf", name="1"),
        "DGNDEFINITION": lambda: doc.add_underlay_def("x.dgn", fmt="dgn", name="1"),
        "SORTENTSTABLE": sortents, "VBA_PROJECT": vba,
        "IDBUFFER": idbuffer("IDBUFFER"), "FIELDLIST": idbuffer("FIELDLIST"), "LAYER_FILTER": idbuffer("LAYER_FILTER"),
        "SPATIAL_FILTER": spatial_filter, "VISUALSTYLE": visualstyle,
        "MLINESTYLE": mlinestyle, "MATERIAL": material,
        "MLEADERSTYLE": lambda: doc.mleader_styles.new(U("VERIF_MLST")),
        "SUN": raw("SUN"), "RASTERVARIABLES": raw("RASTERVARIABLES"), "WIPEOUTVARIABLES": raw("WIPEOUTVARIABLES"),
        "PLOTSETTINGS": raw("PLOTSETTINGS"), "LAYOUT": dxflayout,
        # tables
        "LAYER": lambda: doc.layers.new(U("VERIF_LAYER"), dxfattribs={"color": 2, "linetype": "DASHED"}),
        "LTYPE": ltype, "LTYPE/complex": ltype_complex,
        "STYLE": lambda: doc.styles.new(U("VERIF_STYLE"), dxfattribs={"font": "arial.ttf"}),
        "DIMSTYLE": lambda: doc.dimstyles.new(U("VERIF_DIMSTYLE"), dxfattribs={"dimtxt": 0.7}),
        "APPID": lambda: doc.appids.new(U("VERIF_APPID")),
        "UCS": lambda: doc.ucs.new(U("VERIF_UCS"), dxfattribs={"origin": (1, 2, 3)}),
        "VIEW": lambda: doc.views.new(U("VERIF_VIEW")),
        "VPORT": lambda: doc.viewports.new(U("VERIF_VPORT")),
        "BLOCK_RECORD": block_record, "BLOCK": block, "ENDBLK": endblk,
        "TABLE": raw("TABLE", name="VERIF"),
        "CLASS": raw("CLASS", name="VERIFCLS", cpp_class_name="AcDbVerif", app_name="verif"),
    }
    return b



# SHAPE is left out: Shape.transform() raises DXFAttributeError (reads dxf.x_scale, the attribute is xscale)
GRAPHIC_IN_BLOCK = ["LINE", "POINT", "CIRCLE", "ARC", "ELLIPSE", "SOLID", "TRACE", "3DFACE", "TEXT", "RAY", "XLINE",
                    "LWPOLYLINE", "POLYLINE", "POLYLINE/3d", "POLYLINE/mesh", "POLYLINE/face", "SPLINE", "HELIX", "HATCH",
                    "HATCH/gradient", "MPOLYGON", "MTEXT", "MTEXT/columns", "MTEXT/linked-columns", "MESH", "MLINE", "LEADER", "MULTILEADER",
                    "MULTILEADER/block", "IMAGE", "WIPEOUT", "PDFUNDERLAY", "INSERT", "DIMENSION", "DIMENSION/radius",
                    "ARC_DIMENSION", "TOLERANCE", "LIGHT", "BODY", "REGION", "3DSOLID", "SURFACE", "EXTRUDEDSURFACE",
                    "LOFTEDSURFACE", "REVOLVEDSURFACE", "SWEPTSURFACE", "ATTDEF"]


def build_block_with_everything(doc, builders, name="ALLBLK"):
    """a block definition holding one instance of every graphic entity type + an INSERT of it"""
    blk = doc.blocks.new(name)
    for n in GRAPHIC_IN_BLOCK:
        e = builders[n]()
        e.set_xdata("VERIF", [(1000, n)])
        layout = e.get_layout()
        if layout is not None:
            layout.move_to_layout(e, blk)
        else:
            blk.add_entity(e)
    return blk


def is_graphic(e) -> bool:
    from ezdxf.entities import DXFGraphic
    return isinstance(e, DXFGraphic)


# ----------------------------------------------------------------------------- sharing analysis
def norm_label(label: str) -> str:
    if label.isdigit():
        return "#"
    if label.startswith("["):
        return "[]"
    return label


def sharing(g: Graph, a: int, b: int):
    """-> (reach a, reach b, [(node, ownerType, via)] entries of the shared mutable region, shared mutable set)
    an entry is a shared mutable node owned by a node outside the shared mutable region (or a root)"""
    ra, rb = g.reach(a), g.reach(b)
    shm = {i for i in ra & rb if g.nodes[i]["kind"] != KIND_IMM}
    entries = {}
    for i in sorted(rb) + sorted(ra - rb):  # owners on the side of the copy / produced objects first
        if i in shm:
            continue
        for label, j in g.nodes[i]["edges"]:
            if j in shm and j not in entries:
                # climb through containers that are themselves not shared
                owner, via = i, norm_label(label)
                while isinstance(g.nodes[owner]["obj"], (list, tuple, dict, set, frozenset, collections.deque)) and g.nodes[owner]["parent"]:
                    pid, plabel = g.nodes[owner]["parent"]
                    via = norm_label(plabel) + ("[]" if via in ("#", "[]") else "." + via) if not via.startswith("[]") and via not in ("#", "[]") else norm_label(plabel) + "[]"
                    owner = g.index[pid]
                oo = g.nodes[owner]["obj"]
                # a hard owned DICTIONARY (every extension dictionary) owns its entries: they are not soft pointers
                if via.startswith("_data") and tname(oo) in ("Dictionary", "DictionaryWithDefault") and _hard_owned(oo):
                    via = "_data(hard-owned)" + via[len("_data"):]
                entries[j] = (g.nodes[owner]["type"], via)
    for r in (a, b):
        if r in shm and r not in entries:
            entries[r] = ("<root>", "<root>")
    return ra, rb, [(j, t, v) for j, (t, v) in entries.items()], shm


# mirror of Heap.allowedFrozen (Model/Heap.lean); the Lean theorem candidates_frozen_partial is the authority: every
# candidate is emitted to Gen/HeapGraphs.lean whether or not it is listed here
FROZEN_RULES = [
    ("ImageDef", "*", "_image_def"), ("PdfDefinition", "*", "_underlay_def"), ("DwfDefinition", "*", "_underlay_def"),
    ("DgnDefinition", "*", "_underlay_def"), ("*", "Dictionary", "_data[]"), ("*", "DictionaryWithDefault", "_data[]"),
    ("*", "DictionaryWithDefault", "_default"), ("Matrix44", "SpatialFilter", "_inverse_insert_matrix"),
    ("Matrix44", "SpatialFilter", "_transform_matrix"), ("*", "*", "entity"),
]


def rule_covers(r, c) -> bool:
    return (r[0] == "*" or r[0] == c[0]) and (r[1] == "*" or r[1] == c[1]) and r[2] == c[2]


def frozen_region(g: Graph, a: int, b: int):
    """node indices of the shared mutable region entered through an entry on the Frozen list"""
    _, _, entries, shm = sharing(g, a, b)
    out = set()
    for j, t, v in entries:
        c = (g.nodes[j]["type"], t, v)
        if any(rule_covers(r, c) for r in FROZEN_RULES):
            todo = [j]
            while todo:
                i = todo.pop()
                if i in out:
                    continue
                out.add(i)
                todo += [k for _, k in g.nodes[i]["edges"] if k in shm]
    return out


def _hard_owned(d) -> bool:
    try:
        return bool(d.dxf.get("hard_owned", 0))
    except Exception:
        return False


def candidates_of(g: Graph, a: int, b: int):
    """[(typename of the shared object, owner type, via)] for the entries of the shared mutable region"""
    _, _, entries, _ = sharing(g, a, b)
    return sorted({(g.nodes[j]["type"], t, v) for j, t, v in entries})


# ----------------------------------------------------------------------------- scenarios
BOUND_KINDS = ("copy_to_layout", "duplicate_entity", "copy_to_layout-of-copy")
UNBOUND_KINDS = ("copy", "copy-of-copy", "siblings")


def copy_kinds(e, doc):
    """name -> function(entity) producing a copy by the three public routes"""
    kinds = {"copy": lambda x: x.copy()}
    if is_graphic(e):
        kinds["copy_to_layout"] = lambda x: x.copy_to_layout(doc.blocks.get("TARGET") or doc.blocks.new("TARGET"))
    kinds["duplicate_entity"] = lambda x: doc.entitydb.duplicate_entity(x)
    return kinds


def generation_kinds(e, doc):
    """second generation copies: name -> prep(source) -> (effective source, make_copy).  copy_data methods that
    branch on the state of the source (DIMENSION: "another copy of a virtual entity", dictionaries: entries
    without owner) take a different path for a source that is itself an unbound copy.
      copy-of-copy : template = source.copy(); pair (template, template.copy())
      siblings     : template = source.copy(); pair (template.copy(), template.copy())
      bound-copy-of-copy : pair (template, template.copy_to_layout(block) / duplicate of it)"""
    def of_copy(src):
        t = src.copy()
        return t, (lambda x: x.copy())

    def siblings(src):
        t = src.copy()
        return t.copy(), (lambda x, t=t: t.copy())

    kinds = {"copy-of-copy": of_copy, "siblings": siblings}
    if is_graphic(e):
        def bound_of_copy(src):
            t = src.copy()
            return t, (lambda x: x.copy_to_layout(doc.blocks.get("TARGET") or doc.blocks.new("TARGET")))
        kinds["copy_to_layout-of-copy"] = bound_of_copy
    return kinds


def virtual_scenarios(doc, builders):
    """(name, source roots, producer) : producer() -> list of produced objects (virtual entities, primitives...)"""
    from ezdxf import disassemble, explode, path as ezpath

    out = []
    blk = build_block_with_everything(doc, builders)
    msp = doc.modelspace()
    ins = msp.add_blockref("ALLBLK", (5, 5), dxfattribs={"rotation": 30, "xscale": 2, "yscale": 2, "zscale": 2})
    ins.add_auto_attribs({"TAG": "value"})
    ins2 = msp.add_blockref("ALLBLK", (1, 1), dxfattribs={"xscale": 2, "yscale": 3})
    out.append(("INSERT(ALLBLK):virtual_entities", [ins, blk], lambda: list(ins.virtual_entities())))
    out.append(("INSERT(ALLBLK,nonuniform):virtual_entities", [ins2, blk], lambda: list(ins2.virtual_entities())))
    # recursive_decompose passes simple input entities and the ATTRIBs of an INSERT through as they are (documented:
    # "flat stream of DXF entities"); only the virtual (unbound) results are products
    out.append(("INSERT(ALLBLK):disassemble.recursive_decompose", [ins, blk], lambda: [x for x in disassemble.recursive_decompose([ins]) if x.dxf.handle is None]))
    for n in ["LWPOLYLINE", "POLYLINE", "POLYLINE/3d", "POLYLINE/mesh", "POLYLINE/face", "DIMENSION", "DIMENSION/radius",
              "ARC_DIMENSION", "LEADER", "MLINE", "MULTILEADER", "MULTILEADER/block", "MTEXT/columns", "MTEXT/linked-columns"]:
        e = builders[n]()
        if hasattr(e, "virtual_entities"):
            out.append((f"{n}:virtual_entities", [e], (lambda e=e: list(e.virtual_entities()))))
    p = builders["POINT"]()
    out.append(("POINT:virtual_entities", [p], lambda: list(p.virtual_entities(pdsize=1, pdmode=35))))
    h = builders["HATCH"]()
    out.append(("HATCH:explode.virtual_boundary_path_entities", [h], lambda: [x for grp in explode.virtual_boundary_path_entities(h) for x in grp]))
    for n in GRAPHIC_IN_BLOCK:
        if n in ("ATTDEF",):
            continue
        e = builders[n]()
        out.append((f"{n}:disassemble.to_primitives", [e], (lambda e=e: _primitive_data(list(disassemble.to_primitives(disassemble.recursive_decompose([e])))))))
    return out


def _primitive_data(prims):
    """the geometry a primitive hands out (path / mesh / vertices), next to the primitive itself"""
    out = []
    for p in prims:
        out.append(p)
        for get in (lambda: p.path, lambda: p.mesh, lambda: list(p.vertices())):
            try:
                v = get()
            except Exception:
                continue
            if v is not None:
                out.append(v)
    return out


def document_pairs():
    """(name, docA, docB)"""
    import os
    import tempfile
    from ezdxf import recover

    out = []
    for ver in ("R12", "R2000", "R2007", "R2013", "R2018"):
        for setup in (False, True):
            out.append((f"new({ver},setup={setup}) x2", ezdxf.new(ver, setup=setup), ezdxf.new(ver, setup=setup)))
    out.append(("new(R12) / new(R2018,setup)", ezdxf.new("R12"), ezdxf.new("R2018", setup=True)))
    doc = new_doc()
    b = B(doc)
    for name, f in b.items():
        decorate(f(), doc)
    fd, p = tempfile.mkstemp(suffix=".dxf")
    os.close(fd)
    try:
        doc.saveas(p)
        d3, d4 = ezdxf.readfile(p), ezdxf.readfile(p)
        d5, _ = recover.readfile(p)
    finally:
        os.remove(p)
    out.append(("populated new / readfile of it", doc, d3))
    out.append(("readfile x2", d3, d4))
    out.append(("readfile / recover.readfile", d4, d5))
    out.append(("new(R2018) / readfile", ezdxf.new("R2018"), d3))
    return out


# ----------------------------------------------------------------------------- regenerate (T-heap)
ID = "C16"
LEAN_MODULES = ["EzdxfVerif.Props.C16"]
DRIVER_DEPS = ["EzdxfVerif.Model.Heap", "EzdxfVerif.Model.HeapRecipe", "Drivers.Proto"]
GEN_SOURCES = [
    "src/ezdxf/entities/copy.py", "src/ezdxf/entities/dxfentity.py", "src/ezdxf/entities/dxfns.py",
    "src/ezdxf/entities/dxfgfx.py", "src/ezdxf/entities/xdict.py", "src/ezdxf/entities/xdata.py",
    "src/ezdxf/entities/appdata.py", "src/ezdxf/entities/dictionary.py", "src/ezdxf/entities/subentity.py",
    "src/ezdxf/entitydb.py", "src/ezdxf/explode.py", "src/ezdxf/disassemble.py", "src/ezdxf/document.py",
    "src/ezdxf/tools/standards.py", "src/ezdxf/entities/factory.py",
]


def lean_rule(t):
    return "(" + ", ".join(lean_str(x) for x in t) + ")"


def graph_to_lean(g: Graph, a: int, b: int) -> str:
    ra, rb, entries, shm = sharing(g, a, b)
    ids = sorted(ra | rb)
    ren = {old: new for new, old in enumerate(ids)}
    kind = {KIND_IMM: ".imm", KIND_CELL: ".cell", KIND_CONT: ".cont"}
    nodes = []
    for i in ids:
        succ = []
        for _, j in g.nodes[i]["edges"]:
            if ren[j] not in succ:
                succ.append(ren[j])
        nodes.append(f"({kind[g.nodes[i]['kind']]}, [{', '.join(map(str, succ))}])")
    # frozen region in BFS order from the entries
    frozen, seen, queue = [], set(), []
    for j, t, v in entries:
        frozen.append(f"⟨{ren[j]}, some {lean_rule((g.nodes[j]['type'], t, v))}, none⟩")
        seen.add(j)
        queue.append(j)
    while queue:
        p = queue.pop(0)
        for _, j in g.nodes[p]["edges"]:
            if j in shm and j not in seen:
                seen.add(j)
                queue.append(j)
                frozen.append(f"⟨{ren[j]}, none, some {ren[p]}⟩")
    return ("{ nodes := " + lean_list(nodes, 8) + ",\n    rootA := %d, rootB := %d,\n    reachA := %s,\n    reachB := %s,\n    frozen := %s }" % (
        ren[a], ren[b], lean_list((str(ren[i]) for i in sorted(ra)), 40), lean_list((str(ren[i]) for i in sorted(rb)), 40),
        lean_list(frozen, 2)))


def extract(ctx=None):
    """-> (graphs [(name, lean text)], candidates [(scenario, sharedType, ownerType, via)], nav [(kind, name)], stats)"""
    graphs, cands, nav, stats = [], [], set(), {"nodes": 0, "scenarios": 0}

    def note_nav(g):
        for n in g.nodes:
            for label, tn, _ in n["nav"]:
                nav.add(("target", tn) if tn in NAV_TARGET_TYPES else ("attr", label))

    doc = new_doc()
    b = B(doc)
    for name, f in b.items():
        e = f()
        decorate(e, doc)
        for kname, kf in copy_kinds(e, doc).items():
            try:
                c = kf(e)
            except ezdxf.DXFError as ex:
                if kname == "copy":
                    raise ValueError(f"{name}: copy() raised {type(ex).__name__}: {ex}")
                continue
            g = Graph()
            x, y = g.add(e), g.add(c)
            note_nav(g)
            stats["scenarios"] += 1
            if kname == "copy":
                graphs.append((f"{name}/copy", graph_to_lean(g, x, y)))
                stats["nodes"] += len(g.reach(x) | g.reach(y))
                # a recipe that branches on the state of the source (DIMENSION: virtual block content, MTEXT: columns,
                # sub-entities: seqend) takes the other branch for a source that is itself a copy: second generation
                try:
                    row = program_row(e)[1]
                except Opaque:
                    row = None
                if row is not None and (any(pp[0] == "cond" for pp in row["parts"].values()) or any(t is not None for _, t, _ in row["nsdrop"])):
                    g2 = Graph()
                    x2, y2 = g2.add(c), g2.add(c.copy())
                    note_nav(g2)
                    graphs.append((f"{name}/copy-of-copy", graph_to_lean(g2, x2, y2)))
                    stats["nodes"] += len(g2.reach(x2) | g2.reach(y2))
                    stats["scenarios"] += 1
                    for c3 in candidates_of(g2, x2, y2):
                        cands.append((f"copy-of-copy/{name}",) + c3)
            for c3 in candidates_of(g, x, y):
                cands.append((f"{kname}/{name}",) + c3)
    doc = new_doc()
    b = B(doc)
    for name, roots, produce in virtual_scenarios(doc, b):
        try:
            made = produce()
        except Exception as ex:  # a producer that is broken on its own (not C16's subject) is skipped, visibly
            if ctx is not None:
                ctx.note(f"T-heap scenario {name} skipped: producer raised {type(ex).__name__}: {str(ex)[:80]}")
            continue
        g = Graph()
        x, y = g.add(list(roots)), g.add(list(made))
        note_nav(g)
        stats["scenarios"] += 1
        for c3 in candidates_of(g, x, y):
            cands.append((name,) + c3)
    for name, d1, d2 in document_pairs():
        g = Graph()
        x, y = g.add(d1), g.add(d2)
        note_nav(g)
        stats["scenarios"] += 1
        for c3 in candidates_of(g, x, y):
            cands.append((name,) + c3)
        stats.setdefault("doc_pairs", []).append((name, len(sharing(g, x, y)[3])))  # shared mutable objects of the two documents
    return graphs, sorted(set(cands)), sorted(nav), stats


def regenerate(ctx):
    for s in GEN_SOURCES:
        ctx.src(s)
    import glob
    import os
    from runner import REPO
    srcs = list(GEN_SOURCES)
    for p in sorted(glob.glob(str(REPO / "src/ezdxf/entities/*.py"))):
        rel = os.path.relpath(p, REPO)
        if rel not in srcs:
            ctx.src(rel)
            srcs.append(rel)
    graphs, cands, nav, stats = extract(ctx)
    text = "import EzdxfVerif.Model.Heap\nimport EzdxfVerif.Model.HeapRecipe\n\nnamespace EzdxfVerif.Gen.HeapGraphs\nopen EzdxfVerif.Heap\n\n"
    text += f"/- object graphs of (source, source.copy()) for one fully populated instance per registered entity class:\n    {len(graphs)} graphs, {stats['nodes']} nodes -/\n"
    names = []
    for i, (name, gtext) in enumerate(graphs):
        text += f"/-- {name} -/\ndef g{i} : Graph :=\n  {gtext}\n\n"
        names.append(f"({lean_str(name)}, g{i})")
    text += f"def graphs : List (String × Graph) := {lean_list(names, 4)}\n\n"
    text += "/-- entries of the shared mutable region for every scenario (copy routes, virtual entities, document pairs):\n    (scenario, (type of the shared object, type of its owner, attribute)) -/\n"
    text += f"def candidates : List (String × Rule) := {lean_list((f'({lean_str(c[0])}, {lean_rule(c[1:])})' for c in cands), 1)}\n\n"
    text += f"def navUsed : List (String × String) := {lean_list((lean_rule(n) for n in nav), 4)}\n\n"
    text += f"def scenarioCount : Nat := {stats['scenarios']}\n\n"
    text += "/-- document pairs: (scenario, number of mutable objects reachable from BOTH documents) -/\n"
    text += f"def docPairs : List (String × Nat) := {lean_list((f'({lean_str(n)}, {k})' for n, k in stats.get('doc_pairs', [])), 2)}\n\n"
    from ezdxf.entities import factory
    rows, opaque = [], []
    for cls in sorted(set(factory.ENTITY_CLASSES.values()), key=lambda c: c.__name__):
        r = recipe_of(cls)
        own = [k for k in cls.__mro__ if "copy_data" in vars(k)]
        for part, pol in sorted(r["parts"].items()):
            rows.append((cls.__name__, part, pol))
        if r["opaque"]:
            opaque.append((cls.__name__, r["opaque"].replace("\n", " ")[:60]))
    text += "/-- copy_data recipes derived from the source text of the copy_data methods (T-ast): (class, assigned part, policy) -/\n"
    text += f"def recipes : List (String × String × String) := {lean_list((lean_rule(r) for r in rows), 3)}\n\n"
    text += "/-- classes whose copy()/copy_data is not in the modelled subset (covered by graphs and oracle only) -/\n"
    text += f"def opaqueRecipes : List (String × String) := {lean_list((lean_rule(r) for r in opaque), 2)}\n\n"
    text += programs_to_lean()
    gtab = scan_globals(globals_battery, warm=True)
    text += ("/-- T-heap for module level state: every module / class level mutable object, mutable default argument and lru cache of the\n"
             "    loaded ezdxf modules with the result of the write-barrier probe: (qualified name, kind, stable | handed-out | changed) -/\n")
    text += f"def globalsTable : List (String × String × String) := {lean_list((lean_rule(r) for r in gtab), 2)}\n\n"
    from translate.floweffects_c16 import scan_flows
    fe, nfun, nstmt, fmissing = scan_flows()
    text += ("/-- T-ast for the flows: every store / call with unknown effect / hand-out in the flow functions that does not concern a\n"
             "    product of the function: (function, kind, text) -/\n")
    text += f"def flowEffects : List (String × String × String) := {lean_list((lean_rule(r) for r in fe), 1)}\n\n"
    text += f"def flowMissing : List (String × String × String) := {lean_list((lean_rule(r) for r in fmissing), 1)}\n\n"
    text += f"def flowFunctionCount : Nat := {nfun}\n\ndef flowStatementCount : Nat := {nstmt}\n\n"
    ctx.note(f"T-ast flows: {nfun} flow functions, {nstmt} statements, {len(fe)} effects outside produce / write-through-product")
    bad = [r for r in gtab if r[2] != "stable"]
    ctx.note(f"T-heap globals: {len(gtab)} module/class level mutable objects, default arguments and caches; not stable: {bad[:8]}")
    P = programs()
    ctx.note(f"T-ast programs: {len(P['rows'])} class recipes, {len(P['methods'])} copy methods scanned, {len(P['untranslated'])} untranslated"
             + "".join(f"; UNTRANSLATED {a}: {b[:80]}" for a, b in P["untranslated"][:6]))
    text += "end EzdxfVerif.Gen.HeapGraphs\n"
    ctx.note(f"T-ast: {len(rows)} part policies derived from copy_data source text, {len(opaque)} classes outside the subset")
    ctx.write_gen("HeapGraphs", text, srcs)
    ctx.note(f"T-heap: {len(graphs)} full graphs ({stats['nodes']} nodes), {stats['scenarios']} scenarios, {len(cands)} sharing candidates")


# ----------------------------------------------------------------------------- mutators (public API)
def _attr_values(e, name, rng):
    """candidate new values for DXF attribute `name`, by declared type"""
    from ezdxf.lldxf import types as T
    from ezdxf.lldxf.attributes import XType

    attr = e.DXFATTRIBS.get(name)
    cur = e.dxf.get(name)
    k = rng.randint(2, 9)
    if attr.xtype in (XType.point2d, XType.point3d, XType.any_point) or attr.code in T.POINT_CODES:
        base = Vec3(cur) if cur is not None else Vec3(0, 0, 0)
        return [base + Vec3(k, 1, 0), Vec3(k, k, 0), Vec3(1, 0, 0), Vec3(0, 0, 1)]
    ty = T.tag_type(attr.code)
    if isinstance(cur, bool):
        return [not cur]
    if ty is int or isinstance(cur, int):
        c = cur if isinstance(cur, int) else 0
        return [c + 1, c ^ 1, 1, 0, 2, 3, 5, 8, 16, 64, 256, c - 1]
    if ty is float or isinstance(cur, float):
        c = float(cur) if isinstance(cur, (int, float)) else 0.0
        return [c + 0.5, c * 2 + 1, 0.25, 1.0, 30.0]
    if ty is bytes or isinstance(cur, bytes):
        return [b"\x01\x02" + bytes([k])]
    c = cur if isinstance(cur, str) else ""
    return [c + "X", f"V{k}", "ABC", "1F", "Standard", "0", "CONTINUOUS", "BYLAYER"]


def set_attr(e, name, rng) -> bool:
    """set DXF attribute `name` to a different valid value through dxf.set(); False if no candidate is accepted"""
    old = e.dxf.get(name)
    for v in _attr_values(e, name, rng):
        try:
            if old is not None and (v == old or (isinstance(old, Vec3) and Vec3(v).isclose(old))):
                continue
        except Exception:
            pass
        try:
            e.dxf.set(name, v)
        except Exception:
            continue
        return True
    return False


SKIP_ATTRS = {"handle"}  # the handle is the identity of a database entry; changing it is not a mutation of content


def generic_mutators(e, rng):
    out = []
    names = [n for n in e.DXFATTRIBS._attribs if n not in SKIP_ATTRS]
    for n in names:
        attr = e.DXFATTRIBS.get(n)
        if attr is None or attr.name != n:  # alias
            continue
        out.append((f"dxf.set:{n}", lambda x, n=n: set_attr(x, n, rng)))
    for n in names:
        if e.dxf.hasattr(n):
            out.append((f"dxf.discard:{n}", lambda x, n=n: x.dxf.discard(n)))
    out += [
        ("xdata.set_xdata", lambda x: x.set_xdata("VERIF", [(1000, "changed"), (1070, 99)])),
        ("xdata.set_new_appid", lambda x: x.set_xdata("VERIF2", [(1000, "new")])),
        ("xdata.inplace_append", lambda x: x.get_xdata("VERIF").append(DXFTag(1000, "appended"))),
        ("xdata.inplace_setitem", lambda x: x.get_xdata("VERIF").__setitem__(1, DXFTag(1000, "replaced"))),
        ("xdata.inplace_clear", lambda x: x.get_xdata("VERIF").clear()),
        ("xdata.discard", lambda x: x.discard_xdata("VERIF")),
        ("xdata.set_xdata_list", lambda x: x.set_xdata_list("VERIF", "LST", [(1000, "item"), (1070, 1)])),
        ("xdata.replace_xdata_list", lambda x: (x.set_xdata_list("VERIF", "LST", [(1000, "item")]), x.replace_xdata_list("VERIF", "LST", [(1000, "other"), (1070, 2)]))),
        ("xdata.discard_xdata_list", lambda x: (x.set_xdata_list("VERIF", "LST", [(1000, "item")]), x.discard_xdata_list("VERIF", "LST"))),
        ("xdata.user_list", lambda x: _xdata_user_list(x)),
        ("xdata.user_dict", lambda x: _xdata_user_dict(x)),
        ("xdata.data_dict", lambda x: x.xdata.data.pop("VERIF")),
        ("appdata.set", lambda x: x.set_app_data("VERIF_APP", [(1, "changed")])),
        ("appdata.set_new", lambda x: x.set_app_data("VERIF_APP2", [(1, "new")])),
        ("appdata.inplace_append", lambda x: x.get_app_data("VERIF_APP").append(DXFTag(1, "appended"))),
        ("appdata.discard", lambda x: x.discard_app_data("VERIF_APP")),
        ("reactors.append", lambda x: x.append_reactor_handle("EF")),
        ("reactors.discard", lambda x: x.discard_reactor_handle("AB")),
        ("reactors.set", lambda x: x.set_reactors(["11", "22"])),
        ("xdict.add_xrecord", lambda x: _xd(x).add_xrecord("NEWREC").tags.append(DXFTag(1, "n"))),
        ("xdict.xrecord_tags_append", lambda x: _xd(x)["XREC"].tags.append(DXFTag(1, "more"))),
        ("xdict.xrecord_tags_setitem", lambda x: _xd(x)["XREC"].tags.__setitem__(0, DXFTag(1, "other"))),
        ("xdict.xrecord_reset", lambda x: _xd(x)["XREC"].reset([(1, "reset")])),
        ("xdict.xrecord_cloning", lambda x: setattr(_xd(x)["XREC"].dxf, "cloning", 0)),
        ("xdict.dictvar_value", lambda x: setattr(_xd(x)["DVAR"].dxf, "value", "changed")),
        ("xdict.discard_entry", lambda x: _xd(x).discard("DVAR")),
        ("xdict.subdict_inner_tags", lambda x: _xd(x)["SUBDICT"]["INNER"].tags.append(DXFTag(90, 1))),
        ("xdict.subdict_add", lambda x: _xd(x)["SUBDICT"].add_dict_var("V2", "x")),
        ("xdict.subdict_discard", lambda x: _xd(x)["SUBDICT"].discard("INNER")),
        ("xdict.dictionary_attr", lambda x: setattr(_xd(x).dictionary.dxf, "cloning", 2)),
        ("xdict.entry_xdata", lambda x: _xd(x)["XREC"].set_xdata("VERIF", [(1000, "entry")])),
        ("xdict.attached0_tags", lambda x: _xd(x)["ATTACHED0"].tags.append(DXFTag(1, "more"))),
        ("xdict.attached0_reset", lambda x: _xd(x)["ATTACHED0"].reset([(1, "reset")])),
        ("xdict.attached1_tags", lambda x: _xd(x)["ATTACHED1"].tags.append(DXFTag(1, "more"))),
        ("xdict.attached1_attr", lambda x: setattr(_xd(x)["ATTACHED1"].dxf, "cloning", 0)),
        ("xdict.attached2_value", lambda x: setattr(_xd(x)["ATTACHED2"].dxf, "value", "changed")),
        ("xdict.attached3_tags", lambda x: _xd(x)["SUBDICT"]["ATTACHED3"].tags.append(DXFTag(1, "more"))),
        ("xdict.attached0_destroy", lambda x: _xd(x)["ATTACHED0"].destroy()),
    ]
    if is_graphic(e):
        out += [
            ("gfx.rgb", lambda x: setattr(x, "rgb", (9, 8, 7))),
            ("gfx.transparency", lambda x: setattr(x, "transparency", 0.5)),
            ("gfx.set_hyperlink", lambda x: x.set_hyperlink("http://verif", "d", "l")),
        ]
    if hasattr(e, "transform"):
        out += [
            ("transform.translate", lambda x: x.transform(Matrix44.translate(1, 2, 3))),
            ("transform.scale_uniform", lambda x: x.transform(Matrix44.scale(2, 2, 2))),
            ("transform.rotate_z", lambda x: x.transform(Matrix44.z_rotate(0.5))),
            ("transform.twice", lambda x: (x.transform(Matrix44.translate(1, 0, 0)), x.transform(Matrix44.translate(0, 1, 0)))),
        ]
    return out


def _xdata_user_list(x):
    from ezdxf.entities.xdata import XDataUserList
    with XDataUserList.entity(x, name="VERIFLIST", appid="VERIF") as lst:
        lst.append("one")
        lst.append(2)


def _xdata_user_dict(x):
    from ezdxf.entities.xdata import XDataUserDict
    with XDataUserDict.entity(x, name="VERIFDICT", appid="VERIF") as d:
        d["k"] = "v"


def _xd(e):
    xd = e.extension_dict
    if xd is None or not xd.is_alive:
        raise LookupError("no extension dictionary")
    return xd


def specific_mutators(e, rng):
    """class specific mutations through the documented API of each payload"""
    t = type(e).__name__
    out = []
    add = lambda name, fn: out.append((name, fn))
    if t == "LWPolyline":
        add("lw.append", lambda x: x.append((9, 9, 0, 0, 0.5)))
        add("lw.setitem", lambda x: x.__setitem__(0, (7, 7, 1, 1, 1)))
        add("lw.set_points", lambda x: x.set_points([(1, 1), (2, 2)], format="xy"))
        add("lw.clear", lambda x: x.clear())
        add("lw.insert", lambda x: x.insert(1, (5, 5)))
        add("lw.delitem", lambda x: x.__delitem__(0))
        add("lw.points_ctx", lambda x: _ctx(x.points("xyb"), lambda pts: pts.append((4, 4, 1))))
        add("lw.raw_values", lambda x: x.lwpoints.values.__setitem__((0, 0), 123.0))
        add("lw.setitem_last", lambda x: x.__setitem__(len(x) - 1, (8, 8, 0, 0, 0)))
        add("lw.row_view", lambda x: x.lwpoints.values[0].__setitem__(slice(None), 5.0))
        add("lw.vertices_inplace", lambda x: [row.__setitem__(0, row[0] + 1.0) for row in x.lwpoints.values])
    if t in ("Polyline", "Polyface", "Polymesh"):
        add("pl.vertex_location", lambda x: setattr(x.vertices[0].dxf, "location", Vec3(9, 9, 9)))
        add("pl.vertex_bulge", lambda x: setattr(x.vertices[0].dxf, "bulge", 0.75))
        add("pl.vertex_xdata", lambda x: x.vertices[0].set_xdata("VERIF", [(1000, "v")]))
        add("pl.append_vertex", lambda x: x.append_vertex((8, 8, 8)))
        add("pl.insert_vertices", lambda x: x.insert_vertices(0, [(6, 6, 6)]))
        add("pl.delete_vertices", lambda x: x.delete_vertices(0, 1))
        add("pl.vertices_list", lambda x: x.vertices.pop())
        add("pl.seqend_attr", lambda x: setattr(x.seqend.dxf, "layer", "SEQ"))
        add("pl.close", lambda x: x.close(True))
    if t == "Polymesh":
        add("pm.set_mesh_vertex", lambda x: x.set_mesh_vertex((0, 0), (3, 3, 3)))
    if t == "Polyface":
        add("pf.append_face", lambda x: x.append_face([(0, 0, 5), (1, 0, 5), (1, 1, 5)]))
    if t in ("Spline", "Helix"):
        add("sp.control_points_append", lambda x: x.control_points.append((9, 9, 9)))
        add("sp.control_points_setitem", lambda x: x.control_points.__setitem__(0, (7, 7, 7)))
        add("sp.control_points_assign", lambda x: setattr(x, "control_points", [(0, 0), (1, 1)]))
        add("sp.fit_points_append", lambda x: x.fit_points.append((9, 9, 9)))
        add("sp.fit_points_clear", lambda x: x.fit_points.clear())
        add("sp.knots_setitem", lambda x: x.knots.__setitem__(0, 0.5)),
        add("sp.knots_append", lambda x: x.knots.append(9.0))
        add("sp.knots_assign", lambda x: setattr(x, "knots", [0, 0, 1, 1]))
        add("sp.weights_setitem", lambda x: x.weights.__setitem__(0, 3.0))
        add("sp.weights_assign", lambda x: setattr(x, "weights", [1, 1, 1, 1]))
        add("sp.raw_array", lambda x: x._control_points.values.__setitem__(0, 42.0))
    if t in ("Hatch", "MPolygon"):
        add("h.paths.add_polyline_path", lambda x: x.paths.add_polyline_path([(0, 0), (1, 0), (1, 1)]))
        add("h.paths.clear", lambda x: x.paths.clear())
        add("h.path0.vertices_append", lambda x: x.paths[0].vertices.append((9, 9, 0)))
        add("h.path0.vertices_setitem", lambda x: x.paths[0].vertices.__setitem__(0, (7, 7, 1)))
        add("h.path0.set_vertices", lambda x: x.paths[0].set_vertices([(0, 0), (2, 0), (2, 2)]))
        add("h.path0.flags", lambda x: setattr(x.paths[0], "path_type_flags", 16))
        add("h.path0.source_handles", lambda x: x.paths[0].source_boundary_objects.append("AA"))
        add("h.path0.is_closed", lambda x: setattr(x.paths[0], "is_closed", False))
        add("h.paths.pop", lambda x: x.paths.paths.pop())
        add("h.pattern.line_angle", lambda x: setattr(x.pattern.lines[0], "angle", 77.0))
        add("h.pattern.line_dash", lambda x: x.pattern.lines[0].dash_length_items.append(0.5))
        add("h.pattern.lines_append", lambda x: x.pattern.add_line(10, (0, 0), (1, 1), [0.1]))
        add("h.pattern.scale", lambda x: x.pattern.scale(2, 15))
        add("h.set_pattern_fill", lambda x: x.set_pattern_fill("ANSI33", scale=2))
        add("h.set_pattern_fill_default", lambda x: x.set_pattern_fill("ANSI31"))          # scale 1, angle 0: the predefined table as it is
        add("h.set_pattern_fill_iso_default", lambda x: x.set_pattern_fill("ISO02W100"))
        add("h.set_pattern_definition_default", lambda x: x.set_pattern_definition([[45.0, (0.0, 0.0), (0.0, 1.0), [0.5, -0.25]]]))
        add("h.pattern.line_dash_setitem", lambda x: x.pattern.lines[0].dash_length_items.__setitem__(0, 0.75) if x.pattern.lines[0].dash_length_items else x.pattern.lines[0].dash_length_items.append(0.75))
        add("h.set_solid_fill", lambda x: x.set_solid_fill(color=5))
        add("h.set_gradient", lambda x: x.set_gradient((9, 9, 9), (1, 1, 1)))
        add("h.gradient.color1", lambda x: setattr(x.gradient, "color1", (5, 5, 5)))
        add("h.gradient.rotation", lambda x: setattr(x.gradient, "rotation", 1.0))
        add("h.seeds.append", lambda x: x.seeds.append((9, 9)))
        add("h.set_seed_points", lambda x: x.set_seed_points([(3, 3)]))
        add("h.edge.line_start", lambda x: setattr(_edge(x, "LineEdge"), "start", Vec2(9, 9)))
        add("h.edge.arc_radius", lambda x: setattr(_edge(x, "ArcEdge"), "radius", 9.0))
        add("h.edge.ellipse_ratio", lambda x: setattr(_edge(x, "EllipseEdge"), "ratio", 0.9))
        add("h.edge.spline_cp", lambda x: _edge(x, "SplineEdge").control_points.append(Vec2(9, 9)))
        add("h.edge.spline_knots", lambda x: _edge(x, "SplineEdge").knot_values.append(2.0))
        add("h.edge.spline_fit", lambda x: _edge(x, "SplineEdge").fit_points.append(Vec2(9, 9)))
        add("h.edgepath.add_line", lambda x: _edgepath(x).add_line((5, 5), (6, 6)))
        add("h.edgepath.edges_pop", lambda x: _edgepath(x).edges.pop())
    if t == "MText":
        add("mt.text_assign", lambda x: setattr(x, "text", x.text + " more"))
        add("mt.set_location", lambda x: x.set_location((9, 9), rotation=10, attachment_point=5))
        add("mt.set_bg_color", lambda x: x.set_bg_color(5))
        add("mt.columns_count", lambda x: setattr(x._columns, "count", 7))
        add("mt.columns_heights", lambda x: x._columns.heights.append(5.0))
        add("mt.columns_linked_text", lambda x: setattr(x._columns.linked_columns[0], "text", "changed"))
        add("mt.columns_linked_attr", lambda x: setattr(x._columns.linked_columns[0].dxf, "layer", "COL"))
    if t == "Mesh":
        add("me.edit_data", lambda x: _ctx(x.edit_data(), lambda d: (d.vertices.append(Vec3(5, 5, 5)), d.faces.append((0, 1, 4)))))
        add("me.vertices_append", lambda x: x.vertices.append((9, 9, 9)))
        add("me.vertices_setitem", lambda x: x.vertices.__setitem__(0, (7, 7, 7)))
        add("me.faces_append", lambda x: x.faces.append([0, 1, 2]))
        add("me.edges_append", lambda x: x.edges.append((2, 3)))
        add("me.creases_append", lambda x: x.creases.append(1.0))
        add("me.creases_setitem", lambda x: x.creases.__setitem__(0, 9.0))
        add("me.face_inplace_reverse", lambda x: [f.reverse() for f in x.faces])
        add("me.face_inplace_setitem", lambda x: x.faces[0].__setitem__(0, 3))
        add("me.edge_inplace", lambda x: x.edges.values.__setitem__(0, 3) if hasattr(x.edges, "values") else _raise())
    if t == "MLine":
        add("ml.extend", lambda x: x.extend([(9, 9)]))
        add("ml.clear", lambda x: x.clear())
        add("ml.vertex_location", lambda x: setattr(x.vertices[0], "location", Vec3(7, 7, 7)))
        add("ml.vertex_line_params", lambda x: x.vertices[0].line_params.__class__ is tuple or x.vertices[0].line_params.append((9.0,)))
        add("ml.vertex_fill_params", lambda x: setattr(x.vertices[0], "fill_params", [(1.0, 2.0)]))
        add("ml.vertices_pop", lambda x: x.vertices.pop())
        add("ml.set_scale_factor", lambda x: x.set_scale_factor(3))
        add("ml.set_justification", lambda x: x.set_justification(2))
        add("ml.update_geometry", lambda x: x.update_geometry())
    if t == "Leader":
        add("le.vertices_append", lambda x: x.vertices.append(Vec3(9, 9, 9)))
        add("le.vertices_setitem", lambda x: x.vertices.__setitem__(0, Vec3(7, 7, 7)))
        add("le.set_vertices", lambda x: x.set_vertices([(0, 0), (3, 3)]))
    if t in ("MultiLeader", "MLeader"):
        add("mld.context.scale", lambda x: setattr(x.context, "scale", 9.0))
        add("mld.context.base_point", lambda x: setattr(x.context, "base_point", Vec3(9, 9, 9)))
        add("mld.context.leaders_pop", lambda x: x.context.leaders.pop())
        add("mld.leader.attr", lambda x: setattr(x.context.leaders[0], "dogleg_length", 99.0))
        add("mld.leader.lines_pop", lambda x: x.context.leaders[0].lines.pop())
        add("mld.leaderline.vertices", lambda x: x.context.leaders[0].lines[0].vertices.append(Vec3(9, 9, 9)))
        add("mld.leaderline.breaks", lambda x: x.context.leaders[0].lines[0].breaks.append(Vec3(1, 1, 1)))
        add("mld.leader.breaks", lambda x: x.context.leaders[0].breaks.append(Vec3(1, 1, 1)))
        add("mld.mtext.default_content", lambda x: setattr(x.context.mtext, "default_content", "changed"))
        add("mld.mtext.insert", lambda x: setattr(x.context.mtext, "insert", Vec3(9, 9, 9)))
        add("mld.block.insert", lambda x: setattr(x.context.block, "insert", Vec3(9, 9, 9)))
        add("mld.block.matrix", lambda x: x.context.block._matrix.__imul__(Matrix44.translate(1, 1, 1)))
        add("mld.arrow_heads", lambda x: x.arrow_heads.append(x.arrow_heads[0].__class__(1, "FF") if x.arrow_heads else _raise()))
        add("mld.block_attribs_append", lambda x: x.block_attribs.append(x.block_attribs[0]._replace(text="changed")))
        add("mld.block_attribs_pop", lambda x: x.block_attribs.pop())
    if t in ("Image", "Wipeout", "PdfUnderlay", "DwfUnderlay", "DgnUnderlay", "PdfReference"):
        add("im.set_boundary_path", lambda x: x.set_boundary_path([(0, 0), (5, 0), (5, 5)]))
        add("im.reset_boundary_path", lambda x: x.reset_boundary_path())
        add("im.boundary_list", lambda x: x._boundary_path.append(Vec2(9, 9)))
        add("im.boundary_prop", lambda x: x.boundary_path.append(Vec2(9, 9)) if isinstance(x.boundary_path, list) else _raise())
    if t == "Insert":
        add("in.add_attrib", lambda x: x.add_attrib("NEW", "v", (0, 0)))
        add("in.attrib_text", lambda x: setattr(x.attribs[0].dxf, "text", "changed"))
        add("in.attrib_xdata", lambda x: x.attribs[0].set_xdata("VERIF", [(1000, "a")]))
        add("in.attrib_transform", lambda x: x.attribs[0].transform(Matrix44.translate(1, 1, 1)))
        add("in.attrib_embedded_mtext", lambda x: setattr(x.attribs[1]._embedded_mtext.dxf, "char_height", 9.0))
        add("in.attrib_embedded_text", lambda x: setattr(x.attribs[1]._embedded_mtext, "text", "changed"))
        add("in.attrib_embedded_transform", lambda x: x.attribs[1].transform(Matrix44.translate(2, 3, 4)))
        add("in.attrib_set_mtext_again", lambda x: x.attribs[1].set_mtext(_mtext_for(x.attribs[1])))
        add("in.delete_attrib", lambda x: x.delete_attrib("TAG1"))
        add("in.delete_all_attribs", lambda x: x.delete_all_attribs())
        add("in.attribs_list", lambda x: x.attribs.pop())
        add("in.place", lambda x: x.place(insert=(9, 9), scale=(3, 3, 3), rotation=45))
        add("in.grid", lambda x: x.grid(size=(2, 2), spacing=(5, 5)))
    if t in ("Attrib", "AttDef"):
        add("at.embedded_none_to_set", lambda x: x.set_mtext(_mtext_for(x)) if hasattr(x, "set_mtext") else _raise())
        add("at.embedded_attr", lambda x: setattr(x._embedded_mtext.dxf, "char_height", 7.0))
        add("at.embedded_text", lambda x: setattr(x._embedded_mtext, "text", "changed"))
    if t == "Viewport":
        add("vp.frozen_layers_append", lambda x: x.frozen_layers.append("L9"))
        add("vp.frozen_layers_assign", lambda x: setattr(x, "frozen_layers", ["A"]))
        add("vp.freeze", lambda x: x.freeze("LX"))
        add("vp.thaw", lambda x: x.thaw("L1"))
    if t in ("Dimension", "ArcDimension", "RadialDimensionLarge"):
        add("dim.override", lambda x: _dim_override(x))
        add("dim.vbc_entity", lambda x: _first_vbc(x).dxf.__setattr__("layer", "CHANGED"))
        add("dim.vbc_transform", lambda x: _first_vbc(x).transform(Matrix44.translate(5, 5, 5)))
        add("dim.vbc_pop", lambda x: x.virtual_block_content.entities.pop())
        add("dim.text", lambda x: setattr(x.dxf, "text", "<> changed"))
    if t in ("Body", "Region", "Solid3d", "Surface", "ExtrudedSurface", "LoftedSurface", "RevolvedSurface", "SweptSurface"):
        add("acis.sat", lambda x: setattr(x, "sat", ["changed"]))
        add("acis.sab", lambda x: setattr(x, "sab", b"changed"))
        add("acis.temporary_transformation", lambda x: x.temporary_transformation().add_matrix(Matrix44.translate(1, 1, 1)))
        for n in ("transformation_matrix_extruded_entity", "sweep_entity_transformation_matrix", "path_entity_transformation_matrix",
                  "transformation_matrix_lofted_entity", "transformation_matrix_revolved_entity",
                  "transformation_matrix_sweep_entity", "transformation_matrix_path_entity"):
            if hasattr(e, n):
                add(f"acis.{n}.imul", lambda x, n=n: getattr(x, n).__imul__(Matrix44.translate(1, 1, 1)))
                add(f"acis.{n}.assign", lambda x, n=n: setattr(x, n, Matrix44.scale(3, 3, 3)))
    if t in ("Dictionary", "DictionaryWithDefault"):
        add("di.add_xrecord", lambda x: x.add_xrecord("NEW").tags.append(DXFTag(1, "n")))
        add("di.entry_tags", lambda x: x["XR"].tags.append(DXFTag(1, "more")))
        add("di.entry_attr", lambda x: setattr(x["XR"].dxf, "cloning", 0))
        add("di.discard", lambda x: x.discard(next(iter(x.keys()))))
        add("di.setitem", lambda x: x.__setitem__("K2", x.doc.objects.add_xrecord(owner=x.dxf.handle or "0")))
        add("di.clear", lambda x: x._data.clear())
        add("di.dictvar", lambda x: setattr(x["DV"].dxf, "value", "changed"))
        add("di.foreign0_tags", lambda x: x["FOREIGN0"].tags.append(DXFTag(1, "more")))
        add("di.foreign1_tags", lambda x: x["FOREIGN1"].tags.append(DXFTag(1, "more")))
    if t == "XRecord":
        add("xr.tags_append", lambda x: x.tags.append(DXFTag(1, "more")))
        add("xr.tags_setitem", lambda x: x.tags.__setitem__(0, DXFTag(1, "other")))
        add("xr.reset", lambda x: x.reset([(1, "reset")]))
        add("xr.clear", lambda x: x.clear())
        add("xr.extend", lambda x: x.extend([(1, "x"), (40, 1.0)]))
    if t in ("IDBuffer", "FieldList", "LayerFilter"):
        add("idb.handles_append", lambda x: x.handles.append("C3"))
        add("idb.handles_assign", lambda x: setattr(x, "handles", ["D4"]))
    if t == "SortEntsTable":
        add("se.table_setitem", lambda x: x.table.__setitem__("A9", "B9"))
        add("se.set_handles", lambda x: x.set_handles([("A1", "C1")]))
        add("se.clear", lambda x: x.clear())
        add("se.remove", lambda x: x.remove_handle("A1"))
    if t == "VBAProject":
        add("vba.data", lambda x: setattr(x, "data", b"other"))
    if t == "SpatialFilter":
        add("sf.set_boundary_vertices", lambda x: x.set_boundary_vertices([(0, 0), (2, 2)]))
        add("sf.set_inverse_insert_matrix", lambda x: x.set_inverse_insert_matrix(Matrix44.translate(9, 9, 9)))
        add("sf.set_transform_matrix", lambda x: x.set_transform_matrix(Matrix44.translate(9, 9, 9)))
        add("sf.getter_imul", lambda x: x.inverse_insert_matrix.__imul__(Matrix44.translate(1, 1, 1)))
    if t == "VisualStyle":
        add("vs.acad_xdata_append", lambda x: x.acad_xdata.append(DXFTag(90, 5)))
    if t == "Linetype":
        add("lt.pattern_tags_append", lambda x: x.pattern_tags.tags.append(DXFTag(49, 0.5)))
        add("lt.pattern_tags_setitem", lambda x: x.pattern_tags.tags.__setitem__(0, DXFTag(72, 66)))
        add("lt.setup_pattern", lambda x: x.setup_pattern([0.2, 0.1, -0.1]))
    if t == "MLineStyle":
        add("mls.elements_append", lambda x: x.elements.append(0.25, 3))
        add("mls.element_attr", lambda x: setattr(x.elements[0], "color", 6))
        add("mls.elements_pop", lambda x: x.elements.elements.pop())
    if t == "Material":
        for n in ("diffuse", "specular", "reflexion", "opacity", "bump", "refraction", "normal"):
            add(f"mat.{n}.imul", lambda x, n=n: getattr(x, n + "_mapper_matrix").__imul__(Matrix44.translate(1, 1, 1)))
            add(f"mat.{n}.assign", lambda x, n=n: setattr(x, n + "_mapper_matrix", Matrix44.scale(2, 2, 2)))
    if t == "BlockRecord":
        add("br.add_entity", lambda x: x.entity_space.add(x.doc.modelspace().add_line((0, 0), (1, 1))) if x.doc else _raise())
    if t == "DXFLayout":
        add("lay.set_plot_type", lambda x: x.set_plot_type(2))
    if t in ("Text", "AttDef", "Attrib"):
        add("tx.set_placement", lambda x: x.set_placement((9, 9), align=ezdxf.enums.TextEntityAlignment.MIDDLE_CENTER))
    if t == "Layer":
        add("ly.rgb", lambda x: setattr(x, "rgb", (1, 2, 3)))
        add("ly.off", lambda x: x.off())
        add("ly.description", lambda x: setattr(x, "description", "changed"))
        add("ly.transparency", lambda x: setattr(x, "transparency", 0.3))
    if t == "DimStyle":
        add("ds.set_arrows", lambda x: x.set_arrows(blk="OPEN"))
        add("ds.set_tolerance", lambda x: x.set_tolerance(0.1))
    if t == "Point":
        add("pt.location", lambda x: setattr(x.dxf, "location", Vec3(9, 9, 9)))
    return out


def _raise():
    raise LookupError("not applicable")


def _ctx(cm, fn):
    with cm as v:
        fn(v)


def _edgepath(h):
    for p in h.paths:
        if type(p).__name__ == "EdgePath":
            return p
    raise LookupError("no edge path")


def _edge(h, kind):
    for e in _edgepath(h).edges:
        if type(e).__name__ == kind:
            return e
    raise LookupError(kind)


def _mtext_for(x):
    from ezdxf.entities import MText
    m = MText.new(dxfattribs={"char_height": 1.0})
    m.text = "embedded new"
    return m


def _first_vbc(d):
    if not d.virtual_block_content or not len(d.virtual_block_content.entities):
        raise LookupError("no virtual block content")
    return d.virtual_block_content.entities[0]


def _dim_override(d):
    o = d.override()
    o["dimtxt"] = 1.25
    o["dimclrt"] = 3
    o.commit()


def raw_mutators(e):
    """Python level mutation of every mutable object in the own graph of e (reached by path, so that the same
    mutator addresses the corresponding object in a copy); complements the API sweep for private containers.
    Objects of the Frozen region (shared on purpose with a copy) are not the entity's own state and are skipped."""
    g = Graph()
    root = g.add(e)
    try:
        frozen = frozen_region(g, root, g.add(e.copy()))
    except ezdxf.DXFError:
        frozen = set()
    out = []
    for i in sorted(g.reach(root, cut=frozen)):
        n = g.nodes[i]
        if n["kind"] == KIND_IMM or i in frozen:
            continue
        path = _path_to(g, root, i)
        if path is None:
            continue
        out.append((f"raw:{'.'.join(path) or '<root>'}:{n['type']}", (lambda x, path=path: _raw_mutate(_follow(x, path)))))
    return out


def _path_to(g, root, target):
    """shortest label path root -> target"""
    prev = {root: None}
    queue = [root]
    while queue:
        i = queue.pop(0)
        if i == target:
            break
        for label, j in g.nodes[i]["edges"]:
            if j not in prev:
                prev[j] = (i, label)
                queue.append(j)
    if target not in prev:
        return None
    path = []
    i = target
    while prev[i] is not None:
        i, label = prev[i]
        path.append(label)
    return list(reversed(path))


def _follow(o, path):
    for label in path:
        for l, c in children(o)[1]:
            if l == label:
                o = c
                break
        else:
            raise LookupError(f"path step {label} not found")
    return o


def _raw_mutate(o):
    np = _np()
    if isinstance(o, list):
        o.append(("verif-probe",))
    elif isinstance(o, collections.deque):
        o.append("verif-probe")
    elif isinstance(o, dict):
        o["verif-probe"] = 1
    elif isinstance(o, set):
        o.add("verif-probe")
    elif isinstance(o, bytearray):
        o.append(1)
    elif isinstance(o, array.array):
        o.append(o[0] if len(o) else (1 if o.typecode not in "fd" else 1.0))
        if len(o):
            o[0] = o[0] + 1
    elif np is not None and isinstance(o, np.ndarray):
        if o.size == 0:
            raise LookupError("empty array")
        o.flat[0] = o.flat[0] + 1       # in-place element writes: first and last element of the buffer
        o.flat[o.size - 1] = o.flat[o.size - 1] + 1
    elif tname(o) == "Matrix44":
        o *= Matrix44.translate(1, 2, 3)
    elif hasattr(o, "__dict__"):
        o.__dict__["_verif_probe"] = 1
    else:
        names = slots_of(o)
        if not names:
            raise LookupError("opaque object without mutator")
        n = names[0]
        v = getattr(o, n, None)
        setattr(o, n, ("verif-probe", v) if not isinstance(v, (int, float)) else v + 1)


# ----------------------------------------------------------------------------- oracle helpers
def fp_diff(a, b, path=""):
    """path of the first difference between two fingerprints ('' if equal)"""
    if a == b:
        return None
    if (isinstance(a, tuple) and isinstance(b, tuple) and len(a) == 2 and len(b) == 2 and isinstance(a[0], str)
            and a[0] == b[0] and isinstance(a[1], tuple) and isinstance(b[1], tuple)
            and all(isinstance(x, tuple) and len(x) == 2 for x in a[1] + b[1])):
        da, db = dict((str(k), v) for k, v in a[1]), dict((str(k), v) for k, v in b[1])
        for k in list(da) + [k for k in db if k not in da]:
            if k not in da or k not in db:
                return f"{path}.{k}" if path else k
            d = fp_diff(da[k], db[k], f"{path}.{k}" if path else k)
            if d is not None:
                return d
    return path or "<root>"


STRUCTURAL = {"_database", "_sub_entities", "_entity", "_entity_space", "_data", "_xdict"}


def component(d: str) -> str:
    """name of the part of an entity a fingerprint difference lies in: the first private attribute on the path
    (dxf.<name> for DXF attributes, 'entitydb' for a changed set of database entries)"""
    parts = (d or "<root>").split(".")
    for i, c in enumerate(parts):
        if c.startswith("_") and c not in STRUCTURAL:
            return c
        if c == "dxf" and i + 1 < len(parts):
            return "dxf." + parts[i + 1]
    idents = [c for c in parts if c.isidentifier() and c not in STRUCTURAL and not re.fullmatch(r"(key|val|elem)\d+", c)]
    return idents[-1] if idents else first_component(d)


def first_component(p: str) -> str:
    p = p or "<root>"
    parts = p.split(".")
    if parts[0] == "dxf" and len(parts) > 1:
        return "dxf." + parts[1]
    return parts[0]


def db_snapshot(doc, skip=()):
    """fingerprint of every entity of the entity database (block records excluded: their entity lists grow when
    a copy is added to a layout)"""
    out = {}

    def stop(o):  # other database entries are fingerprinted on their own
        if _is_entity(o):
            d = o.__dict__.get("dxf")
            h = d.__dict__.get("handle") if d is not None else None
            if h is not None:
                return ("db-entry", h)
        return None

    for h, e in list(doc.entitydb.items()):
        if h in skip or type(e).__name__ == "BlockRecord":
            continue
        out[h] = fingerprint(e, stop_at=stop)
    return out


def snapshot_diff(s1, s2):
    for h, v in s1.items():
        if h not in s2:
            return f"#{h} removed"
        if s2[h] != v:
            return f"#{h} {v[0]} changed at {fp_diff(v, s2[h])}"
    return None


def content_ignore(o, label):
    """attributes that a copy does not keep, as documented by DXFEntity.copy / CopySettings (paperspace is the
    layout membership flag that add_entity() sets together with the owner)"""
    t = tname(o)
    if t == "DXFNamespace":
        return label in ("handle", "owner", "paperspace")
    if _is_entity(o):
        return label in ("reactors", "_source_of_copy", "_uuid")
    return False


# documented per class differences between source and copy (class, path prefix, why)
DOCUMENTED_DIFF = [
    ("Dimension", "dxf.geometry", "Dimension.copy: the virtual copy can not reference the same geometry block"),
    ("Dimension", "dxf.insert", "Dimension.copy_data: virtual entities are already translated to the insert location"),
    ("Dimension", "virtual_block_content", "Dimension.copy_data: the copy carries the geometry as virtual block content"),
    ("ArcDimension", "dxf.geometry", "see Dimension"), ("ArcDimension", "dxf.insert", "see Dimension"),
    ("ArcDimension", "virtual_block_content", "see Dimension"),
    ("RadialDimensionLarge", "dxf.geometry", "see Dimension"), ("RadialDimensionLarge", "dxf.insert", "see Dimension"),
    ("RadialDimensionLarge", "virtual_block_content", "see Dimension"),
    ("Image", "dxf.image_def_reactor_handle", "Image.copy_data: each IMAGE gets its own ImageDefReactor when bound"),
    ("Image", "_image_def_reactor", "Image.copy_data: each IMAGE gets its own ImageDefReactor when bound"),
    ("Body", "dxf.uid", "Body.copy_data: fresh guid"), ("Region", "dxf.uid", "fresh guid"), ("Solid3d", "dxf.uid", "fresh guid"),
    ("Surface", "dxf.uid", "fresh guid"), ("ExtrudedSurface", "dxf.uid", "fresh guid"), ("LoftedSurface", "dxf.uid", "fresh guid"),
    ("RevolvedSurface", "dxf.uid", "fresh guid"), ("SweptSurface", "dxf.uid", "fresh guid"),
    ("Body", "_update", "private export flag set by the sab setter in Body.copy_data"), ("Region", "_update", "see Body"),
    ("Solid3d", "_update", "see Body"), ("Surface", "_update", "see Body"), ("ExtrudedSurface", "_update", "see Body"),
    ("LoftedSurface", "_update", "see Body"), ("RevolvedSurface", "_update", "see Body"), ("SweptSurface", "_update", "see Body"),
    ("BlockRecord", "block", "BLOCK_RECORD copy is an empty record: block/endblk/entity space are created by BlocksSection"),
    ("BlockRecord", "endblk", "see block"), ("BlockRecord", "block_layout", "see block"), ("BlockRecord", "entity_space", "see block"),
]


def content_fp(e, cls_name):
    drop = [p for c, p, _ in DOCUMENTED_DIFF if c == cls_name]

    def ign(o, label):
        if content_ignore(o, label):
            return True
        if o is e and label in drop:
            return True
        if o is e.dxf and ("dxf." + label) in drop:
            return True
        return False

    return fingerprint(e, ign)


def entity_nodes(g: Graph, root: int, frozen=()):
    return [g.nodes[i]["obj"] for i in sorted(g.reach(root, cut=frozen)) if i not in frozen
            and _is_entity(g.nodes[i]["obj"]) and hasattr(g.nodes[i]["obj"], "dxf")]


RULE = (
    "correspondence X1 (heap model vs Python objects): for a seeded populated instance of every copyable registered entity "
    "class the real object graph of (source, source.copy()) is sent to the Lean heap model with its atoms; seeded raw write "
    "sequences (set/append/remove a slot, fresh object, re-link inside the own graph, navigation reference, ill-formed writes) "
    "are applied by `applyAll` in Lean and by the corresponding Python object operations (setattr / list / dict) on the real "
    "objects; compared: the value tree `observe` of source and copy to depth 6 against the traversal of the real objects. "
    "non-trivial = the write sequence changed the observation of the written root. "
    "correspondence X2 (copy model vs CopyStrategy.copy): the value tree of a populated source entity (class ids, header, "
    "payload parts), the copy_data recipe parsed from the current source text of the copy_data methods and the parts of a "
    "default constructed instance are sent to the Lean `copyT`; compared: the rendering of the model result (new object / "
    "the very object of the source s<addr> / value) against the rendering of the real copy relative to the identities "
    "(id()) of the source objects; non-trivial = the class has a payload part with an explicit copy_data policy or the instance "
    "carries XDATA / app data / an extension dictionary; classes outside the "
    "modelled subset (none on the current tree; a reference back to an object on the path - BLOCK_RECORD and its layout - is an identity reference) are listed in the notes. distinct by hash of the request.  Since session 3 the recipe sent "
    "to the driver is the PROGRAM translated from every copy method of src/ezdxf/entities (copy_data, copy, __copy__, deep_copy, helper "
    "classes; conditional parts; generator inputs for DIMENSION), evaluated by `copyTop`; a quarter of the sources are themselves "
    "unbound copies (second generation). "
    "correspondence X3 (hypotheses of all_recipes_separate on real instances): for every X2 source tree and generator input the Lean "
    "driver evaluates `wt` against the inferred type table with the Frozen addresses of the instance (expected: ok), and `tableSafe` "
    "for the recipes and types of the classes of the request (expected: true). "
    "oracle: mutate-then-compare sweep on the real code: every copyable class x instance variants x copy route (copy, "
    "copy_to_layout, duplicate_entity) x every mutator (each DXF attribute set/discard, XDATA, app data, reactors, extension "
    "dictionary entries, payload API of each class, transform, raw mutation of every mutable object of the graph) x both "
    "directions; virtual entities of INSERT/POLYLINE/DIMENSION/LEADER/MLINE/MULTILEADER/POINT mutated the same way; content "
    "equality source/copy minus the documented resets; handles; producing copies / virtual entities / primitives leaves the "
    "whole document fingerprint unchanged; two documents under interleaved operation histories compared with solo runs (and "
    "per step); successive new(); module and class level state of the package before/after; O9: after every public-API mutator "
    "applied to a fresh copy the payload parts still have the inferred types (`wt`, Python mirror `shape_holds`) that all_recipes_separate assumes; "
    "O10: after every public-API mutator no mutable object of the entity is, by identity, part of a module / class level container."
)
TRUSTED_BASE = [
    "the object graph extractor (T-heap, harness/props/c16.py): it sees __dict__, __slots__ and builtin containers; memory shared "
    "below the Python object level (numpy views are followed through .base; C extension internals are opaque leaves) is covered "
    "only by the raw mutation sweep of the oracle",
    "types classified immutable by contract: str/int/float/bytes/tuple/frozenset of immutables, Vec2/Vec3, Enum members, DXFTag/DXFVertex/DXFBinaryTag",
    "one fully populated instance per class: containers created lazily for other data are searched by the oracle sweep, not proved absent",
    "the recipe translator harness/translate/copyrecipes_c16.py (AST patterns -> Pol programs; dynamic dispatch of x.copy() resolved by the types of "
    "populated instances); it is tied to the code by correspondence X2 on every class (the model copy computed from the translated program must "
    "render exactly like the real copy, object identities included) and fails loudly (recipes_complete) on any construct outside its subset",
    "reachability inside whole documents is computed by the extractor; Lean checks only that every reported sharing candidate is on the Frozen list",
]
ASSUMPTIONS = [
    "writes 'through b' follow owning references only: following entity.doc, _source_of_copy or _source_block_reference and mutating what is found there is not a mutation of the copy",
    "objects on the Frozen list (IMAGE_DEF / UNDERLAY_DEFINITION resources, soft-pointer dictionary entries, SPATIAL_FILTER matrices, the source entity behind disassemble.Primitive.entity) are shared on purpose",
]
OPEN = [
    "all_recipes_separate / flows_frame quantify over every heap and every WELL TYPED source tree; that the trees of real entities are well typed "
    "(parts passed by reference hold immutable values or Frozen resources: `sat` is a tuple of str, `_boundary_path` a list of Vec2 ...) is an "
    "invariant of the classes that is inferred from populated instances (T-heap) and checked on ~2300 real instances per quick run by the Lean "
    "evaluated predicate `wt` (X3) and after every public-API mutator of the sweep by its Python mirror (O9, ~12k states), not proved from the source of the setters",
    "the value model of `copy.deepcopy` is 'a new graph'; the copy protocol overrides of the package (__deepcopy__, __reduce__, __getstate__ ...) are "
    "enumerated from the source on every run and each must be of a listed harmless form (recipes_complete), but deepcopy of foreign objects "
    "(numpy arrays, array.array) is trusted",
    "the flows virtual_entities / explode / copy_to_layout / add_attrib are proved separate at model level for every flow (flows_frame) and tied "
    "to the code by a syntactic effect scan of the flow functions (flow_effects_allowed: a classification of statements by whether they concern a "
    "product, not a translation; the render modules that build new primitives are not scanned), the extracted scenario graphs (candidates_frozen) "
    "and the oracle",
    "interleaved_flows (two collections, each producing copies into itself and writing, any interleaving) is proved step by step (every step leaves the "
    "other collection's observation unchanged); the solo-equivalence of interleaved_solo is proved for plain writes, not for produce steps",
    "documents_separated is a regenerated table fact (no mutable object reachable from both documents of any extracted pair; reachability by the extractor)",
    "interleaved_frame / interleaved_solo are about the heap model (writes through owning paths); that the operations of the document API are such "
    "writes through the document they are called on is tied by X1 (raw writes) and by oracle O5 (100 interleaved histories against solo runs per quick run)",
    "globals_guarded is a write-barrier probe by content over a fixed battery of operations (copies by all routes, virtual entities, new / readfile / "
    "recover, save), not a proof that no code path mutates a module level object; lru caches are listed but their stored values are not enumerable",
    "frame_needs_separation is a regression fact about the pre-fix configuration (Body.copy_data aliasing, fixed by 3a74eae26), not about the current code",
]


# ----------------------------------------------------------------------------- oracle
DESTRUCTIVE = ("discard", "clear", "pop", "delete", "reset", "remove", "delitem", "data_dict", "set_points", "assign", "set_vertices")


def ordered(muts):
    return sorted(muts, key=lambda m: (1 if any(w in m[0] for w in DESTRUCTIVE) else 0))


def all_mutators(e, rng):
    return generic_mutators(e, rng) + specific_mutators(e, rng) + raw_mutators(e)


def run_mut(fn, x):
    """-> 'ok' | 'na' (mutator not applicable to this instance)"""
    try:
        r = fn(x)
    except Exception:
        return "na"
    return "na" if r is False else "ok"


def check_content_and_handles(ctx, name, kname, src, c, doc, handles_before):
    cls = type(src).__name__
    # content
    ctx.count("O2 copy content", (name, kname), True)
    d = fp_diff(content_fp(src, cls), content_fp(c, cls))
    if d is not None:
        ctx.fail(f"content/{cls}/{first_component(d)}/{kname}/{name}",
                 f"{name}: {kname} is not equal in content to its source at {d} (after removing handle/owner/reactors/source-of-copy and the documented resets)",
                 {"op": "content", "builder": name, "kind": kname})
    # handles
    g = Graph()
    rs, rc = g.add(src), g.add(c)
    frozen = frozen_region(g, rs, rc)
    src_handles = {e.dxf.handle for e in entity_nodes(g, rs, frozen) if e.dxf.handle is not None}
    copies = entity_nodes(g, rc, frozen)
    ctx.count("O3 handles", (name, kname), True)
    for e in copies:
        h = e.dxf.handle
        if h is not None and (h in src_handles or h in handles_before):
            ctx.fail(f"handle/{cls}/{kname}/{type(e).__name__}", f"{name}: {kname}: {type(e).__name__} in the copy carries handle #{h} that existed before the copy was made",
                     {"op": "handle", "builder": name, "kind": kname})
        if h is not None and doc.entitydb.get(h) is not e:
            ctx.fail(f"handle-db/{cls}/{kname}/{type(e).__name__}", f"{name}: {kname}: handle #{h} of the copy does not map to the copy in the entity database",
                     {"op": "handle", "builder": name, "kind": kname})
    if kname in UNBOUND_KINDS:
        if c.dxf.handle is not None or c.dxf.owner is not None:
            ctx.fail(f"handle/{cls}/copy/top", f"{name}: copy() carries handle {c.dxf.handle} / owner {c.dxf.owner}", {"op": "handle", "builder": name, "kind": kname})
        if c.reactors is not None:
            ctx.fail(f"reactors/{cls}/copy", f"{name}: copy() carries reactors {c.reactors}", {"op": "handle", "builder": name, "kind": kname})
        for e in copies:
            if e.dxf.handle is not None:
                ctx.fail(f"handle/{cls}/copy/sub/{type(e).__name__}", f"{name}: sub-entity {type(e).__name__} of an unbound copy has handle #{e.dxf.handle}",
                         {"op": "handle", "builder": name, "kind": kname})
    else:
        if c.dxf.handle is None:
            ctx.fail(f"handle/{cls}/{kname}/none", f"{name}: {kname} returned an entity without handle", {"op": "handle", "builder": name, "kind": kname})
    if c.source_of_copy is not src and kname == "copy":
        ctx.fail(f"source_of_copy/{cls}", f"{name}: copy().source_of_copy is not the source", {"op": "handle", "builder": name, "kind": kname})


class Rec:
    """recorder with the accounting interface of ctx, usable in a worker process"""

    def __init__(self, quick, seed):
        self.quick, self.seed = quick, seed
        self.counts, self.hists, self.fails, self.notes = [], {}, [], []

    def rng(self, salt=""):
        import random
        return random.Random(f"{self.seed}/C16/{salt}")

    def n(self, q, t):
        return q if self.quick else t

    def count(self, stream, case, nontrivial=True, sample=None):
        self.counts.append((stream, case, nontrivial))

    def hist(self, stream, key, n=1):
        self.hists[(stream, key)] = self.hists.get((stream, key), 0) + n

    def fail(self, key, what, replay):
        self.fails.append((key, what, replay))

    def note(self, s):
        self.notes.append(s)

    def merge_into(self, ctx):
        for stream, case, nontrivial in self.counts:
            ctx.count(stream, case, nontrivial)
        for (stream, key), n in self.hists.items():
            ctx.hist(stream, key, n)
        for key, what, replay in self.fails:
            ctx.fail(key, what, replay)
        for s in self.notes:
            ctx.note(s)


def _sweep_worker(args):
    names, quick, seed = args
    rec = Rec(quick, seed)
    for name in names:
        try:
            sweep_one(rec, name)
        except Exception:
            import traceback
            rec.fail(f"harness/sweep/{name}", "sweep harness exception: " + traceback.format_exc()[-1500:], {"op": "sweep", "builder": name})
    return rec


def parallel(ctx, worker, jobs, procs=4):
    """run worker(job) for every job in a fork pool, merge the recorders in job order (deterministic)"""
    import multiprocessing as mp
    import os
    procs = int(os.environ.get("VERIF_PROCS", procs))
    if procs <= 1:
        recs = [worker(j) for j in jobs]
    else:
        with mp.get_context("fork").Pool(procs) as pool:
            recs = pool.map(worker, jobs, chunksize=1)
    for r in recs:
        r.merge_into(ctx)


def sweep(ctx, only=None):
    names = [n for n in B(new_doc()) if not only or n in only]
    parallel(ctx, _sweep_worker, [(names[i::8], ctx.quick, ctx.seed) for i in range(8)])


def sweep_one(ctx, name):
    import random
    doc = new_doc()
    b = B(doc)
    build = b[name]
    stream = "O1 mutate-then-compare"
    quick = ctx.quick

    def make(v):
        """variant v of the populated instance: v = 0 fully decorated; v > 0 random decoration and 1..3 random payload
        mutations applied before copying (other container shapes, lazily created containers)"""
        r = random.Random(f"{ctx.seed}/C16/variant/{name}/{v}")
        e = build()
        if v == 0:
            decorate(e, doc)
        else:
            if r.random() < 0.7:
                decorate(e, doc, xdict=r.random() < 0.5)
            spec = specific_mutators(e, r)
            for _ in range(r.randint(1, 3)):
                if spec:
                    run_mut(r.choice(spec)[1], e)
        return e

    for v in range(ctx.n(2, 8)):
        rng = ctx.rng(f"sweep/{name}/{v}")
        proto = make(v)
        cls = type(proto).__name__
        muts = ordered(all_mutators(proto, rng))
        vname = name if v == 0 else f"{name}~{v}"
        kinds = [(k, (lambda src, f=f: (src, f))) for k, f in copy_kinds(proto, doc).items()]
        kinds += list(generation_kinds(proto, doc).items())
        for kname, prep in kinds:
            bound = kname in BOUND_KINDS
            first_gen = kname in ("copy", "copy_to_layout", "duplicate_entity")
            if (bound or not first_gen) and v > 0 and quick:
                continue
            sel = muts
            if (bound or not first_gen) and quick:  # these routes share CopyStrategy.copy with copy(): sample the attribute setters
                sel = [m for m in muts if not m[0].startswith("dxf.") or rng.random() < 0.2]
            # ---- direction 1: mutate the copy, the source (and every other database entry) must not change
            try:
                src, kf = prep(make(v))
                handles_before = set(doc.entitydb.keys())
                c = kf(src)
            except ezdxf.DXFError:
                continue
            check_content_and_handles(ctx, vname, kname, src, c, doc, handles_before)
            snap = db_snapshot(doc) if not bound else None
            stop = _frozen_stop(src, c)
            before = fingerprint(src, stop_at=stop)
            for mname, fn in sel:
                if not bound:
                    c = kf(src)
                st = run_mut(fn, c)
                ctx.count(stream, (vname, kname, "copy->source", mname), st == "ok")
                ctx.hist(stream, f"{kname}/copy->source/{st}")
                if st == "ok" and not mname.startswith("raw:") and first_gen and not bound:  # a fresh copy per mutator
                    # O9: the public mutators keep the class invariants that all_recipes_separate assumes (`wt`)
                    tv_ = typing_violation(c)
                    ctx.count("O9 mutators keep the parts well typed", (vname, kname, mname), True)
                    if tv_ is not None:
                        ctx.fail(f"typing/{tv_}/{mname}", f"{vname}: after {mname} the part {tv_} no longer has the type the recipe check assumes (a part passed by reference holds a mutable value)",
                                 {"op": "sweep", "builder": name, "kind": kname, "dir": "copy->source", "mutator": mname})
                    # O10: no public mutator makes the entity hold a mutable object of a module / class level container
                    ho = handed_out_global(c)
                    ctx.count("O10 no module level object handed out", (vname, kname, mname), True)
                    if ho is not None:
                        ctx.fail(f"global-handed-out/{ho.split(' via ')[0]}/{cls}/{mname}", f"{vname}: after {mname} the entity holds a mutable object of the module level container {ho}: editing it in place changes every other entity and document that uses the table",
                                 {"op": "sweep", "builder": name, "kind": kname, "dir": "copy->source", "mutator": mname})
                after = fingerprint(src, stop_at=stop)
                if after != before:
                    d = fp_diff(before, after)
                    ctx.fail(f"shared/{first_component(d)}/{cls}/{kname}/copy->source/{mname}",
                             f"{vname}: after {kname}, mutating the copy by {mname} changed the source at {d}",
                             {"op": "sweep", "builder": name, "kind": kname, "dir": "copy->source", "mutator": mname})
                    before = after
            if snap is not None:
                d = snapshot_diff(snap, db_snapshot(doc))
                if d is not None:
                    ctx.fail(f"shared-db/{first_component(d.split(' changed at ')[-1])}/{cls}/{kname}", f"{vname}: mutating unbound copies changed a database entry: {d}",
                             {"op": "sweep-db", "builder": name, "kind": kname})
            # ---- direction 2: mutate the source, the copy must not change
            src, kf = prep(make(v))
            c = kf(src)
            stop = _frozen_stop(src, c)
            before = fingerprint(c, stop_at=stop)
            for mname, fn in sel:
                st = run_mut(fn, src)
                ctx.count(stream, (vname, kname, "source->copy", mname), st == "ok")
                ctx.hist(stream, f"{kname}/source->copy/{st}")
                after = fingerprint(c, stop_at=stop)
                if after != before:
                    d = fp_diff(before, after)
                    ctx.fail(f"shared/{first_component(d)}/{cls}/{kname}/source->copy/{mname}",
                             f"{vname}: after {kname}, mutating the source by {mname} changed the copy at {d}",
                             {"op": "sweep", "builder": name, "kind": kname, "dir": "source->copy", "mutator": mname})
                    before = after


def _frozen_stop(src, c):
    """fingerprint boundary for the mutate-then-compare sweep: the objects of the Frozen region of (source, copy) - resources that
    the copy references without owning them (IMAGE_DEF / UNDERLAY_DEFINITION, the entries of a DICTIONARY that is not hard owner,
    the default entry of ACDBDICTIONARYWDFLT, SPATIAL_FILTER matrices) - are compared by identity, not by content: what happens to
    such a shared object (the owner deletes or replaces a layer, an entry ...) is not state of the copy.  Entries of hard owned
    dictionaries and everything else are compared by content."""
    g = Graph()
    try:
        fr = frozen_region(g, g.add(src), g.add(c))
    except Exception:
        return None
    if not fr:
        return None
    ids = {id(g.nodes[i]["obj"]): (k, g.nodes[i]["obj"]) for k, i in enumerate(sorted(fr))}  # the objects are kept alive with the ids

    def stop(o):
        r = ids.get(id(o))
        return ("frozen-ref", tname(o), r[0]) if r is not None else None
    return stop


def doc_fp(doc):
    return fingerprint(doc)


def _db_stop(o):
    """fingerprint boundary: other database entries are separate objects of the document"""
    if _is_entity(o):
        d = o.__dict__.get("dxf")
        h = d.__dict__.get("handle") if d is not None else None
        if h is not None:
            return ("db-entry", h)
    return None


def _pure_worker(args):
    part, parts, quick, seed = args
    rec = Rec(quick, seed)
    try:
        producers_pure(rec, part, parts)
    except Exception:
        import traceback
        rec.fail(f"harness/pure/{part}", "harness exception: " + traceback.format_exc()[-1500:], {"op": "pure"})
    return rec


def _virtual_worker(args):
    part, parts, quick, seed = args
    rec = Rec(quick, seed)
    try:
        virtual_sweep(rec, part, parts)
    except Exception:
        import traceback
        rec.fail(f"harness/virtual/{part}", "harness exception: " + traceback.format_exc()[-1500:], {"op": "virtual"})
    return rec


def producers_pure(ctx, part=0, parts=1):
    """producing copies, virtual entities and primitives does not modify the source document: fingerprint of the
    whole document (entity database, handle counter, all sections) before/after"""
    stream = "O4 producing is pure"
    doc = new_doc()
    b = B(doc)
    ents = {}
    for name, build in b.items():
        e = build()
        decorate(e, doc)
        ents[name] = e
    vs = virtual_scenarios(doc, b)
    for e in doc.entitydb.values():
        if hasattr(e, "sab"):
            e.sab  # documented lazy load ("load SAB on demand"): warm the cache before taking fingerprints
    before = doc_fp(doc)

    def check(label, what):
        nonlocal before
        after = doc_fp(doc)
        ctx.count(stream, label, True)
        if after != before:
            d = fp_diff(before, after)
            ctx.fail(f"impure/{component(d)}/{label}", f"{what} modified the source document at {d}", {"op": "pure", "label": label})
            before = after

    jobs = [("copy", name) for name in ents] + [("virtual", i) for i in range(len(vs))] + [("explode", 0)]
    for k, (kind, arg) in enumerate(jobs):
        if k % parts != part:
            continue
        if kind == "copy":
            try:
                ents[arg].copy()
            except ezdxf.DXFError:
                pass
            check(f"{arg}:copy", f"{arg}.copy()")
        elif kind == "virtual":
            name, roots, produce = vs[arg]
            try:
                made = produce()
                # use the products: transforming them must not touch the document either
                for x in made:
                    if hasattr(x, "dxf") and hasattr(x, "transform") and x.dxf.handle is None:
                        try:
                            x.transform(Matrix44.translate(1, 2, 3))
                        except Exception:
                            pass
            except Exception as ex:
                ctx.note(f"O4 scenario {name} skipped: producer raised {type(ex).__name__}")
                continue
            check(name, name)
        else:
            _explode_check(ctx, doc, stream)


def _explode_check(ctx, doc, stream):
    # exploding a block reference changes the target layout (by design) but not the block definition
    from ezdxf import explode
    msp = doc.modelspace()
    blk = doc.blocks.get("ALLBLK")
    ins = msp.add_blockref("ALLBLK", (3, 3), dxfattribs={"rotation": 15})
    target = doc.blocks.new("EXPLODE_TARGET")
    fp_blk = [fingerprint(e, stop_at=_db_stop) for e in blk]
    made = explode.explode_block_reference(ins, target)
    ctx.count(stream, "INSERT(ALLBLK):explode_block_reference", True)
    for e0, f0 in zip(list(blk), fp_blk):
        f1 = fingerprint(e0, stop_at=_db_stop)
        if f1 != f0:
            d = fp_diff(f0, f1)
            ctx.fail(f"impure/{component(d)}/INSERT(ALLBLK):explode_block_reference/{type(e0).__name__}",
                     f"explode_block_reference modified {type(e0).__name__} of the block definition at {d}", {"op": "pure", "label": "explode"})
    fp_blk = [fingerprint(e, stop_at=_db_stop) for e in blk]
    for x in made:
        for mname, fn in [("layer", lambda y: setattr(y.dxf, "layer", "EXPLODED")), ("transform", lambda y: y.transform(Matrix44.translate(1, 1, 1)))]:
            run_mut(fn, x)
    ctx.count(stream, "INSERT(ALLBLK):explode_block_reference/mutate products", True)
    for e0, f0 in zip(list(blk), fp_blk):
        f1 = fingerprint(e0, stop_at=_db_stop)
        if f1 != f0:
            d = fp_diff(f0, f1)
            ctx.fail(f"shared/{component(d)}/{type(e0).__name__}/INSERT(ALLBLK):explode_block_reference/copy->source/products",
                     f"mutating exploded entities modified {type(e0).__name__} of the block definition at {d}", {"op": "pure", "label": "explode"})


def virtual_sweep(ctx, part=0, parts=1):
    """virtual entities are independent of their source: mutate every product (attributes, payload API, transform),
    the sources must not change (checked per mutator on the immediate source entity of the product, and on all
    roots of the scenario after each product)"""
    stream = "O1v virtual entities mutate-then-compare"
    doc = new_doc()
    b = B(doc)
    rng = ctx.rng("virtual")
    for k, (name, roots, produce) in enumerate(virtual_scenarios(doc, b)):
        if k % parts != part or name.endswith(":disassemble.to_primitives"):
            continue
        try:
            made = [x for x in produce() if hasattr(x, "dxf")]
        except Exception:
            continue
        before_all = [fingerprint(r, stop_at=_db_stop) for r in roots]

        def report(d, x, mname):
            ctx.fail(f"shared/{component(d)}/{type(x).__name__}/{name}/copy->source/{mname}",
                     f"{name}: mutating the virtual {type(x).__name__} by {mname} changed the source at {d}",
                     {"op": "virtual", "scenario": name, "mutator": mname})

        for x in made:
            near = x.source_of_copy if x.source_of_copy is not None else roots[0]
            before = fingerprint(near)
            muts = [m for m in generic_mutators(x, rng) if not m[0].startswith("xdict")] + specific_mutators(x, rng) + raw_mutators(x)
            if ctx.quick:
                muts = [m for m in muts if not m[0].startswith("dxf.") or rng.random() < 0.35]
            for mname, fn in ordered(muts):
                st = run_mut(fn, x)
                ctx.count(stream, (name, type(x).__name__, mname), st == "ok")
                after = fingerprint(near)
                if after != before:
                    report(fp_diff(before, after), x, mname)
                    before = after
            after_all = [fingerprint(r, stop_at=_db_stop) for r in roots]
            if after_all != before_all:
                d = next(fp_diff(p, q) for p, q in zip(before_all, after_all) if p != q)
                report(d, x, "some mutator (whole scenario check)")
                before_all = after_all


# ----------------------------------------------------------------------------- documents
VOLATILE_KEYS = {"['$TDCREATE']", "['$TDUPDATE']", "['$TDUCREATE']", "['$TDUUPDATE']", "['$FINGERPRINTGUID']", "['$VERSIONGUID']",
                 "['CREATED_BY_EZDXF']", "['WRITTEN_BY_EZDXF']", "['EZDXF']"}


def volatile(o, label) -> bool:
    """time stamps and GUIDs that every new document gets (header variables, EZDXF_META / R12 EZDXF marker)"""
    if label in VOLATILE_KEYS and isinstance(o, dict):
        return True
    if label == "uid" and tname(o) == "DXFNamespace":  # ACIS entities get a fresh random GUID
        return True
    if label == "value" and tname(o) == "DXFNamespace":  # DICTIONARYVAR "<version> @ <iso time>" of EZDXF_META
        v = o.__dict__.get("value")
        return isinstance(v, str) and " @ " in v and tname(o.__dict__.get("_entity")) == "DictionaryVar"
    return False


def stable_doc_fp(doc):
    return fingerprint(doc, ignore_attr=volatile)


def doc_ops():
    """name -> op(doc, rng, k): operations of the public document API (k = running number for fresh names)"""
    from ezdxf.lldxf import const

    def add_entity(doc, rng, k):
        b = B(doc)
        name = rng.choice(["LINE", "CIRCLE", "LWPOLYLINE", "HATCH", "SPLINE", "MTEXT", "TEXT", "INSERT", "POLYLINE", "MESH",
                           "DIMENSION", "LEADER", "MLINE", "IMAGE", "3DSOLID", "VIEWPORT", "MULTILEADER"])
        e = b[name]()
        if rng.random() < 0.5:
            decorate(e, doc, xdict=rng.random() < 0.5)

    def mutate_entity(doc, rng, k):
        ents = list(doc.modelspace())
        if ents:
            e = rng.choice(ents)
            muts = generic_mutators(e, rng)
            run_mut(rng.choice(muts)[1], e)

    def delete_entity(doc, rng, k):
        ents = list(doc.modelspace())
        if ents:
            doc.modelspace().delete_entity(rng.choice(ents))

    def copy_entity(doc, rng, k):
        ents = [e for e in doc.modelspace() if e.dxftype() not in ("VIEWPORT",)]
        if ents:
            rng.choice(ents).copy_to_layout(doc.modelspace())

    def explode_insert(doc, rng, k):
        ins = [e for e in doc.modelspace() if e.dxftype() == "INSERT"]
        if ins:
            rng.choice(ins).explode()

    def new_block(doc, rng, k):
        blk = doc.blocks.new(f"BLK{k}")
        blk.add_line((0, 0), (k, 1))
        blk.add_attdef("T", (0, 0), str(k))
        doc.modelspace().add_blockref(f"BLK{k}", (k, k)).add_auto_attribs({"T": "v"})

    def delete_block(doc, rng, k):
        names = [b.name for b in doc.blocks if b.name.startswith("BLK")]
        if names:
            try:
                doc.blocks.delete_block(rng.choice(names), safe=True)
            except const.DXFError:
                pass

    def header(doc, rng, k):
        doc.header["$LTSCALE"] = float(k)
        doc.header["$INSUNITS"] = k % 7
        doc.header["$EXTMAX"] = (k, k, k)
        doc.header.custom_vars.append(f"K{k}", str(k))

    def rootdict(doc, rng, k):
        d = doc.rootdict.get_required_dict(f"VERIF_DICT{k % 3}")
        d.add_xrecord(f"X{k}").tags.append(DXFTag(1, str(k)))
        d.add_dict_var(f"V{k}", str(k))

    def layer_edit(doc, rng, k):
        lay = rng.choice(list(doc.layers))
        lay.color = 1 + k % 7
        lay.description = f"d{k}"
        lay.rgb = (k % 255, 1, 2)

    def layer_remove(doc, rng, k):
        names = [l.dxf.name for l in doc.layers if l.dxf.name.startswith("LAY")]
        if names:
            doc.layers.remove(rng.choice(names))

    def dimstyle(doc, rng, k):
        ds = doc.dimstyles.new(f"DS{k}")
        ds.dxf.dimtxt = k / 4
        ds.set_arrows(blk="OPEN")

    def add_class(doc, rng, k):
        doc.classes.add_class(rng.choice(["MESH", "IMAGE", "SUN", "ACDBPLACEHOLDER"]))

    def layout(doc, rng, k):
        if doc.dxfversion > "AC1009":
            doc.layouts.new(f"LO{k}").add_line((0, 0), (k, k))

    def layout_delete(doc, rng, k):
        if doc.dxfversion > "AC1009":
            names = [n for n in doc.layouts.names() if n.startswith("LO")]
            if names:
                doc.layouts.delete(rng.choice(names))

    def group(doc, rng, k):
        if doc.dxfversion > "AC1009":
            g = doc.groups.new(f"G{k}")
            g.set_data(list(doc.modelspace())[:3])

    def write(doc, rng, k):
        import io
        doc.write(io.StringIO())

    def audit(doc, rng, k):
        doc.audit()

    ops = {
        "add_entity": add_entity, "mutate_entity": mutate_entity, "delete_entity": delete_entity, "copy_entity": copy_entity,
        "explode_insert": explode_insert, "new_block": new_block, "delete_block": delete_block, "header": header,
        "rootdict": rootdict, "layer_new": lambda d, r, k: d.layers.new(f"LAY{k}", dxfattribs={"color": k % 7 + 1}),
        "layer_edit": layer_edit, "layer_remove": layer_remove,
        "style_new": lambda d, r, k: d.styles.new(f"ST{k}", dxfattribs={"font": "arial.ttf", "width": 1 + k / 10}),
        "ltype_new": lambda d, r, k: d.linetypes.new(f"LT{k}", dxfattribs={"description": str(k), "pattern": [0.5 + k, 0.5, -k]}),
        "dimstyle_new": dimstyle, "appid_new": lambda d, r, k: d.appids.new(f"APP{k}"),
        "ucs_new": lambda d, r, k: d.ucs.new(f"UCS{k}", dxfattribs={"origin": (k, k, k)}),
        "view_new": lambda d, r, k: d.views.new(f"VIEW{k}"),
        "vport_new": lambda d, r, k: d.viewports.new(f"VP{k}"),
        "class_add": add_class, "layout_new": layout, "layout_delete": layout_delete, "group_new": group,
        "material_new": lambda d, r, k: d.materials.new(f"MAT{k}") if d.dxfversion > "AC1009" else None,
        "mlinestyle_new": lambda d, r, k: d.mline_styles.new(f"MLS{k}").elements.append(k / 10, 1) if d.dxfversion > "AC1009" else None,
        "mleaderstyle_new": lambda d, r, k: d.mleader_styles.new(f"MLD{k}") if d.dxfversion > "AC1009" else None,
        "units": lambda d, r, k: setattr(d, "units", k % 7),
        "set_vport": lambda d, r, k: d.set_modelspace_vport(height=10 + k, center=(k, k)),
        "write": write, "audit": audit,
    }
    return ops


def make_doc(spec, seed_file=None):
    ver, setup, how = spec
    if how == "new":
        return ezdxf.new(ver, setup=setup)
    return ezdxf.readfile(seed_file[(ver, setup)])


def run_history(doc, hist, ops, seed):
    import random
    for k, name in hist:
        rng = random.Random(f"{seed}/{k}/{name}")  # the same op gets the same random choices in every run
        try:
            ops[name](doc, rng, k)
        except ezdxf.DXFError:
            pass
        except (ValueError, KeyError, TypeError, AttributeError, IndexError, NotImplementedError):
            pass  # an op that fails on its own is not C16's subject; it fails the same way in the solo run


def _docs_worker(args):
    part, parts, quick, seed = args
    rec = Rec(quick, seed)
    try:
        documents_oracle(rec, part, parts)
    except Exception:
        import traceback
        rec.fail(f"harness/docs/{part}", "harness exception: " + traceback.format_exc()[-1500:], {"op": "docs"})
    return rec


def documents_oracle(ctx, part=0, parts=1):
    """two documents in one process are independent under interleaved operations; successive new() independent"""
    import os
    import tempfile
    stream = "O5 two documents interleaved"
    ops = doc_ops()
    names = sorted(ops)
    rng = ctx.rng(f"docs/{part}")
    specs = [(v, s, "new") for v in ("R12", "R2000", "R2010", "R2018") for s in (False, True)]
    tmp = tempfile.mkdtemp(prefix="c16-")
    seed_file = {}
    try:
        for v, s, _ in list(specs):
            p = os.path.join(tmp, f"{v}-{s}.dxf")
            d = ezdxf.new(v, setup=s)
            d.modelspace().add_line((0, 0), (1, 1))
            d.saveas(p)
            seed_file[(v, s)] = p
            specs.append((v, s, "readfile"))
        n_hist = ctx.n(100, 2000) // parts
        for case in range(n_hist):
            sa, sb = rng.choice(specs), rng.choice(specs)
            la, lb = rng.randint(1, ctx.n(8, 30)), rng.randint(1, ctx.n(8, 30))
            ha = [(k, rng.choice(names)) for k in range(la)]
            hb = [(100 + k, rng.choice(names)) for k in range(lb)]
            seed = f"{ctx.seed}/{part}/{case}"
            # solo runs
            a0 = make_doc(sa, seed_file)
            run_history(a0, ha, ops, seed)
            fa0 = stable_doc_fp(a0)
            b0 = make_doc(sb, seed_file)
            run_history(b0, hb, ops, seed)
            fb0 = stable_doc_fp(b0)
            # interleaved run, random merge of the two histories
            a, b = make_doc(sa, seed_file), make_doc(sb, seed_file)
            ia = ib = 0
            per_step = case % 4 == 0
            while ia < la or ib < lb:
                if ib >= lb or (ia < la and rng.random() < 0.5):
                    fb = stable_doc_fp(b) if per_step else None
                    run_history(a, ha[ia:ia + 1], ops, seed)
                    if per_step and stable_doc_fp(b) != fb:
                        d = fp_diff(fb, stable_doc_fp(b))
                        ctx.fail(f"docs/step/{component(d)}/{ha[ia][1]}", f"operation {ha[ia][1]} on document A ({sa}) changed document B ({sb}) at {d}",
                                 {"op": "docs", "seed": seed, "a": sa, "b": sb, "ha": ha, "hb": hb})
                    ia += 1
                else:
                    fa = stable_doc_fp(a) if per_step else None
                    run_history(b, hb[ib:ib + 1], ops, seed)
                    if per_step and stable_doc_fp(a) != fa:
                        d = fp_diff(fa, stable_doc_fp(a))
                        ctx.fail(f"docs/step/{component(d)}/{hb[ib][1]}", f"operation {hb[ib][1]} on document B ({sb}) changed document A ({sa}) at {d}",
                                 {"op": "docs", "seed": seed, "a": sa, "b": sb, "ha": ha, "hb": hb})
                    ib += 1
            ctx.count(stream, (sa, sb, tuple(ha), tuple(hb)), True)
            ctx.hist(stream, f"len {min(9, (la + lb) // 4) * 4}+")
            for label, f0, d1, spec, h in (("A", fa0, a, sa, ha), ("B", fb0, b, sb, hb)):
                f1 = stable_doc_fp(d1)
                if f1 != f0:
                    d = fp_diff(f0, f1)
                    ctx.fail(f"docs/final/{component(d)}/{spec[0]}-{spec[2]}",
                             f"document {label} ({spec}) after its history interleaved with another document differs from the same history run alone, at {d}",
                             {"op": "docs", "seed": seed, "a": sa, "b": sb, "ha": ha, "hb": hb})
        # successive new(): a heavily used first document does not influence the next new()
        stream6 = "O6 successive new()"
        for v, s, _ in [sp for sp in specs if sp[2] == "new"][part::parts]:
            pristine = stable_doc_fp(ezdxf.new(v, setup=s))
            d1 = ezdxf.new(v, setup=s)
            hist = [(k, rng.choice(names)) for k in range(ctx.n(25, 80))]
            run_history(d1, hist, ops, f"{ctx.seed}/new/{v}/{s}")
            # raw mutation of everything mutable the first document owns (finds module level objects handed out)
            g = Graph()
            r = g.add(d1)
            nmut = 0
            for i in sorted(g.reach(r)):
                n = g.nodes[i]
                if n["kind"] != KIND_IMM and isinstance(n["obj"], (list, dict, set)) and nmut < 100000:
                    try:
                        _raw_mutate(n["obj"])
                        nmut += 1
                    except Exception:
                        pass
            f2 = stable_doc_fp(ezdxf.new(v, setup=s))
            ctx.count(stream6, (v, s), True)
            if f2 != pristine:
                d = fp_diff(pristine, f2)
                ctx.fail(f"docs/new/{component(d)}/{v}-setup={s}", f"ezdxf.new({v!r}, setup={s}) after using (and raw-mutating {nmut} containers of) a previous document differs from a pristine new() at {d}",
                         {"op": "new", "version": v, "setup": s})
    finally:
        import shutil
        shutil.rmtree(tmp, ignore_errors=True)


def global_state():
    """fingerprints of module level and class level mutable objects of the ezdxf package (registries, default
    tables, caches): name -> fingerprint"""
    import sys
    out = {}

    def stop(o):
        t = tname(o)
        if t == "Drawing" or _is_entity(o):
            return ("instance", t)
        return None

    for mname, mod in sorted(sys.modules.items()):
        if not (mname == "ezdxf" or mname.startswith("ezdxf.")) or mod is None:
            continue
        for name, v in sorted(vars(mod).items()):
            if name.startswith("__"):
                continue
            if isinstance(v, type) and v.__module__ == mname:
                for an, av in sorted(vars(v).items()):
                    if an.startswith("__") or is_atom(av):
                        continue
                    try:
                        out[f"{mname}.{name}.{an}"] = fingerprint(av, stop_at=stop)
                    except Exception:
                        pass
            elif not is_atom(v) and not isinstance(v, type):
                try:
                    out[f"{mname}.{name}"] = fingerprint(v, stop_at=stop)
                except Exception:
                    pass
    return out


# ----------------------------------------------------------------------------- correspondence X1: heap model vs Python objects
class Fresh:
    """object allocated by a raw write (kind cell: attributes a0..an)"""

    def __init__(self, vals):
        for i, v in enumerate(vals):
            setattr(self, f"a{i}", v)


def written_atom(v: int):
    return ("w", v)


class HeapView:
    """the real object graph of two roots as a heap of the Lean model: objects in discovery order, slots = children
    in `children()` order (atoms by code, owning references by address, navigation references by table index)"""

    def __init__(self, a, b, frozen_objs=()):
        self.g = Graph()
        self.ra, self.rb = self.g.add(a), self.g.add(b)
        self.atoms, self.navs = {}, {}
        self.frozen = {id(o) for o in frozen_objs}

    def atom_code(self, o) -> int:
        if isinstance(o, tuple) and len(o) == 2 and o[0] == "w" and isinstance(o[1], int):
            return o[1]
        key = repr(fingerprint(o))
        if key not in self.atoms:
            self.atoms[key] = len(self.atoms)
        return self.atoms[key]

    def nav_code(self, o) -> int:
        if id(o) not in self.navs:
            self.navs[id(o)] = (len(self.navs), o)
        return self.navs[id(o)][0]

    def slots(self, o):
        """[(label, kind 'v'|'o'|'n', child)]"""
        out = []
        for label, c in children(o)[1]:
            if is_atom(c):
                out.append((label, "v", c))
            elif (label in NAV_ATTRS and _is_entity(o)) or tname(c) in NAV_TARGET_TYPES:
                out.append((label, "n", c))
            else:
                out.append((label, "o", c))
        return out

    def encode(self) -> str:
        objs = []
        for n in self.g.nodes:
            o = n["obj"]
            ss = []
            for label, k, c in self.slots(o):
                if k == "v":
                    ss.append(f"v{self.atom_code(c)}")
                elif k == "n":
                    ss.append(f"n{self.nav_code(c)}")
                else:
                    ss.append(f"o{self.g.index[id(c)]}")
            objs.append("ick"[n["kind"]] + ":" + ",".join(ss))
        fro = " ".join(str(self.g.index[i]) for i in sorted(self.frozen, key=lambda i: self.g.index[i]) if i in self.g.index)
        return f"{';'.join(objs)}|{self.ra}|{self.rb}|{fro}"

    def tree(self, o, depth: int) -> str:
        if depth == 0:
            return "~"
        kind, _ = children(o)
        parts = []
        for label, k, c in self.slots(o):
            if k == "v":
                parts.append(f"v{self.atom_code(c)}")
            elif k == "n":
                parts.append(f"n{self.nav_code(c)}")
            else:
                parts.append(self.tree(c, depth - 1))
        return "ick"[kind] + "(" + " ".join(parts) + ")"


def writable_kind(o) -> str:
    """which raw writes the Python side can mirror exactly: 'list' | 'dict' | 'attrs' | 'slots' | ''"""
    if type(o) is list or tname(o) in ("Tags",) and isinstance(o, list):
        return "list"
    if isinstance(o, list):
        return "list"
    if isinstance(o, dict):
        return "dict" if all(is_atom(k) for k in o) else ""
    if isinstance(o, (tuple, set, frozenset, collections.deque, bytearray, array.array, types.MethodType)):
        return ""
    if _numpy is not None and isinstance(o, _numpy.ndarray):
        return ""
    has_dict = isinstance(getattr(o, "__dict__", None), dict)
    names = slots_of(o)
    if has_dict and not names:
        return "attrs"
    if names and not has_dict:
        return "slots"
    return ""


def gen_writes(view: HeapView, root, rng, n):
    """seeded write sequence through `root`: [(text for the driver, python closure)].  Paths are chosen by walking the
    *current* real graph, so most writes are well formed; some deliberately are not."""
    out = []
    fresh_counter = [0]
    for _ in range(n):
        # random walk along owning slots
        o, path = root, []
        for _ in range(rng.randint(0, 5)):
            owning = [(i, c) for i, (label, k, c) in enumerate(view.slots(o)) if k == "o"]
            if not owning or rng.random() < 0.15:
                break
            i, c = rng.choice(owning)
            path.append(i)
            o = c
        wk = writable_kind(o)
        ss = view.slots(o)
        ps = ".".join(map(str, path))
        ops = []
        if wk in ("list", "dict", "attrs", "slots") and ss:
            ops += ["S", "S", "W", "L", "N"]
        if wk in ("list", "dict", "attrs"):
            ops += ["P", "Q", "M"]
            if ss:
                ops += ["O", "E"]
        if not ops:
            ops = ["S"]  # a write the model must refuse or that has no effect: the Python side does nothing
        op = rng.choice(ops)
        # slots that the extractor classifies as navigation *by attribute name* keep that class whatever is stored
        # there; the model has no labels, so these slots are not written
        plain = [j for j, (label, k, c) in enumerate(ss) if not (label in NAV_ATTRS and _is_entity(o))]
        i = rng.choice(plain) if plain else len(ss)
        if rng.random() < 0.05:
            i = len(ss) + rng.randint(0, 2)  # out of range: ill-formed
        v = 100000 + rng.randint(0, 50)
        kind = rng.choice("ck")
        vals = [100100 + rng.randint(0, 9) for _ in range(rng.randint(0, 3))]
        # target of a link: another walk
        q, qo = [], root
        for _ in range(rng.randint(0, 4)):
            owning = [(j, c) for j, (label, k, c) in enumerate(view.slots(qo)) if k == "o"]
            if not owning:
                break
            j, c = rng.choice(owning)
            q.append(j)
            qo = c
        qs = ".".join(map(str, q))
        nav = 0
        text = {"S": f"S:{ps}:{i}:{v}", "N": f"N:{ps}:{i}:{nav}", "P": f"P:{ps}:{v}", "O": f"O:{ps}", "E": f"E:{ps}:{i}",
                "W": f"W:{ps}:{i}:{kind}:{' '.join(map(str, vals))}", "Q": f"Q:{ps}:{kind}:{' '.join(map(str, vals))}",
                "L": f"L:{ps}:{i}:{qs}", "M": f"M:{ps}:{qs}"}[op]
        py_apply(view, root, op, path, i, v, kind, vals, q, fresh_counter)
        out.append(text)
    return out


def _resolve(view, root, path):
    o = root
    for i in path:
        ss = view.slots(o)
        if i >= len(ss) or ss[i][1] != "o":
            return None
        o = ss[i][2]
    return o


def py_apply(view, root, op, path, i, v, kind, vals, q, fresh_counter):
    """the Python counterpart of Heap.apply1"""
    o = _resolve(view, root, path)
    if o is None or children(o)[0] == KIND_IMM or id(o) in view.frozen:
        return
    wk = writable_kind(o)
    ss = view.slots(o)
    if not wk:
        return
    if op in ("S", "N", "W", "L", "E") and i >= len(ss):
        return
    if op in ("L", "M"):
        tgt = _resolve(view, root, q)
        if tgt is None:
            return
    if op == "N":
        navs = [x for _, x in sorted(view.navs.values())]
        if not navs:
            return
    if op in ("W", "Q"):
        newobj = [written_atom(x) for x in vals] if kind == "k" else Fresh([written_atom(x) for x in vals])
    value = {"S": lambda: written_atom(v), "P": lambda: written_atom(v), "N": lambda: navs[0], "W": lambda: newobj,
             "Q": lambda: newobj, "L": lambda: tgt, "M": lambda: tgt}.get(op, lambda: None)()

    def set_slot(idx, val):
        label = ss[idx][0]
        if wk == "list":
            o[idx] = val
        elif wk == "dict":
            o[list(o.keys())[idx]] = val
        else:
            setattr(o, label, val) if wk == "slots" else o.__dict__.__setitem__(label, val)

    def push(val):
        if wk == "list":
            o.append(val)
        elif wk == "dict":
            o[f"w{fresh_counter[0]}"] = val
        else:
            o.__dict__[f"w{fresh_counter[0]}"] = val
        fresh_counter[0] += 1

    if op in ("S", "N", "W", "L"):
        set_slot(i, value)
    elif op in ("P", "Q", "M"):
        if wk == "slots":
            return
        push(value)
    elif op == "O":
        if wk == "list":
            o.pop()
        elif wk == "dict":
            o.popitem()
        elif wk == "attrs":
            o.__dict__.popitem()
    elif op == "E":
        if wk == "list":
            del o[i]
        elif wk == "dict":
            del o[list(o.keys())[i]]
        elif wk == "attrs":
            del o.__dict__[ss[i][0]]


DEPTH = 6


def _corr_worker(args):
    part, parts, quick, seed = args
    import random
    cases = []
    names = list(B(new_doc()))
    reps = 24 if quick else 200
    for k, name in enumerate(names):
        if k % parts != part:
            continue
        doc = new_doc()  # raw writes wreck the entities: a document per class, entities taken out of their layout
        b = B(doc)
        for rep in range(reps):
            rng = random.Random(f"{seed}/C16/x1/{name}/{rep}")
            e = b[name]()
            if rng.random() < 0.8:
                decorate(e, doc, xdict=rng.random() < 0.6)
            try:
                lay = e.get_layout() if hasattr(e, "get_layout") else None
                if lay is not None:
                    lay.unlink_entity(e)
            except Exception:
                pass
            try:
                c = e.copy()
            except ezdxf.DXFError:
                continue
            g0 = Graph()
            frozen_nodes = frozen_region(g0, g0.add(e), g0.add(c))
            # objects whose raw writes the Python side cannot mirror slot by slot (sets, arrays, mixed
            # __dict__/__slots__ instances, dicts with object keys) are not written by either side
            for i in g0.reach(g0.index[id(e)]) | g0.reach(g0.index[id(c)]):
                n = g0.nodes[i]
                if n["kind"] != KIND_IMM and not writable_kind(n["obj"]):
                    frozen_nodes.add(i)
            frozen_objs = [g0.nodes[i]["obj"] for i in frozen_nodes]
            view = HeapView(e, c, frozen_objs)
            view.nav_code(doc)  # navigation target 0 = the document
            heap = view.encode()
            who = rng.choice("ab")
            root = e if who == "a" else c
            before = view.tree(root, DEPTH)
            ws = gen_writes(view, root, rng, rng.choice([1, 2, 4, 8, 16]))
            ta, tb = view.tree(e, DEPTH), view.tree(c, DEPTH)
            nontrivial = (ta if who == "a" else tb) != before
            cases.append((f"run|{heap}|{who}|{';'.join(ws)}|{DEPTH}", f"{ta}#{tb}", nontrivial))
    return cases


def correspond(ctx):
    import multiprocessing as mp
    import os
    procs = int(os.environ.get("VERIF_PROCS", 4))
    jobs = [(i, procs, ctx.quick, ctx.seed) for i in range(procs)]
    if procs <= 1:
        parts = [_corr_worker(j) for j in jobs]
    else:
        with mp.get_context("fork").Pool(procs) as pool:
            parts = pool.map(_corr_worker, jobs, chunksize=1)
    cases = [c for p in parts for c in p]
    for req, _, nt in cases:
        ctx.hist("X1 heap model vs python objects", "writes change the written root" if nt else "no visible change")
    ctx.correspond("X1 heap model vs python objects", "C16", cases, build=DRIVER_DEPS)
    correspond_copy(ctx)


# ----------------------------------------------------------------------------- oracle entry, replay
GLOBAL_IGNORE = ("logger", "queryparser", "ezdxf.query.", "ezdxf.fonts.", "ezdxf.addons.")  # logging / pyparsing / font caches


def global_state_diff(g0, g1):
    out = []
    for k, v in g1.items():
        if any(x in k for x in GLOBAL_IGNORE):
            continue
        if k in g0 and g0[k] != v:
            out.append((k, fp_diff(g0[k], v)))
    return out


def with_global_check(fn):
    """run a worker and report module/class level state of the ezdxf package that its operations changed"""
    def wrapped(args):
        g0 = global_state()
        rec = fn(args)
        for k, d in global_state_diff(g0, global_state()):
            rec.fail(f"global-state/{k}", f"module/class level object {k} was modified by document operations at {d}", {"op": "global", "name": k})
        return rec
    wrapped.__name__ = fn.__name__
    return wrapped


def _w_sweep(a):
    return with_global_check(_sweep_worker)(a)


def _w_pure(a):
    return with_global_check(_pure_worker)(a)


def _w_virtual(a):
    return with_global_check(_virtual_worker)(a)


def _w_docs(a):
    return with_global_check(_docs_worker)(a)


def oracle(ctx):
    names = list(B(new_doc()))
    parallel(ctx, _w_sweep, [(names[i::8], ctx.quick, ctx.seed) for i in range(8)])
    parallel(ctx, _w_pure, [(i, 4, ctx.quick, ctx.seed) for i in range(4)])
    parallel(ctx, _w_virtual, [(i, 4, ctx.quick, ctx.seed) for i in range(4)])
    parallel(ctx, _w_docs, [(i, 4, ctx.quick, ctx.seed) for i in range(4)])
    non_copyable(ctx)


def non_copyable(ctx):
    """classes that refuse to be copied do so with CopyNotSupported and leave the document unchanged"""
    from ezdxf.entities import factory
    from ezdxf.entities.copy import CopyNotSupported
    doc = new_doc()
    covered = {type(f()).__name__ for f in B(doc).values()}
    for name, cls in sorted(factory.ENTITY_CLASSES.items()):
        if cls.__name__ in covered:
            continue
        e = cls.new(handle=None, owner=None, doc=doc)
        before = stable_doc_fp(doc)
        ctx.count("O8 non copyable classes", name, True)
        try:
            e.copy()
            ctx.fail(f"uncovered/{name}", f"{name} is copyable but has no builder in the harness (extend B())", {"op": "uncovered", "name": name})
        except CopyNotSupported:
            pass
        except Exception as ex:
            ctx.fail(f"copy-raises/{name}/{type(ex).__name__}", f"{name}.copy() raised {type(ex).__name__}: {ex}", {"op": "uncovered", "name": name})
        if stable_doc_fp(doc) != before:
            ctx.fail(f"impure/refused-copy/{name}", f"the refused copy of {name} modified the document", {"op": "uncovered", "name": name})


def replay(ctx, rep):
    """re-evaluate the recorded failing inputs: every recorded key must no longer be produced"""
    rec = Rec(rep.get("tier", "quick") == "quick", rep.get("seed", 0))
    want = {f["key"] for f in rep.get("failing_inputs", [])}
    todo = {}
    for f in rep.get("failing_inputs", []):
        r = f["replay"]
        todo.setdefault(r.get("op"), set()).add(r.get("builder") or r.get("label") or r.get("scenario") or "")
    for op, names in todo.items():
        if op in ("sweep", "sweep-db", "content", "handle"):
            for n in sorted(names):
                sweep_one(rec, n)
        elif op == "pure":
            producers_pure(rec)
        elif op == "virtual":
            virtual_sweep(rec)
        elif op in ("docs", "new"):
            for i in range(4):
                documents_oracle(rec, i, 4)
        elif op == "global":
            for w in (_w_docs,):
                r2 = w((0, 4, True, rec.seed))
                rec.fails += r2.fails
    still = sorted(want & {k for k, _, _ in rec.fails})
    return (not still, "; ".join(still[:10]) or "all recorded failing inputs pass now")


# ----------------------------------------------------------------------------- copy recipes from the source text (T-ast)
HEADER = ["doc", "dxf", "extension_dict", "reactors", "proxy_graphic", "appdata", "xdata", "_source_of_copy"]
DYNAMIC = {"_uuid", "_source_block_reference"}
POLICY_LETTER = {"deep": "d", "alias": "a", "shallow": "s", "reset": "r", "init": "i", "ents": "e", "fresh": "i"}


def _is_self_attr(node, who="self"):
    return isinstance(node, ast.Attribute) and isinstance(node.value, ast.Name) and node.value.id == who


def classify_rhs(v):
    """policy of `entity.X = <v>` in a copy_data body, or None if the form is not understood"""
    if isinstance(v, ast.Constant) and v.value is None:
        return "reset"
    if _is_self_attr(v):
        return "alias"
    if _is_self_attr(v, "entity"):
        return "init"  # `entity.x = entity.x`: the clone keeps what __init__ gave it
    if isinstance(v, ast.Call) and isinstance(v.func, ast.Name) and not v.args and not v.keywords and v.func.id[:1].isupper():
        return "fresh"  # `entity.x = SomeClass()`: a new default object
    if isinstance(v, ast.Call):
        f = v.func
        arg = v.args[0] if len(v.args) == 1 and not v.keywords else None
        fname = f.id if isinstance(f, ast.Name) else (f.attr if isinstance(f, ast.Attribute) else None)
        if fname == "deepcopy" and arg is not None and _is_self_attr(arg):
            return "deep"
        if isinstance(f, ast.Name) and f.id in ("list", "dict", "tuple", "set", "Tags") and arg is not None:
            if _is_self_attr(arg):
                return "shallow"
            if _is_self_attr(arg, "entity"):
                return "init"
        if isinstance(f, ast.Attribute) and isinstance(f.value, ast.Name) and f.value.id == "Vec3" and f.attr == "list" and arg is not None and _is_self_attr(arg):
            return "shallow"
        if isinstance(f, ast.Attribute) and f.attr in ("copy", "deep_copy") and not v.args and _is_self_attr(f.value):
            return "ents"  # x.copy(): a new object; nested entities are copied by their own copy()
        if isinstance(f, ast.Attribute) and isinstance(f.value, ast.Name) and f.value.id == "copy_strategy" and f.attr == "copy" and arg is not None and _is_self_attr(arg):
            return "ents"
        if isinstance(f, ast.Name) and f.id == "copy" and arg is not None and _is_self_attr(arg):
            return "ents"  # local helper `copy(matrix)`: None or matrix.copy()
    if isinstance(v, ast.ListComp) and len(v.generators) == 1 and _is_self_attr(v.generators[0].iter):
        e = v.elt
        if isinstance(e, ast.Call) and isinstance(e.func, ast.Attribute) and e.func.attr == "copy":
            return "ents"
    return None


def parse_copy_data(fn):
    """-> (parts {name: policy}, nsdrop [names], calls_super, opaque reason|None)"""
    import inspect
    import textwrap
    src = textwrap.dedent(inspect.getsource(fn))
    tree = ast.parse(src).body[0]
    parts, nsdrop, calls_super, opaque = {}, [], False, None

    def walk(stmts):
        nonlocal calls_super, opaque
        for st in stmts:
            if isinstance(st, ast.Expr) and isinstance(st.value, ast.Constant):
                continue
            if isinstance(st, (ast.Assert, ast.FunctionDef, ast.Pass)):
                continue
            if isinstance(st, ast.Expr) and isinstance(st.value, ast.Call):
                c = st.value
                txt = ast.unparse(c)
                if txt.startswith("super().copy_data("):
                    calls_super = True
                    continue
                if txt.startswith("entity.dxf.discard(") and c.args and isinstance(c.args[0], ast.Constant):
                    nsdrop.append(c.args[0].value)
                    continue
                # `entity.<part>.<method>(x.copy())`: filling a part of the clone with copies
                if (isinstance(c.func, ast.Attribute) and _is_self_attr(c.func.value, "entity") and c.args
                        and all(isinstance(a, ast.Call) and isinstance(a.func, ast.Attribute) and a.func.attr == "copy" and not a.args for a in c.args)):
                    continue
                opaque = opaque or f"statement {txt[:40]}"
                continue
            if isinstance(st, ast.If) and not st.orelse:
                walk(st.body)
                continue
            if isinstance(st, ast.Assign) and len(st.targets) == 1:
                t = st.targets[0]
                if isinstance(t, ast.Name) and t.id not in ("entity", "self"):
                    continue  # local variable
                if _is_self_attr(t, "entity"):
                    p = classify_rhs(st.value)
                    if p is None:
                        opaque = opaque or f"entity.{t.attr} = {ast.unparse(st.value)[:40]}"
                    else:
                        parts[t.attr] = p
                    continue
                if isinstance(t, ast.Attribute) and ast.unparse(t.value) == "entity.dxf":
                    nsdrop.append(t.attr)
                    continue
            opaque = opaque or f"statement {ast.unparse(st)[:40]}"

    walk(tree.body)
    return parts, nsdrop, calls_super, opaque


_RECIPES: dict = {}


def recipe_of(cls):
    """copy_data recipe of a class, derived from the source text of the copy_data methods along the MRO"""
    if cls in _RECIPES:
        return _RECIPES[cls]
    from ezdxf.entities import DXFEntity
    parts, nsdrop, opaque = {}, [], None
    if "copy" in {n for k in cls.__mro__ if k is not DXFEntity and k is not object for n in vars(k) if n == "copy"}:
        opaque = "class overrides copy()"
    chain = [k for k in cls.__mro__ if "copy_data" in vars(k)]
    todo = []
    for k in chain:
        p, nd, sup, op = parse_copy_data(vars(k)["copy_data"])
        todo.append((p, nd, op))
        if not sup:
            break
    for p, nd, op in reversed(todo):  # base class first, the override wins
        parts.update(p)
        nsdrop += nd
        opaque = opaque or op
    _RECIPES[cls] = {"parts": parts, "nsdrop": nsdrop, "opaque": opaque}
    return _RECIPES[cls]


def part_names(e):
    return sorted(n for n in vars(e) if n not in HEADER and n not in DYNAMIC)


def variant_of(e):
    """(class, variant, policies by part name) - Dictionary.copy_data branches on dxf.hard_owned (hand modelled)"""
    cls = type(e)
    r = recipe_of(cls)
    parts, opaque, var = dict(r["parts"]), r["opaque"], ""
    if cls.__name__ in ("Dictionary", "DictionaryWithDefault"):
        var = "hard" if e.dxf.hard_owned else "soft"
        parts.update({"_value_code": "alias", "_data": "ents" if var == "hard" else "shallow"})
        if cls.__name__ == "DictionaryWithDefault":
            parts["_default"] = "alias"
        opaque = None
    names = part_names(e)
    unresolved = [n for n in parts if n not in names]
    if unresolved and not opaque:
        opaque = f"copy_data assigns through a property or unknown attribute: {unresolved}"
    return cls, var, [parts.get(n, "init") for n in names], r["nsdrop"], opaque


def is_dxf_entity(o) -> bool:
    from ezdxf.entities import DXFEntity
    return isinstance(o, DXFEntity) and "dxf" in vars(o)


class Opaque(Exception):
    pass


def _oid(o):
    """identity of the STATE of an object: the id of its instance __dict__ if it has one (two wrappers around one attribute dict
    are the same mutable cell), else the id of the object"""
    if isinstance(o, (list, tuple, dict, set, frozenset, collections.deque)):
        return id(o)
    d = getattr(o, "__dict__", None)
    return id(d) if isinstance(d, dict) else id(o)


class TreeView:
    """value trees of real objects in the syntax of the Lean driver.  source(e) numbers the objects of the source;
    render(c) writes the copy relative to that numbering (s<addr> = the very object of the source)."""

    def __init__(self):
        self.addr, self.keep = {}, []
        self.atoms, self.navs = {"None": 0}, {}
        self.classes, self.blanks = {}, {}  # class key -> id ; id -> (recipe text, -, types text)
        self.deep_imm = {}
        self.ctx, self.frozen_addrs = {}, set()

    def atom(self, o):
        key = "None" if o is None else repr(fingerprint(o))
        if key not in self.atoms:
            self.atoms[key] = len(self.atoms)
        return f"v{self.atoms[key]}"

    def nav(self, o):
        """navigation reference: to an object of the source by its address, to anything else by a code >= 10^6"""
        if _oid(o) in self.addr:
            return f"n{self.addr[_oid(o)]}"
        if id(o) not in self.navs:
            self.navs[id(o)] = 1000000 + len(self.navs)
            self.keep.append(o)
        return f"n{self.navs[id(o)]}"

    def cls_id(self, e):
        key, row = program_row(e)
        if key not in self.classes:
            names = part_names(e)
            if names != row["names"]:
                raise Opaque(f"{type(e).__name__}: instance attributes created after __init__")
            cid = self.classes[key] = len(self.classes)
            self.blanks[cid] = None  # reserve (recursion)
            P = programs()
            self.blanks[cid] = (" ".join(self.ppol_text(pp) for pp in row_ppols(row)), None,
                                " ".join(ty_text(P["types"][key][a]) for a in names))
        return self.classes[key]

    def pol_text(self, p):
        if p[0] in ("deep", "alias", "ents"):
            return p[0][0]
        if p[0] == "const":
            return "C( " + self.tree(const_value(p[1]), number=False, path=()) + " )"
        if p[0] == "gen":
            return f"g{p[1]}"
        if p[0] == "each":
            return "E( " + self.pol_text(p[1]) + " )"
        if p[0] == "fields":
            return "F( " + " ".join(self.pol_text(q) for _, q in p[1]) + " )"
        raise ValueError(p)

    def ppol_text(self, pp):
        if pp[0] == "one":
            return "1 " + self.pol_text(pp[1])
        t = pp[1]
        tt = "?n" if t[0] == "notNone" else "?k" + ".".join(map(str, t[1]))
        return f"{tt} {self.pol_text(pp[2])} {self.pol_text(pp[3])}"

    def kids(self, o):
        for label, c in children(o)[1]:
            yield label, c

    def slot(self, o, label, c, number, path, render):
        if is_atom(c):
            return self.atom(c)
        if (label in NAV_ATTRS and _is_entity(o)) or tname(c) in NAV_TARGET_TYPES:
            return self.nav(c)
        if render:
            return self.render(c, path)
        # Frozen rules are keyed by (type, type of the owning object, attribute[+ [] per container step])
        if isinstance(o, (list, tuple, dict, set, frozenset, collections.deque)):
            owner, via = self.ctx.get(id(o), ("?", "?"))
            via = via + "[]"
        else:
            owner, via = tname(o), label
        self.ctx[id(c)] = (owner, via)
        start = len(self.addr)
        known = _oid(c) in self.addr
        out = self.tree(c, number, path)
        if number and _frozen_by_rule(c, owner, via):
            self.frozen_addrs.update(range(start + 1, len(self.addr) + 1))
            if known:
                self.frozen_addrs.add(self.addr[_oid(c)])
        return out

    def _address(self, o, number):
        if not number:
            return 0
        if _oid(o) not in self.addr:
            self.addr[_oid(o)] = len(self.addr) + 1
            self.keep.append(o)
        return self.addr[_oid(o)]

    def _opaque_content(self, o):
        """arrays and extension objects: one leaf with the content"""
        if isinstance(o, (bytearray, array.array)) or (_numpy is not None and isinstance(o, _numpy.ndarray)) or (
                not hasattr(o, "__dict__") and not slots_of(o) and not isinstance(o, (list, tuple, dict, set, frozenset, collections.deque, types.MethodType))):
            return self.atom(("opaque", repr(fingerprint(o))))
        return None

    def tree(self, o, number=True, path=()):
        """source side: ATree text with addresses"""
        if is_atom(o):
            return self.atom(o)
        if id(o) in path:
            if number and _oid(o) in self.addr:
                return self.nav(o)  # a reference back to an object on the path (BLOCK_RECORD <-> its layout): identity only
            raise Opaque("cyclic value")
        path = path + (id(o),)
        a = self._address(o, number)
        if is_dxf_entity(o):
            return self._entity(o, a, number, path, render=False)
        kind = "ick"[children(o)[0]]
        oc = self._opaque_content(o)
        if oc is not None:
            return f"{kind}{a}[ {oc} ]"
        return f"{kind}{a}[ " + " ".join(self.slot(o, l, c, number, path, False) for l, c in self.kids(o)) + " ]"

    def _entity(self, e, a, number, path, render):
        cid = self.cls_id(e)
        nsdrop = nsdrop_for(e)
        d = vars(e.dxf)
        names = ["handle", "owner"] + sorted(n for n in d if n not in ("handle", "owner", "_entity") and n not in nsdrop)
        sub = (lambda c, l, owner: self.slot(owner, l, c, number, path, render))
        ns_a = self._address(e.dxf, number) if not render else None
        ns_items = " ".join(sub(d.get(n), n, e.dxf) for n in names)
        ns = (f"c[ {ns_items} ]" if render else f"c{ns_a}[ {ns_items} ]")
        hdr = []
        for n in HEADER:
            if n == "dxf":
                hdr.append(ns)
            else:
                hdr.append(sub(vars(e).get(n), n, e))
        parts = [sub(getattr(e, n), n, e) for n in part_names(e)]
        head = f"e{cid}[" if render else f"e{cid}@{a}["
        return head + " " + " ".join(hdr + parts) + " ]"

    def is_deep_imm(self, o):
        if is_atom(o):
            return True
        if id(o) in self.deep_imm:
            return self.deep_imm[id(o)]
        self.deep_imm[id(o)] = False  # cycles are not immutable values
        kind, ch = children(o)
        r = kind == KIND_IMM and all(self.is_deep_imm(c) for _, c in ch)
        self.deep_imm[id(o)] = r
        return r

    def render(self, o, path=()):
        """copy side: s<addr> for an object of the source (unless it is an immutable value), else the new object"""
        if is_atom(o):
            return self.atom(o)
        if _oid(o) in self.addr and not self.is_deep_imm(o):
            return f"s{self.addr[_oid(o)]}"
        if id(o) in path:
            raise Opaque("cyclic value")
        path = path + (id(o),)
        if is_dxf_entity(o):
            return self._entity(o, 0, False, path, render=True)
        kind = "ick"[children(o)[0]]
        oc = self._opaque_content(o)
        if oc is not None:
            return f"{kind}[ {oc} ]"
        return f"{kind}[ " + " ".join(self.slot(o, l, c, False, path, True) for l, c in self.kids(o)) + " ]"

    def request(self, src_text, env=()):
        cls = ";".join(f"{cid}={self.blanks[cid][0]}" for cid in sorted(self.blanks))
        return f"copyp|{cls}|{';'.join(env)}|{src_text}"

    def typed_request(self, tree_text):
        tys = ";".join(f"{cid}={self.blanks[cid][2]}" for cid in sorted(self.blanks))
        return f"typed|{tys}|{' '.join(map(str, sorted(self.frozen_addrs)))}|{tree_text}"

    def safe_request(self):
        cls = ";".join(f"{cid}={self.blanks[cid][0]}" for cid in sorted(self.blanks))
        tys = ";".join(f"{cid}={self.blanks[cid][2]}" for cid in sorted(self.blanks))
        return f"safe|{cls}|{tys}"

    def env_trees(self, e):
        """inputs of the generators of the recipe of `e`: DIMENSION - the entities of the geometry block, in the shape of
        the EntitySpace the generator result is stored in"""
        key, row = program_row(e)
        gens = [p for pp in row["parts"].values() for p in pols_of(pp) if p[0] == "gen"]
        if not gens:
            return []
        content = list(e._block_content())
        a1, a2 = len(self.addr) + 1, len(self.addr) + 2
        self.addr[("wrapper", id(e), 1)] = a1
        self.addr[("wrapper", id(e), 2)] = a2
        return [f"c{a1}[ k{a2}[ " + " ".join(self.tree(x) for x in content) + " ] ]"]


def _copy_corr_worker(args):
    part, parts, quick, seed = args
    import random
    doc = new_doc()
    b = B(doc)
    cases, typed, skipped = [], [], {}
    reps = 24 if quick else 200
    for k, name in enumerate(b):
        if k % parts != part:
            continue
        for rep in range(reps):
            rng = random.Random(f"{seed}/C16/x2/{name}/{rep}")
            e = b[name]()
            if rng.random() < 0.8:
                decorate(e, doc, xdict=rng.random() < 0.6)
            if rng.random() < 0.6:  # other payload shapes
                spec = specific_mutators(e, rng) or [("", lambda x: None)]
                for _ in range(rng.randint(1, 3)):
                    run_mut(rng.choice(spec)[1], e)
            try:
                if rng.random() < 0.25:  # second generation: the source is itself an unbound copy
                    e = e.copy()
                tv = TreeView()
                tv.nav(doc)
                src = tv.tree(e)
                env = tv.env_trees(e)
                c = e.copy()
                out = tv.render(c)
                req = tv.request(src, env)
            except Opaque as ex:
                skipped[name] = str(ex)
                break
            except ezdxf.DXFError:
                break
            row = program_row(e)[1]
            explicit = bool(row["parts"])
            cases.append((req, out, explicit or e.xdata is not None or e.appdata is not None or e.extension_dict is not None))
            typed.append((tv.typed_request(src), "ok", explicit))
            for t in env:
                typed.append((tv.typed_request(t), "ok", True))
            typed.append((tv.safe_request(), "true", explicit))
    return cases, skipped, typed


def correspond_copy(ctx):
    import multiprocessing as mp
    import os
    procs = int(os.environ.get("VERIF_PROCS", 4))
    jobs = [(i, procs, ctx.quick, ctx.seed) for i in range(procs)]
    if procs <= 1:
        res = [_copy_corr_worker(j) for j in jobs]
    else:
        with mp.get_context("fork").Pool(procs) as pool:
            res = pool.map(_copy_corr_worker, jobs, chunksize=1)
    cases = [c for r in res for c in r[0]]
    typed = [c for r in res for c in r[2]]
    skipped = {}
    for r in res:
        skipped.update(r[1])
    stream = "X2 copy model vs CopyStrategy.copy"
    for n, why in sorted(skipped.items()):
        ctx.hist(stream, "class not modelled (oracle and graphs only)")
        ctx.note(f"X2 skips {n}: {why}")
    ctx.correspond(stream, "C16", cases, build=DRIVER_DEPS)
    # X3: the hypotheses of `all_recipes_separate` on the real instances: every source tree (and generator input) of X2 is
    # well typed (`wt`, evaluated by the Lean driver) against the inferred type table with the Frozen objects of the
    # instance, and the recipes of the classes in the request are safe against those types
    ctx.correspond("X3 source trees are well typed (hypothesis of all_recipes_separate)", "C16", typed, build=DRIVER_DEPS)


# ----------------------------------------------------------------------------- recipes as programs (session 3, T-ast + T-heap)
# Every copy method of src/ezdxf/entities is translated into the recipe language of Model/HeapRecipe.lean by
# harness/translate/copyrecipes_c16.py; the types of the parts are inferred from populated instances; Lean checks the one
# against the other (`recipes_safe`) and that nothing was left untranslated (`recipes_complete`).
_PROGRAMS = None


def _opaque_value_type(T) -> bool:
    """instances are leaves with a value (Matrix44, numpy / array objects): x.copy() is a new object"""
    if T.__name__ in ("Matrix44",) or issubclass(T, (array.array, bytearray)):
        return True
    return _numpy is not None and issubclass(T, _numpy.ndarray)


def populated_instances():
    """[(builder name, entity)]: the decorated instance of every builder, two payload variants and an unbound copy of each
    (a copy is the source of the second generation copies: DIMENSION with virtual block content)"""
    import random
    out = []
    doc = new_doc()
    b = B(doc)
    for name, build in b.items():
        for v in range(3):
            e = build()
            if v == 0:
                decorate(e, doc)
            else:
                r = random.Random(f"C16/programs/{name}/{v}")
                spec = specific_mutators(e, r)
                for _ in range(2):
                    if spec:
                        run_mut(r.choice(spec)[1], e)
            out.append((name, e))
            try:
                out.append((name, e.copy()))
            except ezdxf.DXFError:
                pass
    return out


def _frozen_by_rule(v, owner_name, via) -> bool:
    return any(rule_covers(r, (tname(v), owner_name, via)) for r in FROZEN_RULES)


def _deep_imm(o, memo=None) -> bool:
    memo = {} if memo is None else memo
    if is_atom(o):
        return True
    if id(o) in memo:
        return memo[id(o)]
    memo[id(o)] = False
    kind, ch = children(o)
    r = kind == KIND_IMM and all(_deep_imm(c, memo) for _, c in ch)
    memo[id(o)] = r
    return r


BOT = ("bot",)     # only atoms seen
FREE = ("free",)   # no policy looks at the value


def ty_join(a, b):
    if a == FREE:
        return b
    if b == FREE:
        return a
    if a == BOT:
        return b
    if b == BOT:
        return a
    if a == b:
        return a
    if a == ("any",) or b == ("any",):
        return ("any",)
    if a == ("ok",):
        a, b = b, a
    if b == ("ok",):  # an `ok` value seen where a collection / object was seen: its children are `ok`
        if a[0] == "coll":
            return ("coll", ty_join(a[1], ("ok",)))
        if a[0] == "obj":
            return ("obj", [ty_join(x, ("ok",)) for x in a[1]])
    if a[0] == "coll" and b[0] == "coll":
        return ("coll", ty_join(a[1], b[1]))
    if a[0] == "obj" and b[0] == "obj":
        n = max(len(a[1]), len(b[1]))
        xs, ys = a[1] + [BOT] * (n - len(a[1])), b[1] + [BOT] * (n - len(b[1]))
        return ("obj", [ty_join(x, y) for x, y in zip(xs, ys)])
    return ("any",)


def ty_infer(v, pol, owner_name, via):
    """type of the value `v` as far as policy `pol` looks at it"""
    if pol is None or pol[0] in ("deep", "ents", "const", "gen"):
        return FREE
    if is_atom(v):
        return BOT
    if _deep_imm(v) or (pol[0] == "alias" and _frozen_by_rule(v, owner_name, via)):
        return ("ok",)
    if pol[0] == "alias":
        return ("any",)
    kind, ch = children(v)
    if pol[0] == "each":
        t = BOT if pol[1][0] == "alias" else FREE
        for label, c in ch:
            if isinstance(v, dict) and label.startswith("key"):
                continue
            t = ty_join(t, ty_infer(c, pol[1], owner_name if isinstance(v, (list, tuple, dict, set)) and via.endswith("[]") else owner_name, via + "[]"))
        return ("coll", t)
    if pol[0] == "fields":
        if is_dxf_entity(v):
            return ("any",)
        sub = dict(pol[1])
        return ("obj", [ty_infer(c, sub.get(label), tname(v), label) for label, c in ch])
    return ("any",)


def ty_final(t):
    if t == BOT:
        return ("ok",)
    if t == FREE:
        return ("any",)
    if t[0] == "coll":
        return ("coll", ty_final(t[1]))
    if t[0] == "obj":
        return ("obj", [ty_final(x) for x in t[1]])
    return t


def pols_of(pp):
    return [pp[1]] if pp[0] == "one" else [pp[2], pp[3]]


def class_key(cls, assume):
    return cls.__name__ + "".join(f"?{a}={int(bool(v))}" for a, v in sorted(assume.items()))


def programs():
    """-> dict(rows, types, methods, untranslated, ok_parts, generators, samples)
    rows: class key -> dict(cls, assume, parts {attr: PPol}, nsdrop, names [part names of a default instance])"""
    global _PROGRAMS
    if _PROGRAMS is not None:
        return _PROGRAMS
    import importlib
    import os
    from ezdxf.entities import factory, DXFEntity
    from runner import REPO
    from translate.copyrecipes_c16 import Translator, Untranslatable, NeedVariant, scan_sources, fn_ast, body_of, PROTOCOL_NAMES

    insts = populated_instances()
    by_type = {}
    g = Graph()
    for _, e in insts:
        g.add(e)
    for n in g.nodes:
        by_type.setdefault(type(n["obj"]), []).append(n["obj"])

    def samples(cls, attr):
        out = []
        for T, objs in by_type.items():
            if issubclass(T, cls):
                for o in objs:
                    try:
                        out.append(inspect_getattr(o, attr))
                    except AttributeError:
                        pass
        return out

    def inspect_getattr(o, attr):
        d = getattr(o, "__dict__", None)
        if isinstance(d, dict) and attr in d:
            return d[attr]
        return object.__getattribute__(o, attr)

    tr = Translator(samples, lambda T: issubclass(T, DXFEntity), _opaque_value_type)
    rows, untranslated, raises = {}, [], set()
    classes = set(factory.ENTITY_CLASSES.values()) | {T for T in by_type if issubclass(T, DXFEntity)}
    for cls in sorted(classes, key=lambda c: c.__name__):
        todo = [{}]
        while todo:
            assume = todo.pop()
            try:
                r = tr.recipe(cls, assume)
            except NeedVariant as nv:
                todo += [dict(assume, **{nv.attr: True}), dict(assume, **{nv.attr: False})]
                continue
            except Untranslatable as ex:
                if str(ex) == "raises":
                    raises.add(cls.__name__)
                else:
                    untranslated.append((f"{cls.__name__}.copy_data", str(ex)))
                continue
            try:
                blank = cls()
                names = part_names(blank)
            except Exception as ex:
                untranslated.append((cls.__name__, f"no default instance: {ex}"))
                continue
            unknown = [a for a in r["parts"] if a not in names]
            if unknown:
                untranslated.append((f"{cls.__name__}.copy_data", f"assigns attributes that __init__ does not create: {unknown}"))
                continue
            rows[class_key(cls, assume)] = {"cls": cls, "assume": assume, "parts": r["parts"], "nsdrop": r["nsdrop"], "names": names}

    # ---- the scanner: every copy method found in the source must be accounted for
    methods = []
    for rel, cname, mname, text in scan_sources(REPO):
        key = f"{rel[len('src/ezdxf/'):]}:{cname}.{mname}"
        if (cname, mname) in tr.used_methods and cname not in ("Vec2", "Vec3"):
            methods.append((key, "recipe"))
            continue
        disp = None
        if text.startswith("alias of "):
            disp = "alias"
        elif cname in ("Vec2", "Vec3"):
            disp = "immutable-value"  # value classes without mutator (trusted base): whatever they return is a value
        elif rel.endswith(".pyx"):
            import re
            if re.fullmatch(rf"return {cname}, \(?.*\)?", text.strip()) and "self" in text:
                disp = "reconstruct"  # __reduce__: a new object built from the values of self
            elif mname == "__deepcopy__" and text.strip() == "return self":
                disp = "immutable-self"
        else:
            fd = ast.parse(text).body[0]
            body = body_of(fd)
            btxt = [ast.unparse(s) for s in body]
            if len(body) == 1 and isinstance(body[0], ast.Raise) and "CopyNotSupported" in btxt[0]:
                disp = "raises"
            elif not body:
                disp = "recipe"  # DXFEntity.copy_data: pass
            elif btxt == ["return copy_strategy.copy(self)"]:
                disp = "strategy"
            elif btxt == ["return self"]:
                disp = "immutable-self"
            elif cname == "CopyStrategy" and mname == "copy":
                disp = "strategy" if btxt == STRATEGY_SKELETON else None
                if disp is None:
                    untranslated.append((key, "CopyStrategy.copy differs from the modelled header: " + next(
                        (b for b, s in zip(btxt + ["<end>"], STRATEGY_SKELETON + ["<end>"]) if b != s), "?")[:60]))
                    methods.append((key, "untranslated"))
                    continue
            elif cname == "DXFNamespace" and mname in ("copy", "__deepcopy__", "__getstate__", "__setstate__"):
                disp = "namespace" if btxt == NAMESPACE_SKELETON.get(mname) else None
            elif cname == "DXFEntity" and mname == "shallow_copy":
                # type cast constructor (POLYLINE -> Polyface / Polymesh at load time): the argument is replaced by the
                # result and dropped by the caller; "not a real copy" - everything is handed over by reference
                disp = "type-cast" if btxt == CAST_SKELETON else None
            if disp is None:
                # a helper class: translate the method on its own (it may be off every copy path of the package)
                try:
                    mod = importlib.import_module(rel[len("src/"):-3].replace(os.sep, "."))
                    T = getattr(mod, cname)
                    vals = [o for K, objs in by_type.items() if issubclass(K, T) for o in objs]
                    if issubclass(T, DXFEntity):
                        if mname != "copy_data":
                            raise Untranslatable("entity class: method outside the copy strategy")
                        r = tr.recipe(T, {})  # an entity class that the factory does not register
                        rows[class_key(T, {})] = {"cls": T, "assume": {}, "parts": r["parts"], "nsdrop": r["nsdrop"], "names": part_names(T())}
                        disp = "recipe"
                    else:
                        tr.helper(T, mname, vals)
                        # a hand written copy protocol method of a non-value class changes what `copy.deepcopy` (policy
                        # `deep`) does for every part that holds such an object: not a harmless form
                        disp = "helper" if mname not in PROTOCOL_NAMES else "deepcopy-override"
                        if disp != "helper":
                            untranslated.append((key, "copy protocol override of a helper class: the policy `deep` of the parts that hold it is no longer 'a new graph'"))
                except Untranslatable as ex:
                    untranslated.append((key, str(ex)))
                    disp = "untranslated"
                except Exception as ex:
                    untranslated.append((key, f"{type(ex).__name__}: {ex}"))
                    disp = "untranslated"
        methods.append((key, disp))

    # ---- types of the parts, inferred from the populated instances
    types = {}
    for key, row in rows.items():
        cls = row["cls"]
        tys = {a: FREE for a in row["names"]}
        for T, objs in by_type.items():
            if not (isinstance(T, type) and issubclass(T, cls)):
                continue
            for o in objs:
                if class_key(cls, {a: o.dxf.get(a) for a in row["assume"]}) != key:
                    continue
                for a in row["names"]:
                    pp = row["parts"].get(a)
                    if pp is None or a not in vars(o):
                        continue
                    for p in pols_of(pp):
                        tys[a] = ty_join(tys[a], ty_infer(vars(o)[a], p, tname(o), a))
        types[key] = {a: ty_final(t) if row["parts"].get(a) is not None else ("any",) for a, t in tys.items()}

    # ---- every position that a policy passes by reference: (class of the owner, attribute)
    ok_parts = set()

    def walk(p, owner, attr):
        if p[0] == "alias":
            ok_parts.add((owner, attr))
        elif p[0] == "each":
            walk(p[1], owner, attr)
        elif p[0] == "fields":
            hn = p[2] if len(p) > 2 else None
            for a, q in p[1]:
                walk(q, helper_owner.get(id(p[1]), owner + "." + attr), a)

    helper_owner = {}
    for (T, m), pol in tr.helpers.items():
        if pol and pol[0] == "fields":
            helper_owner[id(pol[1])] = T.__name__
    for key, row in rows.items():
        for a, pp in row["parts"].items():
            for p in pols_of(pp):
                walk(p, row["cls"].__name__, a)
    for (T, m), pol in tr.helpers.items():
        if pol:
            walk(pol, T.__name__, "<self>")
    _PROGRAMS = {"rows": rows, "types": types, "methods": methods, "untranslated": untranslated, "ok_parts": sorted(ok_parts),
                 "generators": tr.generators, "raises": sorted(raises), "by_type": by_type, "translator": tr}
    return _PROGRAMS


STRATEGY_SKELETON = [
    "settings = self.settings", "clone = entity.__class__()", "doc = entity.doc", "clone.doc = doc",
    "clone.dxf = entity.dxf.copy(clone)", "if settings.reset_handles:\n    clone.dxf.reset_handles()",
    "if settings.copy_extension_dict:\n    xdict = entity.extension_dict\n    if xdict is not None and doc is not None and xdict.is_alive:\n        clone.extension_dict = xdict.copy(self)",
    "if settings.copy_reactors and entity.reactors is not None:\n    clone.reactors = entity.reactors.copy()",
    "if settings.copy_proxy_graphic:\n    clone.proxy_graphic = entity.proxy_graphic",
    "if settings.copy_appdata:\n    clone.appdata = deepcopy(entity.appdata)",
    "if settings.copy_xdata:\n    clone.xdata = deepcopy(entity.xdata)",
    "if settings.set_source_of_copy:\n    clone.set_source_of_copy(entity)",
    "entity.copy_data(clone, copy_strategy=self)", "return clone",
]
NAMESPACE_SKELETON = {
    "copy": ["namespace = self.__class__()", "for k, v in self.__dict__.items():\n    namespace.__dict__[k] = v", "namespace.rewire(entity)", "return namespace"],
    "__deepcopy__": ["return self.copy(self._entity)"],
    "__getstate__": ["return self.__dict__"],
    "__setstate__": ["if not isinstance(state, dict):\n    raise TypeError(f'invalid state: {type(state).__name__}')", "object.__setattr__(self, '__dict__', state)"],
}
CAST_SKELETON = ["entity = cls()", "entity.doc = other.doc", "entity.dxf = other.dxf", "entity.extension_dict = other.extension_dict",
                 "entity.reactors = other.reactors", "entity.appdata = other.appdata", "entity.xdata = other.xdata",
                 "entity.proxy_graphic = other.proxy_graphic", "entity.dxf.rewire(entity)", "return entity"]


# ---- rendering for Lean (Gen table) and for the driver (X2 requests)
def const_value(what):
    """the Python value of a `const` policy (a new object on every call)"""
    if what[0] == "none":
        return None
    if what[0] == "value":
        return what[1]
    if what[0] == "initof":
        return vars(what[1]()).get(what[2]) if hasattr(what[1](), "__dict__") else getattr(what[1](), what[2], None)
    if what[0] == "fresh":
        import sys
        for k in what[2].__mro__:
            K = getattr(sys.modules.get(k.__module__), what[1], None)
            if isinstance(K, type):
                return K()
    raise ValueError(what)


def lean_shape(o, depth=0):
    """value tree without atoms and addresses, for the `const` policies of the generated table"""
    if is_atom(o) or depth > 6:
        return ".leaf 0"
    kind, ch = children(o)
    k = {KIND_IMM: ".imm", KIND_CELL: ".cell", KIND_CONT: ".cont"}[kind]
    kids = [lean_shape(c, depth + 1) for label, c in ch if not ((label in NAV_ATTRS and _is_entity(o)) or tname(c) in NAV_TARGET_TYPES)]
    return f".node 0 {k} [{', '.join(kids)}]"


def lean_pol(p):
    if p[0] in ("deep", "alias", "ents"):
        return "." + p[0]
    if p[0] == "const":
        return f".const ({lean_shape(const_value(p[1]))})"
    if p[0] == "gen":
        return f".gen {p[1]}"
    if p[0] == "each":
        return f".each ({lean_pol(p[1])})"
    if p[0] == "fields":
        return ".fields [" + ", ".join(lean_pol(q) for _, q in p[1]) + "]"
    raise ValueError(p)


def lean_test(t):
    return ".notNone" if t[0] == "notNone" else f".nonEmpty [{', '.join(map(str, t[1]))}]"


def lean_ppol(pp):
    if pp[0] == "one":
        return f".one ({lean_pol(pp[1])})"
    return f".cond ({lean_test(pp[1])}) ({lean_pol(pp[2])}) ({lean_pol(pp[3])})"


def lean_ty(t):
    if t[0] in ("any", "ok"):
        return "." + t[0]
    if t[0] == "coll":
        return f".coll ({lean_ty(t[1])})"
    return ".obj [" + ", ".join(lean_ty(x) for x in t[1]) + "]"


def shape_holds(t, v, owner, via) -> bool:
    """Python mirror of `shape` (Model/HeapRecipe.lean) on a real value: does `v` have type `t`"""
    if t[0] == "any" or is_atom(v):
        return True
    if t[0] == "ok":
        return _deep_imm(v) or _frozen_by_rule(v, owner, via)
    if is_dxf_entity(v):
        return False
    kind, ch = children(v)
    if t[0] == "coll":
        return all(shape_holds(t[1], c, owner, via + "[]") for label, c in ch if not (isinstance(v, dict) and label.startswith("key")))
    if len(ch) > len(t[1]):
        return False
    return all(shape_holds(f, c, tname(v), label) for f, (label, c) in zip(t[1], ch))


_GLOBAL_IDS = None


def global_object_ids():
    """id -> name of the module / class level root for every mutable object below a module level root (instances and
    loggers excluded): what no document or entity may hold by identity"""
    global _GLOBAL_IDS
    if _GLOBAL_IDS is None:
        out = {}
        for name, kind, obj in global_roots():
            gg = Graph()
            try:
                gg.add(obj, stop=lambda o: _global_stop(o) is not None, limit=200000)
            except RuntimeError:
                continue
            for n in gg.nodes:
                if n["kind"] != KIND_IMM and not n.get("stopped"):
                    out.setdefault(id(n["obj"]), name)
        _GLOBAL_IDS = out
    return _GLOBAL_IDS


def handed_out_global(e):
    """name of a module level root one of whose mutable objects the entity `e` holds by identity (None if there is none)"""
    ids = global_object_ids()
    try:
        g = Graph()
        g.add(e)
    except Exception:
        return None
    for n in g.nodes:
        if n["kind"] != KIND_IMM and id(n["obj"]) in ids:
            return f"{ids[id(n['obj'])]} via {n['path']}"
    return None


def typing_violation(e):
    """first payload part of entity `e` (or of an entity below it) whose value does not have the inferred type of its
    class: the hypothesis `wt` of all_recipes_separate on the real object; None if all parts are well typed"""
    try:
        P = programs()
        g = Graph()
        r = g.add(e)
    except Exception:
        return None
    for i in sorted(g.reach(r)):
        o = g.nodes[i]["obj"]
        if not is_dxf_entity(o):
            continue
        try:
            key, row = program_row(o)
        except Opaque:
            continue
        for a in row["names"]:
            t = P["types"][key][a]
            if t != ("any",) and a in vars(o) and not shape_holds(t, vars(o)[a], tname(o), a):
                return f"{type(o).__name__}.{a}"
    return None


def program_row(e):
    """(class key, row) of the recipe of entity `e` (the variant is chosen by the DXF attributes the copy_data tests)"""
    P = programs()
    cls = type(e)
    for k in cls.__mro__:
        for key, row in P["rows"].items():
            if row["cls"] is k and all(bool(e.dxf.get(a)) == bool(v) for a, v in row["assume"].items()):
                return key, row
    raise Opaque(f"{cls.__name__}: no recipe (copy not supported or untranslated)")


def nsdrop_for(e):
    """names of DXF attributes that the copy of `e` does not take over (evaluated on the source of a copy)"""
    src = e.source_of_copy if getattr(e, "source_of_copy", None) is not None else e
    try:
        _, row = program_row(src)
    except Opaque:
        return []
    out = []
    for name, test, which in row["nsdrop"]:
        if test is None or bool(eval(compile(ast.Expression(test), "<nsdrop>", "eval"), {}, {"self": src})) == which:
            out.append(name)
    return out


def ty_text(t):
    if t[0] == "any":
        return "*"
    if t[0] == "ok":
        return "o"
    if t[0] == "coll":
        return "L( " + ty_text(t[1]) + " )"
    return "O( " + " ".join(ty_text(x) for x in t[1]) + " )"


def row_ppols(row):
    """PPol per part of a default instance, in slot order (parts that copy_data does not assign keep what __init__ stored)"""
    return [row["parts"].get(a, ("one", ("const", ("initof", row["cls"], a)))) for a in row["names"]]


def programs_to_lean():
    P = programs()
    keys = sorted(P["rows"])
    text = "/-- class ids of the recipe / type tables (class name, `?attr=0|1` for the variants of a class whose copy_data branches on a DXF attribute) -/\n"
    text += f"def classNames : List (Nat × String) := {lean_list((f'({i}, {lean_str(k)})' for i, k in enumerate(keys)), 4)}\n\n"
    text += "/-- T-ast: the copy_data recipes as programs, payload parts in slot order of a default instance -/\n"
    text += "def recipesP : List (Nat × List PPol) := " + lean_list((f"({i}, [{', '.join(lean_ppol(pp) for pp in row_ppols(P['rows'][k]))}])" for i, k in enumerate(keys)), 1) + "\n\n"
    text += "/-- T-heap: types of the payload parts inferred from the populated instances, same order -/\n"
    text += "def partTypes : List (Nat × List Ty) := " + lean_list((f"({i}, [{', '.join(lean_ty(P['types'][k][a]) for a in P['rows'][k]['names'])}])" for i, k in enumerate(keys)), 1) + "\n\n"
    text += "/-- every copy method found by the scanner (COPY_NAMES under src/ezdxf/entities, copy protocol methods in the whole package) and how it is accounted for -/\n"
    text += f"def copyMethods : List (String × String) := {lean_list((lean_rule(m) for m in P['methods']), 2)}\n\n"
    text += "/-- methods with a construct outside the translated subset (must be empty: `recipes_complete`) -/\n"
    text += f"def untranslated : List (String × String) := {lean_list((lean_rule((a, b.replace(chr(10), ' ')[:90])) for a, b in P['untranslated']), 1)}\n\n"
    text += "/-- every position that some policy passes by reference: (class that owns the attribute, attribute) -/\n"
    text += f"def okParts : List (String × String) := {lean_list((lean_rule(r) for r in P['ok_parts']), 3)}\n\n"
    text += "/-- parts whose value comes from a generator of the entity: (class, part, call) -/\n"
    text += f"def generators : List (String × String × String) := {lean_list((lean_rule(r) for r in P['generators']), 1)}\n\n"
    return text


# ----------------------------------------------------------------------------- module level mutable state (session 3, T-heap)
def global_roots():
    """every module level / class level mutable object of the loaded ezdxf modules (add-ons excluded), mutable default
    arguments of functions and methods, lru caches: [(qualified name, kind, object)], one entry per object identity"""
    import functools
    import sys
    seen, out = set(), []

    def add(name, kind, obj):
        if is_atom(obj) or id(obj) in seen:
            return
        seen.add(id(obj))
        out.append((name, kind, obj))

    def fn_defaults(name, f):
        if isinstance(f, functools._lru_cache_wrapper):
            add(name, "lru-cache", f)
            f = f.__wrapped__
        if isinstance(f, types.FunctionType):
            for i, d in enumerate((f.__defaults__ or ()) + tuple((f.__kwdefaults__ or {}).values())):
                add(f"{name}(default {i})", "default-arg", d)

    for mname, mod in sorted(sys.modules.items()):
        if not (mname == "ezdxf" or mname.startswith("ezdxf.")) or mod is None or ".addons" in mname:
            continue
        for name, v in sorted(vars(mod).items()):
            if name.startswith("__"):
                continue
            if isinstance(v, type):
                if v.__module__ != mname:
                    continue
                for an, av in sorted(vars(v).items()):
                    if an.startswith("__") and an != "__init__":
                        continue
                    f = av.__func__ if isinstance(av, (staticmethod, classmethod)) else av
                    if isinstance(f, (types.FunctionType, functools._lru_cache_wrapper)):
                        fn_defaults(f"{mname}.{name}.{an}", f)
                    elif isinstance(av, property):
                        continue
                    else:
                        add(f"{mname}.{name}.{an}", "class-attr", av)
            elif isinstance(v, (types.FunctionType, functools._lru_cache_wrapper)):
                if getattr(v, "__module__", None) == mname:
                    fn_defaults(f"{mname}.{name}", v)
            elif not isinstance(v, types.ModuleType):
                add(f"{mname}.{name}", "module-var", v)
    return out


def _global_stop(o):
    t = tname(o)
    if t == "Drawing" or (_is_entity(o) and hasattr(o, "dxf")):
        return ("instance", t)
    if t in ("Logger", "RootLogger", "Manager", "PlaceHolder"):
        return ("logging", t)
    return None


def scan_globals(battery, warm=False):
    """obligation table for module level state: (name, kind, status)
      status  'stable'      content unchanged by the battery of document operations (run after a warm-up run of the same
                            battery) and no mutable object of it is stored in a document / entity instance
              'handed-out'  a mutable object below it is held (by identity) by a document or entity instance: a write through
                            the instance would reach every other document
              'changed'     the battery changed it (write-barrier probe by content)"""
    if not warm:
        battery()  # warm-up: lazily filled caches and registries (regenerate has run the same scenarios in extract())
    roots = global_roots()
    fp0 = {}
    for name, kind, obj in roots:
        try:
            fp0[name] = fingerprint(obj, stop_at=_global_stop)
        except Exception:
            fp0[name] = None
    held = battery()
    g = Graph()
    for r in held:
        g.add(r)
    inst_ids = {id(n["obj"]) for n in g.nodes if n["kind"] != KIND_IMM}
    table = []
    for name, kind, obj in roots:
        try:
            changed = fingerprint(obj, stop_at=_global_stop) != fp0[name]
        except Exception:
            changed = False
        gg = Graph()
        try:
            gg.add(obj, stop=lambda o: _global_stop(o) is not None, limit=200000)
        except RuntimeError:
            pass
        handed = any(n["kind"] != KIND_IMM and id(n["obj"]) in inst_ids and not n.get("stopped") for n in gg.nodes)
        if kind == "lru-cache" and not _lru_returns_value(obj):
            changed = True  # a cache that hands the same mutable object to every caller
        table.append((name, kind, "changed" if changed else ("handed-out" if handed else "stable")))
    new_roots = [r for r in global_roots() if r[0] not in fp0]
    for name, kind, obj in new_roots:  # appeared during the second run: state created by document operations
        table.append((name, kind, "changed"))
    return sorted(table)


def _lru_returns_value(f) -> bool:
    """does the lru cached function return immutable values (so that sharing the cached object between callers and documents
    is harmless): by return annotation, else by a probe call of the undecorated function with small integers"""
    import inspect
    w = f.__wrapped__
    ann = getattr(w, "__annotations__", {}).get("return")
    names = {"int", "float", "str", "bool", "bytes", "Vec2", "Vec3", "tuple", "frozenset", "complex"}
    if ann is not None:
        a = ann if isinstance(ann, str) else getattr(ann, "__name__", str(ann))
        if a.split("[")[0].replace("Optional", "").strip("[] ") in names or a in names:
            return True
    try:
        n = len([p for p in inspect.signature(w).parameters.values() if p.default is p.empty and p.kind in (p.POSITIONAL_ONLY, p.POSITIONAL_OR_KEYWORD)])
        if n <= 3:
            return _deep_imm(w(*([3] * n)))
    except Exception:
        pass
    return False


def globals_battery():
    """documents and entities made by the operations of the scenarios: copies by all routes, virtual entities, documents
    created / loaded / recovered, saved"""
    held = []
    doc = new_doc()
    b = B(doc)
    for name, f in b.items():
        e = f()
        decorate(e, doc)
        held.append(e)
        for kname, kf in copy_kinds(e, doc).items():
            try:
                held.append(kf(e))
            except ezdxf.DXFError:
                pass
    import random
    for name, f in b.items():
        probe = f()
        for mname, fn in specific_mutators(probe, random.Random(0)):
            if any(w in mname for w in ("clear", "pop", "delete", "discard", "remove")):
                continue
            e = f()
            if run_mut(fn, e) == "ok":
                held.append(e)
    doc2 = new_doc()
    for name, roots, produce in virtual_scenarios(doc2, B(doc2)):
        try:
            held += list(produce())
        except Exception:
            pass
    held += [doc, doc2]
    for name, d1, d2 in document_pairs():
        held += [d1, d2]
    return held

"""C11  Vector, matrix and coordinate-system algebra obeys its laws (DESIGN.md section 7, C11).

regenerate : py2lean translation of both twins (math/_vector.py, math/_matrix44.py | acc/vector.pyx, acc/matrix44.pyx)
             and of math/ucs.py linked against each twin -> Gen/{VectorPy,VectorPyx,Matrix44Py,Matrix44Pyx,UcsPy,UcsPyx}.lean
correspond : generated kernels (Lean driver) vs. both implementations on dyadic / Pythagorean inputs
oracle     : the property's own laws evaluated on the real code (both implementations)
"""
from __future__ import annotations

import math
import os
import subprocess
import sys
from fractions import Fraction as Fr

ID = "C11"
LEAN_MODULES = ["EzdxfVerif.Props.C11"]
GEN = ["VectorPy", "VectorPyx", "Matrix44Py", "Matrix44Pyx", "UcsPy", "UcsPyx"]
DRIVER_DEPS = ["EzdxfVerif.Model.Rat3", "Drivers.Proto"] + [f"EzdxfVerif.Gen.{g}" for g in GEN]

VPY, VPYX = "src/ezdxf/math/_vector.py", "src/ezdxf/acc/vector.pyx"
MPY, MPYX = "src/ezdxf/math/_matrix44.py", "src/ezdxf/acc/matrix44.pyx"
UCS = "src/ezdxf/math/ucs.py"
PXD = ["src/ezdxf/acc/vector.pxd", "src/ezdxf/acc/matrix44.pxd", "src/ezdxf/acc/constants.h"]

# ------------------------------------------------------------------------------------------------ kernel lists
A, B = ("self", "v3", "a"), ("other", "v3", "b")
A2, B2 = ("self", "v2", "a"), ("other", "v2", "b")
M = ("self", "m44", "m")


def vector_kernels(pyx: bool):
    """(lean name, python qualname, params, extra kwargs) for one twin of the vector module"""
    k = [
        ("v3add", "Vec3.__add__", [A, B]),
        ("v3sub", "Vec3.__sub__", [A, B]),
        ("v3rsub", "Vec3.__rsub__", [A, B]),
        ("v3mul", "Vec3.__mul__", [A, ("factor" if pyx else "other", "rat", "k")]),
        ("v3neg", "Vec3.__neg__", [A]),
        ("v3dot", "Vec3.dot", [A, B]),
        ("v3cross", "Vec3.cross", [A, B]),
        ("v3lerp", "Vec3.lerp", [A, B, ("factor", "rat", "t")]),
        ("v3magsq", "Vec3.magnitude_square", [A]),
        ("v3ortho", "Vec3.orthogonal", [A, ("ccw", "bool")]),
        ("v3eq", "Vec3.__eq__", [A, B]),
        ("v3lt", "Vec3.__lt__", [A, B]),
        ("v3isclose", "Vec3.isclose", [A, B]),
        ("v3isnull", "Vec3.is_null", [A]),
        ("v3normalize", "Vec3.normalize", [A]),
        ("v3project", "Vec3.project", [A, B]),
        ("v3distance", "Vec3.distance", [A, B]),
        ("v3sum", "Vec3.sum", [("items", ("list", "v3"), "vs")]),
        ("v2add", "Vec2.__add__", [A2, B2]),
        ("v2sub", "Vec2.__sub__", [A2, B2]),
        ("v2mul", "Vec2.__mul__", [A2, ("factor" if pyx else "other", "rat", "k")]),
        ("v2neg", "Vec2.__neg__", [A2]),
        ("v2dot", "Vec2.dot", [A2, B2]),
        ("v2det", "Vec2.det", [A2, B2]),
        ("v2lerp", "Vec2.lerp", [A2, B2, ("factor", "rat", "t")]),
        ("v2ortho", "Vec2.orthogonal", [A2, ("ccw", "bool")]),
        ("v2eq", "Vec2.__eq__", [A2, B2]),
        ("v2lt", "Vec2.__lt__", [A2, B2]),
        ("v2isclose", "Vec2.isclose", [A2, B2]),
        ("v2sum", "Vec2.sum", [("items", ("list", "v2"), "vs")]),
    ]
    return [(n, q, p, {}) for n, q, p in k]


def matrix_kernels(pyx: bool):
    ang = lambda n: (n, "angle")
    k = [
        ("scale", "Matrix44.scale", [("sx", "rat"), ("sy", "rat"), ("sz", "rat")], {}),
        ("scaleUniform", "Matrix44.scale", [("sx", "rat"), ("sy", ("const", None)), ("sz", ("const", None))], {}),
        ("translate", "Matrix44.translate", [("dx", "rat"), ("dy", "rat"), ("dz", "rat")], {}),
        ("xRotate", "Matrix44.x_rotate", [ang("angle")], {}),
        ("yRotate", "Matrix44.y_rotate", [ang("angle")], {}),
        ("zRotate", "Matrix44.z_rotate", [ang("angle")], {}),
        ("axisRotate", "Matrix44.axis_rotate", [("axis", "v3"), ang("angle")], {}),
        ("xyzRotate", "Matrix44.xyz_rotate", [ang("angle_x"), ang("angle_y"), ang("angle_z")], {}),
        ("shearXY", "Matrix44.shear_xy", [ang("angle_x"), ang("angle_y")], {}),
        ("ucs", "Matrix44.ucs", [("ux", "v3"), ("uy", "v3"), ("uz", "v3"), ("origin", "v3")], {}),
        ("transform", "Matrix44.transform", [M, ("vector", "v3", "v")], {}),
        ("transformDirection", "Matrix44.transform_direction", [M, ("vector", "v3", "v")], {}),
        ("transformDirectionN", "Matrix44.transform_direction", [M, ("vector", "v3", "v"), ("normalize", ("const", True))], {}),
        ("transformVertices", "Matrix44.transform_vertices", [M, ("vectors", ("list", "v3"), "vs")], {}),
        ("transformDirections", "Matrix44.transform_directions", [M, ("vectors", ("list", "v3"), "vs")], {}),
        ("fast2d", "Matrix44.fast_2d_transform", [M, ("points", ("list", "v2"), "ps")], {}),
        ("ucsVertexFromWcs", "Matrix44.ucs_vertex_from_wcs", [M, ("wcs", "v3", "p")], {}),
        ("ucsDirectionFromWcs", "Matrix44.ucs_direction_from_wcs", [M, ("wcs", "v3", "p")], {}),
        ("origin", "Matrix44.origin", [M], {}),
        ("ux", "Matrix44.ux", [M], {}),
        ("uy", "Matrix44.uy", [M], {}),
        ("uz", "Matrix44.uz", [M], {}),
        ("copy", "Matrix44.copy", [M], {}),
        ("from2d", "Matrix44.from_2d_transformation", [("components", ("tuple", ["rat"] * 6), "c")], {}),
    ]
    if pyx:  # explicit arithmetic exists only in the Cython twin; the NumPy forms of the Python twin are modelled
        k += [  # by the textbook algebra of Model/Rat3.lean (M44.mul/transpose/det/inv/chain) and tied by correspondence
            ("imul", "Matrix44.__imul__", [M, ("other", "m44", "o")], {}),
            ("imulSelf", "Matrix44.__imul__", [M, ("other", ("alias", "self"))], {}),  # m *= m : `other` IS `self`
            ("mul", "Matrix44.__mul__", [M, ("other", "m44", "o")], {}),
            ("matmul", "Matrix44.__matmul__", [M, ("other", "m44", "o")], {}),
            ("transpose", "Matrix44.transpose", [M], {"result": "self"}),
            ("determinant", "Matrix44.determinant", [M], {}),
            ("inverse", "Matrix44.inverse", [M], {"result": "self", "opaque": {"Matrix44.determinant": "determinant"}}),
            ("chain", "Matrix44.chain", [("matrices", ("list", "m44"), "ms")], {}),
            ("array2d", "transform_2d_array_inplace", [("m", "arr16"), ("array", ("rows",), "rows"), ("size", ("rowcount", "array"))], {"result": "array"}),
            ("array3d", "transform_3d_array_inplace", [("m", "arr16"), ("array", ("rows",), "rows"), ("size", ("rowcount", "array"))], {"result": "array"}),
        ]
    return k


OCS_OBJ = ("obj", "OCS", {"transform": "bool", "matrix": "m44"})
UCS_OBJ = ("obj", "UCS", {"matrix": "m44"})
P = ("point", "v3", "p")


def ucs_kernels():
    o, x, y, z = ("origin", "v3"), ("ux", "v3"), ("uy", "v3"), ("uz", "v3")
    none = lambda n: (n, ("const", None))
    new = ("self", ("obj", "UCS", {}))
    return [
        ("ocsInit", "OCS.__init__", [("self", ("obj", "OCS", {})), ("extrusion", "v3", "n")],
         {"result": "(self.transform, self.matrix if self.transform else Matrix44())"}),
        ("ocsFromWcs", "OCS.from_wcs", [("self", OCS_OBJ), P], {}),
        ("ocsToWcs", "OCS.to_wcs", [("self", OCS_OBJ), P], {}),
        ("ocsUx", "OCS.ux", [("self", OCS_OBJ)], {}),
        ("ocsUy", "OCS.uy", [("self", OCS_OBJ)], {}),
        ("ocsUz", "OCS.uz", [("self", OCS_OBJ)], {}),
        ("ucsInitXYZ", "UCS.__init__", [new, o, x, y, z], {"result": "self.matrix"}),
        ("ucsInitXY", "UCS.__init__", [new, o, x, y, none("uz")], {"result": "self.matrix"}),
        ("ucsInitXZ", "UCS.__init__", [new, o, x, none("uy"), z], {"result": "self.matrix"}),
        ("ucsInitYZ", "UCS.__init__", [new, o, none("ux"), y, z], {"result": "self.matrix"}),
        ("ucsToWcs", "UCS.to_wcs", [("self", UCS_OBJ), P], {}),
        ("ucsFromWcs", "UCS.from_wcs", [("self", UCS_OBJ), P], {}),
        ("ucsDirectionToWcs", "UCS.direction_to_wcs", [("self", UCS_OBJ), ("vector", "v3", "p")], {}),
        ("ucsDirectionFromWcs", "UCS.direction_from_wcs", [("self", UCS_OBJ), ("vector", "v3", "p")], {}),
        ("ucsPointsToWcs", "UCS.points_to_wcs", [("self", UCS_OBJ), ("points", ("list", "v3"), "ps")], {}),
    ]


def regenerate(ctx):
    from translate.py2lean import Program, translate, lean_file

    def read(rel):
        try:
            return ctx.src(rel)
        except FileNotFoundError:
            raise
    for twin, vsrc, msrc, suffix in (("py", VPY, MPY, "Py"), ("pyx", VPYX, MPYX, "Pyx")):
        prog = Program(read)
        prog.link("ezdxf.math", [vsrc, msrc])
        pyx = twin == "pyx"
        srcs = {"Vector": [vsrc] + ([PXD[0], PXD[2]] if pyx else []),
                "Matrix44": [msrc, vsrc] + (PXD if pyx else []),
                "Ucs": [UCS, vsrc, msrc] + (PXD if pyx else [])}
        for mod, path, kernels in (("Vector", vsrc, vector_kernels(pyx)), ("Matrix44", msrc, matrix_kernels(pyx)),
                                   ("Ucs", UCS, ucs_kernels())):
            defs, extra = [], ""
            for lean_name, qual, params, kw in kernels:
                d = translate(prog, path, qual, params, lean_name=lean_name, **kw)
                defs.append(d)
                if d.sqrt_params:
                    extra += d.sqrt_wrapper() + "\n"
            ns = f"EzdxfVerif.Gen.{mod}{suffix}"
            ctx.write_gen(f"{mod}{suffix}", lean_file(ns, defs, extra=extra), srcs[mod])


# ================================================================================================ implementation side
RULE = (
    "correspondence X1 (exact): every generated kernel of both twins (vector ops, comparisons, isclose, factories, transform "
    "variants incl. batch/array forms, products, chain, transpose, Cython determinant, UCS/OCS conversions) on dyadic inputs "
    "(mantissa <= 8 bit, 9 magnitudes 2^-40..2^40, special vectors, affine/general/singular matrices) vs the Lean evaluation of "
    "Gen/*.lean: results must be EQUAL as rationals, exceptions by class.  X2 (tolerant): kernels with sqrt/trig/NumPy LU "
    "(normalize, project, distance, axis/xyz rotation, OCS/UCS construction incl. extrusions on both sides of the 1/64 "
    "threshold, determinant of the Python twin, inverse of both twins): |impl - model| <= stated tolerance (abs 2^-40*scale, "
    "inverse 8ulp*kappa_inf*max|inv|); inputs within 1e-9 of a branch threshold are regenerated (decision band).  "
    "non-trivial = input not a zero / axis-aligned / identity special case; distinct by hash of the request line.  "
    "oracle: the laws themselves on the real code, C extension in-process, pure-Python twin by direct import and "
    "(OCS/UCS, whole-library mode) in a subprocess with EZDXF_DISABLE_C_EXT=1."
)
TRUSTED_BASE = [
    "py2lean translator (harness/translate): cross-checked by the exact correspondence stream on every run",
    "np.matmul / ndarray.T / np.linalg.det / np.linalg.inv of the pure-Python twin are modelled by the textbook algebra "
    "M44.mul/transpose/det/inv (Model/Rat3.lean); tied by correspondence only",
    "CPython math.isclose / abs semantics (pyIsclose, pyAbs in Model/Rat3.lean); libm sin/cos/tan/sqrt enter as parameters",
    "Cython semantics of the pre-pass: `cdef double[16] a = b` copies, `cdef double *a = b` aliases, C-array attribute "
    "assignment copies, float division by zero raises ZeroDivisionError (cdivision off)",
]
ASSUMPTIONS = [
    "inputs are finite doubles; NaN/inf/overflow/underflow are outside the model (rationals)",
    "rounding error of float arithmetic is bounded by the stated tolerances, not proved",
]
OPEN = [
    "np.linalg.inv singularity detection near (not at) singular matrices; float rounding bounds; angle/rotate/atan2 numerics",
]

MAGS = [-40, -20, -8, -2, 0, 2, 8, 20, 40]


def fr(x) -> str:
    """canonical protocol form of a number: the exact rational value of the double nearest to x, so that the model
    and the implementation always receive the very same number"""
    f = Fr(float(Fr(x)))
    return str(f.numerator) if f.denominator == 1 else f"{f.numerator}/{f.denominator}"


def frs(xs) -> str:
    return ",".join(fr(x) for x in xs)


def parse_fr(s: str) -> Fr:
    return Fr(s)


def parse_list(s: str):
    return [float(Fr(t)) for t in s.split(",")] if s else []


class Twin:
    """the classes of one implementation"""

    def __init__(self, name):
        self.name = name
        if name == "pyx":
            from ezdxf.acc.vector import Vec3, Vec2
            from ezdxf.acc.matrix44 import Matrix44
        else:
            from ezdxf.math._vector import Vec3, Vec2
            from ezdxf.math._matrix44 import Matrix44
        self.V3, self.V2, self.M = Vec3, Vec2, Matrix44


def have_cext() -> bool:
    try:
        from ezdxf.acc import USE_C_EXT
        return bool(USE_C_EXT)
    except Exception:
        return False


def _ok(vals, tag="") -> str:
    for v in vals:
        if isinstance(v, float) and (math.isnan(v) or math.isinf(v)):
            return "ok " + tag + "nonfinite"
    return "ok " + tag + frs(float(v) for v in vals)


def _b(x) -> str:
    return "T" if x else "F"


def impl_value(tw: Twin, kernel: str, a: list, ucsmod=None) -> str:
    """evaluate one kernel on the real code; `a` are the protocol argument strings"""
    V3, V2, M = tw.V3, tw.V2, tw.M
    v3 = lambda s: V3(*parse_list(s))
    v2 = lambda s: V2(*parse_list(s))
    mat = lambda s: M(parse_list(s))
    lst = lambda s, f: [f(t) for t in s.split(";")] if s else []
    try:
        k = kernel
        if k == "v3add": return _ok(v3(a[0]) + v3(a[1]))
        if k == "v3sub": return _ok(v3(a[0]) - v3(a[1]))
        if k == "v3rsub": return _ok(tuple(parse_list(a[1])) - v3(a[0]))
        if k == "v3mul": return _ok(v3(a[0]) * float(Fr(a[1])))
        if k == "v3neg": return _ok(-v3(a[0]))
        if k == "v3dot": return _ok([v3(a[0]).dot(v3(a[1]))])
        if k == "v3cross": return _ok(v3(a[0]).cross(v3(a[1])))
        if k == "v3lerp": return _ok(v3(a[0]).lerp(v3(a[1]), float(Fr(a[2]))))
        if k == "v3magsq": return _ok([v3(a[0]).magnitude_square])
        if k == "v3ortho": return _ok(v3(a[0]).orthogonal(a[1] == "T"))
        if k == "v3eq": return "ok " + _b(v3(a[0]) == v3(a[1]))
        if k == "v3lt": return "ok " + _b(v3(a[0]) < v3(a[1]))
        if k == "v3isclose": return "ok " + _b(v3(a[0]).isclose(v3(a[1])))
        if k == "v3isnull": return "ok " + _b(v3(a[0]).is_null)
        if k == "v3sum": return _ok(V3.sum(lst(a[0], v3)))
        if k == "v3normalize": return _ok(v3(a[0]).normalize())
        if k == "v3project": return _ok(v3(a[0]).project(v3(a[1])))
        if k == "v3distance": return _ok([v3(a[0]).distance(v3(a[1]))])
        if k == "v2add": return _ok(v2(a[0]) + v2(a[1]))
        if k == "v2sub": return _ok(v2(a[0]) - v2(a[1]))
        if k == "v2mul": return _ok(v2(a[0]) * float(Fr(a[1])))
        if k == "v2neg": return _ok(-v2(a[0]))
        if k == "v2dot": return _ok([v2(a[0]).dot(v2(a[1]))])
        if k == "v2det": return _ok([v2(a[0]).det(v2(a[1]))])
        if k == "v2lerp": return _ok(v2(a[0]).lerp(v2(a[1]), float(Fr(a[2]))))
        if k == "v2ortho": return _ok(v2(a[0]).orthogonal(a[1] == "T"))
        if k == "v2eq": return "ok " + _b(v2(a[0]) == v2(a[1]))
        if k == "v2lt": return "ok " + _b(v2(a[0]) < v2(a[1]))
        if k == "v2isclose": return "ok " + _b(v2(a[0]).isclose(v2(a[1])))
        if k == "v2sum": return _ok(V2.sum(lst(a[0], v2)))
        if k == "scale": return _ok(M.scale(*parse_list(a[0])))
        if k == "scaleUniform": return _ok(M.scale(float(Fr(a[0]))))
        if k == "translate": return _ok(M.translate(*parse_list(a[0])))
        if k in ("xRotate", "yRotate", "zRotate"):  # a = [c, s, angle]
            return _ok(getattr(M, k[0] + "_rotate")(float(Fr(a[2]))))
        if k == "axisRotate": return _ok(M.axis_rotate(v3(a[0]), float(Fr(a[3]))))
        if k == "xyzRotate": return _ok(M.xyz_rotate(*parse_list(a[1])))
        if k == "shearXY": return _ok(M.shear_xy(*parse_list(a[2])))
        if k == "ucs": return _ok(M.ucs(v3(a[0]), v3(a[1]), v3(a[2]), v3(a[3])))
        if k == "from2d": return _ok(M.from_2d_transformation(parse_list(a[0])))
        if k == "transform": return _ok(mat(a[0]).transform(v3(a[1])))
        if k == "transformDirection": return _ok(mat(a[0]).transform_direction(v3(a[1])))
        if k == "transformDirectionN": return _ok(mat(a[0]).transform_direction(v3(a[1]), True))
        if k == "transformVertices": return _ok([c for v in mat(a[0]).transform_vertices(lst(a[1], v3)) for c in v])
        if k == "transformDirections": return _ok([c for v in mat(a[0]).transform_directions(lst(a[1], v3)) for c in v])
        if k == "fast2d": return _ok([c for v in mat(a[0]).fast_2d_transform(lst(a[1], v2)) for c in v])
        if k == "ucsVertexFromWcs": return _ok(mat(a[0]).ucs_vertex_from_wcs(v3(a[1])))
        if k == "ucsDirectionFromWcs": return _ok(mat(a[0]).ucs_direction_from_wcs(v3(a[1])))
        if k == "axes":
            m = mat(a[0])
            return _ok(list(m.ux) + list(m.uy) + list(m.uz) + list(m.origin))
        if k == "copy":
            m = mat(a[0]); c = m.copy(); m *= M.scale(2.0)  # the copy must not follow the original
            return _ok(c)
        if k == "mul":
            x, y = mat(a[0]), mat(a[1]); r = x * y
            return _ok(r) if (list(x) == parse_list(a[0]) and list(y) == parse_list(a[1])) else "ok operands-mutated"
        if k == "matmul": return _ok(mat(a[0]) @ mat(a[1]))
        if k == "imul":
            x, y = mat(a[0]), mat(a[1]); x *= y
            return _ok(x) if list(y) == parse_list(a[1]) else "ok operand-mutated"
        if k == "imulSelf":
            x = mat(a[0]); x *= x
            return _ok(x)
        if k == "transpose":
            x = mat(a[0]); x.transpose()
            return _ok(x)
        if k == "determinant": return _ok([mat(a[0]).determinant()])
        if k == "inverse":
            x = mat(a[0]); x.inverse()
            return _ok(x)
        if k == "chain": return _ok(M.chain(*lst(a[0], mat)))
        if k in ("array2d", "array3d"):
            import numpy as np
            rows = [parse_list(r) for r in a[1].split(";")] if a[1] else []
            arr = np.array(rows, dtype=np.float64) if rows else np.zeros((0, 3))
            mat(a[0]).transform_array_inplace(arr, 2 if k == "array2d" else 3)
            return _ok([c for r in arr.tolist() for c in r])
        # ---- ucs.py (linked with whatever ezdxf.math is in this process)
        U = ucsmod
        if k == "ocsInit":
            o = U.OCS(v3(a[0]))
            return _ok(o.matrix if o.transform else M(), tag=_b(o.transform) + ";")
        if k in ("ocsFromWcs", "ocsToWcs", "ocsAxes"):
            o = U.OCS()
            o.transform = a[0] == "T"
            o.matrix = mat(a[1])
            if k == "ocsFromWcs": return _ok(o.from_wcs(v3(a[2])))
            if k == "ocsToWcs": return _ok(o.to_wcs(v3(a[2])))
            return _ok(list(o.ux) + list(o.uy) + list(o.uz))
        if k == "ucsInitXYZ": return _ok(U.UCS(v3(a[0]), v3(a[1]), v3(a[2]), v3(a[3])).matrix)
        if k == "ucsInitXY": return _ok(U.UCS(v3(a[0]), ux=v3(a[1]), uy=v3(a[2])).matrix)
        if k == "ucsInitXZ": return _ok(U.UCS(v3(a[0]), ux=v3(a[1]), uz=v3(a[2])).matrix)
        if k == "ucsInitYZ": return _ok(U.UCS(v3(a[0]), uy=v3(a[1]), uz=v3(a[2])).matrix)
        if k in ("ucsToWcs", "ucsFromWcs", "ucsDirectionToWcs", "ucsDirectionFromWcsU", "ucsPointsToWcs"):
            u = U.UCS()
            u.matrix = mat(a[0])
            if k == "ucsToWcs": return _ok(u.to_wcs(v3(a[1])))
            if k == "ucsFromWcs": return _ok(u.from_wcs(v3(a[1])))
            if k == "ucsDirectionToWcs": return _ok(u.direction_to_wcs(v3(a[1])))
            if k == "ucsDirectionFromWcsU": return _ok(u.direction_from_wcs(v3(a[1])))
            return _ok([c for v in u.points_to_wcs(lst(a[1], v3)) for c in v])
        raise KeyError(kernel)
    except ZeroDivisionError:
        return "err ZeroDivisionError"
    except (TypeError, ValueError, IndexError) as e:
        return "err " + type(e).__name__


UCS_KERNELS = {"ocsInit", "ocsFromWcs", "ocsToWcs", "ocsAxes", "ucsInitXYZ", "ucsInitXY", "ucsInitXZ", "ucsInitYZ",
               "ucsToWcs", "ucsFromWcs", "ucsDirectionToWcs", "ucsDirectionFromWcsU", "ucsPointsToWcs"}
# arguments that are only for the implementation (angle next to its cos/sin), dropped from the Lean request
IMPL_ONLY_ARGS = {"xRotate": 1, "yRotate": 1, "zRotate": 1, "axisRotate": 1, "xyzRotate": 1, "shearXY": 1}


def pure_python_worker(lines: list) -> list:
    """evaluate `twin=py` requests of ucs.py in a subprocess where the whole library runs without C extensions"""
    if not lines:
        return []
    env = dict(os.environ, EZDXF_DISABLE_C_EXT="1", PYTHONPATH=os.pathsep.join([str(_repo() / "src"), str(_harness())]))
    r = subprocess.run([sys.executable, "-c", "import props.c11 as m; m._worker_main()"], input="\n".join(lines) + "\n",
                       capture_output=True, text=True, env=env, cwd=str(_harness()), timeout=1800)
    out = r.stdout.splitlines()
    if r.returncode != 0 or len(out) != len(lines):
        from runner import Infra
        raise Infra(f"pure-Python worker failed rc={r.returncode} in={len(lines)} out={len(out)}\n{r.stderr[-2000:]}")
    return out


def _repo():
    from pathlib import Path
    return Path(os.environ.get("VERIF_REPO", "/repo"))


def _harness():
    from pathlib import Path
    return Path(__file__).resolve().parent.parent


def _worker_main():
    import ezdxf  # noqa
    from ezdxf.acc import USE_C_EXT
    assert not USE_C_EXT, "worker must run without C extensions"
    assert os.path.realpath(ezdxf.__file__).startswith(os.path.realpath(str(_repo()))), f"worker imported {ezdxf.__file__}"
    import ezdxf.math.ucs as U
    from ezdxf.math import Vec3
    from ezdxf.math._vector import Vec3 as PV
    assert Vec3 is PV
    tw = Twin("py")
    for line in sys.stdin:
        line = line.rstrip("\n")
        if not line:
            continue
        kind, rest = line.split("|", 1)
        if kind == "k":  # kernel request: k|kernel|args...
            parts = rest.split("|")
            print(impl_value(tw, parts[0], parts[1:], U))
        elif kind == "o":  # oracle request: o|name|json
            import json
            name, payload = rest.split("|", 1)
            print(json.dumps(ORACLES_UCS[name](json.loads(payload), tw, U)))
        sys.stdout.flush()


# ================================================================================================ generators
class G:
    """seeded structured generators; all numbers are dyadic with short mantissas so that + - * are exact in floats"""

    def __init__(self, rng):
        self.r = rng

    def dy(self, e=0, bits=7, nonzero=False) -> Fr:
        while True:
            m = self.r.randint(-(1 << bits), 1 << bits)
            if m or not nonzero:
                break
        return Fr(m) * Fr(2) ** (e + self.r.choice([-2, -1, 0, 0, 1]))

    def mag(self) -> int:
        return self.r.choice(MAGS)

    def v3(self, e=None, special=True):
        e = self.mag() if e is None else e
        c = self.r.random()
        if special and c < 0.12:
            return self.r.choice([(0, 0, 0), (1, 0, 0), (0, 1, 0), (0, 0, 1), (0, 0, -1), (-1, 0, 0), (1, 1, 1), (1, -1, 0)])
        if special and c < 0.2:
            v = [self.dy(e), self.dy(e), self.dy(e)]
            v[self.r.randrange(3)] = Fr(0)
            return tuple(v)
        return (self.dy(e), self.dy(e), self.dy(e))

    def v2(self, e=None):
        e = self.mag() if e is None else e
        if self.r.random() < 0.1:
            return self.r.choice([(0, 0), (1, 0), (0, 1), (-1, 1)])
        return (self.dy(e), self.dy(e))

    def near(self, v, same_prob=0.5):
        """a vector equal to v in a prefix of components (ordering / equality tests)"""
        v = list(v)
        w = list(v)
        k = self.r.randrange(len(v) + 1)
        for i in range(k, len(v)):
            if self.r.random() < 0.8:
                w[i] = v[i] + self.r.choice([-1, 1, 2, -3]) * Fr(2) ** self.r.choice([-50, -3, 0, 5]) if self.r.random() < 0.7 else self.dy(0)
        return tuple(w)

    def affine(self, e=0, bits=5):
        m = [self.dy(0, bits) for _ in range(16)]
        m[3] = m[7] = m[11] = Fr(0)
        m[15] = Fr(1)
        for i in (12, 13, 14):
            m[i] = self.dy(e, bits)
        return m

    def general(self, bits=5):
        return [self.dy(0, bits) for _ in range(16)]

    def matrix(self):
        c = self.r.random()
        if c < 0.55:
            return self.affine(self.r.choice([-8, 0, 0, 8]))
        if c < 0.75:
            return self.general()
        if c < 0.85:
            return [Fr(x) for x in (1, 0, 0, 0, 0, 1, 0, 0, 0, 0, 1, 0, 0, 0, 0, 1)]
        return self.singular()

    def singular(self):
        m = self.general(4)
        c = self.r.randrange(5)
        if c == 0:
            m[4:8] = [2 * x for x in m[0:4]]  # proportional rows
        elif c == 1:
            m[8:12] = [Fr(0)] * 4  # zero row
        elif c == 2:
            for i in range(4):
                m[4 * i + 2] = m[4 * i + 0] + m[4 * i + 1]  # dependent column
        elif c == 3:
            m = self.affine(0, 4)
            m[8:11] = [m[0] - m[4], m[1] - m[5], m[2] - m[6]]  # affine but flat (projects to a plane)
        else:
            m = [Fr(0)] * 16
        return m

    def unimodular(self):
        """integer affine matrix with determinant +-1 (exact inverse): product of elementary shears and swaps"""
        import itertools
        a = [[Fr(int(i == j)) for j in range(3)] for i in range(3)]
        for _ in range(self.r.randint(1, 6)):
            i, j = self.r.sample(range(3), 2)
            k = self.r.randint(-3, 3)
            op = self.r.randrange(3)
            if op == 0:
                a[i] = [x + k * y for x, y in zip(a[i], a[j])]
            elif op == 1:
                a[i], a[j] = a[j], a[i]
            else:
                a[i] = [-x for x in a[i]]
        t = [Fr(self.r.randint(-9, 9)) for _ in range(3)]
        return a[0] + [Fr(0)] + a[1] + [Fr(0)] + a[2] + [Fr(0)] + t + [Fr(1)]

    def wellcond(self):
        """diagonally dominant-ish affine matrix: condition number small"""
        m = self.affine(self.r.choice([-4, 0, 4]), 4)
        s = self.r.choice([1, 2, 4, 8, 32])
        for i in (0, 5, 10):
            m[i] = Fr(self.r.choice([-1, 1])) * (Fr(40) + self.dy(0, 4)) * s
        if self.r.random() < 0.3:  # general 4th column too
            m[3], m[7], m[11], m[15] = self.dy(-3, 3), self.dy(-3, 3), self.dy(-3, 3), Fr(60) + self.dy(0, 3)
        return m

    PYTH = [(3, 4, 5), (5, 12, 13), (8, 15, 17), (7, 24, 25), (20, 21, 29), (9, 40, 41), (12, 35, 37), (11, 60, 61),
            (28, 45, 53), (33, 56, 65), (1, 0, 1), (0, 1, 1)]

    def cs(self):
        a, b, c = self.r.choice(self.PYTH)
        if self.r.random() < 0.5:
            a, b = b, a
        return Fr(self.r.choice([-1, 1]) * a, c), Fr(self.r.choice([-1, 1]) * b, c)

    def extrusion(self):
        """unit-ish normals on both sides of the 1/64 threshold, plus generic ones; avoids the decision bands"""
        r = self.r
        c = r.random()
        T = 1.0 / 64.0
        while True:
            if c < 0.35:  # around the threshold in x and/or y
                x = r.choice([-1, 1]) * T * r.choice([0.5, 0.9, 0.99, 0.9999, 1.0001, 1.01, 1.1, 2.0])
                y = r.choice([-1, 1]) * T * r.choice([0.0, 0.3, 0.9, 0.9999, 1.0001, 1.5])
                if r.random() < 0.5:
                    x, y = y, x
                z = r.choice([-1, 1]) * math.sqrt(max(0.0, 1 - x * x - y * y))
                s = r.choice([1.0, 1.0, 0.5, 3.0, 1e-3, 250.0])
                v = (x * s, y * s, z * s)
            elif c < 0.5:  # near +-Z (transform flag / isclose band avoided below)
                d = r.choice([0.0, 1e-15, 1e-13, 3e-12, 1e-10, 1e-7, 1e-4])
                v = (d * r.choice([-1, 1, 0]), d * r.choice([-1, 1, 0]), r.choice([1.0, -1.0, 2.5, -0.125]))
            elif c < 0.6:
                v = r.choice([(0, 0, 1), (0, 0, -1), (1, 0, 0), (0, 1, 0), (-1, 0, 0), (0, -1, 0), (1, 1, 1), (0, 0, 0),
                              (0, 1, 1), (1, 0, -1), (3, 4, 12)])
                v = tuple(float(t) for t in v)
            else:
                v = tuple(float(self.dy(r.choice([-8, 0, 0, 8]), 8)) for _ in range(3))
            if ocs_band(v):
                c = r.random()
                self.band = getattr(self, "band", 0) + 1
                continue
            return v


def ocs_band(v) -> bool:
    """True if the extrusion is within the decision band of a branch of OCS.__init__ (regenerated, counted)"""
    n = math.sqrt(sum(t * t for t in v))
    if n == 0:
        return False
    x, y, z = (t / n for t in v)
    T = 1.0 / 64.0
    if abs(abs(x) - T) < 1e-9 or abs(abs(y) - T) < 1e-9:
        return True
    # isclose(Az, Z): |x|,|y| <= 1e-12 and |z-1| <= 1e-9
    for t in (abs(x), abs(y)):
        if 0.25e-12 < t < 4e-12:
            return True
    if 0.25e-9 < abs(z - 1) < 4e-9:
        return True
    return False


# ================================================================================================ correspondence
P2 = lambda k: f"1/{1 << k}"


def _nz(vals) -> bool:
    """non-trivial: at least two non-zero components that are not all +-1"""
    nzv = [v for v in vals if v != 0]
    return len(nzv) >= 2 and any(abs(v) != 1 for v in nzv)


def exact_cases(ctx, twin: str):
    """yield (kernel, lean_args, impl_args, nontrivial) for kernels whose float evaluation is exact on dyadic inputs"""
    g = G(ctx.rng(f"exact/{twin}"))
    r = g.r
    n = ctx.n(120, 2500)
    for _ in range(n):
        e = g.mag()
        a, b = g.v3(e), g.v3(e)
        nt = _nz(a) and _nz(b)
        for k in ("v3add", "v3sub", "v3rsub", "v3dot", "v3cross"):
            yield k, [frs(a), frs(b)], None, nt
        yield "v3mul", [frs(a), fr(g.dy(r.choice([-3, 0, 3])))], None, _nz(a)
        yield "v3neg", [frs(a)], None, _nz(a)
        yield "v3lerp", [frs(a), frs(b), fr(r.choice([Fr(0), Fr(1), Fr(1, 2), g.dy(-3, 3), Fr(3, 2), Fr(-1, 4)]))], None, nt
        yield "v3magsq", [frs(a)], None, _nz(a)
        yield "v3ortho", [frs(a), r.choice("TF")], None, _nz(a)
        yield "v3isnull", [frs(r.choice([a, (0, 0, 0), (Fr(1, 10**12), 0, 0), (Fr(1, 10**13), Fr(-1, 10**13), 0),
                                         (0, 0, Fr(1001, 10**15)), (0, Fr(999, 10**15), 0)]))], None, True
        p, q = g.v2(e), g.v2(e)
        for k in ("v2add", "v2sub", "v2dot", "v2det"):
            yield k, [frs(p), frs(q)], None, _nz(p) and _nz(q)
        yield "v2mul", [frs(p), fr(g.dy(0))], None, _nz(p)
        yield "v2neg", [frs(p)], None, _nz(p)
        yield "v2lerp", [frs(p), frs(q), fr(r.choice([Fr(0), Fr(1), Fr(1, 2), g.dy(-3, 3)]))], None, _nz(p)
        yield "v2ortho", [frs(p), r.choice("TF")], None, _nz(p)
        # comparisons: mostly near-equal pairs so that every branch of the lexicographic order is reached
        c = g.near(a)
        for k in ("v3eq", "v3lt"):
            yield k, [frs(a), frs(c)], None, True
            yield k, [frs(c), frs(a)], None, True
        d = g.near(p)
        for k in ("v2eq", "v2lt"):
            yield k, [frs(p), frs(d)], None, True
            yield k, [frs(d), frs(p)], None, True
        # isclose: pairs at relative distance around 1e-9 and absolute distance around 1e-12
        base = g.v3(r.choice([-40, 0, 0, 20]), special=False)
        rel = r.choice([Fr(1, 10**8), Fr(1, 10**9), Fr(99, 10**11), Fr(101, 10**11), Fr(1, 10**10), Fr(0)])
        ab = r.choice([Fr(0), Fr(1, 10**12), Fr(9, 10**13), Fr(11, 10**13), Fr(1, 10**6)])
        i = r.randrange(3)
        w = list(base)
        w[i] = Fr(float(w[i] * (1 + rel) + r.choice([-1, 1]) * ab))
        yield "v3isclose", [frs(base), frs(w)], None, True
        yield "v2isclose", [frs(base[:2]), frs(w[:2])], None, True
        vs = [g.v3(e) for _ in range(r.randint(0, 6))]
        yield "v3sum", [";".join(frs(v) for v in vs)], None, len(vs) > 1
        ps = [g.v2(e) for _ in range(r.randint(0, 6))]
        yield "v2sum", [";".join(frs(v) for v in ps)], None, len(ps) > 1
    n = ctx.n(120, 2500)
    for _ in range(n):
        e = r.choice([-8, 0, 0, 8])
        m = g.matrix()
        v = g.v3(e)
        nt = _nz(v) and m[1] != 0
        ms = frs(m)
        for k in ("transform", "transformDirection", "ucsVertexFromWcs", "ucsDirectionFromWcs"):
            yield k, [ms, frs(v)], None, nt
        vs = [g.v3(e) for _ in range(r.randint(0, 5))]
        yield "transformVertices", [ms, ";".join(frs(t) for t in vs)], None, len(vs) > 0
        yield "transformDirections", [ms, ";".join(frs(t) for t in vs)], None, len(vs) > 0
        ps = [g.v2(e) for _ in range(r.randint(0, 5))]
        yield "fast2d", [ms, ";".join(frs(t) for t in ps)], None, len(ps) > 0
        yield "axes", [ms], None, True
        yield "copy", [ms], None, True
        yield "transpose", [ms], None, True
        o = g.matrix()
        for k in ("mul", "imul", "matmul"):
            yield k, [ms, frs(o)], None, True
        if twin == "pyx":
            yield "determinant", [ms], None, True  # explicit 24-term polynomial: exact on short dyadics
        yield "imulSelf", [ms], None, True
        chain = [g.affine(0, 3) if r.random() < 0.8 else g.general(3) for _ in range(r.randint(0, 4))]
        yield "chain", [";".join(frs(c) for c in chain)], None, len(chain) > 1
        ncol = r.choice([2, 3, 4, 5])
        rows = [[g.dy(e, 6) for _ in range(ncol)] for _ in range(r.randint(0, 5))]
        if rows:
            yield "array2d", [ms, ";".join(frs(t) for t in rows)], None, True
            if ncol >= 3:
                yield "array3d", [ms, ";".join(frs(t) for t in rows)], None, True
        s3 = g.v3(0, special=False)
        yield "scale", [frs(s3)], None, True
        yield "scaleUniform", [fr(s3[0])], None, True
        yield "translate", [frs(g.v3(e))], None, True
        yield "ucs", [frs(g.v3(0)), frs(g.v3(0)), frs(g.v3(0)), frs(g.v3(e))], None, True
        yield "from2d", [frs([g.dy(0) for _ in range(6)])], None, True
        ang = r.choice([0.0, 0.5, 1.0, -2.0, 3.0, math.pi / 2, math.pi, -math.pi / 3, 1e-9, 100.0, r.uniform(-7, 7)])
        c, s = Fr(math.cos(ang)), Fr(math.sin(ang))
        for k in ("xRotate", "yRotate", "zRotate"):
            yield k, [fr(c), fr(s)], [fr(c), fr(s), fr(ang)], True
        ax, ay = r.choice([0.0, 0.25, -1.0, r.uniform(-1.5, 1.5)]), r.choice([0.0, 0.5, r.uniform(-1.5, 1.5)])
        yield "shearXY", [fr(math.tan(ax)), fr(math.tan(ay))], [fr(math.tan(ax)), fr(math.tan(ay)), frs([ax, ay])], True
        # OCS / UCS conversions with explicit (dyadic) matrices
        t = r.choice("TTF")
        for k in ("ocsFromWcs", "ocsToWcs"):
            yield k, [t, ms, frs(v)], None, nt
        yield "ocsAxes", [t, ms], None, True
        for k in ("ucsToWcs", "ucsFromWcs", "ucsDirectionToWcs", "ucsDirectionFromWcsU"):
            yield k, [ms, frs(v)], None, nt
        yield "ucsPointsToWcs", [ms, ";".join(frs(t_) for t_ in vs)], None, len(vs) > 0


def _tolrel(k: int, floor) -> str:
    return f"rel:{P2(k)}:{fr(floor)}"


def tolerant_cases(ctx, twin: str):
    """yield (kernel, lean_args, impl_args, tol, nontrivial)"""
    g = G(ctx.rng(f"tol/{twin}"))
    r = g.r
    for _ in range(ctx.n(150, 3000)):
        e = g.mag()
        a, b = g.v3(e), g.v3(e)
        amax = max([abs(x) for x in a + b] + [Fr(1, 2**60)])
        yield "v3normalize", [frs(a)], None, _tolrel(44, Fr(1, 4)), _nz(a)
        yield "v3project", [frs(a), frs(b)], None, _tolrel(42, amax), _nz(a) and _nz(b)
        yield "v3distance", [frs(a), frs(b)], None, _tolrel(44, amax), _nz(a)
        m = g.matrix()
        v = g.v3(0)
        yield "transformDirectionN", [frs(m), frs(v)], None, _tolrel(42, Fr(1, 4)), _nz(v)
    for _ in range(ctx.n(150, 3000)):
        # rotations: exact Pythagorean (c, s) on the model side, their float images on the implementation side
        if r.random() < 0.5:
            c, s = g.cs()
            ang = math.atan2(float(s), float(c))
        else:
            ang = r.uniform(-7, 7)
        c, s = Fr(math.cos(ang)), Fr(math.sin(ang))
        axis = g.v3(r.choice([-8, 0, 0, 8]))
        yield "axisRotate", [frs(axis), fr(c), fr(s)], [frs(axis), fr(c), fr(s), fr(ang)], _tolrel(44, Fr(1, 4)), _nz(axis)
        angs = [r.uniform(-4, 4) if r.random() < 0.8 else r.choice([0.0, math.pi / 2, -math.pi]) for _ in range(3)]
        cs6 = []
        for t in angs:
            cs6 += [Fr(math.cos(t)), Fr(math.sin(t))]
        yield "xyzRotate", [frs(cs6)], [frs(cs6), frs(angs)], _tolrel(46, Fr(1, 4)), True
    for _ in range(ctx.n(400, 6000)):
        n = g.extrusion()
        yield "ocsInit", [frs(n)], None, _tolrel(40, Fr(1, 4)), abs(n[0]) + abs(n[1]) > 0
    ctx.hist("X2 tolerant kernels", "ocs-extrusions-regenerated-in-decision-band", getattr(g, "band", 0))
    for _ in range(ctx.n(150, 3000)):
        o = g.v3(r.choice([-8, 0, 8]))
        if r.random() < 0.5:  # orthogonal integer frame scaled arbitrarily
            u = r.choice([((1, 2, 2), (2, 1, -2), (2, -2, 1)), ((3, 4, 0), (-4, 3, 0), (0, 0, 5)), ((1, 0, 0), (0, 1, 0), (0, 0, 1)),
                          ((2, 3, 6), (3, -6, 2), (6, 2, -3))])
            k = [g.dy(r.choice([-8, 0, 8]), 4, nonzero=True) for _ in range(3)]
            x, y, z = (tuple(Fr(c) * k[i] for c in u[i]) for i in range(3))
        else:
            x, y, z = g.v3(0, special=False), g.v3(0, special=False), g.v3(0, special=False)
        fl = max([abs(t) for t in o] + [Fr(1, 4)])
        yield "ucsInitXYZ", [frs(o), frs(x), frs(y), frs(z)], None, _tolrel(42, fl), True
        yield "ucsInitXY", [frs(o), frs(x), frs(y)], None, _tolrel(40, fl), True
        yield "ucsInitXZ", [frs(o), frs(x), frs(z)], None, _tolrel(40, fl), True
        yield "ucsInitYZ", [frs(o), frs(y), frs(z)], None, _tolrel(40, fl), True
    for _ in range(ctx.n(400, 6000)):
        c = r.random()
        m = g.unimodular() if c < 0.3 else g.wellcond() if c < 0.7 else g.singular() if c < 0.85 else g.affine(0, 4)
        if r.random() < 0.3:  # overall magnitude
            sc = Fr(2) ** r.choice([-20, -6, 6, 20])
            m = [x * sc for x in m]
        det_exact = _det(m)
        singular = det_exact == 0
        if twin == "py":  # np.linalg.det: LU with rounding
            yield "determinant", [frs(m)], None, _tolrel(38, _hadamard(m)), True
        if twin == "py" and singular and not _lu_detects(m):
            ctx.hist("X2 tolerant kernels", "py-inverse-singular-not-detected-by-LU(skipped)")
            continue
        yield "inverse", [frs(m)], None, f"kappa:{P2(49)}", not singular


def _det(m):
    def d3(a, b, c, d, e, f, g, h, i):
        return a * (e * i - f * h) - b * (d * i - f * g) + c * (d * h - e * g)
    return (m[0] * d3(m[5], m[6], m[7], m[9], m[10], m[11], m[13], m[14], m[15])
            - m[1] * d3(m[4], m[6], m[7], m[8], m[10], m[11], m[12], m[14], m[15])
            + m[2] * d3(m[4], m[5], m[7], m[8], m[9], m[11], m[12], m[13], m[15])
            - m[3] * d3(m[4], m[5], m[6], m[8], m[9], m[10], m[12], m[13], m[14]))


def _hadamard(m):
    h = Fr(1)
    for i in range(4):
        h *= max(sum(abs(x) for x in m[4 * i:4 * i + 4]), Fr(1, 2**80))
    return h


def _lu_detects(m) -> bool:
    """does NumPy's LU report exact singularity for this (exactly singular, dyadic) matrix?  Only such inputs are
    used for the ZeroDivisionError class of the NumPy-based inverse (DESIGN C11 'Not proved')"""
    import numpy as np
    try:
        np.linalg.inv(np.array([float(x) for x in m]).reshape(4, 4))
        return False
    except np.linalg.LinAlgError:
        return True


def _impl_lines(twins, cases_by_twin, ucsmod):
    """evaluate the implementation: in-process, except ucs.py kernels of the pure-Python twin (subprocess)"""
    out = {}
    for twin in twins:
        tw = Twin(twin)
        res = [None] * len(cases_by_twin[twin])
        remote = []
        for i, (kernel, largs, iargs) in enumerate(cases_by_twin[twin]):
            args = iargs if iargs is not None else largs
            if twin == "py" and kernel in UCS_KERNELS and have_cext():
                remote.append((i, "k|" + kernel + "|" + "|".join(args)))
            else:
                res[i] = impl_value(tw, kernel, args, ucsmod)
        for (i, _), val in zip(remote, pure_python_worker([l for _, l in remote])):
            res[i] = val
        out[twin] = res
    return out


def _twins(ctx):
    if have_cext():
        return ["py", "pyx"]
    ctx.note("C extensions are not importable in this tree: the Cython twin is proved about but NOT corresponded/oracled")
    return ["py"]


def correspond(ctx):
    import ezdxf.math.ucs as ucsmod

    twins = _twins(ctx)
    build = DRIVER_DEPS
    # ---- X1 exact
    cases = {t: list(exact_cases(ctx, t)) for t in twins}
    impl = _impl_lines(twins, {t: [(k, la, ia) for k, la, ia, _ in cases[t]] for t in twins}, ucsmod)
    lines = []
    for t in twins:
        for (k, la, ia, nt), val in zip(cases[t], impl[t]):
            ctx.hist("X1 exact kernels", f"{t}:{k}")
            if val.startswith("err"):
                ctx.hist("X1 exact kernels", "result:" + val)
            lines.append((f"x|{t}|{k}|" + "|".join(la), val, nt))
    known_diffs = []

    def on_diff(req, impl_v, model_v):
        known_diffs.append((req, impl_v, model_v))

    ctx.correspond("X1 exact kernels", "C11", lines, build=build, on_diff=on_diff)
    # ---- X2 tolerant
    cases = {t: list(tolerant_cases(ctx, t)) for t in twins}
    impl = _impl_lines(twins, {t: [(k, la, ia) for k, la, ia, _, _ in cases[t]] for t in twins}, ucsmod)
    lines = []
    for t in twins:
        for (k, la, ia, tol, nt), val in zip(cases[t], impl[t]):
            ctx.hist("X2 tolerant kernels", f"{t}:{k}")
            if k == "ocsInit":
                ctx.hist("X2 tolerant kernels", "ocs:" + val[:4])
            if val.startswith("err"):
                ctx.hist("X2 tolerant kernels", "result:" + val)
            lines.append((f"t|{t}|{k}|" + "|".join(la) + f"|{val}|{tol}", "agree", nt))
    ctx.correspond("X2 tolerant kernels", "C11", lines, build=build)


# ================================================================================================ oracle (real code)
EPS = 2.0 ** -52


class Acc:
    """collects failures and counts inside the process that runs the oracles (in-process or worker)"""

    def __init__(self, twin):
        self.twin, self.fails, self.counts, self.samples = twin, [], {}, {}

    def count(self, stream, nontrivial=True):
        c = self.counts.setdefault(stream, [0, 0])
        c[0] += 1
        c[1] += 1 if nontrivial else 0

    def fail(self, key, what, replay):
        parts = key.split("/")
        idx = next((i for i, t in enumerate(parts) if t in ("py", "pyx")), len(parts) - 1)
        fam = "/".join(parts[: idx + 1]) + "/"
        if sum(1 for f in self.fails if f["key"].startswith(fam)) < 3 and not any(f["key"] == key for f in self.fails):
            replay = dict(replay, twin=self.twin)
            self.fails.append({"key": key, "what": what, "replay": replay})


def _fl(xs):
    return [float(x) for x in xs]


def _close(a, b, tol):
    return all(abs(float(x) - float(y)) <= tol for x, y in zip(a, b)) and len(list(a)) == len(list(b))


def _short(xs, n=6):
    return ",".join(f"{float(x):.6g}" for x in list(xs)[:n])


def oracle_composition(acc, tw, g, n):
    V3, M = tw.V3, tw.M
    r = g.r
    for _ in range(n):
        A, B, C = _fl(g.affine(r.choice([-6, 0, 6]), 4)), _fl(g.matrix()), _fl(g.affine(0, 3))
        v = _fl(g.v3(r.choice([-6, 0, 6])))
        acc.count("O1 composition")
        rep = {"op": "compose", "A": A, "B": B, "C": C, "v": v}
        a, b, c = M(A), M(B), M(C)
        want = b.transform(a.transform(v))
        for name, prod in (("mul", a * b), ("matmul", a @ b)):
            got = prod.transform(v)
            if list(got) != list(want):
                acc.fail(f"compose/{name}/{tw.name}/{_short(A)}", f"(A {name} B).transform(v)={tuple(got)} but B(A(v))={tuple(want)}", rep)
        x = M(A)
        x *= b
        if list(x) != list(a * b) or list(b) != B:
            acc.fail(f"compose/imul/{tw.name}/{_short(A)}", "A *= B differs from A * B or mutates B", rep)
        d = (a * b).transform_direction(v)
        dw = b.transform_direction(a.transform_direction(v))
        if list(d) != list(dw):
            acc.fail(f"compose/direction/{tw.name}/{_short(A)}", f"(A*B).transform_direction(v)={tuple(d)} != {tuple(dw)}", rep)
        ch = M.chain(a, b, c) if B[3] == 0 and B[7] == 0 and B[11] == 0 and B[15] == 1 else M.chain(a, c, a)
        seq = (a, b, c) if B[3] == 0 and B[7] == 0 and B[11] == 0 and B[15] == 1 else (a, c, a)
        w = v
        for m in seq:
            w = m.transform(w)
        if list(ch.transform(v)) != list(w):
            acc.fail(f"compose/chain/{tw.name}/{_short(A)}", f"chain(...).transform(v)={tuple(ch.transform(v))} != successive {tuple(w)}", rep)
        if list(M.chain()) != list(M()) or list(M.chain(a)) != A:
            acc.fail(f"compose/chain-trivial/{tw.name}", "chain() is not the identity or chain(A) != A", rep)
        # squaring in place must equal the product (aliasing of the operand)
        sq = M(A)
        sq *= sq
        if list(sq) != list(a * a):
            acc.fail(f"imul-self/{tw.name}/{_short(A)}", f"m *= m gives {_short(sq, 16)} but m * m = {_short(a * a, 16)}",
                     {"op": "imulself", "A": A})
        # associativity on exact inputs
        if list((a * c) * a) != list(a * (c * a)):
            acc.fail(f"compose/assoc/{tw.name}/{_short(A)}", "(A*C)*A != A*(C*A) on exact dyadic input", rep)
        t = M(A)
        t.transpose()
        t.transpose()
        if list(t) != A:
            acc.fail(f"transpose/involution/{tw.name}/{_short(A)}", "transpose twice is not the identity", rep)


def oracle_batch(acc, tw, g, n):
    import numpy as np
    V3, V2, M = tw.V3, tw.V2, tw.M
    r = g.r
    for _ in range(n):
        m = M(_fl(g.matrix()))
        e = r.choice([-6, 0, 6])
        pts = [_fl(g.v3(e)) for _ in range(r.randint(0, 7))]
        rep = {"op": "batch", "M": list(m), "pts": pts}
        acc.count("O2 batch = single", len(pts) > 0)
        single = [tuple(m.transform(p)) for p in pts]
        if [tuple(v) for v in m.transform_vertices(pts)] != single:
            acc.fail(f"batch/transform_vertices/{tw.name}/{_short(m)}", "transform_vertices != [transform(v)]", rep)
        if [tuple(v) for v in m.transform_directions(pts)] != [tuple(m.transform_direction(p)) for p in pts]:
            acc.fail(f"batch/transform_directions/{tw.name}/{_short(m)}", "transform_directions != [transform_direction(v)]", rep)
        nd = [tuple(v) for v in m.transform_directions(pts, normalize=True)] if all(any(m.transform_direction(p)) for p in pts) else None
        if nd is not None:
            for q, p in zip(nd, pts):
                w = m.transform_direction(p, True)
                if not _close(q, w, 4 * EPS):
                    acc.fail(f"batch/transform_directions-normalize/{tw.name}/{_short(m)}", "normalized batch != normalized single", rep)
        flat = [(p[0], p[1]) for p in pts]
        f2 = [tuple(v) for v in m.fast_2d_transform(flat)]
        if f2 != [tuple(m.transform((x, y, 0.0)))[:2] for x, y in flat]:
            acc.fail(f"batch/fast_2d_transform/{tw.name}/{_short(m)}", "fast_2d_transform != transform of (x, y, 0) projected", rep)
        if any(type(v).__name__ != "Vec2" for v in m.fast_2d_transform(flat)):
            acc.fail(f"batch/fast_2d_type/{tw.name}", "fast_2d_transform does not yield Vec2", rep)
        for ndim in (2, 3):
            ncol = r.choice([ndim, ndim + 1, 5])
            rows = [[float(g.dy(e, 6)) for _ in range(ncol)] for _ in range(r.randint(1, 6))]
            arr = np.array(rows, dtype=np.float64)
            m.transform_array_inplace(arr, ndim)
            for row, src in zip(arr.tolist(), rows):
                want = list(m.transform(src[:3]))[:3] if ndim == 3 else list(next(iter(m.fast_2d_transform([src[:2]]))))
                if row[:ndim] != want or row[ndim:] != src[ndim:]:
                    acc.fail(f"batch/transform_array_inplace{ndim}/{tw.name}/{_short(m)}",
                             f"row {src} -> {row}, expected {want} + untouched tail", dict(rep, rows=rows, ndim=ndim))
                    break


def _mat_err(a, b):
    return max(abs(x - y) for x, y in zip(a, b))


def oracle_inverse(acc, tw, g, n):
    M = tw.M
    r = g.r
    ident = [1.0 if i % 5 == 0 else 0.0 for i in range(16)]
    for _ in range(n):
        c = r.random()
        mf = g.unimodular() if c < 0.25 else g.wellcond() if c < 0.75 else g.affine(0, 4)
        if r.random() < 0.3:
            sc = Fr(2) ** r.choice([-20, -6, 6, 20])
            mf = [x * sc for x in mf]
        if _det(mf) == 0:
            continue
        vals = _fl(mf)
        m, i = M(vals), M(vals)
        rep = {"op": "inverse", "M": vals}
        acc.count("O3 inverse")
        try:
            i.inverse()
        except ZeroDivisionError:
            acc.fail(f"inverse/raises-on-regular/{tw.name}/{_short(vals)}", "inverse() raised ZeroDivisionError for a matrix with non-zero determinant", rep)
            continue
        ninf = lambda q: max(sum(abs(x) for x in list(q)[4 * k:4 * k + 4]) for k in range(4))
        kappa = ninf(m) * ninf(i)
        tol = 8 * EPS * kappa * 4
        for name, prod in (("right", m * i), ("left", i * m)):
            if _mat_err(prod, ident) > tol:
                acc.fail(f"inverse/{name}/{tw.name}/{_short(vals)}", f"M*inv(M) deviates from I by {_mat_err(prod, ident):.3g} > {tol:.3g} (kappa={kappa:.3g})", rep)
        j = M(list(i))
        j.inverse()
        if _mat_err(j, vals) > 64 * EPS * kappa * max(abs(x) for x in vals):
            acc.fail(f"inverse/involution/{tw.name}/{_short(vals)}", "inverse of inverse deviates from M", rep)
        d = m.determinant() * i.determinant()
        if abs(d - 1) > 64 * EPS * kappa:
            acc.fail(f"inverse/det-product/{tw.name}/{_short(vals)}", f"det(M)*det(inv M) = {d}", rep)


def oracle_singular(acc, tw, g, n):
    M = tw.M
    for _ in range(n):
        mf = g.singular()
        vals = _fl(mf)
        if tw.name == "py" and not _lu_detects(mf):
            continue  # exact singularity that float LU cannot see: outside the statement (well-conditioned / singular)
        m = M(vals)
        acc.count("O3 inverse (singular)")
        try:
            m.inverse()
            acc.fail(f"inverse/singular-no-error/{tw.name}/{_short(vals)}", f"inverse() of a singular matrix returned {_short(m, 16)}", {"op": "singular", "M": vals})
        except ZeroDivisionError:
            if list(m) != vals:
                acc.fail(f"inverse/singular-mutates/{tw.name}/{_short(vals)}", "matrix changed although inverse() raised", {"op": "singular", "M": vals})


def _rodrigues(u, c, s, v):
    """exact Rodrigues rotation of v about the unit axis u (all Fractions)"""
    d = sum(a * b for a, b in zip(u, v))
    cr = (u[1] * v[2] - u[2] * v[1], u[2] * v[0] - u[0] * v[2], u[0] * v[1] - u[1] * v[0])
    return [c * v[i] + s * cr[i] + (1 - c) * d * u[i] for i in range(3)]


def oracle_factories(acc, tw, g, n):
    V3, M = tw.V3, tw.M
    r = g.r
    for _ in range(n):
        v = g.v3(r.choice([-6, 0, 6]))
        vf = _fl(v)
        d = g.v3(r.choice([-6, 0, 6]))
        acc.count("O4 factories")
        rep = {"op": "factory", "v": vf, "d": _fl(d)}
        got = M.translate(*_fl(d)).transform(vf)
        if list(got) != [float(a + b) for a, b in zip(v, d)]:
            acc.fail(f"factory/translate/{tw.name}/{_short(vf)}", f"translate({_fl(d)}).transform({vf}) = {tuple(got)}", rep)
        if list(M.translate(*_fl(d)).transform_direction(vf)) != vf:
            acc.fail(f"factory/translate-direction/{tw.name}", "translation changes a direction", rep)
        sc = g.v3(0, special=False)
        got = M.scale(*_fl(sc)).transform(vf)
        if list(got) != [float(a * b) for a, b in zip(v, sc)]:
            acc.fail(f"factory/scale/{tw.name}/{_short(vf)}", f"scale({_fl(sc)}).transform({vf}) = {tuple(got)}", rep)
        if list(M.scale(float(sc[0]))) != list(M.scale(float(sc[0]), float(sc[0]), float(sc[0]))):
            acc.fail(f"factory/scale-uniform/{tw.name}", "scale(s) != scale(s, s, s)", rep)
        # single axis rotations against the independent formula (ccw about the axis, right handed)
        ang = r.choice([0.5, -1.25, 2.0, math.pi / 2, math.pi, r.uniform(-7, 7)])
        c, s = Fr(math.cos(ang)), Fr(math.sin(ang))
        x, y, z = v
        scale = max([abs(t) for t in vf] + [1e-300])
        for name, want in (("x_rotate", (x, c * y - s * z, s * y + c * z)), ("y_rotate", (c * x + s * z, y, c * z - s * x)),
                           ("z_rotate", (c * x - s * y, s * x + c * y, z))):
            m = getattr(M, name)(ang)
            got = m.transform(vf)
            if not _close(got, want, 8 * EPS * scale):
                acc.fail(f"factory/{name}/{tw.name}/{ang:.4g}", f"{name}({ang}).transform({vf}) = {tuple(got)}, formula {_fl(want)}", dict(rep, angle=ang))
        # axis rotation: Rodrigues with a rational unit axis (Pythagorean quadruple), any scaling of the axis
        q = r.choice([(1, 2, 2, 3), (2, 3, 6, 7), (1, 4, 8, 9), (4, 4, 7, 9), (2, 6, 9, 11), (0, 3, 4, 5), (1, 0, 0, 1), (0, 0, 1, 1), (6, 6, 7, 11)])
        sg = [r.choice([-1, 1]) for _ in range(3)]
        perm = r.sample(range(3), 3)
        u = [Fr(sg[i] * q[perm[i]], q[3]) for i in range(3)]
        k = float(Fr(2) ** r.choice([-10, 0, 3]) * q[3])
        axis = [float(t * Fr(k)) for t in u]  # exact: u*q3 is an integer vector
        m = M.axis_rotate(axis, ang)
        want = _rodrigues(u, c, s, list(v))
        got = m.transform(vf)
        if not _close(got, want, 32 * EPS * scale):
            acc.fail(f"factory/axis_rotate/{tw.name}/{_short(axis)}/{ang:.4g}", f"axis_rotate({axis}, {ang}).transform({vf}) = {tuple(got)}, Rodrigues {_fl(want)}", dict(rep, axis=axis, angle=ang))
        if not _close(m.transform(axis), axis, 16 * EPS * max(abs(t) for t in axis)):
            acc.fail(f"factory/axis_rotate-axis/{tw.name}/{_short(axis)}", "rotation moves its own axis", dict(rep, axis=axis, angle=ang))
        mt = M(list(m))
        mt.transpose()
        if _mat_err(m * mt, [1.0 if i % 5 == 0 else 0.0 for i in range(16)]) > 16 * EPS or abs(m.determinant() - 1) > 32 * EPS:
            acc.fail(f"factory/axis_rotate-orthogonal/{tw.name}/{_short(axis)}", "axis rotation is not orthogonal with det 1", dict(rep, axis=axis, angle=ang))
        ax, ay, az = (r.uniform(-4, 4) for _ in range(3))
        m3 = M.xyz_rotate(ax, ay, az)
        prod = M.z_rotate(az) * M.y_rotate(ay) * M.x_rotate(ax)
        if _mat_err(m3, prod) > 8 * EPS:
            acc.fail(f"factory/xyz_rotate/{tw.name}/{ax:.3g}", "xyz_rotate(ax, ay, az) != z_rotate(az)*y_rotate(ay)*x_rotate(ax)", dict(rep, angles=[ax, ay, az]))
        sx, sy = r.uniform(-1.2, 1.2), r.uniform(-1.2, 1.2)
        got = M.shear_xy(sx, sy).transform(vf)
        want = (x + y * Fr(math.tan(sx)), y + x * Fr(math.tan(sy)), z)
        if not _close(got, want, 8 * EPS * scale):
            acc.fail(f"factory/shear_xy/{tw.name}/{sx:.3g}", f"shear_xy({sx},{sy}).transform({vf}) = {tuple(got)}, formula {_fl(want)}", dict(rep, shear=[sx, sy]))
        ux, uy, uz, o = g.v3(0), g.v3(0), g.v3(0), g.v3(r.choice([-6, 0, 6]))
        mu = M.ucs(V3(_fl(ux)), V3(_fl(uy)), V3(_fl(uz)), V3(_fl(o)))
        want = [o[i] + x * ux[i] + y * uy[i] + z * uz[i] for i in range(3)]
        got = mu.transform(vf)
        if not _close(got, want, 8 * EPS * max(abs(float(t)) for t in want + [1])):
            acc.fail(f"factory/ucs/{tw.name}/{_short(vf)}", f"ucs(...).transform({vf}) = {tuple(got)}, expected {_fl(want)}", rep)
        comps = _fl([g.dy(0) for _ in range(6)])
        m2 = M.from_2d_transformation(comps)
        if list(m2.get_2d_transformation()) != [comps[0], comps[1], 0.0, comps[2], comps[3], 0.0, comps[4], comps[5], 1.0]:
            acc.fail(f"factory/from_2d/{tw.name}", "get_2d_transformation(from_2d_transformation(c)) != c", dict(rep, comps=comps))


def _unit_exact(n):
    """(Az components as floats via exact arithmetic, branch) for the arbitrary axis algorithm, decided exactly"""
    x, y, z = (Fr(t) for t in n)
    l2 = x * x + y * y + z * z
    b1 = x * x * 4096 < l2 and y * y * 4096 < l2
    return b1


def oracle_ocs_ucs(acc, tw, U, g, n):
    V3, M = tw.V3, tw.M
    r = g.r
    X, Y, Z = V3(1, 0, 0), V3(0, 1, 0), V3(0, 0, 1)
    for _ in range(n):
        nv = g.extrusion()
        if not any(nv):
            continue
        acc.count("O5 OCS")
        rep = {"op": "ocs", "n": list(nv)}
        o = U.OCS(nv)
        az = V3(nv).normalize()
        ux, uy, uz = o.ux, o.uy, o.uz
        tol = 16 * EPS
        if o.transform:
            b1 = _unit_exact(nv)
            ref = (Y if b1 else Z).cross(az).normalize()
            if not ux.isclose(ref, abs_tol=1e-12):
                acc.fail(f"ocs/arbitrary-axis/{tw.name}/{_short(nv)}", f"OCS({nv}).ux = {tuple(ux)} but the arbitrary axis algorithm ({'Wy' if b1 else 'Wz'} x Az) gives {tuple(ref)}", rep)
            if not uz.isclose(az, abs_tol=1e-12):
                acc.fail(f"ocs/uz/{tw.name}/{_short(nv)}", f"OCS({nv}).uz = {tuple(uz)} != normalized extrusion", rep)
        else:
            if not az.isclose(Z, abs_tol=1e-9):
                acc.fail(f"ocs/no-transform/{tw.name}/{_short(nv)}", "OCS does not transform although the extrusion is not the z-axis", rep)
        for a, b in ((ux, uy), (ux, uz), (uy, uz)):
            if abs(a.dot(b)) > tol:
                acc.fail(f"ocs/orthogonal/{tw.name}/{_short(nv)}", f"OCS({nv}) axes not orthogonal: {a.dot(b)}", rep)
        for a in (ux, uy, uz):
            if abs(a.magnitude - 1) > tol:
                acc.fail(f"ocs/unit/{tw.name}/{_short(nv)}", f"OCS({nv}) axis not unit: {a.magnitude}", rep)
        if not ux.cross(uy).isclose(uz, abs_tol=1e-12):
            acc.fail(f"ocs/right-handed/{tw.name}/{_short(nv)}", f"OCS({nv}): ux x uy = {tuple(ux.cross(uy))} != uz {tuple(uz)}", rep)
        e = r.choice([-6, 0, 6])
        pts = [V3(_fl(g.v3(e))) for _ in range(4)]
        sc = 2.0 ** e * 256
        for p in pts:
            w = o.to_wcs(o.from_wcs(p))
            w2 = o.from_wcs(o.to_wcs(p))
            if not _close(w, p, 64 * EPS * sc) or not _close(w2, p, 64 * EPS * sc):
                acc.fail(f"ocs/roundtrip/{tw.name}/{_short(nv)}", f"OCS({nv}) round trip of {tuple(p)} gives {tuple(w)} / {tuple(w2)}", dict(rep, p=list(p)))
        if [tuple(v) for v in o.points_to_wcs(pts)] != [tuple(o.to_wcs(p)) for p in pts] or \
                [tuple(v) for v in o.points_from_wcs(pts)] != [tuple(o.from_wcs(p)) for p in pts]:
            acc.fail(f"ocs/batch/{tw.name}/{_short(nv)}", "points_to_wcs/points_from_wcs != single conversions", rep)
        # UCS built on the OCS frame, any origin: mutual inverses, batch = single, to_ocs consistent
        acc.count("O5 UCS")
        org = V3(_fl(g.v3(e)))
        u = U.UCS(origin=org, ux=ux, uy=uy, uz=uz)
        for p in pts:
            w = u.from_wcs(u.to_wcs(p))
            w2 = u.to_wcs(u.from_wcs(p))
            if not _close(w, p, 256 * EPS * sc) or not _close(w2, p, 256 * EPS * sc):
                acc.fail(f"ucs/roundtrip/{tw.name}/{_short(nv)}", f"UCS round trip of {tuple(p)} gives {tuple(w)} / {tuple(w2)}", dict(rep, p=list(p), origin=list(org)))
            d = u.direction_from_wcs(u.direction_to_wcs(p))
            if not _close(d, p, 256 * EPS * sc):
                acc.fail(f"ucs/direction-roundtrip/{tw.name}/{_short(nv)}", "UCS direction round trip", dict(rep, p=list(p)))
            via = U.OCS(u.uz).to_wcs(u.to_ocs(p))
            if not _close(via, u.to_wcs(p), 256 * EPS * sc):
                acc.fail(f"ucs/to_ocs/{tw.name}/{_short(nv)}", f"OCS(uz).to_wcs(ucs.to_ocs(p)) = {tuple(via)} != ucs.to_wcs(p) = {tuple(u.to_wcs(p))}", dict(rep, p=list(p), origin=list(org)))
        if [tuple(v) for v in u.points_to_wcs(pts)] != [tuple(u.to_wcs(p)) for p in pts] or \
                [tuple(v) for v in u.points_from_wcs(pts)] != [tuple(u.from_wcs(p)) for p in pts] or \
                [tuple(v) for v in u.points_to_ocs(pts)] != [tuple(u.to_ocs(p)) for p in pts]:
            acc.fail(f"ucs/batch/{tw.name}/{_short(nv)}", "UCS points_* != single conversions", rep)
        # missing-axis constructors agree with the full frame
        for kw, name in (({"ux": ux, "uy": uy}, "xy"), ({"ux": ux, "uz": uz}, "xz"), ({"uy": uy, "uz": uz}, "yz")):
            u2 = U.UCS(origin=org, **kw)
            if not (u2.ux.isclose(ux, abs_tol=1e-12) and u2.uy.isclose(uy, abs_tol=1e-12) and u2.uz.isclose(uz, abs_tol=1e-12)):
                acc.fail(f"ucs/missing-axis-{name}/{tw.name}/{_short(nv)}", f"UCS(origin, {name} axes) does not reconstruct the right-handed frame", rep)
        # transform(m) composes with to_wcs
        mt = M(_fl(g.affine(0, 3)))
        u3 = u.copy().transform(mt)
        for p in pts[:2]:
            if not _close(u3.to_wcs(p), mt.transform(u.to_wcs(p)), 1024 * EPS * sc * 64):
                acc.fail(f"ucs/transform/{tw.name}/{_short(nv)}", "ucs.transform(m).to_wcs(p) != m.transform(ucs.to_wcs(p))", dict(rep, p=list(p), M=list(mt)))
        # in-place mutators (transform / shift / moveto) after the object has been used: every derived conversion must equal
        # that of a freshly constructed UCS with the same frame (no stale cached state)
        us = u.copy()
        warm = (us.to_ocs(pts[0]), list(us.points_to_ocs(pts[:2])), us.ucs_direction_to_ocs_direction(pts[0]), us.to_ocs_angle_deg(30.0))
        rigid = M.axis_rotate((r.choice([1.0, 0.0, 2.0]), r.choice([1.0, 2.0, -1.0]), r.choice([0.5, 2.0, -2.0])), r.uniform(0.3, 2.8)) * \
            M.translate(float(g.dy(0, 4)), float(g.dy(0, 4)), float(g.dy(0, 4)))
        us.transform(rigid)
        us.shift((1.0, -2.0, 0.5))
        fresh = U.UCS(origin=us.origin, ux=us.ux, uy=us.uy, uz=us.uz)
        for p in pts[:3]:
            for name, fa, fb in (("to_ocs", us.to_ocs(p), fresh.to_ocs(p)), ("to_wcs", us.to_wcs(p), fresh.to_wcs(p)),
                                 ("from_wcs", us.from_wcs(p), fresh.from_wcs(p)),
                                 ("ucs_direction_to_ocs_direction", us.ucs_direction_to_ocs_direction(p), fresh.ucs_direction_to_ocs_direction(p)),
                                 ("points_to_ocs", next(iter(us.points_to_ocs([p]))), next(iter(fresh.points_to_ocs([p]))))):
                if not _close(fa, fb, 4096 * EPS * (sc + 16.0)):
                    acc.fail(f"ucs/stale-after-transform/{name}/{tw.name}/{_short(nv)}",
                             f"after to_ocs(); transform(m); shift(): ucs.{name}({tuple(p)}) = {tuple(fa)} but a fresh UCS with the same frame gives {tuple(fb)}",
                             dict(rep, p=list(p), M=list(rigid)))
        a1, a2 = us.to_ocs_angle_deg(30.0), fresh.to_ocs_angle_deg(30.0)
        if abs(math.remainder(a1 - a2, 360.0)) > 1e-6:
            acc.fail(f"ucs/stale-after-transform/to_ocs_angle_deg/{tw.name}/{_short(nv)}", f"to_ocs_angle_deg(30) = {a1} after transform, fresh UCS: {a2}", rep)
        ang = r.uniform(-3, 3)
        for rot in (u.rotate_local_x(ang), u.rotate_local_y(ang), u.rotate_local_z(ang), u.rotate((1, 2, 2), ang)):
            if not rot.is_cartesian or not _close(rot.origin, org, 0):
                acc.fail(f"ucs/rotate/{tw.name}/{_short(nv)}", "rotated UCS is not cartesian or moved its origin", dict(rep, angle=ang))


def oracle_vectors(acc, tw, g, n):
    V3, V2 = tw.V3, tw.V2
    r = g.r
    for _ in range(n):
        e = g.mag()
        a, b, c = (V3(_fl(g.v3(e, special=False))) for _ in range(3))
        acc.count("O6 vector identities")
        rep = {"op": "vec", "a": list(a), "b": list(b), "c": list(c)}
        k = tw.name
        if a.dot(b) != b.dot(a) or (a + b).dot(c) != a.dot(c) + b.dot(c):
            acc.fail(f"vec/dot/{k}/{_short(a)}", "dot not symmetric / additive on exact input", rep)
        x = a.cross(b)
        if x.dot(a) != 0 or x.dot(b) != 0 or tuple(x) != tuple(-(b.cross(a))):
            acc.fail(f"vec/cross/{k}/{_short(a)}", f"a x b = {tuple(x)} not perpendicular to a, b or not anti-commutative", rep)
        if x.magnitude_square != a.magnitude_square * b.magnitude_square - a.dot(b) ** 2:
            acc.fail(f"vec/lagrange/{k}/{_short(a)}", "Lagrange identity fails on exact input", rep)
        if tuple(a.lerp(b, 0)) != tuple(a) or tuple(a.lerp(b, 1)) != tuple(b) or tuple(a.lerp(b, 0.5)) != tuple((a + b) * 0.5):
            acc.fail(f"vec/lerp/{k}/{_short(a)}", f"lerp endpoints/midpoint: {tuple(a.lerp(b, 0))}, {tuple(a.lerp(b, 1))}", rep)
        if tuple(a - b) != tuple(-(b - a)) or tuple(a + b) != tuple(b + a) or tuple(a * 2.0) != tuple(2.0 * a) or tuple(a / 2.0) != tuple(a * 0.5):
            acc.fail(f"vec/arith/{k}/{_short(a)}", "+ - * / identities", rep)
        if tuple(tuple(a) + b) != tuple(a + b) or tuple(tuple(a) - b) != tuple(a - b):
            acc.fail(f"vec/reflected/{k}/{_short(a)}", "tuple + Vec3 / tuple - Vec3", rep)
        nrm = a.normalize()
        if abs(nrm.magnitude - 1) > 4 * EPS or not nrm.cross(a).isclose((0, 0, 0), abs_tol=8 * EPS * a.magnitude):
            acc.fail(f"vec/normalize/{k}/{_short(a)}", f"normalize: |n| = {nrm.magnitude}", rep)
        if abs(a.normalize(3.0).magnitude - 3) > 16 * EPS:
            acc.fail(f"vec/normalize-length/{k}/{_short(a)}", "normalize(length)", rep)
        ab = a.angle_between(b)
        if not (0 <= ab <= math.pi) or abs(ab - b.angle_between(a)) > 8 * EPS or abs(a.angle_between(a * 2.0)) > 1e-7:
            acc.fail(f"vec/angle_between/{k}/{_short(a)}", f"angle_between = {ab}", rep)
        th = r.uniform(-3, 3)
        rot = a.rotate(th)
        flat = V3(a.x, a.y, 0)
        if abs(rot.z - a.z) > 0 or abs(math.hypot(rot.x, rot.y) - math.hypot(a.x, a.y)) > 8 * EPS * math.hypot(a.x, a.y) or \
                abs(math.remainder(rot.angle - a.angle - th, math.tau)) > 32 * EPS:
            acc.fail(f"vec/rotate/{k}/{_short(a)}", f"rotate({th}) of {tuple(a)} = {tuple(rot)}", dict(rep, angle=th))
        if not _close(a.rotate_deg(90.0), a.orthogonal(), 16 * EPS * (abs(a.x) + abs(a.y))) or \
                not _close(a.rotate_deg(-90.0), a.orthogonal(ccw=False), 16 * EPS * (abs(a.x) + abs(a.y))):
            acc.fail(f"vec/orthogonal/{k}/{_short(a)}", "orthogonal() is not the rotation by 90 degrees", rep)
        pr = a.project(b)
        if abs((b - pr).dot(a)) > 64 * EPS * a.magnitude * b.magnitude * 4:
            acc.fail(f"vec/project/{k}/{_short(a)}", "b - project(b) is not perpendicular to a", rep)
        if abs(a.distance(b) - (a - b).magnitude) > 4 * EPS * (a.magnitude + b.magnitude):
            acc.fail(f"vec/distance/{k}/{_short(a)}", "distance != |a-b|", rep)
        if not a.isclose(a) or a.isclose(b) != b.isclose(a):
            acc.fail(f"vec/isclose/{k}/{_short(a)}", "isclose not reflexive / symmetric", rep)
        # equality, hashing, ordering on near-equal pairs
        d = V3(_fl(g.near(tuple(a))))
        f = V3(_fl(g.near(tuple(d))))
        acc.count("O6 ordering/eq/hash")
        rep2 = {"op": "order", "a": list(a), "d": list(d), "f": list(f)}
        eq = a == d
        if eq != (tuple(a) == tuple(d)) or (a == tuple(d)) != eq or (a != d) == eq:
            acc.fail(f"order/eq/{k}/{_short(a)}", "== is not component equality", rep2)
        if eq and hash(a) != hash(d):
            acc.fail(f"order/hash/{k}/{_short(a)}", "equal vectors with different hashes", rep2)
        if V3(0.0, -0.0, 0.0) != V3(0, 0, 0) or hash(V3(0.0, -0.0, 0.0)) != hash(V3(0, 0, 0)):
            acc.fail(f"order/hash-negzero/{k}", "-0.0 and 0.0 vectors: equal must imply same hash", rep2)
        if len({a, d, V3(tuple(a))}) != (1 if eq else 2):
            acc.fail(f"order/set/{k}/{_short(a)}", "set of vectors does not collapse equal ones", rep2)
        lt, gt = a < d, d < a
        if (lt + gt + eq) != 1:
            acc.fail(f"order/trichotomy/{k}/{_short(a)}|{_short(d)}", f"a={tuple(a)} d={tuple(d)}: a<d={lt}, d<a={gt}, a==d={eq}", rep2)
        if (a < d and d < f) and not (a < f):
            acc.fail(f"order/transitive/{k}/{_short(a)}", "a<d, d<f but not a<f", rep2)
        if lt != (tuple(a) < tuple(d)):
            acc.fail(f"order/lexicographic/{k}/{_short(a)}|{_short(d)}", f"a<d is {lt} but tuple order says {tuple(a) < tuple(d)}", rep2)
        p, q = V2(a.x, a.y), V2(d.x, d.y)
        if (p == q) != ((p.x, p.y) == (q.x, q.y)) or ((p < q) + (q < p) + (p == q)) != 1 or (p < q) != ((p.x, p.y) < (q.x, q.y)):
            acc.fail(f"order/vec2/{k}/{_short(p)}", "Vec2 ==/< inconsistent with the tuple order", rep2)
        if p == q and hash(p) != hash(q):
            acc.fail(f"order/vec2-hash/{k}/{_short(p)}", "equal Vec2 with different hashes", rep2)
        if p.det(q) != -q.det(p) or p.dot(q) != q.dot(p) or p.orthogonal().dot(p) != 0 or tuple(p.lerp(q, 0)) != tuple(p) or tuple(p.lerp(q, 1)) != tuple(q):
            acc.fail(f"vec/vec2-identities/{k}/{_short(p)}", "Vec2 det/dot/orthogonal/lerp identities", rep2)


def _guard(acc, fn, tw, g, name=None):
    """one oracle iteration; an exception escaping from the real code is itself a failing input"""
    import traceback
    try:
        fn(acc, tw, g, 1)
    except Exception as e:  # noqa
        tb = traceback.extract_tb(e.__traceback__)
        where = next((f"{os.path.basename(f.filename)}:{f.lineno}" for f in reversed(tb) if "ezdxf" in f.filename), "?")
        acc.fail(f"crash/{name or fn.__name__}/{tw.name}/{type(e).__name__}@{where}",
                 f"{name or fn.__name__}: {type(e).__name__}: {e} at {where}", {"op": "crash", "oracle": name or fn.__name__})


def run_oracles(twin: str, seed: int, quick: bool, ucsmod=None) -> dict:
    import random

    tw = Twin(twin)
    if ucsmod is None:
        import ezdxf.math.ucs as ucsmod
    acc = Acc(twin)
    k = 1 if quick else 25
    rng = lambda s: G(random.Random(f"{seed}/C11/oracle/{twin}/{s}"))
    plan = [(oracle_composition, "comp", 300), (oracle_batch, "batch", 200), (oracle_inverse, "inv", 300),
            (oracle_singular, "sing", 100), (oracle_factories, "fact", 200), (oracle_vectors, "vec", 400)]
    for fn, salt, n in plan:
        g = rng(salt)
        for _ in range(n * k):
            _guard(acc, fn, tw, g)
    g = rng("ocs")
    for _ in range(300 * k):
        _guard(acc, lambda a, t, gg, nn: oracle_ocs_ucs(a, t, ucsmod, gg, nn), tw, g, name="oracle_ocs_ucs")
    return {"fails": acc.fails, "counts": acc.counts}


ORACLES_UCS = {"all": lambda payload, tw, U: run_oracles("py", payload["seed"], payload["quick"], U)}


def oracle(ctx):
    import json

    results = []
    if have_cext():
        results.append(run_oracles("pyx", ctx.seed, ctx.quick))
        out = pure_python_worker(["o|all|" + json.dumps({"seed": ctx.seed, "quick": ctx.quick})])
        results.append(json.loads(out[0]))
        ctx.note("oracle: Cython twin in-process (ezdxf.math = C extension), pure-Python twin in a subprocess with "
                 "EZDXF_DISABLE_C_EXT=1 (whole library incl. ucs.py runs on the Python classes)")
    else:
        results.append(run_oracles("py", ctx.seed, ctx.quick))
    for res in results:
        for stream, (n, nt) in res["counts"].items():
            st = ctx.cov["streams"].setdefault(stream, {"evaluations": 0, "distinct_nontrivial": 0})
            st["evaluations"] += n
            st["distinct_nontrivial"] += nt
            ctx.cov["evaluations"] += n
            ctx.cov["distinct_nontrivial"] += nt
        for f in res["fails"]:
            ctx.fail(f["key"], f["what"], f["replay"])


def replay(ctx, rep):
    """re-evaluate the recorded failing inputs on the current tree"""
    import random
    bad = []
    for f in rep.get("failing_inputs", []):
        r = f["replay"]
        twin = r.get("twin", "pyx")
        if twin == "pyx" and not have_cext():
            twin = "py"
        tw = Twin(twin)
        M, V3 = tw.M, tw.V3
        try:
            op = r["op"]
            if op == "imulself":
                a = M(r["A"]); b = M(r["A"]); a *= a
                assert list(a) == list(b * b), "m *= m != m * m"
            elif op == "order":
                a, d = V3(r["a"]), V3(r["d"])
                assert ((a < d) + (d < a) + (a == d)) == 1 and (a < d) == (tuple(a) < tuple(d)), "ordering"
            elif op == "compose":
                a, b = M(r["A"]), M(r["B"])
                assert list((a * b).transform(r["v"])) == list(b.transform(a.transform(r["v"]))), "composition"
            elif op in ("inverse", "singular"):
                m = M(r["M"])
                try:
                    m.inverse()
                    assert op == "inverse", "singular matrix inverted"
                    i = M(r["M"])
                    assert _mat_err(i * m, [1.0 if k % 5 == 0 else 0.0 for k in range(16)]) < 1e-6, "M*inv(M) != I"
                except ZeroDivisionError:
                    assert op == "singular", "regular matrix raised"
            else:
                # generic: rerun the whole oracle family with the recorded seed is not possible input-wise; re-run all
                res = run_oracles(twin, rep.get("seed", 0), True)
                assert not any(x["key"] == f["key"] for x in res["fails"]), "still failing"
        except AssertionError as e:
            bad.append(f"{f['key']}: {e}")
    return (not bad, "; ".join(bad) or "all recorded failing inputs pass now")

"""C11  Vector, matrix and coordinate-system algebra obeys its laws (DESIGN.md section 7, C11).

regenerate : py2lean translation of both twins (math/_vector.py, math/_matrix44.py | acc/vector.pyx, acc/matrix44.pyx)
             and of math/ucs.py linked against each twin -> Gen/{VectorPy,VectorPyx,Matrix44Py,Matrix44Pyx,UcsPy,UcsPyx}.lean
correspond : generated kernels (Lean driver) vs. both implementations on dyadic / Pythagorean inputs
oracle     : the property's own laws evaluated on the real code (both implementations)
"""
from __future__ import annotations

import math
import os
import subprocess
import sys
from fractions import Fraction as Fr

ID = "C11"
LEAN_MODULES = ["EzdxfVerif.Props.C11"]
GEN = ["VectorPy", "VectorPyx", "Matrix44Py", "Matrix44Pyx", "UcsPy", "UcsPyx", "ConstructPy", "ConstructPyx"]
DRIVER_DEPS = ["EzdxfVerif.Model.Rat3", "EzdxfVerif.Model.UcsMachine", "Drivers.Proto"] + [f"EzdxfVerif.Gen.{g}" for g in GEN]

VPY, VPYX = "src/ezdxf/math/_vector.py", "src/ezdxf/acc/vector.pyx"
MPY, MPYX = "src/ezdxf/math/_matrix44.py", "src/ezdxf/acc/matrix44.pyx"
UCS = "src/ezdxf/math/ucs.py"
PXD = ["src/ezdxf/acc/vector.pxd", "src/ezdxf/acc/matrix44.pxd", "src/ezdxf/acc/constants.h"]

# ------------------------------------------------------------------------------------------------ kernel lists
A, B = ("self", "v3", "a"), ("other", "v3", "b")
A2, B2 = ("self", "v2", "a"), ("other", "v2", "b")
M = ("self", "m44", "m")


def vector_kernels(pyx: bool):
    """(lean name, python qualname, params, extra kwargs) for one twin of the vector module"""
    k = [
        ("v3add", "Vec3.__add__", [A, B]),
        ("v3sub", "Vec3.__sub__", [A, B]),
        ("v3rsub", "Vec3.__rsub__", [A, B]),
        ("v3mul", "Vec3.__mul__", [A, ("factor" if pyx else "other", "rat", "k")]),
        ("v3neg", "Vec3.__neg__", [A]),
        ("v3dot", "Vec3.dot", [A, B]),
        ("v3cross", "Vec3.cross", [A, B]),
        ("v3lerp", "Vec3.lerp", [A, B, ("factor", "rat", "t")]),
        ("v3magsq", "Vec3.magnitude_square", [A]),
        ("v3ortho", "Vec3.orthogonal", [A, ("ccw", "bool")]),
        ("v3eq", "Vec3.__eq__", [A, B]),
        ("v3lt", "Vec3.__lt__", [A, B]),
        ("v3isclose", "Vec3.isclose", [A, B]),
        ("v3isnull", "Vec3.is_null", [A]),
        ("v3normalize", "Vec3.normalize", [A]),
        ("v3project", "Vec3.project", [A, B]),
        ("v3distance", "Vec3.distance", [A, B]),
        ("v3sum", "Vec3.sum", [("items", ("list", "v3"), "vs")]),
        ("v2add", "Vec2.__add__", [A2, B2]),
        ("v2sub", "Vec2.__sub__", [A2, B2]),
        ("v2mul", "Vec2.__mul__", [A2, ("factor" if pyx else "other", "rat", "k")]),
        ("v2neg", "Vec2.__neg__", [A2]),
        ("v2dot", "Vec2.dot", [A2, B2]),
        ("v2det", "Vec2.det", [A2, B2]),
        ("v2lerp", "Vec2.lerp", [A2, B2, ("factor", "rat", "t")]),
        ("v2ortho", "Vec2.orthogonal", [A2, ("ccw", "bool")]),
        ("v2eq", "Vec2.__eq__", [A2, B2]),
        ("v2lt", "Vec2.__lt__", [A2, B2]),
        ("v2isclose", "Vec2.isclose", [A2, B2]),
        ("v2sum", "Vec2.sum", [("items", ("list", "v2"), "vs")]),
        # session 3
        ("v3truediv", "Vec3.__truediv__", [A, ("factor" if pyx else "other", "rat", "k")]),
        ("v3rmul", "Vec3.__rmul__", [A, ("factor" if pyx else "other", "rat", "k")]),
        ("v3radd", "Vec3.__radd__", [A, B]),
        ("v3reversed", "Vec3.reversed", [A]),
        ("v3vec2", "Vec3.vec2", [A]),
        ("v3xy", "Vec3.xy", [A]),
        ("v3mag", "Vec3.magnitude", [A]),
        ("v3magxy", "Vec3.magnitude_xy", [A]),
        ("v3normalizeL", "Vec3.normalize", [A, ("length", "rat")]),
        ("v3isclose2", "Vec3.isclose", [A, B, ("rel_tol", "rat"), ("abs_tol", "rat")]),
        ("v3isparallel", "Vec3.is_parallel", [A, B]),
        ("v2truediv", "Vec2.__truediv__", [A2, ("factor" if pyx else "other", "rat", "k")]),
        ("v2isnull", "Vec2.is_null", [A2]),
        ("v2normalize", "Vec2.normalize", [A2]),
        ("v2project", "Vec2.project", [A2, B2]),
        ("v2distance", "Vec2.distance", [A2, B2]),
        ("v3bool", "Vec3.__bool__", [A]),
        ("v2bool", "Vec2.__bool__", [A2]),
        ("v2rmul", "Vec2.__rmul__", [A2, ("factor" if pyx else "other", "rat", "k")]),
        # growth round 2: the (clamped) cosine handed to acos by angle_between; rotate with atan2 as a polar angle
        ("v3cosBetween", "Vec3.angle_between", [A, B]),
        ("v2cosBetween", "Vec2.angle_between", [A2, B2]),
        ("v3rotate", "Vec3.rotate", [A, ("angle", "angle")]),
        ("v2rotate", "Vec2.rotate", [A2, ("angle", "angle")]),
    ] + ([] if pyx else [("v3rotateDeg", "Vec3.rotate_deg", [A, ("angle", "angle")]), ("v2rotateDeg", "Vec2.rotate_deg", [A2, ("angle", "angle")])])
    out = [(n, q, p, {}) for n, q, p in k]
    # constructor decoding (`Vec3.decompose` / the Cython `__cinit__` are written independently) and from_angle:
    # Python EXPRESSIONS executed by the symbolic executor
    ra, rb, rc = ("a", "rat"), ("b", "rat"), ("c", "rat")
    for n, e, ps in (("v3ctor0", "Vec3()", []), ("v3ctor2", "Vec3(a, b)", [ra, rb]), ("v3ctor3", "Vec3(a, b, c)", [ra, rb, rc]),
                     ("v3ctorT2", "Vec3((a, b))", [ra, rb]), ("v3ctorT3", "Vec3((a, b, c))", [ra, rb, rc]),
                     ("v3ctorL3", "Vec3([a, b, c])", [ra, rb, rc]), ("v3ctorV2", "Vec3(p)", [("p", "v2")]),
                     ("v3ctorV3", "Vec3(v)", [("v", "v3")]), ("v2ctor0", "Vec2()", []), ("v2ctor2", "Vec2(a, b)", [ra, rb]),
                     ("v2ctorT2", "Vec2((a, b))", [ra, rb]), ("v2ctorT3", "Vec2((a, b, c))", [ra, rb, rc]),
                     ("v2ctorV3", "Vec2(v)", [("v", "v3")]), ("v2ctorV2", "Vec2(p)", [("p", "v2")]),
                     ("v3fromAngle", "Vec3.from_angle(t, k)", [("t", "angle"), ("k", "rat")]),
                     ("v2fromAngle", "Vec2.from_angle(t, k)", [("t", "angle"), ("k", "rat")])):
        out.append((n, None, ps, {"expr": e}))
    return out


C3D = "src/ezdxf/math/construct3d.py"


def hash_kernels(prog, vsrc: str):
    """`__hash__` of Vec3/Vec2 must be `return hash(<E>)`; the argument expression E is extracted from the (pre-processed)
    AST of the current source and becomes an expression kernel: what the hash is a function of"""
    import ast
    from translate.py2lean import Unsupported
    out = []
    for cls, name, typ in (("Vec3", "v3hashArg", "v3"), ("Vec2", "v2hashArg", "v2")):
        f = prog.module(vsrc).classes[cls].lookup("__hash__")
        body = [st for st in f.node.body if not (isinstance(st, ast.Expr) and isinstance(st.value, ast.Constant))]
        ok = (len(body) == 1 and isinstance(body[0], ast.Return) and isinstance(body[0].value, ast.Call)
              and isinstance(body[0].value.func, ast.Name) and body[0].value.func.id == "hash" and len(body[0].value.args) == 1
              and not body[0].value.keywords)
        if not ok:
            raise Unsupported(f"{vsrc}: {cls}.__hash__ is not `return hash(<expr>)`")
        me = f.node.args.args[0].arg
        out.append((name, None, [(me, typ, "a")], {"expr": ast.unparse(body[0].value.args[0])}))
    return out


def construct_kernels(pyx: bool):
    """session 3: helpers of math/construct3d.py (linked against each twin)"""
    k = [
        ("normal3p", "normal_vector_3p", [("a", "v3"), ("b", "v3"), ("c", "v3")], {}),
        ("distPointLine", "distance_point_line_3d", [("point", "v3", "p"), ("start", "v3", "a"), ("end", "v3", "b")], {}),
    ]
    if pyx:  # `m *= ...` is NumPy in the Python twin (textbook product there)
        k.append(("basicT0", "basic_transformation", [("move", "v3"), ("scale", "v3"), ("z_rotation", ("const", 0))], {}))
        # the general form: the truth value of the angle (`if z_rotation:`) is the Boolean parameter z_rotation_nz
        k.append(("basicT", None, [("move", "v3"), ("scale", "v3"), ("z_rotation", "angle"), ("z_rotation_nz", "bool")],
                  {"expr": "basic_transformation(move, scale, z_rotation)"}))
    return k


def matrix_kernels(pyx: bool):
    ang = lambda n: (n, "angle")
    k = [
        ("scale", "Matrix44.scale", [("sx", "rat"), ("sy", "rat"), ("sz", "rat")], {}),
        ("scaleUniform", "Matrix44.scale", [("sx", "rat"), ("sy", ("const", None)), ("sz", ("const", None))], {}),
        ("translate", "Matrix44.translate", [("dx", "rat"), ("dy", "rat"), ("dz", "rat")], {}),
        ("xRotate", "Matrix44.x_rotate", [ang("angle")], {}),
        ("yRotate", "Matrix44.y_rotate", [ang("angle")], {}),
        ("zRotate", "Matrix44.z_rotate", [ang("angle")], {}),
        ("axisRotate", "Matrix44.axis_rotate", [("axis", "v3"), ang("angle")], {}),
        ("xyzRotate", "Matrix44.xyz_rotate", [ang("angle_x"), ang("angle_y"), ang("angle_z")], {}),
        ("shearXY", "Matrix44.shear_xy", [ang("angle_x"), ang("angle_y")], {}),
        ("ucs", "Matrix44.ucs", [("ux", "v3"), ("uy", "v3"), ("uz", "v3"), ("origin", "v3")], {}),
        ("transform", "Matrix44.transform", [M, ("vector", "v3", "v")], {}),
        ("transformDirection", "Matrix44.transform_direction", [M, ("vector", "v3", "v")], {}),
        ("transformDirectionN", "Matrix44.transform_direction", [M, ("vector", "v3", "v"), ("normalize", ("const", True))], {}),
        ("transformVertices", "Matrix44.transform_vertices", [M, ("vectors", ("list", "v3"), "vs")], {}),
        ("transformDirections", "Matrix44.transform_directions", [M, ("vectors", ("list", "v3"), "vs")], {}),
        ("fast2d", "Matrix44.fast_2d_transform", [M, ("points", ("list", "v2"), "ps")], {}),
        ("ucsVertexFromWcs", "Matrix44.ucs_vertex_from_wcs", [M, ("wcs", "v3", "p")], {}),
        ("ucsDirectionFromWcs", "Matrix44.ucs_direction_from_wcs", [M, ("wcs", "v3", "p")], {}),
        ("origin", "Matrix44.origin", [M], {}),
        ("ux", "Matrix44.ux", [M], {}),
        ("uy", "Matrix44.uy", [M], {}),
        ("uz", "Matrix44.uz", [M], {}),
        ("copy", "Matrix44.copy", [M], {}),
        ("from2d", "Matrix44.from_2d_transformation", [("components", ("tuple", ["rat"] * 6), "c")], {}),
        # session 3: frame predicates (decision logic on normalised axes)
        ("get2d", "Matrix44.get_2d_transformation", [M], {}),
        ("getRow", None, [("m", "m44")], {"expr": "(m.get_row(0), m.get_row(1), m.get_row(2), m.get_row(3))"}),
        ("getCol", None, [("m", "m44")], {"expr": "(m.get_col(0), m.get_col(1), m.get_col(2), m.get_col(3))"}),
        ("perspective", "Matrix44.perspective_projection", [(n_, "rat") for n_ in ("left", "right", "top", "bottom", "near", "far")], {}),
        ("perspectiveFov", "Matrix44.perspective_projection_fov", [("fov", "angle"), ("aspect", "rat"), ("near", "rat"), ("far", "rat")], {}),
        ("isCartesian", "Matrix44.is_cartesian", [M], {}),
        ("isOrthogonal", "Matrix44.is_orthogonal", [M], {}),
    ]
    if pyx:  # explicit arithmetic exists only in the Cython twin; the NumPy forms of the Python twin are modelled
        k += [  # by the textbook algebra of Model/Rat3.lean (M44.mul/transpose/det/inv/chain) and tied by correspondence
            ("imul", "Matrix44.__imul__", [M, ("other", "m44", "o")], {}),
            ("imulSelf", "Matrix44.__imul__", [M, ("other", ("alias", "self"))], {}),  # m *= m : `other` IS `self`
            ("mul", "Matrix44.__mul__", [M, ("other", "m44", "o")], {}),
            ("matmul", "Matrix44.__matmul__", [M, ("other", "m44", "o")], {}),
            ("transpose", "Matrix44.transpose", [M], {"result": "self"}),
            ("determinant", "Matrix44.determinant", [M], {}),
            ("inverse", "Matrix44.inverse", [M], {"result": "self", "opaque": {"Matrix44.determinant": "determinant"}}),
            ("chain", "Matrix44.chain", [("matrices", ("list", "m44"), "ms")], {}),
            ("array2d", "transform_2d_array_inplace", [("m", "arr16"), ("array", ("rows",), "rows"), ("size", ("rowcount", "array"))], {"result": "array"}),
            ("array3d", "transform_3d_array_inplace", [("m", "arr16"), ("array", ("rows",), "rows"), ("size", ("rowcount", "array"))], {"result": "array"}),
        ]
    return k


OCS_OBJ = ("obj", "OCS", {"transform": "bool", "matrix": "m44"})
UCS_OBJ = ("obj", "UCS", {"matrix": "m44"})
P = ("point", "v3", "p")


# UCS as a parameter of an *expression* kernel (method SEQUENCES executed on ONE symbolic object)
UCS_E = ("ucs", ("obj", "UCS", {"matrix": "m44"}), "s")
OCS_E = ("ocs", ("obj", "OCS", {"transform": "bool", "matrix": "m44"}), "o")


def ucs_state_kernels(pyx: bool):
    """session 3: the UCS/OCS classes as state machines.  Mutators and method sequences are translated as Python
    EXPRESSIONS evaluated by the symbolic executor on one object whose instance state is exactly {matrix}
    (see `instance_attrs`): the result of `s.transform(m).to_ocs(p)` is whatever the source does with the state
    the earlier calls left behind (a cached attribute included, if the source had one)."""
    p, q, d, o_, m = ("p", "v3"), ("q", "v3"), ("d", "v3"), ("o", "v3"), ("m", "m44")
    ps = ("ps", ("list", "v3"))
    E = lambda name, expr, params: (name, None, params, {"expr": expr})
    k = [
        # ---- in-place mutators: the new value of the only instance attribute
        E("ucsShift", "ucs.shift(d).matrix", [UCS_E, d]),
        E("ucsMoveto", "ucs.moveto(o).matrix", [UCS_E, o_]),
        E("ucsCopy", "ucs.copy().matrix", [UCS_E]),
        # ---- queries (functions of the state) and their frame condition: the state after the query
        ("ucsToOcs", "UCS.to_ocs", [("self", UCS_OBJ), P], {}),
        ("ucsDirToOcs", "UCS.ucs_direction_to_ocs_direction", [("self", UCS_OBJ), ("direction", "v3", "p")], {}),
        ("ucsPointsToOcs", "UCS.points_to_ocs", [("self", UCS_OBJ), ("points", ("list", "v3"), "ps")], {}),
        ("ucsPointsFromWcs", "UCS.points_from_wcs", [("self", UCS_OBJ), ("points", ("list", "v3"), "ps")], {}),
        ("ucsOrigin", "UCS.origin", [("self", UCS_OBJ)], {}),
        ("ucsUx", "UCS.ux", [("self", UCS_OBJ)], {}),
        ("ucsUy", "UCS.uy", [("self", UCS_OBJ)], {}),
        ("ucsUz", "UCS.uz", [("self", UCS_OBJ)], {}),
        E("ucsToOcsFrame", "(ucs.to_ocs(p), ucs.matrix)[1]", [UCS_E, p]),
        E("ucsToWcsFrame", "(ucs.to_wcs(p), ucs.from_wcs(p), ucs.direction_to_wcs(p), ucs.direction_from_wcs(p), ucs.matrix)[4]",
          [UCS_E, p]),
        # ---- method sequences on ONE object: query (warms whatever the object caches), mutate, query again
        E("ucsSeqShiftToOcs", "(ucs.to_ocs(q), ucs.shift(d).to_ocs(p))[1]", [UCS_E, q, d, p]),
        E("ucsSeqMovetoToOcs", "(ucs.to_ocs(q), ucs.moveto(o).to_ocs(p))[1]", [UCS_E, q, o_, p]),
        E("ucsSeqShiftToWcs", "(ucs.to_wcs(q), ucs.from_wcs(q), ucs.shift(d).to_wcs(p))[2]", [UCS_E, q, d, p]),
        E("ocsSeqRoundtrip", "ocs.to_wcs(ocs.from_wcs(p))", [OCS_E, p]),
        # growth round 2: the batch forms of OCS (Vec3.generate over the list parameter is the list: c11ext.list_identity)
        ("ocsPointsToWcs", "OCS.points_to_wcs", [("self", OCS_OBJ), ("points", ("list", "v3"), "ps")], {}),
        ("ocsPointsFromWcs", "OCS.points_from_wcs", [("self", OCS_OBJ), ("points", ("list", "v3"), "ps")], {}),
        # the direction vector whose polar angle to_ocs_angle_rad / to_ocs_angle_deg return
        E("ucsToOcsAngleVec", "ucs.ucs_direction_to_ocs_direction(Vec3.from_angle(t))", [UCS_E, ("t", "angle")]),
        # ---- factories that return NEW objects: the six axis/point constructors, the four rotations
        ("ucsIsCartesian", "UCS.is_cartesian", [("self", UCS_OBJ)], {}),
    ]
    o3, ax, pt = ("origin", "v3", "o"), ("axis", "v3", "ax"), ("point", "v3", "pt")
    for nm, meth in (("ucsFromXaxisXY", "from_x_axis_and_point_in_xy"), ("ucsFromXaxisXZ", "from_x_axis_and_point_in_xz"),
                     ("ucsFromYaxisXY", "from_y_axis_and_point_in_xy"), ("ucsFromYaxisYZ", "from_y_axis_and_point_in_yz"),
                     ("ucsFromZaxisXZ", "from_z_axis_and_point_in_xz"), ("ucsFromZaxisYZ", "from_z_axis_and_point_in_yz")):
        k.append(E(nm, f"UCS.{meth}(origin, axis, point).matrix", [o3, ax, pt]))
    k += [
        E("ucsRotateLocalX", "ucs.rotate_local_x(angle).matrix", [UCS_E, ("angle", "angle")]),
        E("ucsRotateLocalY", "ucs.rotate_local_y(angle).matrix", [UCS_E, ("angle", "angle")]),
        E("ucsRotateLocalZ", "ucs.rotate_local_z(angle).matrix", [UCS_E, ("angle", "angle")]),
        E("ucsRotate", "ucs.rotate(axis, angle).matrix", [UCS_E, ("axis", "v3"), ("angle", "angle")]),
    ]
    if pyx:  # `self.matrix *= m` is explicit arithmetic only in the Cython twin (NumPy form in the Python twin -> M44.mul)
        k += [
            E("ucsTransform", "ucs.transform(m).matrix", [UCS_E, m]),
            E("ucsSeqTransformToOcs", "(ucs.to_ocs(q), ucs.transform(m).to_ocs(p))[1]", [UCS_E, q, m, p]),
            E("ucsSeqTransformDirToOcs", "(ucs.ucs_direction_to_ocs_direction(q), ucs.transform(m).ucs_direction_to_ocs_direction(p))[1]",
              [UCS_E, q, m, p]),
            E("ucsSeqTransformToWcs", "(ucs.to_wcs(q), ucs.transform(m).to_wcs(p))[1]", [UCS_E, q, m, p]),
            E("ucsSeqTransformFromWcs", "(ucs.from_wcs(q), ucs.transform(m).from_wcs(p))[1]", [UCS_E, q, m, p]),
        ]
    return k


def instance_attrs(src: str, cls: str) -> list:
    """names of ALL instance attributes a class of ucs.py ever assigns (`self.x = ...`, `self.x: T = ...`,
    `self.x += ...` in any method), in order of first appearance: the complete mutable state of an instance"""
    import ast
    tree = ast.parse(src)
    out = []
    for node in tree.body:
        if isinstance(node, ast.ClassDef) and node.name == cls:
            props = set()  # names bound to property objects (setter calls are not instance state)
            for st in node.body:
                if isinstance(st, ast.FunctionDef):
                    for dec in st.decorator_list:
                        if (isinstance(dec, ast.Name) and dec.id == "property") or \
                                (isinstance(dec, ast.Attribute) and dec.attr in ("setter", "getter", "deleter")):
                            props.add(st.name)
            for fn in ast.walk(node):
                if not isinstance(fn, (ast.FunctionDef, ast.AsyncFunctionDef)) or not fn.args.args:
                    continue
                me = fn.args.args[0].arg
                for st in ast.walk(fn):
                    targets = []
                    if isinstance(st, ast.Assign):
                        targets = st.targets
                    elif isinstance(st, (ast.AnnAssign, ast.AugAssign)):
                        targets = [st.target]
                    elif isinstance(st, ast.Call) and isinstance(st.func, ast.Name) and st.func.id == "setattr":
                        raise ValueError(f"{cls}.{fn.name}: setattr() - instance state not statically known")
                    for t in targets:
                        for leaf in ast.walk(t):
                            if isinstance(leaf, ast.Attribute) and isinstance(leaf.value, ast.Name) and leaf.value.id == me \
                                    and isinstance(leaf.ctx, ast.Store) and leaf.attr not in out and leaf.attr not in props:
                                out.append(leaf.attr)
    return out


def slots_of(src: str, cls: str) -> list:
    """`__slots__` of a pure-Python class (a class with __slots__ and without '__dict__' in it has no other instance state)"""
    import ast
    for node in ast.parse(src).body:
        if isinstance(node, ast.ClassDef) and node.name == cls:
            for st in node.body:
                if isinstance(st, ast.Assign) and any(isinstance(t, ast.Name) and t.id == "__slots__" for t in st.targets):
                    v = ast.literal_eval(st.value)
                    return [v] if isinstance(v, str) else list(v)
            raise ValueError(f"{cls}: no __slots__ (instance state not closed)")
    raise ValueError(f"class {cls} not found")


def pxd_fields(pxd: str, cls: str) -> list:
    """C attributes of a `cdef class` as declared in its .pxd (cdef classes cannot grow other attributes)"""
    import re
    out, inside = [], False
    for line in pxd.splitlines():
        if re.match(r"cdef class\s+%s\s*:" % cls, line):
            inside = True
            continue
        if inside:
            if line.strip() and not line.startswith((" ", "\t")):
                break
            t = line.strip()
            if not t or t.startswith("#") or "(" in t:
                continue  # C methods
            m = re.match(r"cdef\s+(?:readonly\s+|public\s+)?[A-Za-z_][A-Za-z_0-9]*\s*\*?\s*(.+)$", t)
            if not m:
                raise ValueError(f"{cls}: cannot read pxd line {t!r}")
            out += [re.sub(r"\[.*\]", "", n).strip() for n in m.group(1).split(",")]
    if not out:
        raise ValueError(f"{cls}: no cdef attributes found in pxd")
    return out


NUMPY_FORMS = ("__mul__", "__imul__", "__matmul__", "transpose", "determinant", "inverse")


def numpy_forms(src: str) -> list:
    """the bodies (docstrings stripped, `ast.unparse`d) of the Matrix44 methods of the pure-Python twin that are NumPy calls.
    The model replaces exactly these texts by the textbook algebra (np.matmul -> M44.mul, .T -> transpose, np.linalg.det ->
    det, np.linalg.inv + LinAlgError -> inv / ZeroDivisionError); any other code in them is outside that assumption."""
    import ast
    out = []
    for node in ast.parse(src).body:
        if isinstance(node, ast.ClassDef) and node.name == "Matrix44":
            for st in node.body:
                if isinstance(st, ast.FunctionDef) and st.name in NUMPY_FORMS:
                    body = [b for b in st.body if not (isinstance(b, ast.Expr) and isinstance(b.value, ast.Constant))]
                    out.append((st.name, "; ".join(ast.unparse(b).replace("\n", " ") for b in body)))
    out.sort(key=lambda t: NUMPY_FORMS.index(t[0]))
    return out


def ucs_kernels():
    o, x, y, z = ("origin", "v3"), ("ux", "v3"), ("uy", "v3"), ("uz", "v3")
    none = lambda n: (n, ("const", None))
    new = ("self", ("obj", "UCS", {}))
    return [
        ("ocsInit", "OCS.__init__", [("self", ("obj", "OCS", {})), ("extrusion", "v3", "n")],
         {"result": "(self.transform, self.matrix if self.transform else Matrix44())"}),
        ("ocsFromWcs", "OCS.from_wcs", [("self", OCS_OBJ), P], {}),
        ("ocsToWcs", "OCS.to_wcs", [("self", OCS_OBJ), P], {}),
        ("ocsUx", "OCS.ux", [("self", OCS_OBJ)], {}),
        ("ocsUy", "OCS.uy", [("self", OCS_OBJ)], {}),
        ("ocsUz", "OCS.uz", [("self", OCS_OBJ)], {}),
        ("ucsInitXYZ", "UCS.__init__", [new, o, x, y, z], {"result": "self.matrix"}),
        ("ucsInitXY", "UCS.__init__", [new, o, x, y, none("uz")], {"result": "self.matrix"}),
        ("ucsInitXZ", "UCS.__init__", [new, o, x, none("uy"), z], {"result": "self.matrix"}),
        ("ucsInitYZ", "UCS.__init__", [new, o, none("ux"), y, z], {"result": "self.matrix"}),
        ("ucsToWcs", "UCS.to_wcs", [("self", UCS_OBJ), P], {}),
        ("ucsFromWcs", "UCS.from_wcs", [("self", UCS_OBJ), P], {}),
        ("ucsDirectionToWcs", "UCS.direction_to_wcs", [("self", UCS_OBJ), ("vector", "v3", "p")], {}),
        ("ucsDirectionFromWcs", "UCS.direction_from_wcs", [("self", UCS_OBJ), ("vector", "v3", "p")], {}),
        ("ucsPointsToWcs", "UCS.points_to_wcs", [("self", UCS_OBJ), ("points", ("list", "v3"), "ps")], {}),
    ]


def regenerate(ctx):
    from translate.py2lean import Program, translate, lean_file
    from translate.c11ext import angle_truth, list_identity, acos_argument, polar_angles

    def read(rel):
        try:
            return ctx.src(rel)
        except FileNotFoundError:
            raise
    # the complete instance state of the two classes of ucs.py, from the AST of the current source; written FIRST so
    # that it is refreshed even when a kernel below leaves the translatable subset
    from leanfmt import lean_str
    usrc = read(UCS)
    txt = "namespace EzdxfVerif.Gen.UcsAttrs\n\n"
    for cls, name in (("UCS", "ucsInstanceAttrs"), ("OCS", "ocsInstanceAttrs")):
        attrs = instance_attrs(usrc, cls)
        txt += (f"/-- every attribute that a method of `{cls}` assigns on `self` (AST of ucs.py): the whole mutable state -/\n"
                f"def {name} : List String := [" + ", ".join(lean_str(a) for a in attrs) + "]\n\n")
    # closed instance state of the vector / matrix classes: __slots__ (Python twin), cdef attributes of the .pxd (Cython twin)
    for name, vals in (("pyMatrix44Slots", slots_of(read(MPY), "Matrix44")), ("pyVec3Slots", slots_of(read(VPY), "Vec3")),
                       ("pyVec2Slots", slots_of(read(VPY), "Vec2")), ("pyxMatrix44Fields", pxd_fields(read(PXD[1]), "Matrix44")),
                       ("pyxVec3Fields", pxd_fields(read(PXD[0]), "Vec3")), ("pyxVec2Fields", pxd_fields(read(PXD[0]), "Vec2"))):
        txt += f"def {name} : List String := [" + ", ".join(lean_str(a) for a in vals) + "]\n\n"
    txt += ("/-- the NumPy-form methods of the pure-Python Matrix44, as source text: what the textbook stand-ins replace -/\n"
            "def pyNumpyForms : List (String × String) := [\n  " +
            ",\n  ".join(f"({lean_str(n)}, {lean_str(b)})" for n, b in numpy_forms(read(MPY))) + "]\n\n")
    ctx.write_gen("UcsAttrs", txt + "end EzdxfVerif.Gen.UcsAttrs\n", [UCS, MPY, VPY, PXD[0], PXD[1]])
    poly = ctx.__dict__.setdefault("c11_poly", {})
    failed = []
    for twin, vsrc, msrc, suffix in (("py", VPY, MPY, "Py"), ("pyx", VPYX, MPYX, "Pyx")):
        prog = Program(read)
        prog.link("ezdxf.math", [vsrc, msrc])
        pyx = twin == "pyx"
        srcs = {"Vector": [vsrc] + ([PXD[0], PXD[2]] if pyx else []),
                "Matrix44": [msrc, vsrc] + (PXD if pyx else []),
                "Ucs": [UCS, vsrc, msrc] + (PXD if pyx else []),
                "Construct": [C3D, vsrc, msrc] + (PXD if pyx else [])}
        for mod, path, kernels in (("Vector", vsrc, vector_kernels(pyx) + hash_kernels(prog, vsrc)), ("Matrix44", msrc, matrix_kernels(pyx)),
                                   ("Ucs", UCS, ucs_kernels() + ucs_state_kernels(pyx)),
                                   ("Construct", C3D, construct_kernels(pyx))):
            defs, extra = [], ""
            for lean_name, qual, params, kw in kernels:
                try:
                    with angle_truth(), list_identity(), acos_argument():
                        if lean_name in ("v3rotate", "v2rotate", "v3rotateDeg", "v2rotateDeg", "perspectiveFov"):
                            with polar_angles():
                                d = translate(prog, path, qual, params, lean_name=lean_name, **kw)
                        else:
                            d = translate(prog, path, qual, params, lean_name=lean_name, **kw)
                except Exception as e:  # noqa
                    # the kernel left the translatable subset: every OTHER kernel is still regenerated from the current source
                    # (so that no Gen file keeps definitions of an earlier tree); the missing definition breaks the theorems
                    # that mention it, and the first such error is re-raised below (-> broken obligation "translation")
                    failed.append((f"{twin}:{lean_name}", e))
                    defs.append(f"-- NOT TRANSLATED from the current source: {lean_name} ({type(e).__name__}: {str(e)[:160]})\n")
                    continue
                defs.append(d)
                if not d.sqrt_params and not d.trig_params:  # polynomial / decision kernel: must be corresponded EXACTLY
                    poly.setdefault(twin, set()).add(lean_name)
                if d.sqrt_params:
                    extra += d.sqrt_wrapper() + "\n"
            ns = f"EzdxfVerif.Gen.{mod}{suffix}"
            ctx.write_gen(f"{mod}{suffix}", lean_file(ns, defs, extra=extra), srcs[mod])
    if failed:
        ctx.note("kernels that left the translatable subset: " + ", ".join(n for n, _ in failed))
        raise failed[0][1]


# ================================================================================================ implementation side
RULE = (
    "correspondence X0 (tie audit): every kernel regenerate() translates for a twin must have been evaluated against the real "
    "code in X1/X2 of this run, else broken.  X1 (exact): every generated kernel of both twins (vector ops, comparisons, isclose, "
    "factories, transform variants incl. batch/array forms, products, chain, transpose, Cython determinant, UCS/OCS conversions, "
    "UCS mutators and the regenerated method sequences through to_wcs/from_wcs, basic_transformation(angle 0)) on dyadic inputs "
    "(mantissa <= 8 bit, 9 magnitudes 2^-40..2^40, special vectors, affine/general/singular matrices) vs the Lean evaluation of "
    "Gen/*.lean: results must be EQUAL as rationals, exceptions by class.  X2 (tolerant): kernels with sqrt/trig/NumPy LU "
    "(normalize, project, distance, magnitudes, is_parallel, axis/xyz rotation, OCS/UCS construction incl. extrusions on both sides "
    "of the 1/64 threshold, UCS.to_ocs family, the sequences query -> mutator -> to_ocs on ONE real object, UCS.copy, the six "
    "axis/point constructors, UCS.rotate*, frame predicates, normal_vector_3p, distance_point_line_3d, basic_transformation, "
    "determinant of the Python twin, inverse of both twins): |impl - model| <= stated tolerance (abs 2^-36..2^-50*scale, inverse "
    "8ulp*kappa_inf*max|inv|); inputs within 1e-9 of a branch threshold are regenerated or skipped (decision band, counted).  "
    "X3 (UCS histories): seeded histories of 1..5 in-place mutators with queries before/between/after, executed on ONE real UCS "
    "object and replayed step by step by the Lean state machine (Model/UcsMachine.lean); exact while the fixed-point widths of "
    "state and arguments guarantee exact float arithmetic, relative 2^-40 after that, 2^-38 for queries that take square roots.  "
    "non-trivial = input not a zero / axis-aligned / identity special case (X3: at least two mutators); distinct by hash of the "
    "request line.  oracle: the laws themselves on the real code, C extension in-process, pure-Python twin by direct import and "
    "(OCS/UCS, whole-library mode) in a subprocess with EZDXF_DISABLE_C_EXT=1."
)
TRUSTED_BASE = [
    "py2lean translator (harness/translate) incl. the additive extension translate/c11ext.py (truth value of an angle parameter): "
    "cross-checked by the exact correspondence stream and the tie audit on every run",
    "np.matmul / ndarray.T / np.linalg.det / np.linalg.inv of the pure-Python twin are modelled by the textbook algebra "
    "M44.mul/transpose/det/inv (Model/Rat3.lean), also inside UCS.transform and basic_transformation of the Python linking "
    "(Model/UcsMachine.lean stepPy, Drivers/C11.lean PyNumpy); tied by correspondence only",
    "CPython math.isclose / abs semantics (pyIsclose, pyAbs in Model/Rat3.lean); libm sin/cos/tan/sqrt enter as parameters",
    "Cython semantics of the pre-pass: `cdef double[16] a = b` copies, `cdef double *a = b` aliases, C-array attribute "
    "assignment copies, float division by zero raises ZeroDivisionError (cdivision off)",
    "translate/c11ext.py (growth round 2): Vec3.generate over a list parameter of Vec3 is the list (Vec3(v) = v: vec_ctor_spec); acos returns its "
    "argument (kernel = the value handed to acos); atan2(y, x) is a polar angle with cos = x/r, sin = y/r, r = hypot (atan2(0,0) = 0), "
    "angle sums expand by the addition theorems, constant factors/divisors keep the symbolic angle: real-analysis identities, exercised by X2",
    "instance_attrs(): the instance state of UCS/OCS is the set of attributes assigned on `self` in the class body (AST); property "
    "setters are not state, setattr() is rejected; state smuggled through other channels (globals, closures) is not seen",
]
ASSUMPTIONS = [
    "inputs are finite doubles; NaN/inf/overflow/underflow are outside the model (rationals)",
    "rounding error of float arithmetic is bounded by the stated tolerances, not proved",
    "square roots / sin / cos enter theorems as parameters with r*r = radicand, 0 < r (or 0 <= r), c*c + s*s = 1",
]
OPEN = [
    "np.linalg.inv singularity detection near (not at) singular matrices; float rounding bounds",
    "angle / angle_about / spatial_angle and the final atan2 of to_ocs_angle_*; the acos of angle_between (only the clamp logic "
    "before it is proved): oracle / correspondence through the cosine",
    "rotate_deg of the Cython twin (multiplication by a C constant, then rotate): corresponded through rotate",
    "is_cartesian band for non-unit frames (proved: rigid right-handed => True, rigid left-handed => False; is_orthogonal: exact band)",
    "NumPy forms of the Python twin (products, inverse, determinant, UCS.transform, basic_transformation): textbook stand-ins + correspondence",
    "linalg.py solvers (not part of the property statement)",
]

MAGS = [-40, -20, -8, -2, 0, 2, 8, 20, 40]


def fr(x) -> str:
    """canonical protocol form of a number: the exact rational value of the double nearest to x, so that the model
    and the implementation always receive the very same number"""
    f = Fr(float(Fr(x)))
    return str(f.numerator) if f.denominator == 1 else f"{f.numerator}/{f.denominator}"


def frs(xs) -> str:
    return ",".join(fr(x) for x in xs)


def parse_fr(s: str) -> Fr:
    return Fr(s)


def parse_list(s: str):
    return [float(Fr(t)) for t in s.split(",")] if s else []


class Twin:
    """the classes of one implementation"""

    def __init__(self, name):
        self.name = name
        if name == "pyx":
            from ezdxf.acc.vector import Vec3, Vec2
            from ezdxf.acc.matrix44 import Matrix44
        else:
            from ezdxf.math._vector import Vec3, Vec2
            from ezdxf.math._matrix44 import Matrix44
        self.V3, self.V2, self.M = Vec3, Vec2, Matrix44


def have_cext() -> bool:
    try:
        from ezdxf.acc import USE_C_EXT
        return bool(USE_C_EXT)
    except Exception:
        return False


def _ok(vals, tag="") -> str:
    for v in vals:
        if isinstance(v, float) and (math.isnan(v) or math.isinf(v)):
            return "ok " + tag + "nonfinite"
    return "ok " + tag + frs(float(v) for v in vals)


def _b(x) -> str:
    return "T" if x else "F"


def impl_value(tw: Twin, kernel: str, a: list, ucsmod=None) -> str:
    """evaluate one kernel on the real code; `a` are the protocol argument strings"""
    V3, V2, M = tw.V3, tw.V2, tw.M
    v3 = lambda s: V3(*parse_list(s))
    v2 = lambda s: V2(*parse_list(s))
    mat = lambda s: M(parse_list(s))
    lst = lambda s, f: [f(t) for t in s.split(";")] if s else []
    try:
        k = kernel
        if k == "v3add": return _ok(v3(a[0]) + v3(a[1]))
        if k == "v3sub": return _ok(v3(a[0]) - v3(a[1]))
        if k == "v3rsub": return _ok(tuple(parse_list(a[1])) - v3(a[0]))
        if k == "v3mul": return _ok(v3(a[0]) * float(Fr(a[1])))
        if k == "v3neg": return _ok(-v3(a[0]))
        if k == "v3dot": return _ok([v3(a[0]).dot(v3(a[1]))])
        if k == "v3cross": return _ok(v3(a[0]).cross(v3(a[1])))
        if k == "v3lerp": return _ok(v3(a[0]).lerp(v3(a[1]), float(Fr(a[2]))))
        if k == "v3magsq": return _ok([v3(a[0]).magnitude_square])
        if k == "v3ortho": return _ok(v3(a[0]).orthogonal(a[1] == "T"))
        if k == "v3eq": return "ok " + _b(v3(a[0]) == v3(a[1]))
        if k == "v3lt": return "ok " + _b(v3(a[0]) < v3(a[1]))
        if k == "v3isclose": return "ok " + _b(v3(a[0]).isclose(v3(a[1])))
        if k == "v3isnull": return "ok " + _b(v3(a[0]).is_null)
        if k == "v3sum": return _ok(V3.sum(lst(a[0], v3)))
        if k == "v3normalize": return _ok(v3(a[0]).normalize())
        if k == "v3project": return _ok(v3(a[0]).project(v3(a[1])))
        if k == "v3distance": return _ok([v3(a[0]).distance(v3(a[1]))])
        if k == "v2add": return _ok(v2(a[0]) + v2(a[1]))
        if k == "v2sub": return _ok(v2(a[0]) - v2(a[1]))
        if k == "v2mul": return _ok(v2(a[0]) * float(Fr(a[1])))
        if k == "v2neg": return _ok(-v2(a[0]))
        if k == "v2dot": return _ok([v2(a[0]).dot(v2(a[1]))])
        if k == "v2det": return _ok([v2(a[0]).det(v2(a[1]))])
        if k == "v2lerp": return _ok(v2(a[0]).lerp(v2(a[1]), float(Fr(a[2]))))
        if k == "v2ortho": return _ok(v2(a[0]).orthogonal(a[1] == "T"))
        if k == "v2eq": return "ok " + _b(v2(a[0]) == v2(a[1]))
        if k == "v2lt": return "ok " + _b(v2(a[0]) < v2(a[1]))
        if k == "v2isclose": return "ok " + _b(v2(a[0]).isclose(v2(a[1])))
        if k == "v2sum": return _ok(V2.sum(lst(a[0], v2)))
        if k in ("v3ctor0", "v3ctor2", "v3ctor3", "v3ctorT2", "v3ctorT3", "v3ctorL3"):
            x = parse_list(a[0]) if a and a[0] else []
            return _ok({"v3ctor0": lambda: V3(), "v3ctor2": lambda: V3(x[0], x[1]), "v3ctor3": lambda: V3(x[0], x[1], x[2]),
                        "v3ctorT2": lambda: V3((x[0], x[1])), "v3ctorT3": lambda: V3((x[0], x[1], x[2])),
                        "v3ctorL3": lambda: V3([x[0], x[1], x[2]])}[k]())
        if k in ("v2ctor0", "v2ctor2", "v2ctorT2", "v2ctorT3"):
            x = parse_list(a[0]) if a and a[0] else []
            return _ok({"v2ctor0": lambda: V2(), "v2ctor2": lambda: V2(x[0], x[1]), "v2ctorT2": lambda: V2((x[0], x[1])),
                        "v2ctorT3": lambda: V2((x[0], x[1], x[2]))}[k]())
        if k == "v3ctorV2": return _ok(V3(v2(a[0])))
        if k == "v3ctorV3": return _ok(V3(v3(a[0])))
        if k == "v2ctorV3": return _ok(V2(v3(a[0])))
        if k == "v2ctorV2": return _ok(V2(v2(a[0])))
        if k == "v3fromAngle": return _ok(V3.from_angle(float(Fr(a[3])), float(Fr(a[2]))))  # a = [c, s, k, angle]
        if k == "v2fromAngle": return _ok(V2.from_angle(float(Fr(a[3])), float(Fr(a[2]))))
        if k == "v3cosBetween": return _ok([math.cos(v3(a[0]).angle_between(v3(a[1])))])
        if k == "v2cosBetween": return _ok([math.cos(v2(a[0]).angle_between(v2(a[1])))])
        if k == "v3rotate": return _ok(v3(a[0]).rotate(float(Fr(a[3]))))  # a = [v, c, s, angle]
        if k == "v2rotate": return _ok(v2(a[0]).rotate(float(Fr(a[3]))))
        if k == "v3rotateDeg": return _ok(v3(a[0]).rotate_deg(math.degrees(float(Fr(a[3])))))
        if k == "v2rotateDeg": return _ok(v2(a[0]).rotate_deg(math.degrees(float(Fr(a[3])))))
        if k == "perspective": return _ok(M.perspective_projection(*parse_list(a[0])))
        if k == "perspectiveFov":  # a = [aspect, near, far, tan(fov/2), fov]
            return _ok(M.perspective_projection_fov(float(Fr(a[4])), float(Fr(a[0])), float(Fr(a[1])), float(Fr(a[2]))))
        if k == "v3bool": return "ok " + _b(bool(v3(a[0])))
        if k == "v2bool": return "ok " + _b(bool(v2(a[0])))
        if k == "v2rmul": return _ok(float(Fr(a[1])) * v2(a[0]))
        if k == "v3hashArg":  # the hash is the hash of this tuple
            v = v3(a[0])
            return _ok(v.xyz) if hash(v) == hash(tuple(float(t) for t in v.xyz)) and hash(v) == hash(V3(*v.xyz)) else "ok hash-differs"
        if k == "v2hashArg":
            v = v2(a[0])
            return _ok((v.x, v.y)) if hash(v) == hash((float(v.x), float(v.y))) and hash(v) == hash(V2(v.x, v.y)) else "ok hash-differs"
        if k == "v3truediv": return _ok(v3(a[0]) / float(Fr(a[1])))
        if k == "v3rmul": return _ok(float(Fr(a[1])) * v3(a[0]))
        if k == "v3radd": return _ok(tuple(parse_list(a[1])) + v3(a[0]))
        if k == "v3reversed": return _ok(v3(a[0]).reversed())
        if k == "v3vec2": return _ok(v3(a[0]).vec2)
        if k == "v3xy": return _ok(v3(a[0]).xy)
        if k == "v3mag": return _ok([v3(a[0]).magnitude])
        if k == "v3magxy": return _ok([v3(a[0]).magnitude_xy])
        if k == "v3normalizeL": return _ok(v3(a[0]).normalize(float(Fr(a[1]))))
        if k == "v3isclose2": return "ok " + _b(v3(a[0]).isclose(v3(a[1]), rel_tol=float(Fr(a[2])), abs_tol=float(Fr(a[3]))))
        if k == "v3isparallel": return "ok " + _b(v3(a[0]).is_parallel(v3(a[1])))
        if k == "v2truediv": return _ok(v2(a[0]) / float(Fr(a[1])))
        if k == "v2isnull": return "ok " + _b(v2(a[0]).is_null)
        if k == "v2normalize": return _ok(v2(a[0]).normalize())
        if k == "v2project": return _ok(v2(a[0]).project(v2(a[1])))
        if k == "v2distance": return _ok([v2(a[0]).distance(v2(a[1]))])
        if k in ("normal3p", "distPointLine", "basicT0", "basicT"):  # construct3d.py binds the classes of `ezdxf.math` at import
            C = _construct3d(tw)
            if k == "normal3p": return _ok(C.normal_vector_3p(v3(a[0]), v3(a[1]), v3(a[2])))
            if k == "distPointLine": return _ok([C.distance_point_line_3d(v3(a[0]), v3(a[1]), v3(a[2]))])
            if k == "basicT":  # a = [move, scale, nz, c, s, angle]
                return _ok(C.basic_transformation(v3(a[0]), v3(a[1]), float(Fr(a[5]))))
            return _ok(C.basic_transformation(v3(a[0]), v3(a[1]), 0))
        if k == "get2d": return _ok(mat(a[0]).get_2d_transformation())
        if k == "getRow": return _ok([c for i in range(4) for c in mat(a[0]).get_row(i)])
        if k == "getCol": return _ok([c for i in range(4) for c in mat(a[0]).get_col(i)])
        if k == "isCartesian": return "ok " + _b(mat(a[0]).is_cartesian)
        if k == "isOrthogonal": return "ok " + _b(mat(a[0]).is_orthogonal)
        if k == "scale": return _ok(M.scale(*parse_list(a[0])))
        if k == "scaleUniform": return _ok(M.scale(float(Fr(a[0]))))
        if k == "translate": return _ok(M.translate(*parse_list(a[0])))
        if k in ("xRotate", "yRotate", "zRotate"):  # a = [c, s, angle]
            return _ok(getattr(M, k[0] + "_rotate")(float(Fr(a[2]))))
        if k == "axisRotate": return _ok(M.axis_rotate(v3(a[0]), float(Fr(a[3]))))
        if k == "xyzRotate": return _ok(M.xyz_rotate(*parse_list(a[1])))
        if k == "shearXY": return _ok(M.shear_xy(*parse_list(a[2])))
        if k == "ucs": return _ok(M.ucs(v3(a[0]), v3(a[1]), v3(a[2]), v3(a[3])))
        if k == "from2d": return _ok(M.from_2d_transformation(parse_list(a[0])))
        if k == "transform": return _ok(mat(a[0]).transform(v3(a[1])))
        if k == "transformDirection": return _ok(mat(a[0]).transform_direction(v3(a[1])))
        if k == "transformDirectionN": return _ok(mat(a[0]).transform_direction(v3(a[1]), True))
        if k == "transformVertices": return _ok([c for v in mat(a[0]).transform_vertices(lst(a[1], v3)) for c in v])
        if k == "transformDirections": return _ok([c for v in mat(a[0]).transform_directions(lst(a[1], v3)) for c in v])
        if k == "fast2d": return _ok([c for v in mat(a[0]).fast_2d_transform(lst(a[1], v2)) for c in v])
        if k == "ucsVertexFromWcs": return _ok(mat(a[0]).ucs_vertex_from_wcs(v3(a[1])))
        if k == "ucsDirectionFromWcs": return _ok(mat(a[0]).ucs_direction_from_wcs(v3(a[1])))
        if k == "axes":
            m = mat(a[0])
            return _ok(list(m.ux) + list(m.uy) + list(m.uz) + list(m.origin))
        if k == "copy":
            m = mat(a[0]); c = m.copy(); m *= M.scale(2.0)  # the copy must not follow the original
            return _ok(c)
        if k == "mul":
            x, y = mat(a[0]), mat(a[1]); r = x * y
            return _ok(r) if (list(x) == parse_list(a[0]) and list(y) == parse_list(a[1])) else "ok operands-mutated"
        if k == "matmul": return _ok(mat(a[0]) @ mat(a[1]))
        if k == "imul":
            x, y = mat(a[0]), mat(a[1]); x *= y
            return _ok(x) if list(y) == parse_list(a[1]) else "ok operand-mutated"
        if k == "imulSelf":
            x = mat(a[0]); x *= x
            return _ok(x)
        if k == "transpose":
            x = mat(a[0]); x.transpose()
            return _ok(x)
        if k == "determinant": return _ok([mat(a[0]).determinant()])
        if k == "inverse":
            x = mat(a[0]); x.inverse()
            return _ok(x)
        if k == "chain": return _ok(M.chain(*lst(a[0], mat)))
        if k in ("array2d", "array3d"):
            import numpy as np
            rows = [parse_list(r) for r in a[1].split(";")] if a[1] else []
            arr = np.array(rows, dtype=np.float64) if rows else np.zeros((0, 3))
            mat(a[0]).transform_array_inplace(arr, 2 if k == "array2d" else 3)
            return _ok([c for r in arr.tolist() for c in r])
        # ---- ucs.py (linked with whatever ezdxf.math is in this process)
        U = ucsmod
        if k == "ocsInit":
            o = U.OCS(v3(a[0]))
            return _ok(o.matrix if o.transform else M(), tag=_b(o.transform) + ";")
        if k in ("ocsFromWcs", "ocsToWcs", "ocsAxes", "ocsPointsToWcs", "ocsPointsFromWcs"):
            o = U.OCS()
            o.transform = a[0] == "T"
            o.matrix = mat(a[1])
            if k == "ocsPointsToWcs": return _ok([c for v in o.points_to_wcs(lst(a[2], v3)) for c in v])
            if k == "ocsPointsFromWcs": return _ok([c for v in o.points_from_wcs(lst(a[2], v3)) for c in v])
            if k == "ocsFromWcs": return _ok(o.from_wcs(v3(a[2])))
            if k == "ocsToWcs": return _ok(o.to_wcs(v3(a[2])))
            return _ok(list(o.ux) + list(o.uy) + list(o.uz))
        if k == "ucsInitXYZ": return _ok(U.UCS(v3(a[0]), v3(a[1]), v3(a[2]), v3(a[3])).matrix)
        if k == "ucsInitXY": return _ok(U.UCS(v3(a[0]), ux=v3(a[1]), uy=v3(a[2])).matrix)
        if k == "ucsInitXZ": return _ok(U.UCS(v3(a[0]), ux=v3(a[1]), uz=v3(a[2])).matrix)
        if k == "ucsInitYZ": return _ok(U.UCS(v3(a[0]), uy=v3(a[1]), uz=v3(a[2])).matrix)
        if k in ("ucsToWcs", "ucsFromWcs", "ucsDirectionToWcs", "ucsDirectionFromWcsU", "ucsPointsToWcs"):
            u = U.UCS()
            u.matrix = mat(a[0])
            if k == "ucsToWcs": return _ok(u.to_wcs(v3(a[1])))
            if k == "ucsFromWcs": return _ok(u.from_wcs(v3(a[1])))
            if k == "ucsDirectionToWcs": return _ok(u.direction_to_wcs(v3(a[1])))
            if k == "ucsDirectionFromWcsU": return _ok(u.direction_from_wcs(v3(a[1])))
            return _ok([c for v in u.points_to_wcs(lst(a[1], v3)) for c in v])
        # ---- session 3: UCS as a state machine; every sequence runs on ONE real object
        if k in STATE_KERNELS:
            def ucs_of(ms):
                u = U.UCS()
                u.matrix = mat(ms)
                return u
            if k == "ocsSeqRoundtrip":
                o = U.OCS()
                o.transform = a[0] == "T"
                o.matrix = mat(a[1])
                return _ok(o.to_wcs(o.from_wcs(v3(a[2]))))
            if k in FROM_AXIS:
                return _ok(getattr(U.UCS, FROM_AXIS[k])(v3(a[0]), v3(a[1]), v3(a[2])).matrix)
            u = ucs_of(a[0])
            if k == "ucsIsCartesian": return "ok " + _b(u.is_cartesian)
            if k == "ucsToOcsAngleVec":  # a = [m, c, s, angle]: the vector, checked to carry the angle to_ocs_angle_rad/_deg return
                ang = float(Fr(a[3]))
                d = u.ucs_direction_to_ocs_direction(V3.from_angle(ang))
                ra, da = u.to_ocs_angle_rad(ang), u.to_ocs_angle_deg(math.degrees(ang))
                dd = u.ucs_direction_to_ocs_direction(V3.from_deg_angle(math.degrees(ang)))
                if abs(math.remainder(ra - d.angle, math.tau)) > 1e-12 or abs(math.remainder(da - dd.angle_deg, 360.0)) > 1e-9 \
                        or abs(math.remainder(math.radians(da) - ra, math.tau)) > 1e-9:
                    return "ok angle-inconsistent"
                return _ok(d)
            if k in ("ucsRotateLocalX", "ucsRotateLocalY", "ucsRotateLocalZ"):  # a = [m, c, s, angle]
                return _ok(getattr(u, "rotate_local_" + k[-1].lower())(float(Fr(a[3]))).matrix)
            if k == "ucsRotate": return _ok(u.rotate(v3(a[1]), float(Fr(a[4]))).matrix)  # a = [m, axis, c, s, angle]
            if k == "ucsTransformU": return _ok(u.transform(mat(a[1])).matrix)
            if k == "ucsShift": return _ok(u.shift(v3(a[1])).matrix)
            if k == "ucsMoveto": return _ok(u.moveto(v3(a[1])).matrix)
            if k == "ucsCopy": return _ok(u.copy().matrix)
            if k == "ucsToOcs": return _ok(u.to_ocs(v3(a[1])))
            if k == "ucsDirToOcs": return _ok(u.ucs_direction_to_ocs_direction(v3(a[1])))
            if k == "ucsPointsToOcs": return _ok([c for v in u.points_to_ocs(lst(a[1], v3)) for c in v])
            if k == "ucsPointsFromWcs": return _ok([c for v in u.points_from_wcs(lst(a[1], v3)) for c in v])
            if k == "ucsAxes": return _ok(list(u.ux) + list(u.uy) + list(u.uz) + list(u.origin))
            if k == "ucsWcsFrame":  # the state after the square-root-free queries (frame condition, exact)
                p = v3(a[1])
                u.to_wcs(p); u.from_wcs(p); u.direction_to_wcs(p); u.direction_from_wcs(p)
                return _ok(u.matrix)
            if k == "ucsFrames":  # the state after the queries (frame condition)
                p = v3(a[1])
                u.to_wcs(p); u.from_wcs(p); u.direction_to_wcs(p); u.direction_from_wcs(p)
                m1 = list(u.matrix)
                u.to_ocs(p)
                return _ok(m1 + list(u.matrix))
            if k == "ucsSeqShiftToOcs":
                u.to_ocs(v3(a[1]))
                return _ok(u.shift(v3(a[2])).to_ocs(v3(a[3])))
            if k == "ucsSeqMovetoToOcs":
                u.to_ocs(v3(a[1]))
                return _ok(u.moveto(v3(a[2])).to_ocs(v3(a[3])))
            if k == "ucsSeqShiftToWcs":
                u.to_wcs(v3(a[1])); u.from_wcs(v3(a[1]))
                return _ok(u.shift(v3(a[2])).to_wcs(v3(a[3])))
            if k == "ucsSeqTransformToOcs":
                u.to_ocs(v3(a[1]))
                return _ok(u.transform(mat(a[2])).to_ocs(v3(a[3])))
            if k == "ucsSeqTransformDirToOcs":
                u.ucs_direction_to_ocs_direction(v3(a[1]))
                return _ok(u.transform(mat(a[2])).ucs_direction_to_ocs_direction(v3(a[3])))
            if k == "ucsSeqTransformToWcs":
                u.to_wcs(v3(a[1]))
                return _ok(u.transform(mat(a[2])).to_wcs(v3(a[3])))
            if k == "ucsSeqTransformFromWcs":
                u.from_wcs(v3(a[1]))
                return _ok(u.transform(mat(a[2])).from_wcs(v3(a[3])))
        raise KeyError(kernel)
    except ZeroDivisionError:
        return "err ZeroDivisionError"
    except (TypeError, ValueError, IndexError) as e:
        return "err " + type(e).__name__


FROM_AXIS = {"ucsFromXaxisXY": "from_x_axis_and_point_in_xy", "ucsFromXaxisXZ": "from_x_axis_and_point_in_xz",
             "ucsFromYaxisXY": "from_y_axis_and_point_in_xy", "ucsFromYaxisYZ": "from_y_axis_and_point_in_yz",
             "ucsFromZaxisXZ": "from_z_axis_and_point_in_xz", "ucsFromZaxisYZ": "from_z_axis_and_point_in_yz"}
STATE_KERNELS = set(FROM_AXIS) | {"ucsToOcsAngleVec", "ucsIsCartesian", "ucsRotateLocalX", "ucsRotateLocalY", "ucsRotateLocalZ", "ucsRotate",
                 "ucsTransformU", "ucsShift", "ucsMoveto", "ucsCopy", "ucsToOcs", "ucsDirToOcs", "ucsPointsToOcs",
                 "ucsPointsFromWcs", "ucsAxes", "ucsFrames", "ucsWcsFrame", "ucsSeqShiftToOcs", "ucsSeqMovetoToOcs", "ucsSeqShiftToWcs",
                 "ocsSeqRoundtrip", "ucsSeqTransformToOcs", "ucsSeqTransformDirToOcs", "ucsSeqTransformToWcs",
                 "ucsSeqTransformFromWcs"}
def _construct3d(tw):
    """math/construct3d.py running on the classes of twin `tw`: the module takes Vec3/Matrix44 from `ezdxf.math` (the C
    extension when available); for the pure-Python twin in a process with C extensions a private copy of the module is
    executed with the Python classes bound instead (same source text)"""
    import ezdxf.math.construct3d as C
    if C.Vec3 is tw.V3:
        return C
    cache = _construct3d.__dict__.setdefault("cache", {})
    if tw.name not in cache:
        import types
        mod = types.ModuleType("construct3d_" + tw.name)
        src = open(C.__file__).read()
        mod.__dict__["__file__"] = C.__file__
        mod.__dict__["__package__"] = "ezdxf.math"
        mod.__dict__["__name__"] = "ezdxf.math.construct3d_" + tw.name
        exec(compile(src, C.__file__, "exec"), mod.__dict__)
        mod.Vec3, mod.Matrix44 = tw.V3, tw.M
        mod.Vec2 = tw.V2
        cache[tw.name] = mod
    return cache[tw.name]


UCS_KERNELS = STATE_KERNELS | {"ocsPointsToWcs", "ocsPointsFromWcs", "ocsInit", "ocsFromWcs", "ocsToWcs", "ocsAxes", "ucsInitXYZ", "ucsInitXY", "ucsInitXZ", "ucsInitYZ",
               "ucsToWcs", "ucsFromWcs", "ucsDirectionToWcs", "ucsDirectionFromWcsU", "ucsPointsToWcs"}
# arguments that are only for the implementation (angle next to its cos/sin), dropped from the Lean request
IMPL_ONLY_ARGS = {"basicT": 1, "ucsRotateLocalX": 1, "ucsRotateLocalY": 1, "ucsRotateLocalZ": 1, "ucsRotate": 1, "xRotate": 1, "yRotate": 1, "zRotate": 1, "axisRotate": 1, "xyzRotate": 1, "shearXY": 1}


def pure_python_worker(lines: list) -> list:
    """evaluate `twin=py` requests of ucs.py in a subprocess where the whole library runs without C extensions"""
    if not lines:
        return []
    env = dict(os.environ, EZDXF_DISABLE_C_EXT="1", PYTHONPATH=os.pathsep.join([str(_repo() / "src"), str(_harness())]))
    r = subprocess.run([sys.executable, "-c", "import props.c11 as m; m._worker_main()"], input="\n".join(lines) + "\n",
                       capture_output=True, text=True, env=env, cwd=str(_harness()), timeout=1800)
    out = r.stdout.splitlines()
    if r.returncode != 0 or len(out) != len(lines):
        from runner import Infra
        raise Infra(f"pure-Python worker failed rc={r.returncode} in={len(lines)} out={len(out)}\n{r.stderr[-2000:]}")
    return out


def _repo():
    from pathlib import Path
    return Path(os.environ.get("VERIF_REPO", "/repo"))


def _harness():
    from pathlib import Path
    return Path(__file__).resolve().parent.parent


def _worker_main():
    import ezdxf  # noqa
    from ezdxf.acc import USE_C_EXT
    assert not USE_C_EXT, "worker must run without C extensions"
    assert os.path.realpath(ezdxf.__file__).startswith(os.path.realpath(str(_repo()))), f"worker imported {ezdxf.__file__}"
    import ezdxf.math.ucs as U
    from ezdxf.math import Vec3
    from ezdxf.math._vector import Vec3 as PV
    assert Vec3 is PV
    tw = Twin("py")
    for line in sys.stdin:
        line = line.rstrip("\n")
        if not line:
            continue
        kind, rest = line.split("|", 1)
        if kind == "k":  # kernel request: k|kernel|args...
            parts = rest.split("|")
            print(impl_value(tw, parts[0], parts[1:], U))
        elif kind == "h":  # UCS history: h|json plan -> the Lean request body with the implementation's values filled in
            import json
            print(run_history(tw, U, json.loads(rest)))
        elif kind == "o":  # oracle request: o|name|json
            import json
            name, payload = rest.split("|", 1)
            print(json.dumps(ORACLES_UCS[name](json.loads(payload), tw, U)))
        sys.stdout.flush()


# ================================================================================================ generators
class G:
    """seeded structured generators; all numbers are dyadic with short mantissas so that + - * are exact in floats"""

    def __init__(self, rng):
        self.r = rng

    def dy(self, e=0, bits=7, nonzero=False) -> Fr:
        while True:
            m = self.r.randint(-(1 << bits), 1 << bits)
            if m or not nonzero:
                break
        return Fr(m) * Fr(2) ** (e + self.r.choice([-2, -1, 0, 0, 1]))

    def mag(self) -> int:
        return self.r.choice(MAGS)

    def v3(self, e=None, special=True):
        e = self.mag() if e is None else e
        c = self.r.random()
        if special and c < 0.12:
            return self.r.choice([(0, 0, 0), (1, 0, 0), (0, 1, 0), (0, 0, 1), (0, 0, -1), (-1, 0, 0), (1, 1, 1), (1, -1, 0)])
        if special and c < 0.2:
            v = [self.dy(e), self.dy(e), self.dy(e)]
            v[self.r.randrange(3)] = Fr(0)
            return tuple(v)
        return (self.dy(e), self.dy(e), self.dy(e))

    def v2(self, e=None):
        e = self.mag() if e is None else e
        if self.r.random() < 0.1:
            return self.r.choice([(0, 0), (1, 0), (0, 1), (-1, 1)])
        return (self.dy(e), self.dy(e))

    def near(self, v, same_prob=0.5):
        """a vector equal to v in a prefix of components (ordering / equality tests)"""
        v = list(v)
        w = list(v)
        k = self.r.randrange(len(v) + 1)
        for i in range(k, len(v)):
            if self.r.random() < 0.8:
                w[i] = v[i] + self.r.choice([-1, 1, 2, -3]) * Fr(2) ** self.r.choice([-50, -3, 0, 5]) if self.r.random() < 0.7 else self.dy(0)
        return tuple(w)

    def affine(self, e=0, bits=5):
        m = [self.dy(0, bits) for _ in range(16)]
        m[3] = m[7] = m[11] = Fr(0)
        m[15] = Fr(1)
        for i in (12, 13, 14):
            m[i] = self.dy(e, bits)
        return m

    def general(self, bits=5):
        return [self.dy(0, bits) for _ in range(16)]

    def matrix(self):
        c = self.r.random()
        if c < 0.55:
            return self.affine(self.r.choice([-8, 0, 0, 8]))
        if c < 0.75:
            return self.general()
        if c < 0.85:
            return [Fr(x) for x in (1, 0, 0, 0, 0, 1, 0, 0, 0, 0, 1, 0, 0, 0, 0, 1)]
        return self.singular()

    def singular(self):
        m = self.general(4)
        c = self.r.randrange(5)
        if c == 0:
            m[4:8] = [2 * x for x in m[0:4]]  # proportional rows
        elif c == 1:
            m[8:12] = [Fr(0)] * 4  # zero row
        elif c == 2:
            for i in range(4):
                m[4 * i + 2] = m[4 * i + 0] + m[4 * i + 1]  # dependent column
        elif c == 3:
            m = self.affine(0, 4)
            m[8:11] = [m[0] - m[4], m[1] - m[5], m[2] - m[6]]  # affine but flat (projects to a plane)
        else:
            m = [Fr(0)] * 16
        return m

    def unimodular(self):
        """integer affine matrix with determinant +-1 (exact inverse): product of elementary shears and swaps"""
        import itertools
        a = [[Fr(int(i == j)) for j in range(3)] for i in range(3)]
        for _ in range(self.r.randint(1, 6)):
            i, j = self.r.sample(range(3), 2)
            k = self.r.randint(-3, 3)
            op = self.r.randrange(3)
            if op == 0:
                a[i] = [x + k * y for x, y in zip(a[i], a[j])]
            elif op == 1:
                a[i], a[j] = a[j], a[i]
            else:
                a[i] = [-x for x in a[i]]
        t = [Fr(self.r.randint(-9, 9)) for _ in range(3)]
        return a[0] + [Fr(0)] + a[1] + [Fr(0)] + a[2] + [Fr(0)] + t + [Fr(1)]

    def wellcond(self):
        """diagonally dominant-ish affine matrix: condition number small"""
        m = self.affine(self.r.choice([-4, 0, 4]), 4)
        s = self.r.choice([1, 2, 4, 8, 32])
        for i in (0, 5, 10):
            m[i] = Fr(self.r.choice([-1, 1])) * (Fr(40) + self.dy(0, 4)) * s
        if self.r.random() < 0.3:  # general 4th column too
            m[3], m[7], m[11], m[15] = self.dy(-3, 3), self.dy(-3, 3), self.dy(-3, 3), Fr(60) + self.dy(0, 3)
        return m

    PYTH = [(3, 4, 5), (5, 12, 13), (8, 15, 17), (7, 24, 25), (20, 21, 29), (9, 40, 41), (12, 35, 37), (11, 60, 61),
            (28, 45, 53), (33, 56, 65), (1, 0, 1), (0, 1, 1)]

    def cs(self):
        a, b, c = self.r.choice(self.PYTH)
        if self.r.random() < 0.5:
            a, b = b, a
        return Fr(self.r.choice([-1, 1]) * a, c), Fr(self.r.choice([-1, 1]) * b, c)

    def extrusion(self):
        """unit-ish normals on both sides of the 1/64 threshold, plus generic ones; avoids the decision bands"""
        r = self.r
        c = r.random()
        T = 1.0 / 64.0
        while True:
            if c < 0.35:  # around the threshold in x and/or y
                x = r.choice([-1, 1]) * T * r.choice([0.5, 0.9, 0.99, 0.9999, 1.0001, 1.01, 1.1, 2.0])
                y = r.choice([-1, 1]) * T * r.choice([0.0, 0.3, 0.9, 0.9999, 1.0001, 1.5])
                if r.random() < 0.5:
                    x, y = y, x
                z = r.choice([-1, 1]) * math.sqrt(max(0.0, 1 - x * x - y * y))
                s = r.choice([1.0, 1.0, 0.5, 3.0, 1e-3, 250.0])
                v = (x * s, y * s, z * s)
            elif c < 0.5:  # near +-Z (transform flag / isclose band avoided below)
                d = r.choice([0.0, 1e-15, 1e-13, 3e-12, 1e-10, 1e-7, 1e-4])
                v = (d * r.choice([-1, 1, 0]), d * r.choice([-1, 1, 0]), r.choice([1.0, -1.0, 2.5, -0.125]))
            elif c < 0.6:
                v = r.choice([(0, 0, 1), (0, 0, -1), (1, 0, 0), (0, 1, 0), (-1, 0, 0), (0, -1, 0), (1, 1, 1), (0, 0, 0),
                              (0, 1, 1), (1, 0, -1), (3, 4, 12)])
                v = tuple(float(t) for t in v)
            else:
                v = tuple(float(self.dy(r.choice([-8, 0, 0, 8]), 8)) for _ in range(3))
            if ocs_band(v):
                c = r.random()
                self.band = getattr(self, "band", 0) + 1
                continue
            return v


def ocs_band(v) -> bool:
    """True if the extrusion is within the decision band of a branch of OCS.__init__ (regenerated, counted)"""
    n = math.sqrt(sum(t * t for t in v))
    if n == 0:
        return False
    x, y, z = (t / n for t in v)
    T = 1.0 / 64.0
    if abs(abs(x) - T) < 1e-9 or abs(abs(y) - T) < 1e-9:
        return True
    # isclose(Az, Z): |x|,|y| <= 1e-12 and |z-1| <= 1e-9
    for t in (abs(x), abs(y)):
        if 0.25e-12 < t < 4e-12:
            return True
    if 0.25e-9 < abs(z - 1) < 4e-9:
        return True
    return False


# ================================================================================================ correspondence
P2 = lambda k: f"1/{1 << k}"


def _nz(vals) -> bool:
    """non-trivial: at least two non-zero components that are not all +-1"""
    nzv = [v for v in vals if v != 0]
    return len(nzv) >= 2 and any(abs(v) != 1 for v in nzv)


def exact_cases(ctx, twin: str):
    """yield (kernel, lean_args, impl_args, nontrivial) for kernels whose float evaluation is exact on dyadic inputs"""
    g = G(ctx.rng(f"exact/{twin}"))
    r = g.r
    n = ctx.n(120, 2500)
    for _ in range(n):
        e = g.mag()
        a, b = g.v3(e), g.v3(e)
        nt = _nz(a) and _nz(b)
        for k in ("v3add", "v3sub", "v3rsub", "v3dot", "v3cross"):
            yield k, [frs(a), frs(b)], None, nt
        yield "v3mul", [frs(a), fr(g.dy(r.choice([-3, 0, 3])))], None, _nz(a)
        yield "v3neg", [frs(a)], None, _nz(a)
        yield "v3lerp", [frs(a), frs(b), fr(r.choice([Fr(0), Fr(1), Fr(1, 2), g.dy(-3, 3), Fr(3, 2), Fr(-1, 4)]))], None, nt
        yield "v3magsq", [frs(a)], None, _nz(a)
        yield "v3ortho", [frs(a), r.choice("TF")], None, _nz(a)
        yield "v3isnull", [frs(r.choice([a, (0, 0, 0), (Fr(1, 10**12), 0, 0), (Fr(1, 10**13), Fr(-1, 10**13), 0),
                                         (0, 0, Fr(1001, 10**15)), (0, Fr(999, 10**15), 0)]))], None, True
        p, q = g.v2(e), g.v2(e)
        for k in ("v2add", "v2sub", "v2dot", "v2det"):
            yield k, [frs(p), frs(q)], None, _nz(p) and _nz(q)
        yield "v2mul", [frs(p), fr(g.dy(0))], None, _nz(p)
        yield "v2neg", [frs(p)], None, _nz(p)
        yield "v2lerp", [frs(p), frs(q), fr(r.choice([Fr(0), Fr(1), Fr(1, 2), g.dy(-3, 3)]))], None, _nz(p)
        yield "v2ortho", [frs(p), r.choice("TF")], None, _nz(p)
        # comparisons: mostly near-equal pairs so that every branch of the lexicographic order is reached
        c = g.near(a)
        for k in ("v3eq", "v3lt"):
            yield k, [frs(a), frs(c)], None, True
            yield k, [frs(c), frs(a)], None, True
        d = g.near(p)
        for k in ("v2eq", "v2lt"):
            yield k, [frs(p), frs(d)], None, True
            yield k, [frs(d), frs(p)], None, True
        # isclose: pairs at relative distance around 1e-9 and absolute distance around 1e-12
        base = g.v3(r.choice([-40, 0, 0, 20]), special=False)
        rel = r.choice([Fr(1, 10**8), Fr(1, 10**9), Fr(99, 10**11), Fr(101, 10**11), Fr(1, 10**10), Fr(0)])
        ab = r.choice([Fr(0), Fr(1, 10**12), Fr(9, 10**13), Fr(11, 10**13), Fr(1, 10**6)])
        i = r.randrange(3)
        w = list(base)
        w[i] = Fr(float(w[i] * (1 + rel) + r.choice([-1, 1]) * ab))
        yield "v3isclose", [frs(base), frs(w)], None, True
        yield "v2isclose", [frs(base[:2]), frs(w[:2])], None, True
        for kn, vals in (("v3ctor0", []), ("v3ctor2", a[:2]), ("v3ctor3", a), ("v3ctorT2", a[:2]), ("v3ctorT3", a), ("v3ctorL3", a),
                         ("v2ctor0", []), ("v2ctor2", a[:2]), ("v2ctorT2", a[:2]), ("v2ctorT3", a)):
            yield kn, [frs(vals)], None, _nz(vals) if vals else False
        yield "v3hashArg", [frs(a)], None, _nz(a)
        yield "v2hashArg", [frs(p)], None, _nz(p)
        yield "v3ctorV2", [frs(p)], None, _nz(p)
        yield "v3ctorV3", [frs(a)], None, _nz(a)
        yield "v2ctorV3", [frs(a)], None, _nz(a)
        yield "v2ctorV2", [frs(p)], None, _nz(p)
        # session 3 kernels: reflected operators, division (exact for powers of two), accessors, explicit tolerances
        k2 = Fr(2) ** r.choice([-3, -1, 0, 1, 4]) * r.choice([-1, 1])
        yield "v3truediv", [frs(a), fr(r.choice([k2, k2, Fr(0)]))], None, _nz(a)
        yield "v2truediv", [frs(p), fr(r.choice([k2, k2, Fr(0)]))], None, _nz(p)
        yield "v3rmul", [frs(a), fr(g.dy(r.choice([-3, 0, 3])))], None, _nz(a)
        yield "v3radd", [frs(a), frs(b)], None, nt
        yield "v3reversed", [frs(a)], None, _nz(a)
        yield "v3vec2", [frs(a)], None, _nz(a)
        yield "v3xy", [frs(a)], None, _nz(a)
        nearnull3 = r.choice([a, (0, 0, 0), (Fr(1, 10**12), 0, 0), (Fr(1, 10**13), Fr(-1, 10**13), 0), (0, 0, Fr(1001, 10**15)),
                              (0, Fr(999, 10**15), 0)])
        nearnull2 = r.choice([p, (0, 0), (Fr(1, 10**12), 0), (Fr(1, 10**13), Fr(-1, 10**13)), (0, Fr(1001, 10**15)), (Fr(999, 10**15), 0)])
        yield "v3bool", [frs(nearnull3)], None, True
        yield "v2bool", [frs(nearnull2)], None, True
        yield "v2rmul", [frs(p), fr(g.dy(0))], None, _nz(p)
        yield "v2isnull", [frs(r.choice([p, (0, 0), (Fr(1, 10**12), 0), (Fr(1, 10**13), Fr(-1, 10**13)), (0, Fr(1001, 10**15)),
                                         (Fr(999, 10**15), 0)]))], None, True
        rt = r.choice([Fr(1, 2**10), Fr(1, 2**20), Fr(1, 10**9), Fr(0)])
        at = r.choice([Fr(0), Fr(1, 2**30), Fr(1, 10**12)])
        w2 = list(base)
        w2[i] = Fr(float(w2[i] * (1 + rt * r.choice([Fr(1, 2), Fr(9, 10), Fr(11, 10), Fr(2)])) + r.choice([-1, 1]) * at * r.choice([Fr(1, 2), Fr(3, 2)])))
        yield "v3isclose2", [frs(base), frs(w2), fr(rt), fr(at)], None, True
        vs = [g.v3(e) for _ in range(r.randint(0, 6))]
        yield "v3sum", [";".join(frs(v) for v in vs)], None, len(vs) > 1
        ps = [g.v2(e) for _ in range(r.randint(0, 6))]
        yield "v2sum", [";".join(frs(v) for v in ps)], None, len(ps) > 1
    n = ctx.n(120, 2500)
    for _ in range(n):
        e = r.choice([-8, 0, 0, 8])
        m = g.matrix()
        v = g.v3(e)
        nt = _nz(v) and m[1] != 0
        ms = frs(m)
        for k in ("transform", "transformDirection", "ucsVertexFromWcs", "ucsDirectionFromWcs"):
            yield k, [ms, frs(v)], None, nt
        vs = [g.v3(e) for _ in range(r.randint(0, 5))]
        yield "transformVertices", [ms, ";".join(frs(t) for t in vs)], None, len(vs) > 0
        yield "transformDirections", [ms, ";".join(frs(t) for t in vs)], None, len(vs) > 0
        ps = [g.v2(e) for _ in range(r.randint(0, 5))]
        yield "fast2d", [ms, ";".join(frs(t) for t in ps)], None, len(ps) > 0
        yield "axes", [ms], None, True
        for kn in ("get2d", "getRow", "getCol"):
            yield kn, [ms], None, True
        yield "copy", [ms], None, True
        yield "transpose", [ms], None, True
        o = g.matrix()
        for k in ("mul", "imul", "matmul"):
            yield k, [ms, frs(o)], None, True
        if twin == "pyx":
            yield "determinant", [ms], None, True  # explicit 24-term polynomial: exact on short dyadics
            # explicit adjugate formulas: bit-exact for integer matrices with determinant +-1, exact error class for singular ones
            yield "inverse", [frs(g.unimodular() if r.random() < 0.8 else g.singular())], None, True
        yield "imulSelf", [ms], None, True
        chain = [g.affine(0, 3) if r.random() < 0.8 else g.general(3) for _ in range(r.randint(0, 4))]
        yield "chain", [";".join(frs(c) for c in chain)], None, len(chain) > 1
        ncol = r.choice([2, 3, 4, 5])
        rows = [[g.dy(e, 6) for _ in range(ncol)] for _ in range(r.randint(0, 5))]
        if rows:
            yield "array2d", [ms, ";".join(frs(t) for t in rows)], None, True
            if ncol >= 3:
                yield "array3d", [ms, ";".join(frs(t) for t in rows)], None, True
        s3 = g.v3(0, special=False)
        yield "scale", [frs(s3)], None, True
        yield "scaleUniform", [fr(s3[0])], None, True
        yield "translate", [frs(g.v3(e))], None, True
        yield "ucs", [frs(g.v3(0)), frs(g.v3(0)), frs(g.v3(0)), frs(g.v3(e))], None, True
        yield "from2d", [frs([g.dy(0) for _ in range(6)])], None, True
        # perspective_projection: bit-exact when the three differences are powers of two (or zero: ZeroDivisionError)
        l_, b_, n_ = g.dy(0, 5), g.dy(0, 5), g.dy(0, 5)
        dd = lambda: Fr(0) if r.random() < 0.08 else Fr(2) ** r.choice([-2, 0, 1, 3]) * r.choice([-1, 1])
        yield "perspective", [frs([l_, l_ + dd(), b_ + dd(), b_, n_, n_ + dd()])], None, True
        mv = r.choice([g.v3(e), (0, 0, 0), (Fr(1, 10**13), 0, Fr(-1, 10**13)), (0, Fr(1, 10**11), 0)])
        yield "basicT0", [frs(mv), frs(s3)], None, True
        ang = r.choice([0.0, 0.5, 1.0, -2.0, 3.0, math.pi / 2, math.pi, -math.pi / 3, 1e-9, 100.0, r.uniform(-7, 7)])
        c, s = Fr(math.cos(ang)), Fr(math.sin(ang))
        for k in ("xRotate", "yRotate", "zRotate"):
            yield k, [fr(c), fr(s)], [fr(c), fr(s), fr(ang)], True
        ax, ay = r.choice([0.0, 0.25, -1.0, r.uniform(-1.5, 1.5)]), r.choice([0.0, 0.5, r.uniform(-1.5, 1.5)])
        yield "shearXY", [fr(math.tan(ax)), fr(math.tan(ay))], [fr(math.tan(ax)), fr(math.tan(ay)), frs([ax, ay])], True
        # OCS / UCS conversions with explicit (dyadic) matrices
        t = r.choice("TTF")
        for k in ("ocsFromWcs", "ocsToWcs"):
            yield k, [t, ms, frs(v)], None, nt
        yield "ocsAxes", [t, ms], None, True
        for k in ("ucsToWcs", "ucsFromWcs", "ucsDirectionToWcs", "ucsDirectionFromWcsU"):
            yield k, [ms, frs(v)], None, nt
        yield "ucsPointsToWcs", [ms, ";".join(frs(t_) for t_ in vs)], None, len(vs) > 0
        for k in ("ocsPointsToWcs", "ocsPointsFromWcs"):
            yield k, [t, ms, ";".join(frs(t_) for t_ in vs)], None, len(vs) > 0
        # session 3: mutators and regenerated method sequences of the UCS object (one real object per case)
        q, d = g.v3(e), g.v3(e)
        yield "ucsTransformU", [ms, frs(o)], None, True
        yield "ucsShift", [ms, frs(d)], None, _nz(d)
        yield "ucsMoveto", [ms, frs(d)], None, _nz(d)
        yield "ucsAxes", [ms], None, True
        yield "ucsWcsFrame", [ms, frs(v)], None, True
        yield "ucsPointsFromWcs", [ms, ";".join(frs(t_) for t_ in vs)], None, len(vs) > 0
        yield "ucsSeqShiftToWcs", [ms, frs(q), frs(d), frs(v)], None, nt
        yield "ucsSeqTransformToWcs", [ms, frs(q), frs(o), frs(v)], None, nt
        yield "ucsSeqTransformFromWcs", [ms, frs(q), frs(o), frs(v)], None, nt
        yield "ocsSeqRoundtrip", [t, ms, frs(v)], None, nt


def _tolrel(k: int, floor) -> str:
    return f"rel:{P2(k)}:{fr(floor)}"


def tolerant_cases(ctx, twin: str):
    """yield (kernel, lean_args, impl_args, tol, nontrivial)"""
    g = G(ctx.rng(f"tol/{twin}"))
    r = g.r
    for _ in range(ctx.n(150, 3000)):
        e = g.mag()
        a, b = g.v3(e), g.v3(e)
        amax = max([abs(x) for x in a + b] + [Fr(1, 2**60)])
        yield "v3normalize", [frs(a)], None, _tolrel(44, Fr(1, 4)), _nz(a)
        yield "v3project", [frs(a), frs(b)], None, _tolrel(42, amax), _nz(a) and _nz(b)
        yield "v3distance", [frs(a), frs(b)], None, _tolrel(44, amax), _nz(a)
        m = g.matrix()
        v = g.v3(0)
        yield "transformDirectionN", [frs(m), frs(v)], None, _tolrel(42, Fr(1, 4)), _nz(v)
        # growth round 2
        amax_ = max([abs(x) for x in a + b] + [Fr(1, 2**60)])
        if any(a) and any(b):  # cosine of angle_between: acos is ill conditioned at +-1, the cosine is compared (abs 2^-40)
            yield "v3cosBetween", [frs(a), frs(r.choice([b, b, a, tuple(-x for x in a), tuple(3 * x for x in a)]))], None, "abs:" + P2(40), _nz(a)
        pa, pb = g.v2(e), g.v2(e)
        if any(pa) and any(pb):
            yield "v2cosBetween", [frs(pa), frs(r.choice([pb, pb, pa, tuple(-x for x in pa)]))], None, "abs:" + P2(40), _nz(pa)
        ang = r.choice([0.0, math.pi / 2, -1.0, 2.5, r.uniform(-7, 7)])
        csr = [fr(Fr(math.cos(ang))), fr(Fr(math.sin(ang)))]
        va = r.choice([a, a, (0, 0, a[2]), (a[0], 0, a[2])])
        yield "v3rotate", [frs(va)] + csr, [frs(va)] + csr + [fr(ang)], _tolrel(44, amax_), _nz(va)
        yield "v2rotate", [frs(pa)] + csr, [frs(pa)] + csr + [fr(ang)], _tolrel(44, max([abs(x) for x in pa] + [Fr(1, 2**60)])), _nz(pa)
        if twin == "py":
            yield "v3rotateDeg", [frs(va)] + csr, [frs(va)] + csr + [fr(ang)], _tolrel(40, amax_), _nz(va)
            yield "v2rotateDeg", [frs(pa)] + csr, [frs(pa)] + csr + [fr(ang)], _tolrel(40, max([abs(x) for x in pa] + [Fr(1, 2**60)])), _nz(pa)
        fr6 = [g.dy(0, 6) for _ in range(6)]
        if r.random() < 0.2:
            fr6[r.choice([1, 3, 5])] = fr6[r.choice([0, 2, 4])] if r.random() < 0.5 else fr6[0]
            if r.random() < 0.5:
                fr6[1] = fr6[0]
        yield "perspective", [frs(fr6)], None, _tolrel(48, Fr(1, 2**20)), True
        fov = r.choice([math.pi / 2, 1.0, 0.3, r.uniform(0.1, 3.0)])
        asp, nr = abs(g.dy(0, 5, nonzero=True)), abs(g.dy(0, 5, nonzero=True))
        la = [fr(asp), fr(nr), fr(nr + abs(g.dy(2, 5, nonzero=True))), fr(Fr(math.tan(fov / 2)))]
        yield "perspectiveFov", la, la + [fr(fov)], _tolrel(44, Fr(1, 2**20)), True
        # session 3
        ang = r.choice([0.0, math.pi / 2, -1.0, r.uniform(-7, 7)])
        kl = g.dy(r.choice([-3, 0, 3]), 6)
        la = [fr(Fr(math.cos(ang))), fr(Fr(math.sin(ang))), fr(kl)]
        yield "v3fromAngle", la, la + [fr(ang)], _tolrel(50, Fr(0)), kl != 0
        yield "v2fromAngle", la, la + [fr(ang)], _tolrel(50, Fr(0)), kl != 0
        yield "v3mag", [frs(a)], None, _tolrel(50, Fr(0)), _nz(a)
        yield "v3magxy", [frs(a)], None, _tolrel(50, Fr(0)), _nz(a)
        ln = r.choice([Fr(1), Fr(3), g.dy(0, 5), Fr(-2), Fr(0)])
        yield "v3normalizeL", [frs(a), fr(ln)], None, _tolrel(44, max(abs(ln), Fr(1, 2**60)) / 4), _nz(a)
        kk = g.dy(r.choice([-3, 0, 3]), 6)
        yield "v3truediv", [frs(a), fr(kk)], None, _tolrel(50, amax / max(abs(kk), Fr(1, 2**60))), _nz(a) and kk != 0
        p2, q2 = g.v2(e), g.v2(e)
        yield "v2normalize", [frs(p2)], None, _tolrel(44, Fr(1, 4)), _nz(p2)
        yield "v2project", [frs(p2), frs(q2)], None, _tolrel(42, max([abs(x) for x in p2 + q2] + [Fr(1, 2**60)])), _nz(p2) and _nz(q2)
        yield "v2distance", [frs(p2), frs(q2)], None, _tolrel(44, max([abs(x) for x in p2 + q2] + [Fr(1, 2**60)])), _nz(p2)
        # is_parallel: exactly parallel / anti-parallel, clearly not parallel, null operands; the band of relative
        # deviations 1e-12 .. 1e-6 (where float normalisation decides) is not generated
        c = r.random()
        if c < 0.35:
            kpar = g.dy(r.choice([-3, 0, 3]), 6, nonzero=True)
            bb = tuple(x * kpar for x in a)
        elif c < 0.45:
            bb = r.choice([(0, 0, 0), a])
        else:
            bb = b
            j = r.randrange(3)
            if any(a) and any(bb) and _angle_small(a, bb):
                bb = tuple(x + (amax if i_ == j else 0) for i_, x in enumerate(bb))
        if not (any(a) and any(bb) and not _parallel_exact(a, bb) and _angle_small(a, bb)):
            yield "v3isparallel", [frs(a), frs(bb)], None, "abs:0", _nz(a)
        # construct3d helpers
        cc = g.v3(e)
        sc3 = max([abs(x) for x in a + b + cc] + [Fr(1, 2**60)])
        nrm = _cross(tuple(y - x for x, y in zip(a, b)), tuple(y - x for x, y in zip(a, cc)))
        if not any(nrm) or max(abs(x) for x in nrm) > sc3 * sc3 / 2**20:  # not nearly collinear (ill-conditioned direction)
            yield "normal3p", [frs(a), frs(b), frs(cc)], None, _tolrel(40, Fr(1, 4)), any(nrm)
        ang = r.choice([0.0, 0.0, math.pi / 2, -1.0, r.uniform(-7, 7)])
        csn = [fr(Fr(math.cos(ang))), fr(Fr(math.sin(ang)))]
        mv = r.choice([a, a, (0, 0, 0), (Fr(1, 10**13), 0, 0)])
        sc_ = g.v3(0, special=False)
        la = [frs(mv), frs(sc_), _b(ang != 0.0)] + csn
        yield "basicT", la, la + [fr(ang)], _tolrel(44, max([abs(x) for x in list(mv) + list(sc_)] + [Fr(1, 4)])), True
        if a == b or max(abs(x - y) for x, y in zip(a, b)) > sc3 / 2**20:
            yield "distPointLine", [frs(cc), frs(a), frs(b)], None, f"abs:{fr(sc3 / 2**18)}", a != b
    for _ in range(ctx.n(150, 3000)):
        # rotations: exact Pythagorean (c, s) on the model side, their float images on the implementation side
        if r.random() < 0.5:
            c, s = g.cs()
            ang = math.atan2(float(s), float(c))
        else:
            ang = r.uniform(-7, 7)
        c, s = Fr(math.cos(ang)), Fr(math.sin(ang))
        axis = g.v3(r.choice([-8, 0, 0, 8]))
        yield "axisRotate", [frs(axis), fr(c), fr(s)], [frs(axis), fr(c), fr(s), fr(ang)], _tolrel(44, Fr(1, 4)), _nz(axis)
        angs = [r.uniform(-4, 4) if r.random() < 0.8 else r.choice([0.0, math.pi / 2, -math.pi]) for _ in range(3)]
        cs6 = []
        for t in angs:
            cs6 += [Fr(math.cos(t)), Fr(math.sin(t))]
        yield "xyzRotate", [frs(cs6)], [frs(cs6), frs(angs)], _tolrel(46, Fr(1, 4)), True
    for _ in range(ctx.n(400, 6000)):
        n = g.extrusion()
        yield "ocsInit", [frs(n)], None, _tolrel(40, Fr(1, 4)), abs(n[0]) + abs(n[1]) > 0
    ctx.hist("X2 tolerant kernels", "ocs-extrusions-regenerated-in-decision-band", getattr(g, "band", 0))
    for _ in range(ctx.n(150, 3000)):
        o = g.v3(r.choice([-8, 0, 8]))
        if r.random() < 0.5:  # orthogonal integer frame scaled arbitrarily
            u = r.choice([((1, 2, 2), (2, 1, -2), (2, -2, 1)), ((3, 4, 0), (-4, 3, 0), (0, 0, 5)), ((1, 0, 0), (0, 1, 0), (0, 0, 1)),
                          ((2, 3, 6), (3, -6, 2), (6, 2, -3))])
            k = [g.dy(r.choice([-8, 0, 8]), 4, nonzero=True) for _ in range(3)]
            x, y, z = (tuple(Fr(c) * k[i] for c in u[i]) for i in range(3))
        else:
            x, y, z = g.v3(0, special=False), g.v3(0, special=False), g.v3(0, special=False)
        fl = max([abs(t) for t in o] + [Fr(1, 4)])
        yield "ucsInitXYZ", [frs(o), frs(x), frs(y), frs(z)], None, _tolrel(42, fl), True
        yield "ucsInitXY", [frs(o), frs(x), frs(y)], None, _tolrel(40, fl), True
        yield "ucsInitXZ", [frs(o), frs(x), frs(z)], None, _tolrel(40, fl), True
        yield "ucsInitYZ", [frs(o), frs(y), frs(z)], None, _tolrel(40, fl), True
    # session 3: the sqrt-taking UCS queries and the regenerated sequences query -> mutator -> query on one object
    for _ in range(ctx.n(200, 4000)):
        m = g.affine(r.choice([-8, 0, 0, 8])) if r.random() < 0.8 else g.general()
        c = r.random()
        if c < 0.3:  # z-axis row on both sides of the arbitrary-axis threshold
            m[8:11] = [Fr(r.choice([-3, -1, 0, 1, 2])), Fr(r.choice([-2, 0, 1, 3])), Fr(r.choice([-200, -90, 64, 70, 128, 190]))]
        elif c < 0.4:
            m[8:11] = [Fr(0), Fr(0), Fr(r.choice([1, -1, 4]))]
        o = g.affine(0, 3) if r.random() < 0.6 else g.unimodular()
        uz2 = [sum(m[8 + k] * o[4 * k + j] for k in range(4)) for j in range(3)]
        if ocs_band(_fl(m[8:11])) or ocs_band(_fl(uz2)):
            continue
        q, p, d = g.v3(0), g.v3(0), g.v3(r.choice([-8, 0, 8]))
        ms, os_ = frs(m), frs(o)
        mo = [sum(m[4 * i + k] * o[4 * k + j] for k in range(4)) for i in range(4) for j in range(4)]

        def fl(mm, pp, extra=()):
            return max([abs(x) for x in mm[:12]] + [Fr(1, 4)]) * max([abs(x) for x in pp] + [Fr(1)]) * 4 + \
                max([abs(x) for x in list(mm[12:15]) + list(extra)])
        nt = _nz(p) and any(m[8:10])
        yield "ucsToOcs", [ms, frs(p)], None, _tolrel(38, fl(m, p)), nt
        yield "ucsDirToOcs", [ms, frs(p)], None, _tolrel(38, fl(m, p)), nt
        ps = [g.v3(0) for _ in range(r.randint(0, 3))]
        yield "ucsPointsToOcs", [ms, ";".join(frs(t_) for t_ in ps)], None, _tolrel(38, fl(m, [x for t_ in ps for x in t_])), len(ps) > 0
        yield "ucsCopy", [ms], None, _tolrel(44, max([abs(x) for x in m[12:15]] + [Fr(1, 4)])), True
        ang = r.choice([0.0, 0.5, -2.0, math.pi / 2, r.uniform(-3.1, 3.1)])
        la = [ms, fr(Fr(math.cos(ang))), fr(Fr(math.sin(ang)))]
        yield "ucsToOcsAngleVec", la, la + [fr(ang)], _tolrel(38, fl(m, (1, 1, 0))), nt
        yield "ucsFrames", [ms, frs(p)], None, "abs:0", True
        yield "ucsSeqShiftToOcs", [ms, frs(q), frs(d), frs(p)], None, _tolrel(38, fl(m, p, d)), nt
        yield "ucsSeqMovetoToOcs", [ms, frs(q), frs(d), frs(p)], None, _tolrel(38, fl(m, p, d)), nt
        yield "ucsSeqTransformToOcs", [ms, frs(q), os_, frs(p)], None, _tolrel(38, fl(mo, p)), nt
        yield "ucsSeqTransformDirToOcs", [ms, frs(q), os_, frs(p)], None, _tolrel(38, fl(mo, p)), nt
    # session 3: frame predicates, the six axis/point constructors and the rotations that return new UCS objects
    FR = [((1, 2, 2), (2, 1, -2), (2, -2, 1)), ((2, 3, 6), (3, -6, 2), (6, 2, -3)), ((3, 4, 0), (-4, 3, 0), (0, 0, 5)),
          ((1, 0, 0), (0, 1, 0), (0, 0, 1)), ((0, 1, 0), (0, 0, 1), (1, 0, 0)), ((1, 4, 8), (4, 7, -4), (8, -4, 1))]
    for _ in range(ctx.n(150, 3000)):
        rows = [list(map(Fr, t_)) for t_ in r.choice(FR)]
        det3 = sum(rows[0][i] * _cross(rows[1], rows[2])[i] for i in range(3))
        c = r.random()
        kind = "orthogonal"
        if c < 0.25:  # flip one axis: left handed
            j = r.randrange(3)
            rows[j] = [-x for x in rows[j]]
        elif c < 0.5:  # clearly skewed
            j, i_ = r.sample(range(3), 2)
            rows[j] = [x + y * r.choice([Fr(1, 8), Fr(1), Fr(-1, 2)]) for x, y in zip(rows[j], rows[i_])]
            kind = "skew"
        elif c < 0.55:
            rows[r.randrange(3)] = [Fr(0)] * 3
            kind = "null-axis"
        ks = [g.dy(r.choice([-8, 0, 8]), 4, nonzero=True) for _ in range(3)]
        if r.random() < 0.5:
            ks = [abs(x) for x in ks]
        rows = [[x * ks[i] for x in rows[i]] for i in range(3)]
        m = rows[0] + [Fr(0)] + rows[1] + [Fr(0)] + rows[2] + [Fr(0)] + list(g.v3(0)) + [Fr(1)]
        ctx.hist("X2 tolerant kernels", "frame:" + kind)
        yield "isCartesian", [frs(m)], None, "abs:0", True
        yield "isOrthogonal", [frs(m)], None, "abs:0", True
        yield "ucsIsCartesian", [frs(m)], None, "abs:0", True
        # rotations of a UCS with these axes (any frame: the constructors normalise)
        ang = r.choice([0.0, math.pi / 2, r.uniform(-7, 7), r.uniform(-3, 3)])
        cs = [fr(Fr(math.cos(ang))), fr(Fr(math.sin(ang)))]
        fl_ = max([abs(x) for x in m[12:15]] + [Fr(1, 4)])
        if kind != "null-axis" or r.random() < 0.3:
            for kname in ("ucsRotateLocalX", "ucsRotateLocalY", "ucsRotateLocalZ"):
                yield kname, [frs(m)] + cs, [frs(m)] + cs + [fr(ang)], _tolrel(40, fl_), kind != "null-axis"
            axis = g.v3(r.choice([-8, 0, 8]))
            yield "ucsRotate", [frs(m), frs(axis)] + cs, [frs(m), frs(axis)] + cs + [fr(ang)], _tolrel(40, fl_), _nz(axis)
        # axis / point constructors: generic, degenerate (point on the axis -> ZeroDivisionError), axis-aligned
        o, ax_ = g.v3(r.choice([-8, 0, 8])), g.v3(0)
        c = r.random()
        if c < 0.1:
            pt = tuple(x + y * 3 for x, y in zip(o, ax_))  # on the axis line: the plane is undefined
        else:
            pt = tuple(x + y for x, y in zip(o, g.v3(0)))
        w = tuple(y - x for x, y in zip(o, pt))
        cr = _cross(ax_, w)
        if any(cr) and max(abs(x) for x in cr) * 2**16 < max([abs(x) for x in ax_]) * max([abs(x) for x in w]):
            continue  # nearly degenerate plane: direction ill-conditioned
        for kname in FROM_AXIS:
            yield kname, [frs(o), frs(ax_), frs(pt)], None, _tolrel(36, max([abs(x) for x in o] + [Fr(1, 4)])), any(cr)
    for _ in range(ctx.n(400, 6000)):
        c = r.random()
        m = g.unimodular() if c < 0.3 else g.wellcond() if c < 0.7 else g.singular() if c < 0.85 else g.affine(0, 4)
        if r.random() < 0.3:  # overall magnitude
            sc = Fr(2) ** r.choice([-20, -6, 6, 20])
            m = [x * sc for x in m]
        if r.random() < 0.15:  # homogeneous scaling: last column (0, 0, 0, w) with w != 1 (an "affine-looking" matrix that is not)
            m = list(m)
            m[3] = m[7] = m[11] = Fr(0)
            m[15] = Fr(r.choice([2, -1, -4])) if r.random() < 0.6 else Fr(1, r.choice([2, 8, -2]))
        det_exact = _det(m)
        singular = det_exact == 0
        if twin == "py":  # np.linalg.det: LU with rounding
            yield "determinant", [frs(m)], None, _tolrel(38, _hadamard(m)), True
        if twin == "py" and singular and not _lu_detects(m):
            ctx.hist("X2 tolerant kernels", "py-inverse-singular-not-detected-by-LU(skipped)")
            continue
        yield "inverse", [frs(m)], None, f"kappa:{P2(49)}", not singular


def _cross(a, b):
    return (a[1] * b[2] - a[2] * b[1], a[2] * b[0] - a[0] * b[2], a[0] * b[1] - a[1] * b[0])


def _parallel_exact(a, b) -> bool:
    return not any(_cross(a, b))


def _angle_small(a, b) -> bool:
    """sin^2 of the angle between a and b below 1e-10 (relative deviation below 1e-5): inside or near the decision band"""
    c = _cross(a, b)
    return sum(x * x for x in c) * 10**10 < sum(x * x for x in a) * sum(x * x for x in b)


def _det(m):
    def d3(a, b, c, d, e, f, g, h, i):
        return a * (e * i - f * h) - b * (d * i - f * g) + c * (d * h - e * g)
    return (m[0] * d3(m[5], m[6], m[7], m[9], m[10], m[11], m[13], m[14], m[15])
            - m[1] * d3(m[4], m[6], m[7], m[8], m[10], m[11], m[12], m[14], m[15])
            + m[2] * d3(m[4], m[5], m[7], m[8], m[9], m[11], m[12], m[13], m[15])
            - m[3] * d3(m[4], m[5], m[6], m[8], m[9], m[10], m[12], m[13], m[14]))


def _hadamard(m):
    h = Fr(1)
    for i in range(4):
        h *= max(sum(abs(x) for x in m[4 * i:4 * i + 4]), Fr(1, 2**80))
    return h


def _lu_detects(m) -> bool:
    """does NumPy's LU report exact singularity for this (exactly singular, dyadic) matrix?  Only such inputs are
    used for the ZeroDivisionError class of the NumPy-based inverse (DESIGN C11 'Not proved')"""
    import numpy as np
    try:
        np.linalg.inv(np.array([float(x) for x in m]).reshape(4, 4))
        return False
    except np.linalg.LinAlgError:
        return True


def _impl_lines(twins, cases_by_twin, ucsmod):
    """evaluate the implementation: in-process, except ucs.py kernels of the pure-Python twin (subprocess)"""
    out = {}
    for twin in twins:
        tw = Twin(twin)
        res = [None] * len(cases_by_twin[twin])
        remote = []
        for i, (kernel, largs, iargs) in enumerate(cases_by_twin[twin]):
            args = iargs if iargs is not None else largs
            if twin == "py" and kernel in UCS_KERNELS and have_cext():
                remote.append((i, "k|" + kernel + "|" + "|".join(args)))
            else:
                res[i] = impl_value(tw, kernel, args, ucsmod)
        for (i, _), val in zip(remote, pure_python_worker([l for _, l in remote])):
            res[i] = val
        out[twin] = res
    return out


# ------------------------------------------------------------------------------------------------ X3: UCS histories
HIST_EXACT = {"ucsToWcs", "ucsFromWcs", "ucsDirectionToWcs", "ucsDirectionFromWcsU", "ucsPointsToWcs", "ucsPointsFromWcs",
              "ucsAxes", "copy"}
HIST_SQRT = {"ucsToOcs", "ucsDirToOcs", "ucsPointsToOcs", "ucsCopy"}


def _fxmg(vals):
    """(fractional bits, integer bits) needed to write all finite floats in vals in fixed point"""
    fx = mg = 0
    for v in vals:
        f = Fr(float(v))
        fx = max(fx, f.denominator.bit_length() - 1)
        mg = max(mg, abs(f.numerator // f.denominator).bit_length())
    return fx, mg


def run_history(tw: Twin, U, plan: dict) -> str:
    """execute a planned history on ONE real UCS object; returns the body of the Lean request (`m0|step|step...`).
    plan = {"m0": "<16 rationals>", "steps": [["tr", m] | ["sh", d] | ["mv", o] | ["q", kernel, [args...]]]}
    A query is recorded with the value the implementation returned and the tolerance that value has to meet:
    exact (abs:0) while every float operation so far was exact (fixed-point width of state and arguments small enough
    that + - * cannot round), relative 2^-40 otherwise, 2^-38 for the kernels that take square roots.  Queries through
    `OCS(uz)` are dropped when the current z-axis is null or inside a decision band of OCS.__init__ (counted)."""
    V3, M = tw.V3, tw.M
    v3 = lambda t: V3(*parse_list(t))
    u = U.UCS()
    u.matrix = M(parse_list(plan["m0"]))
    out = [plan["m0"]]
    exact = True
    dropped = 0
    for st in plan["steps"]:
        state = list(u.matrix)
        sfx, smg = _fxmg(state)
        if st[0] == "fk":  # aliasing: mutate a COPY in every way; the original object must not notice
            if any(not any(rw) for rw in (state[0:3], state[4:7], state[8:11])):
                continue  # copy() of a UCS with a null axis raises: not part of the histories
            try:
                v = u.copy()
            except (ZeroDivisionError, OverflowError):
                continue
            v.transform(M([1.0, 2.0, 0.0, 0.0, -2.0, 1.0, 0.0, 0.0, 0.0, 0.0, 3.0, 0.0, 5.0, 6.0, 7.0, 1.0]))
            v.shift((1.0, 2.0, 3.0))
            v.moveto((9.0, 9.0, 9.0))
            v.matrix *= M.scale(2.0)
            out.append("fk~")
            continue
        if st[0] in ("cp", "rx", "ry", "rz", "ro"):  # continue the history on the NEW object (copy / rotation)
            rows = [state[0:3], state[4:7], state[8:11]]
            if any(not any(rw) for rw in rows) or any(abs(t) > 1e100 for rw in rows for t in rw):
                continue  # a null axis raises in the constructor: not part of the histories
            n2 = [sum(t * t for t in rw) for rw in rows]
            if max(n2) > 2.0 ** 80 * min(n2):
                continue
            if st[0] == "cp":
                u = u.copy()
                out.append("cp~")
            elif st[0] == "ro":  # st = ["ro", "ax,ay,az,c,s", angle]: rotation about an arbitrary WCS axis; the origin stays
                vals = parse_list(st[1])
                try:
                    u = u.rotate(V3(*vals[:3]), float(Fr(st[2])))
                except ZeroDivisionError:
                    continue
                out.append("ro~" + st[1])
            else:
                ang = float(Fr(st[2]))
                try:
                    u = getattr(u, "rotate_local_" + st[0][1])(ang)
                except ZeroDivisionError:
                    continue
                out.append(st[0] + "~" + st[1])
            exact = False
            continue
        if st[0] in ("tr", "sh", "mv"):
            arg = parse_list(st[1])
            afx, amg = _fxmg(arg)
            if st[0] == "tr":
                exact = exact and (sfx + afx + smg + amg + 4 <= 53)
                u.transform(M(arg))
            elif st[0] == "sh":
                exact = exact and (max(sfx, afx) + max(smg, amg) + 2 <= 53)
                u.shift(V3(*arg))
            else:
                u.moveto(V3(*arg))
            out.append(st[0] + "~" + st[1])
            continue
        _, kernel, args = st
        if kernel in HIST_SQRT and kernel != "ucsCopy":
            uz = tuple(u.uz)
            if not any(uz) or ocs_band(uz) or any(abs(t) > 1e100 for t in uz):
                dropped += 1
                continue
        pts = [c for t in args for part in t.split(";") if part for c in parse_list(part)]
        afx, amg = _fxmg(pts)
        try:
            if kernel == "ucsToWcs": val = list(u.to_wcs(v3(args[0])))
            elif kernel == "ucsFromWcs": val = list(u.from_wcs(v3(args[0])))
            elif kernel == "ucsDirectionToWcs": val = list(u.direction_to_wcs(v3(args[0])))
            elif kernel == "ucsDirectionFromWcsU": val = list(u.direction_from_wcs(v3(args[0])))
            elif kernel == "ucsPointsToWcs": val = [c for v in u.points_to_wcs([v3(t) for t in args[0].split(";")]) for c in v]
            elif kernel == "ucsPointsFromWcs": val = [c for v in u.points_from_wcs([v3(t) for t in args[0].split(";")]) for c in v]
            elif kernel == "ucsAxes": val = list(u.ux) + list(u.uy) + list(u.uz) + list(u.origin)
            elif kernel == "copy": val = list(u.matrix)
            elif kernel == "ucsToOcs": val = list(u.to_ocs(v3(args[0])))
            elif kernel == "ucsDirToOcs": val = list(u.ucs_direction_to_ocs_direction(v3(args[0])))
            elif kernel == "ucsPointsToOcs": val = [c for v in u.points_to_ocs([v3(t) for t in args[0].split(";")]) for c in v]
            elif kernel == "ucsCopy": val = list(u.copy().matrix)
            else: raise KeyError(kernel)
            res = _ok(val)
            big = max([abs(float(x)) for x in val] + [0.25])
        except ZeroDivisionError:
            res, big = "err ZeroDivisionError", 1.0
        if kernel in HIST_SQRT:
            w = max([abs(x) for x in state[:12]] + [0.25]) * max([abs(x) for x in pts] + [1.0]) * 4 + max(abs(x) for x in state[12:15])
            tol = _tolrel(38, max(big, w if kernel != "ucsCopy" else big))
        elif exact and (max(sfx, afx) * 2 + max(smg, amg) * 2 + 6 <= 53):
            tol = "abs:0"
        else:
            tol = _tolrel(40, big)
        out.append("q~" + kernel + "~" + ";;".join(args) + "~" + res + "~" + tol)
    return "|".join(out) + f"#{dropped}"


def history_plans(ctx, twin: str):
    """seeded histories: start state, 1..5 in-place mutators, queries before, between and after them"""
    g = G(ctx.rng(f"hist/{twin}"))
    r = g.r
    I = lambda lo=-4, hi=4: Fr(r.randint(lo, hi))
    H = lambda: Fr(r.randint(-8, 8), r.choice([1, 1, 2, 4]))
    perms = [((1, 0, 0), (0, 1, 0), (0, 0, 1)), ((0, 1, 0), (-1, 0, 0), (0, 0, 1)), ((1, 0, 0), (0, 0, 1), (0, -1, 0)),
             ((0, 0, 1), (0, 1, 0), (-1, 0, 0)), ((0, 1, 0), (0, 0, 1), (1, 0, 0)), ((-1, 0, 0), (0, -1, 0), (0, 0, 1)),
             ((1, 0, 0), (0, -1, 0), (0, 0, -1)), ((0, 0, -1), (0, -1, 0), (-1, 0, 0))]
    frames = [((1, 2, 2), (2, 1, -2), (2, -2, 1)), ((2, 3, 6), (3, -6, 2), (6, 2, -3)), ((3, 4, 0), (-4, 3, 0), (0, 0, 5)),
              ((1, 4, 8), (4, 7, -4), (8, -4, 1))]

    def mat3(rows, org, col4=(0, 0, 0, 1)):
        m = []
        for i in range(3):
            m += [Fr(x) for x in rows[i]] + [Fr(col4[i])]
        return m + [Fr(x) for x in org] + [Fr(col4[3])]

    def start():
        c = r.random()
        org = (H(), H(), H())
        if c < 0.3:
            return mat3(r.choice(perms), org)
        if c < 0.5:
            return mat3(r.choice(frames), org)
        if c < 0.7:  # z-axis close to +-Z, on both sides of the 1/64 rule (|x|/|uz| vs 1/64), x/y axes anything
            zx, zy = r.choice([(1, 0), (0, 1), (1, 1), (-1, 1), (2, 0), (0, -2), (3, 1), (0, 0)])
            zz = r.choice([40, 60, 70, 100, 150, -50, -70, -130])
            return mat3(((I(), I(), I()), (I(), I(), I()), (zx, zy, zz)), org)
        if c < 0.95:
            return mat3(((I(), I(), I()), (I(), I(), I()), (I(), I(), I(1, 4) * r.choice([-1, 1]))), org)
        return mat3(((I(), I(), I()), (I(), I(), I()), (I(), I(), I())), org, (I(-1, 1), I(-1, 1), I(-1, 1), I(1, 2)))

    def opmat():
        c = r.random()
        t = (I(), I(), I())
        if c < 0.35:
            return mat3(r.choice(perms), t)
        if c < 0.5:
            return mat3(r.choice(frames), t)
        if c < 0.7:
            return g.unimodular()
        if c < 0.95:
            return mat3(((I(-2, 2), I(-2, 2), I(-2, 2)), (I(-2, 2), I(-2, 2), I(-2, 2)), (I(-2, 2), I(-2, 2), I(-2, 2))), t)
        return mat3(((I(-2, 2), I(-2, 2), I(-2, 2)), (I(-2, 2), I(-2, 2), I(-2, 2)), (I(-2, 2), I(-2, 2), I(-2, 2))), t,
                    (I(-1, 1), I(-1, 1), I(-1, 1), I(1, 2)))

    pt = lambda: frs((H(), H(), H()))
    qnames = ["ucsToOcs", "ucsToOcs", "ucsDirToOcs", "ucsPointsToOcs", "ucsToWcs", "ucsFromWcs", "ucsDirectionToWcs",
              "ucsDirectionFromWcsU", "ucsPointsToWcs", "ucsPointsFromWcs", "ucsAxes", "copy", "ucsCopy"]

    def query(name=None):
        name = name or r.choice(qnames)
        if name in ("ucsAxes", "copy", "ucsCopy"):
            return ["q", name, []]
        if name.startswith("ucsPoints"):
            return ["q", name, [";".join(pt() for _ in range(r.randint(1, 3)))]]
        return ["q", name, [pt()]]

    for _ in range(ctx.n(260, 4000)):
        steps = [query() for _ in range(r.randint(0, 2))]
        for _ in range(r.randint(1, 5)):
            c = r.random()
            if c < 0.6:
                steps.append(["tr", frs(opmat())])
            elif c < 0.72:
                steps.append(["sh", frs((H(), H(), H()))])
            elif c < 0.84:
                steps.append(["mv", frs((H(), H(), H()))])
            elif c < 0.9:
                steps.append(["fk"])
            elif c < 0.94:
                steps.append(["cp"])
            elif c < 0.97:
                ang = r.choice([math.pi / 2, 1.0, -2.5, r.uniform(-3, 3)])
                steps.append([r.choice(["rx", "ry", "rz"]), frs([Fr(math.cos(ang)), Fr(math.sin(ang))]), fr(ang)])
            else:
                ang = r.choice([math.pi / 2, 1.0, -2.5, r.uniform(-3, 3)])
                axis = r.choice([(0, 0, 1), (1, 0, 0), (1, 2, 2), (I(), I(), I(1, 3))])
                steps.append(["ro", frs(list(axis) + [Fr(math.cos(ang)), Fr(math.sin(ang))]), fr(ang)])
            steps += [query() for _ in range(r.randint(0, 2))]
        steps += [query("ucsToOcs"), query("ucsToWcs"), query("copy")]
        yield {"m0": frs(start()), "steps": steps}


# ------------------------------------------------------------------------------------------------ X4: Matrix44 histories
def run_m44_history(tw: Twin, plan: dict) -> str:
    """in-place operations on ONE real Matrix44 object (`m *= o`, `m *= m`, transpose(), inverse()) with queries in between;
    returns the body of the Lean request.  Exact comparison until the first inverse() / while fixed-point widths allow."""
    M = tw.M
    m = M(parse_list(plan["m0"]))
    out = [plan["m0"]]
    exact = True
    for st in plan["steps"]:
        state = list(m)
        sfx, smg = _fxmg(state)
        if st[0] == "im":
            o = parse_list(st[1])
            ofx, omg = _fxmg(o)
            exact = exact and (sfx + ofx + smg + omg + 4 <= 53)
            other = M(o)
            m *= other
            if list(other) != o:
                return "|".join(out) + "|operand-mutated"
            out.append("im~" + st[1])
        elif st[0] == "is":
            exact = exact and (2 * sfx + 2 * smg + 4 <= 53)
            m *= m
            out.append("is~")
        elif st[0] == "tp":
            m.transpose()
            out.append("tp~")
        elif st[0] == "fk":  # aliasing: every in-place operation on a COPY; the original must not notice
            c_ = m.copy()
            c_ *= M([2.0, 1.0, 0.0, 0.0, 0.0, 1.0, 3.0, 0.0, 1.0, 0.0, 1.0, 0.0, 4.0, 5.0, 6.0, 1.0])
            c_.transpose()
            c_ *= c_
            try:
                c_.inverse()
            except ZeroDivisionError:
                pass
            out.append("fk~")
        elif st[0] == "iv":
            d = _det([Fr(x) for x in state])
            if d == 0 and not exact:
                continue  # the float state is singular but it is no longer the exact state of the model (rounded earlier): artifact
            if d == 0:
                # exactly singular: part of the histories only when the float arithmetic of this twin can see it (LU pivot
                # exactly 0 / the 24-term float determinant exactly 0.0); otherwise outside the statement (DESIGN C11 Not proved)
                if (tw.name == "py" and not _lu_detects([Fr(x) for x in state])) or (tw.name == "pyx" and m.determinant() != 0.0):
                    continue
            elif abs(d) * 2**20 < _hadamard([Fr(x) for x in state]):
                continue  # badly conditioned: not part of the histories
            try:
                m.inverse()
                out.append("iv~ok")
                exact = exact and tw.name == "pyx" and abs(d) == 1 and (3 * sfx + 3 * smg + 8 <= 53)
            except ZeroDivisionError:
                out.append("iv~err")
                if list(m) != state:
                    return "|".join(out) + "|state-changed-by-failed-inverse"
        else:
            _, kernel, args = st
            pts = [c for t in args for c in parse_list(t)]
            afx, amg = _fxmg(pts)
            if kernel == "copy": val = list(m)
            elif kernel == "determinant": val = [m.determinant()]
            elif kernel == "transform": val = list(m.transform(tw.V3(*parse_list(args[0]))))
            elif kernel == "axes": val = list(m.ux) + list(m.uy) + list(m.uz) + list(m.origin)
            else: raise KeyError(kernel)
            big = max([abs(float(x)) for x in val] + [0.25])
            if kernel == "determinant":
                tol = "abs:0" if (exact and tw.name == "pyx" and 4 * sfx + 4 * smg + 8 <= 53) else _tolrel(30, Fr(_hadamard([Fr(x) for x in state])))
            elif exact and (max(sfx, afx) * 2 + max(smg, amg) * 2 + 6 <= 53):
                tol = "abs:0"
            else:
                tol = _tolrel(30, big)
            out.append("q~" + kernel + "~" + ";;".join(args) + "~" + _ok(val) + "~" + tol)
    return "|".join(out)


def m44_history_plans(ctx, twin: str):
    g = G(ctx.rng(f"m44hist/{twin}"))
    r = g.r
    I = lambda lo=-3, hi=3: Fr(r.randint(lo, hi))
    H = lambda: Fr(r.randint(-8, 8), r.choice([1, 1, 2]))

    def small():
        c = r.random()
        if c < 0.1:  # well-conditioned but tiny / huge determinant (unit conversions): uniform or planar scaling by 2^k
            k = Fr(2) ** r.choice([-20, -15, -7, 7, 15])
            kz = r.choice([k, Fr(1)])
            return [k, 0, 0, 0, 0, k, 0, 0, 0, 0, kz, 0, I(), I(), I(), Fr(1)]
        if c < 0.45:
            return g.unimodular()
        if c < 0.6:
            m = [I(-2, 2) for _ in range(16)]  # general 4th column too
            return m
        if c < 0.7:
            return g.singular()
        m = [I() for _ in range(12)] + [I(), I(), I(), Fr(1)]
        m[3] = m[7] = m[11] = Fr(0)
        if r.random() < 0.3:
            m[15] = r.choice([Fr(2), Fr(-1), Fr(1, 2), Fr(-4)])  # last column (0, 0, 0, w), w != 1
        return m

    def query():
        k = r.choice(["copy", "copy", "determinant", "determinant", "transform", "axes"])
        return ["q", k, [frs((H(), H(), H()))] if k == "transform" else []]

    for _ in range(ctx.n(200, 3000)):
        steps = [query() for _ in range(r.randint(0, 1))]
        for _ in range(r.randint(1, 5)):
            c = r.random()
            steps.append(["im", frs(small())] if c < 0.4 else ["is"] if c < 0.5 else ["tp"] if c < 0.65 else ["fk"] if c < 0.72 else ["iv"])
            steps += [query() for _ in range(r.randint(0, 2))]
        steps += [query(), ["q", "copy", []]]
        yield {"m0": frs(small()), "steps": steps}


def _twins(ctx):
    if have_cext():
        return ["py", "pyx"]
    ctx.note("C extensions are not importable in this tree: the Cython twin is proved about but NOT corresponded/oracled")
    return ["py"]


# translated kernel -> the stream kernel that evaluates it (when the names differ)
STREAM_ALIAS = {"origin": "axes", "ux": "axes", "uy": "axes", "uz": "axes", "ocsUx": "ocsAxes", "ocsUy": "ocsAxes",
                "ocsUz": "ocsAxes", "ucsOrigin": "ucsAxes", "ucsUx": "ucsAxes", "ucsUy": "ucsAxes", "ucsUz": "ucsAxes",
                "ucsToOcsFrame": "ucsFrames", "ucsToWcsFrame": "ucsWcsFrame", "ucsTransform": "ucsTransformU"}


# polynomial kernels whose float evaluation is NOT exact on dyadic inputs (tolerant stream X2 instead), with the reason
EXACT_EXEMPT = {
    "ucsToOcsFrame": "state after a query that takes square roots (streamed as ucsFrames with tolerance abs:0)",
}


def tie_audit(ctx, twin: str, streamed: set, exact: set = frozenset()):
    """every kernel that regenerate() translates for this twin must have been evaluated against the real code in a
    correspondence stream of this run (the tie of the translator); a kernel without a stream is a broken obligation"""
    pyx = twin == "pyx"
    names = [k[0] for k in vector_kernels(pyx) + matrix_kernels(pyx) + ucs_kernels() + ucs_state_kernels(pyx) + construct_kernels(pyx)]
    names += ["v3hashArg", "v2hashArg"]
    missing = []
    for n in names:
        s_ = STREAM_ALIAS.get(n, n)
        if s_ not in streamed:
            missing.append(n)
    if "ucsDirectionFromWcsU" not in streamed:  # UCS.direction_from_wcs (Matrix44 has a kernel of the same Lean name)
        missing.append("UCS.ucsDirectionFromWcs")
    # kernels without square-root / trig parameters (polynomials, comparisons, decisions) must be in the EXACT stream X1
    poly = getattr(ctx, "c11_poly", {}).get(twin, set())
    not_exact = sorted(n for n in poly if STREAM_ALIAS.get(n, n) not in exact and n not in EXACT_EXEMPT)
    ctx.hist("X0 tie audit", f"{twin}:polynomial-kernels", len(poly))
    ctx.hist("X0 tie audit", f"{twin}:polynomial-kernels-not-in-X1", len(not_exact))
    if not_exact:
        raise AssertionError(f"polynomial kernels of twin {twin} that are not corresponded exactly (X1): {not_exact}")
    ctx.hist("X0 tie audit", f"{twin}:translated-kernels", len(names))
    ctx.hist("X0 tie audit", f"{twin}:without-correspondence-stream", len(missing))
    if missing:
        raise AssertionError(f"translated kernels of twin {twin} without a correspondence stream: {missing}")


def correspond(ctx):
    """the hand-written driver is written against the signatures of the kernels generated from the UNCHANGED source; when
    the regenerated kernels changed shape (proof step already broken: theorem / translation) and the driver therefore does
    not build any more, that is one more broken obligation of the tie, not an infrastructure problem"""
    try:
        _correspond(ctx)
    except Exception as e:  # the runner's Infra class lives in __main__: recognise it by name
        if type(e).__name__ == "Infra" and str(e).startswith("driver") and \
                any(b.kind in ("theorem", "translation") for b in ctx.broken):
            ctx.disagree("driver vs regenerated kernels", "lean/Drivers/C11.lean", "builds against the kernels of the unchanged source",
                         "does not build against the regenerated kernels: " + str(e)[:1200])
        else:
            raise


def _correspond(ctx):
    import ezdxf.math.ucs as ucsmod

    twins = _twins(ctx)
    build = DRIVER_DEPS
    streamed = {t: set() for t in twins}
    exact_streamed = {t: set() for t in twins}
    # ---- X1 exact
    cases = {t: list(exact_cases(ctx, t)) for t in twins}
    impl = _impl_lines(twins, {t: [(k, la, ia) for k, la, ia, _ in cases[t]] for t in twins}, ucsmod)
    lines = []
    for t in twins:
        for (k, la, ia, nt), val in zip(cases[t], impl[t]):
            streamed[t].add(k)
            exact_streamed[t].add(k)
            ctx.hist("X1 exact kernels", f"{t}:{k}")
            if val.startswith("err"):
                ctx.hist("X1 exact kernels", "result:" + val)
            lines.append((f"x|{t}|{k}|" + "|".join(la), val, nt))
    known_diffs = []

    def on_diff(req, impl_v, model_v):
        known_diffs.append((req, impl_v, model_v))

    ctx.correspond("X1 exact kernels", "C11", lines, build=build, on_diff=on_diff)
    # ---- X2 tolerant
    cases = {t: list(tolerant_cases(ctx, t)) for t in twins}
    impl = _impl_lines(twins, {t: [(k, la, ia) for k, la, ia, _, _ in cases[t]] for t in twins}, ucsmod)
    lines = []
    for t in twins:
        for (k, la, ia, tol, nt), val in zip(cases[t], impl[t]):
            streamed[t].add(k)
            ctx.hist("X2 tolerant kernels", f"{t}:{k}")
            if k == "ocsInit":
                ctx.hist("X2 tolerant kernels", "ocs:" + val[:4])
            if val.startswith("err"):
                ctx.hist("X2 tolerant kernels", "result:" + val)
            lines.append((f"t|{t}|{k}|" + "|".join(la) + f"|{val}|{tol}", "agree", nt))
    ctx.correspond("X2 tolerant kernels", "C11", lines, build=build)
    # ---- X3 UCS histories: method sequences on one object vs the state machine of Model/UcsMachine.lean
    import json
    lines = []
    for t in twins:
        plans = list(history_plans(ctx, t))
        if t == "py" and have_cext():
            bodies = pure_python_worker(["h|" + json.dumps(pl) for pl in plans])
        else:
            tw = Twin(t)
            bodies = [run_history(tw, ucsmod, pl) for pl in plans]
        for pl, body in zip(plans, bodies):
            body, dropped = body.rsplit("#", 1)
            nmut = sum(1 for st in pl["steps"] if st[0] != "q")
            ctx.hist("X3 UCS histories", f"{t}:mutators={nmut}")
            if int(dropped):
                ctx.hist("X3 UCS histories", "to_ocs-queries-dropped(z-axis null or in a decision band)", int(dropped))
            for st in body.split("|")[1:]:
                f = st.split("~")
                ctx.hist("X3 UCS histories", "step:" + (f[1] + (":exact" if f[-1] == "abs:0" else ":tol") if f[0] == "q" else f[0]))
            lines.append((f"h|{t}|" + body, "agree", nmut >= 2))
    ctx.correspond("X3 UCS histories", "C11", lines, build=build)
    # ---- X4 Matrix44 histories: in-place operations on one object vs the machine of Model/UcsMachine.lean (M44Machine)
    lines = []
    for t in twins:
        tw = Twin(t)
        for pl in m44_history_plans(ctx, t):
            body = run_m44_history(tw, pl)
            nmut = sum(1 for st in body.split("|")[1:] if not st.startswith("q~"))
            ctx.hist("X4 Matrix44 histories", f"{t}:operations={nmut}")
            for st in body.split("|")[1:]:
                f = st.split("~")
                ctx.hist("X4 Matrix44 histories", "step:" + (f[1] + (":exact" if f[-1] == "abs:0" else ":tol") if f[0] == "q" else st if f[0] == "iv" else f[0]))
            lines.append((f"g|{t}|" + body, "agree", nmut >= 2))
    ctx.correspond("X4 Matrix44 histories", "C11", lines, build=build)
    for t in twins:
        tie_audit(ctx, t, streamed[t], exact_streamed[t])


# ================================================================================================ oracle (real code)
EPS = 2.0 ** -52


class Acc:
    """collects failures and counts inside the process that runs the oracles (in-process or worker)"""

    def __init__(self, twin):
        self.twin, self.fails, self.counts, self.samples = twin, [], {}, {}

    def count(self, stream, nontrivial=True):
        c = self.counts.setdefault(stream, [0, 0])
        c[0] += 1
        c[1] += 1 if nontrivial else 0

    def fail(self, key, what, replay):
        parts = key.split("/")
        idx = next((i for i, t in enumerate(parts) if t in ("py", "pyx")), len(parts) - 1)
        fam = "/".join(parts[: idx + 1]) + "/"
        if sum(1 for f in self.fails if f["key"].startswith(fam)) < 3 and not any(f["key"] == key for f in self.fails):
            replay = dict(replay, twin=self.twin)
            self.fails.append({"key": key, "what": what, "replay": replay})


def _fl(xs):
    return [float(x) for x in xs]


def _close(a, b, tol):
    return all(abs(float(x) - float(y)) <= tol for x, y in zip(a, b)) and len(list(a)) == len(list(b))


def _short(xs, n=6):
    return ",".join(f"{float(x):.6g}" for x in list(xs)[:n])


def oracle_composition(acc, tw, g, n):
    V3, M = tw.V3, tw.M
    r = g.r
    for _ in range(n):
        A, B, C = _fl(g.affine(r.choice([-6, 0, 6]), 4)), _fl(g.matrix()), _fl(g.affine(0, 3))
        v = _fl(g.v3(r.choice([-6, 0, 6])))
        acc.count("O1 composition")
        rep = {"op": "compose", "A": A, "B": B, "C": C, "v": v}
        a, b, c = M(A), M(B), M(C)
        want = b.transform(a.transform(v))
        for name, prod in (("mul", a * b), ("matmul", a @ b)):
            got = prod.transform(v)
            if list(got) != list(want):
                acc.fail(f"compose/{name}/{tw.name}/{_short(A)}", f"(A {name} B).transform(v)={tuple(got)} but B(A(v))={tuple(want)}", rep)
        x = M(A)
        x *= b
        if list(x) != list(a * b) or list(b) != B:
            acc.fail(f"compose/imul/{tw.name}/{_short(A)}", "A *= B differs from A * B or mutates B", rep)
        d = (a * b).transform_direction(v)
        dw = b.transform_direction(a.transform_direction(v))
        if list(d) != list(dw):
            acc.fail(f"compose/direction/{tw.name}/{_short(A)}", f"(A*B).transform_direction(v)={tuple(d)} != {tuple(dw)}", rep)
        ch = M.chain(a, b, c) if B[3] == 0 and B[7] == 0 and B[11] == 0 and B[15] == 1 else M.chain(a, c, a)
        seq = (a, b, c) if B[3] == 0 and B[7] == 0 and B[11] == 0 and B[15] == 1 else (a, c, a)
        w = v
        for m in seq:
            w = m.transform(w)
        if list(ch.transform(v)) != list(w):
            acc.fail(f"compose/chain/{tw.name}/{_short(A)}", f"chain(...).transform(v)={tuple(ch.transform(v))} != successive {tuple(w)}", rep)
        if list(M.chain()) != list(M()) or list(M.chain(a)) != A:
            acc.fail(f"compose/chain-trivial/{tw.name}", "chain() is not the identity or chain(A) != A", rep)
        # squaring in place must equal the product (aliasing of the operand)
        sq = M(A)
        sq *= sq
        if list(sq) != list(a * a):
            acc.fail(f"imul-self/{tw.name}/{_short(A)}", f"m *= m gives {_short(sq, 16)} but m * m = {_short(a * a, 16)}",
                     {"op": "imulself", "A": A})
        # associativity on exact inputs
        if list((a * c) * a) != list(a * (c * a)):
            acc.fail(f"compose/assoc/{tw.name}/{_short(A)}", "(A*C)*A != A*(C*A) on exact dyadic input", rep)
        t = M(A)
        t.transpose()
        t.transpose()
        if list(t) != A:
            acc.fail(f"transpose/involution/{tw.name}/{_short(A)}", "transpose twice is not the identity", rep)


def oracle_batch(acc, tw, g, n):
    import numpy as np
    V3, V2, M = tw.V3, tw.V2, tw.M
    r = g.r
    for _ in range(n):
        m = M(_fl(g.matrix()))
        e = r.choice([-6, 0, 6])
        pts = [_fl(g.v3(e)) for _ in range(r.randint(0, 7))]
        rep = {"op": "batch", "M": list(m), "pts": pts}
        acc.count("O2 batch = single", len(pts) > 0)
        single = [tuple(m.transform(p)) for p in pts]
        if [tuple(v) for v in m.transform_vertices(pts)] != single:
            acc.fail(f"batch/transform_vertices/{tw.name}/{_short(m)}", "transform_vertices != [transform(v)]", rep)
        if [tuple(v) for v in m.transform_directions(pts)] != [tuple(m.transform_direction(p)) for p in pts]:
            acc.fail(f"batch/transform_directions/{tw.name}/{_short(m)}", "transform_directions != [transform_direction(v)]", rep)
        nd = [tuple(v) for v in m.transform_directions(pts, normalize=True)] if all(any(m.transform_direction(p)) for p in pts) else None
        if nd is not None:
            for q, p in zip(nd, pts):
                w = m.transform_direction(p, True)
                if not _close(q, w, 4 * EPS):
                    acc.fail(f"batch/transform_directions-normalize/{tw.name}/{_short(m)}", "normalized batch != normalized single", rep)
        flat = [(p[0], p[1]) for p in pts]
        f2 = [tuple(v) for v in m.fast_2d_transform(flat)]
        if f2 != [tuple(m.transform((x, y, 0.0)))[:2] for x, y in flat]:
            acc.fail(f"batch/fast_2d_transform/{tw.name}/{_short(m)}", "fast_2d_transform != transform of (x, y, 0) projected", rep)
        if any(type(v).__name__ != "Vec2" for v in m.fast_2d_transform(flat)):
            acc.fail(f"batch/fast_2d_type/{tw.name}", "fast_2d_transform does not yield Vec2", rep)
        for ndim in (2, 3):
            ncol = r.choice([ndim, ndim + 1, 5])
            rows = [[float(g.dy(e, 6)) for _ in range(ncol)] for _ in range(r.randint(1, 6))]
            arr = np.array(rows, dtype=np.float64)
            m.transform_array_inplace(arr, ndim)
            for row, src in zip(arr.tolist(), rows):
                want = list(m.transform(src[:3]))[:3] if ndim == 3 else list(next(iter(m.fast_2d_transform([src[:2]]))))
                if row[:ndim] != want or row[ndim:] != src[ndim:]:
                    acc.fail(f"batch/transform_array_inplace{ndim}/{tw.name}/{_short(m)}",
                             f"row {src} -> {row}, expected {want} + untouched tail", dict(rep, rows=rows, ndim=ndim))
                    break


def _mat_err(a, b):
    return max(abs(x - y) for x, y in zip(a, b))


def oracle_inverse(acc, tw, g, n):
    M = tw.M
    r = g.r
    ident = [1.0 if i % 5 == 0 else 0.0 for i in range(16)]
    for _ in range(n):
        c = r.random()
        mf = g.unimodular() if c < 0.25 else g.wellcond() if c < 0.75 else g.affine(0, 4)
        if r.random() < 0.3:
            sc = Fr(2) ** r.choice([-20, -6, 6, 20])
            mf = [x * sc for x in mf]
        if _det(mf) == 0:
            continue
        vals = _fl(mf)
        m, i = M(vals), M(vals)
        rep = {"op": "inverse", "M": vals}
        acc.count("O3 inverse")
        try:
            i.inverse()
        except ZeroDivisionError:
            acc.fail(f"inverse/raises-on-regular/{tw.name}/{_short(vals)}", "inverse() raised ZeroDivisionError for a matrix with non-zero determinant", rep)
            continue
        ninf = lambda q: max(sum(abs(x) for x in list(q)[4 * k:4 * k + 4]) for k in range(4))
        kappa = ninf(m) * ninf(i)
        tol = 8 * EPS * kappa * 4
        for name, prod in (("right", m * i), ("left", i * m)):
            if _mat_err(prod, ident) > tol:
                acc.fail(f"inverse/{name}/{tw.name}/{_short(vals)}", f"M*inv(M) deviates from I by {_mat_err(prod, ident):.3g} > {tol:.3g} (kappa={kappa:.3g})", rep)
        j = M(list(i))
        j.inverse()
        if _mat_err(j, vals) > 64 * EPS * kappa * max(abs(x) for x in vals):
            acc.fail(f"inverse/involution/{tw.name}/{_short(vals)}", "inverse of inverse deviates from M", rep)
        d = m.determinant() * i.determinant()
        if abs(d - 1) > 64 * EPS * kappa:
            acc.fail(f"inverse/det-product/{tw.name}/{_short(vals)}", f"det(M)*det(inv M) = {d}", rep)


def oracle_singular(acc, tw, g, n):
    M = tw.M
    for _ in range(n):
        mf = g.singular()
        vals = _fl(mf)
        if tw.name == "py" and not _lu_detects(mf):
            continue  # exact singularity that float LU cannot see: outside the statement (well-conditioned / singular)
        m = M(vals)
        acc.count("O3 inverse (singular)")
        try:
            m.inverse()
            acc.fail(f"inverse/singular-no-error/{tw.name}/{_short(vals)}", f"inverse() of a singular matrix returned {_short(m, 16)}", {"op": "singular", "M": vals})
        except ZeroDivisionError:
            if list(m) != vals:
                acc.fail(f"inverse/singular-mutates/{tw.name}/{_short(vals)}", "matrix changed although inverse() raised", {"op": "singular", "M": vals})


def _rodrigues(u, c, s, v):
    """exact Rodrigues rotation of v about the unit axis u (all Fractions)"""
    d = sum(a * b for a, b in zip(u, v))
    cr = (u[1] * v[2] - u[2] * v[1], u[2] * v[0] - u[0] * v[2], u[0] * v[1] - u[1] * v[0])
    return [c * v[i] + s * cr[i] + (1 - c) * d * u[i] for i in range(3)]


def oracle_factories(acc, tw, g, n):
    V3, M = tw.V3, tw.M
    r = g.r
    for _ in range(n):
        v = g.v3(r.choice([-6, 0, 6]))
        vf = _fl(v)
        d = g.v3(r.choice([-6, 0, 6]))
        acc.count("O4 factories")
        rep = {"op": "factory", "v": vf, "d": _fl(d)}
        got = M.translate(*_fl(d)).transform(vf)
        if list(got) != [float(a + b) for a, b in zip(v, d)]:
            acc.fail(f"factory/translate/{tw.name}/{_short(vf)}", f"translate({_fl(d)}).transform({vf}) = {tuple(got)}", rep)
        if list(M.translate(*_fl(d)).transform_direction(vf)) != vf:
            acc.fail(f"factory/translate-direction/{tw.name}", "translation changes a direction", rep)
        sc = g.v3(0, special=False)
        got = M.scale(*_fl(sc)).transform(vf)
        if list(got) != [float(a * b) for a, b in zip(v, sc)]:
            acc.fail(f"factory/scale/{tw.name}/{_short(vf)}", f"scale({_fl(sc)}).transform({vf}) = {tuple(got)}", rep)
        if list(M.scale(float(sc[0]))) != list(M.scale(float(sc[0]), float(sc[0]), float(sc[0]))):
            acc.fail(f"factory/scale-uniform/{tw.name}", "scale(s) != scale(s, s, s)", rep)
        # single axis rotations against the independent formula (ccw about the axis, right handed)
        ang = r.choice([0.5, -1.25, 2.0, math.pi / 2, math.pi, r.uniform(-7, 7)])
        c, s = Fr(math.cos(ang)), Fr(math.sin(ang))
        x, y, z = v
        scale = max([abs(t) for t in vf] + [1e-300])
        for name, want in (("x_rotate", (x, c * y - s * z, s * y + c * z)), ("y_rotate", (c * x + s * z, y, c * z - s * x)),
                           ("z_rotate", (c * x - s * y, s * x + c * y, z))):
            m = getattr(M, name)(ang)
            got = m.transform(vf)
            if not _close(got, want, 8 * EPS * scale):
                acc.fail(f"factory/{name}/{tw.name}/{ang:.4g}", f"{name}({ang}).transform({vf}) = {tuple(got)}, formula {_fl(want)}", dict(rep, angle=ang))
        # axis rotation: Rodrigues with a rational unit axis (Pythagorean quadruple), any scaling of the axis
        q = r.choice([(1, 2, 2, 3), (2, 3, 6, 7), (1, 4, 8, 9), (4, 4, 7, 9), (2, 6, 9, 11), (0, 3, 4, 5), (1, 0, 0, 1), (0, 0, 1, 1), (6, 6, 7, 11)])
        sg = [r.choice([-1, 1]) for _ in range(3)]
        perm = r.sample(range(3), 3)
        u = [Fr(sg[i] * q[perm[i]], q[3]) for i in range(3)]
        k = float(Fr(2) ** r.choice([-10, 0, 3]) * q[3])
        axis = [float(t * Fr(k)) for t in u]  # exact: u*q3 is an integer vector
        m = M.axis_rotate(axis, ang)
        want = _rodrigues(u, c, s, list(v))
        got = m.transform(vf)
        if not _close(got, want, 32 * EPS * scale):
            acc.fail(f"factory/axis_rotate/{tw.name}/{_short(axis)}/{ang:.4g}", f"axis_rotate({axis}, {ang}).transform({vf}) = {tuple(got)}, Rodrigues {_fl(want)}", dict(rep, axis=axis, angle=ang))
        if not _close(m.transform(axis), axis, 16 * EPS * max(abs(t) for t in axis)):
            acc.fail(f"factory/axis_rotate-axis/{tw.name}/{_short(axis)}", "rotation moves its own axis", dict(rep, axis=axis, angle=ang))
        mt = M(list(m))
        mt.transpose()
        if _mat_err(m * mt, [1.0 if i % 5 == 0 else 0.0 for i in range(16)]) > 16 * EPS or abs(m.determinant() - 1) > 32 * EPS:
            acc.fail(f"factory/axis_rotate-orthogonal/{tw.name}/{_short(axis)}", "axis rotation is not orthogonal with det 1", dict(rep, axis=axis, angle=ang))
        ax, ay, az = (r.uniform(-4, 4) for _ in range(3))
        m3 = M.xyz_rotate(ax, ay, az)
        prod = M.z_rotate(az) * M.y_rotate(ay) * M.x_rotate(ax)
        if _mat_err(m3, prod) > 8 * EPS:
            acc.fail(f"factory/xyz_rotate/{tw.name}/{ax:.3g}", "xyz_rotate(ax, ay, az) != z_rotate(az)*y_rotate(ay)*x_rotate(ax)", dict(rep, angles=[ax, ay, az]))
        sx, sy = r.uniform(-1.2, 1.2), r.uniform(-1.2, 1.2)
        got = M.shear_xy(sx, sy).transform(vf)
        want = (x + y * Fr(math.tan(sx)), y + x * Fr(math.tan(sy)), z)
        if not _close(got, want, 8 * EPS * scale):
            acc.fail(f"factory/shear_xy/{tw.name}/{sx:.3g}", f"shear_xy({sx},{sy}).transform({vf}) = {tuple(got)}, formula {_fl(want)}", dict(rep, shear=[sx, sy]))
        ux, uy, uz, o = g.v3(0), g.v3(0), g.v3(0), g.v3(r.choice([-6, 0, 6]))
        mu = M.ucs(V3(_fl(ux)), V3(_fl(uy)), V3(_fl(uz)), V3(_fl(o)))
        want = [o[i] + x * ux[i] + y * uy[i] + z * uz[i] for i in range(3)]
        got = mu.transform(vf)
        if not _close(got, want, 8 * EPS * max(abs(float(t)) for t in want + [1])):
            acc.fail(f"factory/ucs/{tw.name}/{_short(vf)}", f"ucs(...).transform({vf}) = {tuple(got)}, expected {_fl(want)}", rep)
        comps = _fl([g.dy(0) for _ in range(6)])
        m2 = M.from_2d_transformation(comps)
        if list(m2.get_2d_transformation()) != [comps[0], comps[1], 0.0, comps[2], comps[3], 0.0, comps[4], comps[5], 1.0]:
            acc.fail(f"factory/from_2d/{tw.name}", "get_2d_transformation(from_2d_transformation(c)) != c", dict(rep, comps=comps))


def _unit_exact(n):
    """(Az components as floats via exact arithmetic, branch) for the arbitrary axis algorithm, decided exactly"""
    x, y, z = (Fr(t) for t in n)
    l2 = x * x + y * y + z * z
    b1 = x * x * 4096 < l2 and y * y * 4096 < l2
    return b1


def oracle_ocs_ucs(acc, tw, U, g, n):
    V3, M = tw.V3, tw.M
    r = g.r
    X, Y, Z = V3(1, 0, 0), V3(0, 1, 0), V3(0, 0, 1)
    for _ in range(n):
        nv = g.extrusion()
        if not any(nv):
            continue
        acc.count("O5 OCS")
        rep = {"op": "ocs", "n": list(nv)}
        o = U.OCS(nv)
        az = V3(nv).normalize()
        ux, uy, uz = o.ux, o.uy, o.uz
        tol = 16 * EPS
        if o.transform:
            b1 = _unit_exact(nv)
            ref = (Y if b1 else Z).cross(az).normalize()
            if not ux.isclose(ref, abs_tol=1e-12):
                acc.fail(f"ocs/arbitrary-axis/{tw.name}/{_short(nv)}", f"OCS({nv}).ux = {tuple(ux)} but the arbitrary axis algorithm ({'Wy' if b1 else 'Wz'} x Az) gives {tuple(ref)}", rep)
            if not uz.isclose(az, abs_tol=1e-12):
                acc.fail(f"ocs/uz/{tw.name}/{_short(nv)}", f"OCS({nv}).uz = {tuple(uz)} != normalized extrusion", rep)
        else:
            if not az.isclose(Z, abs_tol=1e-9):
                acc.fail(f"ocs/no-transform/{tw.name}/{_short(nv)}", "OCS does not transform although the extrusion is not the z-axis", rep)
        for a, b in ((ux, uy), (ux, uz), (uy, uz)):
            if abs(a.dot(b)) > tol:
                acc.fail(f"ocs/orthogonal/{tw.name}/{_short(nv)}", f"OCS({nv}) axes not orthogonal: {a.dot(b)}", rep)
        for a in (ux, uy, uz):
            if abs(a.magnitude - 1) > tol:
                acc.fail(f"ocs/unit/{tw.name}/{_short(nv)}", f"OCS({nv}) axis not unit: {a.magnitude}", rep)
        if not ux.cross(uy).isclose(uz, abs_tol=1e-12):
            acc.fail(f"ocs/right-handed/{tw.name}/{_short(nv)}", f"OCS({nv}): ux x uy = {tuple(ux.cross(uy))} != uz {tuple(uz)}", rep)
        e = r.choice([-6, 0, 6])
        pts = [V3(_fl(g.v3(e))) for _ in range(4)]
        sc = 2.0 ** e * 256
        for p in pts:
            w = o.to_wcs(o.from_wcs(p))
            w2 = o.from_wcs(o.to_wcs(p))
            if not _close(w, p, 64 * EPS * sc) or not _close(w2, p, 64 * EPS * sc):
                acc.fail(f"ocs/roundtrip/{tw.name}/{_short(nv)}", f"OCS({nv}) round trip of {tuple(p)} gives {tuple(w)} / {tuple(w2)}", dict(rep, p=list(p)))
        if [tuple(v) for v in o.points_to_wcs(pts)] != [tuple(o.to_wcs(p)) for p in pts] or \
                [tuple(v) for v in o.points_from_wcs(pts)] != [tuple(o.from_wcs(p)) for p in pts]:
            acc.fail(f"ocs/batch/{tw.name}/{_short(nv)}", "points_to_wcs/points_from_wcs != single conversions", rep)
        # UCS built on the OCS frame, any origin: mutual inverses, batch = single, to_ocs consistent
        acc.count("O5 UCS")
        org = V3(_fl(g.v3(e)))
        u = U.UCS(origin=org, ux=ux, uy=uy, uz=uz)
        for p in pts:
            w = u.from_wcs(u.to_wcs(p))
            w2 = u.to_wcs(u.from_wcs(p))
            if not _close(w, p, 256 * EPS * sc) or not _close(w2, p, 256 * EPS * sc):
                acc.fail(f"ucs/roundtrip/{tw.name}/{_short(nv)}", f"UCS round trip of {tuple(p)} gives {tuple(w)} / {tuple(w2)}", dict(rep, p=list(p), origin=list(org)))
            d = u.direction_from_wcs(u.direction_to_wcs(p))
            if not _close(d, p, 256 * EPS * sc):
                acc.fail(f"ucs/direction-roundtrip/{tw.name}/{_short(nv)}", "UCS direction round trip", dict(rep, p=list(p)))
            via = U.OCS(u.uz).to_wcs(u.to_ocs(p))
            if not _close(via, u.to_wcs(p), 256 * EPS * sc):
                acc.fail(f"ucs/to_ocs/{tw.name}/{_short(nv)}", f"OCS(uz).to_wcs(ucs.to_ocs(p)) = {tuple(via)} != ucs.to_wcs(p) = {tuple(u.to_wcs(p))}", dict(rep, p=list(p), origin=list(org)))
        if [tuple(v) for v in u.points_to_wcs(pts)] != [tuple(u.to_wcs(p)) for p in pts] or \
                [tuple(v) for v in u.points_from_wcs(pts)] != [tuple(u.from_wcs(p)) for p in pts] or \
                [tuple(v) for v in u.points_to_ocs(pts)] != [tuple(u.to_ocs(p)) for p in pts]:
            acc.fail(f"ucs/batch/{tw.name}/{_short(nv)}", "UCS points_* != single conversions", rep)
        # missing-axis constructors agree with the full frame
        for kw, name in (({"ux": ux, "uy": uy}, "xy"), ({"ux": ux, "uz": uz}, "xz"), ({"uy": uy, "uz": uz}, "yz")):
            u2 = U.UCS(origin=org, **kw)
            if not (u2.ux.isclose(ux, abs_tol=1e-12) and u2.uy.isclose(uy, abs_tol=1e-12) and u2.uz.isclose(uz, abs_tol=1e-12)):
                acc.fail(f"ucs/missing-axis-{name}/{tw.name}/{_short(nv)}", f"UCS(origin, {name} axes) does not reconstruct the right-handed frame", rep)
        # transform(m) composes with to_wcs
        mt = M(_fl(g.affine(0, 3)))
        u3 = u.copy().transform(mt)
        for p in pts[:2]:
            if not _close(u3.to_wcs(p), mt.transform(u.to_wcs(p)), 1024 * EPS * sc * 64):
                acc.fail(f"ucs/transform/{tw.name}/{_short(nv)}", "ucs.transform(m).to_wcs(p) != m.transform(ucs.to_wcs(p))", dict(rep, p=list(p), M=list(mt)))
        # in-place mutators (transform / shift / moveto) after the object has been used: every derived conversion must equal
        # that of a freshly constructed UCS with the same frame (no stale cached state)
        us = u.copy()
        warm = (us.to_ocs(pts[0]), list(us.points_to_ocs(pts[:2])), us.ucs_direction_to_ocs_direction(pts[0]), us.to_ocs_angle_deg(30.0))
        rigid = M.axis_rotate((r.choice([1.0, 0.0, 2.0]), r.choice([1.0, 2.0, -1.0]), r.choice([0.5, 2.0, -2.0])), r.uniform(0.3, 2.8)) * \
            M.translate(float(g.dy(0, 4)), float(g.dy(0, 4)), float(g.dy(0, 4)))
        us.transform(rigid)
        us.shift((1.0, -2.0, 0.5))
        fresh = U.UCS(origin=us.origin, ux=us.ux, uy=us.uy, uz=us.uz)
        for p in pts[:3]:
            for name, fa, fb in (("to_ocs", us.to_ocs(p), fresh.to_ocs(p)), ("to_wcs", us.to_wcs(p), fresh.to_wcs(p)),
                                 ("from_wcs", us.from_wcs(p), fresh.from_wcs(p)),
                                 ("ucs_direction_to_ocs_direction", us.ucs_direction_to_ocs_direction(p), fresh.ucs_direction_to_ocs_direction(p)),
                                 ("points_to_ocs", next(iter(us.points_to_ocs([p]))), next(iter(fresh.points_to_ocs([p]))))):
                if not _close(fa, fb, 4096 * EPS * (sc + 16.0)):
                    acc.fail(f"ucs/stale-after-transform/{name}/{tw.name}/{_short(nv)}",
                             f"after to_ocs(); transform(m); shift(): ucs.{name}({tuple(p)}) = {tuple(fa)} but a fresh UCS with the same frame gives {tuple(fb)}",
                             dict(rep, p=list(p), M=list(rigid)))
        a1, a2 = us.to_ocs_angle_deg(30.0), fresh.to_ocs_angle_deg(30.0)
        if abs(math.remainder(a1 - a2, 360.0)) > 1e-6:
            acc.fail(f"ucs/stale-after-transform/to_ocs_angle_deg/{tw.name}/{_short(nv)}", f"to_ocs_angle_deg(30) = {a1} after transform, fresh UCS: {a2}", rep)
        ang = r.uniform(-3, 3)
        for rot in (u.rotate_local_x(ang), u.rotate_local_y(ang), u.rotate_local_z(ang), u.rotate((1, 2, 2), ang)):
            if not rot.is_cartesian or not _close(rot.origin, org, 0):
                acc.fail(f"ucs/rotate/{tw.name}/{_short(nv)}", "rotated UCS is not cartesian or moved its origin", dict(rep, angle=ang))


def oracle_vectors(acc, tw, g, n):
    V3, V2 = tw.V3, tw.V2
    r = g.r
    for _ in range(n):
        e = g.mag()
        a, b, c = (V3(_fl(g.v3(e, special=False))) for _ in range(3))
        acc.count("O6 vector identities")
        rep = {"op": "vec", "a": list(a), "b": list(b), "c": list(c)}
        k = tw.name
        if a.dot(b) != b.dot(a) or (a + b).dot(c) != a.dot(c) + b.dot(c):
            acc.fail(f"vec/dot/{k}/{_short(a)}", "dot not symmetric / additive on exact input", rep)
        x = a.cross(b)
        if x.dot(a) != 0 or x.dot(b) != 0 or tuple(x) != tuple(-(b.cross(a))):
            acc.fail(f"vec/cross/{k}/{_short(a)}", f"a x b = {tuple(x)} not perpendicular to a, b or not anti-commutative", rep)
        if x.magnitude_square != a.magnitude_square * b.magnitude_square - a.dot(b) ** 2:
            acc.fail(f"vec/lagrange/{k}/{_short(a)}", "Lagrange identity fails on exact input", rep)
        if tuple(a.lerp(b, 0)) != tuple(a) or tuple(a.lerp(b, 1)) != tuple(b) or tuple(a.lerp(b, 0.5)) != tuple((a + b) * 0.5):
            acc.fail(f"vec/lerp/{k}/{_short(a)}", f"lerp endpoints/midpoint: {tuple(a.lerp(b, 0))}, {tuple(a.lerp(b, 1))}", rep)
        if tuple(a - b) != tuple(-(b - a)) or tuple(a + b) != tuple(b + a) or tuple(a * 2.0) != tuple(2.0 * a) or tuple(a / 2.0) != tuple(a * 0.5):
            acc.fail(f"vec/arith/{k}/{_short(a)}", "+ - * / identities", rep)
        if tuple(tuple(a) + b) != tuple(a + b) or tuple(tuple(a) - b) != tuple(a - b):
            acc.fail(f"vec/reflected/{k}/{_short(a)}", "tuple + Vec3 / tuple - Vec3", rep)
        nrm = a.normalize()
        if abs(nrm.magnitude - 1) > 4 * EPS or not nrm.cross(a).isclose((0, 0, 0), abs_tol=8 * EPS * a.magnitude):
            acc.fail(f"vec/normalize/{k}/{_short(a)}", f"normalize: |n| = {nrm.magnitude}", rep)
        if abs(a.normalize(3.0).magnitude - 3) > 16 * EPS:
            acc.fail(f"vec/normalize-length/{k}/{_short(a)}", "normalize(length)", rep)
        ab = a.angle_between(b)
        if not (0 <= ab <= math.pi) or abs(ab - b.angle_between(a)) > 8 * EPS or abs(a.angle_between(a * 2.0)) > 1e-7:
            acc.fail(f"vec/angle_between/{k}/{_short(a)}", f"angle_between = {ab}", rep)
        th = r.uniform(-3, 3)
        rot = a.rotate(th)
        flat = V3(a.x, a.y, 0)
        if abs(rot.z - a.z) > 0 or abs(math.hypot(rot.x, rot.y) - math.hypot(a.x, a.y)) > 8 * EPS * math.hypot(a.x, a.y) or \
                abs(math.remainder(rot.angle - a.angle - th, math.tau)) > 32 * EPS:
            acc.fail(f"vec/rotate/{k}/{_short(a)}", f"rotate({th}) of {tuple(a)} = {tuple(rot)}", dict(rep, angle=th))
        if not _close(a.rotate_deg(90.0), a.orthogonal(), 16 * EPS * (abs(a.x) + abs(a.y))) or \
                not _close(a.rotate_deg(-90.0), a.orthogonal(ccw=False), 16 * EPS * (abs(a.x) + abs(a.y))):
            acc.fail(f"vec/orthogonal/{k}/{_short(a)}", "orthogonal() is not the rotation by 90 degrees", rep)
        pr = a.project(b)
        if abs((b - pr).dot(a)) > 64 * EPS * a.magnitude * b.magnitude * 4:
            acc.fail(f"vec/project/{k}/{_short(a)}", "b - project(b) is not perpendicular to a", rep)
        if abs(a.distance(b) - (a - b).magnitude) > 4 * EPS * (a.magnitude + b.magnitude):
            acc.fail(f"vec/distance/{k}/{_short(a)}", "distance != |a-b|", rep)
        if not a.isclose(a) or a.isclose(b) != b.isclose(a):
            acc.fail(f"vec/isclose/{k}/{_short(a)}", "isclose not reflexive / symmetric", rep)
        # equality, hashing, ordering on near-equal pairs
        d = V3(_fl(g.near(tuple(a))))
        f = V3(_fl(g.near(tuple(d))))
        acc.count("O6 ordering/eq/hash")
        rep2 = {"op": "order", "a": list(a), "d": list(d), "f": list(f)}
        eq = a == d
        if eq != (tuple(a) == tuple(d)) or (a == tuple(d)) != eq or (a != d) == eq:
            acc.fail(f"order/eq/{k}/{_short(a)}", "== is not component equality", rep2)
        if eq and hash(a) != hash(d):
            acc.fail(f"order/hash/{k}/{_short(a)}", "equal vectors with different hashes", rep2)
        if V3(0.0, -0.0, 0.0) != V3(0, 0, 0) or hash(V3(0.0, -0.0, 0.0)) != hash(V3(0, 0, 0)):
            acc.fail(f"order/hash-negzero/{k}", "-0.0 and 0.0 vectors: equal must imply same hash", rep2)
        if len({a, d, V3(tuple(a))}) != (1 if eq else 2):
            acc.fail(f"order/set/{k}/{_short(a)}", "set of vectors does not collapse equal ones", rep2)
        lt, gt = a < d, d < a
        if (lt + gt + eq) != 1:
            acc.fail(f"order/trichotomy/{k}/{_short(a)}|{_short(d)}", f"a={tuple(a)} d={tuple(d)}: a<d={lt}, d<a={gt}, a==d={eq}", rep2)
        if (a < d and d < f) and not (a < f):
            acc.fail(f"order/transitive/{k}/{_short(a)}", "a<d, d<f but not a<f", rep2)
        if lt != (tuple(a) < tuple(d)):
            acc.fail(f"order/lexicographic/{k}/{_short(a)}|{_short(d)}", f"a<d is {lt} but tuple order says {tuple(a) < tuple(d)}", rep2)
        p, q = V2(a.x, a.y), V2(d.x, d.y)
        if (p == q) != ((p.x, p.y) == (q.x, q.y)) or ((p < q) + (q < p) + (p == q)) != 1 or (p < q) != ((p.x, p.y) < (q.x, q.y)):
            acc.fail(f"order/vec2/{k}/{_short(p)}", "Vec2 ==/< inconsistent with the tuple order", rep2)
        if p == q and hash(p) != hash(q):
            acc.fail(f"order/vec2-hash/{k}/{_short(p)}", "equal Vec2 with different hashes", rep2)
        if p.det(q) != -q.det(p) or p.dot(q) != q.dot(p) or p.orthogonal().dot(p) != 0 or tuple(p.lerp(q, 0)) != tuple(p) or tuple(p.lerp(q, 1)) != tuple(q):
            acc.fail(f"vec/vec2-identities/{k}/{_short(p)}", "Vec2 det/dot/orthogonal/lerp identities", rep2)


def oracle_matrix_laws2(acc, tw, g, n):
    """session 3: inverse / transpose / determinant laws on the real code (both twins; the Python twin through NumPy)"""
    M = tw.M
    r = g.r
    ident = [1.0 if i % 5 == 0 else 0.0 for i in range(16)]
    ninf = lambda q: max(sum(abs(x) for x in list(q)[4 * k:4 * k + 4]) for k in range(4))
    for _ in range(n):
        A, B = g.unimodular() if r.random() < 0.5 else g.wellcond(), g.unimodular() if r.random() < 0.5 else g.wellcond()
        if _det(A) == 0 or _det(B) == 0:
            continue
        a, b = M(_fl(A)), M(_fl(B))
        rep = {"op": "laws2", "A": _fl(A), "B": _fl(B)}
        acc.count("O7 inverse/transpose laws")
        ia, ib, iab = M(_fl(A)), M(_fl(B)), a * b
        ia.inverse(); ib.inverse(); iab.inverse()
        want = ib * ia
        kap = ninf(a) * ninf(ia) * ninf(b) * ninf(ib)
        if _mat_err(iab, want) > 64 * EPS * kap * max(abs(x) for x in want):
            acc.fail(f"inverse/product/{tw.name}/{_short(_fl(A))}", f"(A*B).inverse() deviates from B.inverse()*A.inverse() by {_mat_err(iab, want):.3g}", rep)
        ch = M.chain(a, b, a)
        ch.inverse()
        want = ia * ib * ia
        if _mat_err(ch, want) > 256 * EPS * kap * ninf(a) * ninf(ia) * max(abs(x) for x in want):
            acc.fail(f"inverse/chain/{tw.name}/{_short(_fl(A))}", "chain(A,B,A).inverse() != A^-1 * B^-1 * A^-1", rep)
        # transpose laws are exact on dyadic input
        ta, tb, tab = M(_fl(A)), M(_fl(B)), a * b
        ta.transpose(); tb.transpose(); tab.transpose()
        if list(tab) != list(tb * ta):
            acc.fail(f"transpose/product/{tw.name}/{_short(_fl(A))}", "(A*B)^T != B^T * A^T on exact input", rep)
        if abs(ta.determinant() - a.determinant()) > 256 * EPS * float(_hadamard(A)):  # LU rounding scales with the Hadamard bound
            acc.fail(f"transpose/det/{tw.name}/{_short(_fl(A))}", f"det(A^T) = {ta.determinant()} != det(A) = {a.determinant()}", rep)
        d = float(_det(A) * _det(B))
        if abs((a * b).determinant() - d) > 256 * EPS * max(abs(d), float(_hadamard([Fr(x) for x in (a * b)]))):
            acc.fail(f"det/product/{tw.name}/{_short(_fl(A))}", f"det(A*B) = {(a * b).determinant()} but det A * det B = {d}", rep)
        tia = M(list(ta))
        tia.inverse()
        tt = M(list(ia))
        tt.transpose()
        if _mat_err(tia, tt) > 64 * EPS * ninf(a) * ninf(ia) * max(abs(x) for x in tt):
            acc.fail(f"inverse/transpose/{tw.name}/{_short(_fl(A))}", "(A^T)^-1 != (A^-1)^T", rep)
        # homogeneous factor: last column (0, 0, 0, w): det = w * det(3x3 block), multiplicative, det * det(inverse) = 1
        w = float(r.choice([2, -1, -4, 0.5, 0.125, -0.5]))
        Aw = list(_fl(g.unimodular()))
        Aw[15] = w
        aw, iw = M(Aw), M(Aw)
        iw.inverse()
        dw = float(_det([Fr(x) for x in Aw]))
        if abs(aw.determinant() - dw) > 64 * EPS * abs(dw) * 64 or abs(aw.determinant() * iw.determinant() - 1) > 1e-9 or \
                abs((aw * b).determinant() - dw * float(_det(B))) > 1e-9 * max(1.0, abs(dw * float(_det(B)))) * float(_hadamard(B)):
            acc.fail(f"det/homogeneous/{tw.name}/{_short(Aw)}/{w}", f"matrix with last column (0,0,0,{w}): determinant() = {aw.determinant()}, exact {dw}; det*det(inv) = {aw.determinant() * iw.determinant()}", dict(rep, Aw=Aw))
        # an affine matrix: the inverse undoes transform and stays affine
        v = _fl(g.v3(0))
        if A[3] == 0 and A[7] == 0 and A[11] == 0 and A[15] == 1:
            back = ia.transform(a.transform(v))
            sc = max([abs(x) for x in v] + [1.0]) * ninf(a) * ninf(ia)
            if not _close(back, v, 64 * EPS * sc) or not _close(list(ia)[3::4], [0.0, 0.0, 0.0, 1.0], 64 * EPS * ninf(a) * ninf(ia)):
                acc.fail(f"inverse/affine/{tw.name}/{_short(_fl(A))}", f"A^-1(A(v)) = {tuple(back)} != v or the inverse is not affine: 4th column {list(ia)[3::4]}", dict(rep, v=v))


def oracle_vec_construct(acc, tw, g, n):
    """session 3: is_parallel / isclose / division and the construct3d helpers on the real code"""
    V3 = tw.V3
    C = _construct3d(tw)
    r = g.r
    for _ in range(n):
        e = r.choice([-6, 0, 6])
        a, b, c = (V3(_fl(g.v3(e, special=False))) for _ in range(3))
        if not (any(a) and any(b) and any(c)):
            continue
        rep = {"op": "vec2", "a": list(a), "b": list(b), "c": list(c)}
        acc.count("O8 parallel/construct3d")
        k = float(g.dy(0, 5, nonzero=True))
        if not a.is_parallel(a * k) or a.is_parallel(a * k) != (a * k).is_parallel(a):
            acc.fail(f"vec/is_parallel-multiple/{tw.name}/{_short(a)}", f"{tuple(a)} is not parallel to its multiple by {k}", rep)
        if a.is_parallel(b) != b.is_parallel(a):
            acc.fail(f"vec/is_parallel-symmetric/{tw.name}/{_short(a)}", "is_parallel is not symmetric", rep)
        cr = a.cross(b)
        if cr.magnitude > 1e-3 * a.magnitude * b.magnitude and a.is_parallel(b):
            acc.fail(f"vec/is_parallel-false-positive/{tw.name}/{_short(a)}", f"{tuple(a)} and {tuple(b)} reported parallel", rep)
        for z in (V3(0, 0, 0),):
            try:
                a.is_parallel(z)
                raised = False
            except ZeroDivisionError:
                raised = True
            if not raised:  # both twins normalise the operands first (model: ZeroDivisionError)
                acc.fail(f"vec/is_parallel-null/{tw.name}", "is_parallel with the null vector did not raise ZeroDivisionError (twins / model differ)", rep)
        if tuple(a / 4.0) != tuple(a * 0.25) or tuple(2.0 * a) != tuple(a * 2.0):
            acc.fail(f"vec/div-rmul/{tw.name}/{_short(a)}", "a / 4 != a * 0.25 or 2 * a != a * 2", rep)
        try:
            a / 0.0
            acc.fail(f"vec/div-zero/{tw.name}", "division of a vector by 0.0 did not raise", rep)
        except ZeroDivisionError:
            pass
        # normal_vector_3p
        if cr.magnitude > 1e-6 * a.magnitude * b.magnitude:
            nrm = C.normal_vector_3p(c, c + a, c + b)
            tol = 64 * EPS
            if abs(nrm.magnitude - 1) > tol or abs(nrm.dot(a.normalize())) > 1e-9 or abs(nrm.dot(b.normalize())) > 1e-9 \
                    or nrm.dot(cr) <= 0 or not nrm.isclose(-C.normal_vector_3p(c, c + b, c + a), abs_tol=1e-12):
                acc.fail(f"construct/normal_vector_3p/{tw.name}/{_short(a)}", f"normal_vector_3p = {tuple(nrm)}: not the unit normal (b-a)x(c-a)", rep)
            # distance point - line against the cross product formula
            d = C.distance_point_line_3d(c, a, b)
            ab = b - a
            if ab.magnitude > 1e-6 * (a.magnitude + b.magnitude):
                want = (c - a).cross(ab).magnitude / ab.magnitude
                scale = (c - a).magnitude
                if abs(d - want) > 2.0 ** -20 * scale or d < 0:
                    acc.fail(f"construct/distance_point_line/{tw.name}/{_short(c)}", f"distance_point_line_3d = {d}, |(p-a)x(b-a)|/|b-a| = {want}", rep)
        try:
            C.distance_point_line_3d(c, a, a)
            acc.fail(f"construct/distance_point_line-degenerate/{tw.name}", "start == end did not raise ZeroDivisionError", rep)
        except ZeroDivisionError:
            pass
        # basic_transformation = scale, then z-rotation, then translation
        ang = r.choice([0.0, 0.5, -2.0, math.pi / 2, r.uniform(-7, 7)])
        mv = r.choice([tuple(b), (0.0, 0.0, 0.0), (1e-13, 0.0, 0.0)])
        sc = tuple(float(t) for t in g.v3(0, special=False))
        m = C.basic_transformation(mv, sc, ang)
        p = list(c)
        cs, sn = math.cos(ang), math.sin(ang)
        x, y, z = p[0] * sc[0], p[1] * sc[1], p[2] * sc[2]
        null = all(abs(t) <= 1e-12 for t in mv)
        want = (cs * x - sn * y + (0 if null else mv[0]), sn * x + cs * y + (0 if null else mv[1]), z + (0 if null else mv[2]))
        size = max([abs(t) for t in (x, y, z)] + [abs(t) for t in mv] + [1e-300])
        if not _close(m.transform(p), want, 16 * EPS * size):
            acc.fail(f"construct/basic_transformation/{tw.name}/{ang:.4g}", f"basic_transformation({mv}, {sc}, {ang}).transform({p}) = {tuple(m.transform(p))}, scale-rotate-translate gives {want}", dict(rep, angle=ang))


def oracle_ucs_objects(acc, tw, U, g, n):
    """session 3: in-place mutators, the six axis/point constructors and the frame predicates on real objects"""
    V3, M = tw.V3, tw.M
    r = g.r
    for _ in range(n):
        e = r.choice([-6, 0, 6])
        o, ax, w = (V3(_fl(g.v3(e, special=False))) for _ in range(3))
        d = V3(_fl(g.v3(e)))
        if ax.cross(w).magnitude <= 1e-6 * ax.magnitude * w.magnitude:
            continue
        pt = o + w
        rep = {"op": "ucsobj", "o": list(o), "axis": list(ax), "point": list(pt)}
        acc.count("O9 UCS objects")
        sc = 2.0 ** e * 256
        for name, named, zero in (("from_x_axis_and_point_in_xy", "ux", 2), ("from_x_axis_and_point_in_xz", "ux", 1),
                                  ("from_y_axis_and_point_in_xy", "uy", 2), ("from_y_axis_and_point_in_yz", "uy", 0),
                                  ("from_z_axis_and_point_in_xz", "uz", 1), ("from_z_axis_and_point_in_yz", "uz", 0)):
            u = getattr(U.UCS, name)(o, ax, pt)
            loc = u.from_wcs(pt)
            if not u.is_cartesian or not u.matrix.is_orthogonal:
                acc.fail(f"ucs/{name}/not-cartesian/{tw.name}/{_short(ax)}", f"UCS.{name} is not a right-handed orthonormal frame", rep)
            if not getattr(u, named).isclose(ax.normalize(), abs_tol=1e-12):
                acc.fail(f"ucs/{name}/axis/{tw.name}/{_short(ax)}", f"UCS.{name}: {named} = {tuple(getattr(u, named))} is not axis/|axis|", rep)
            if abs(loc[zero]) > 256 * EPS * sc or not u.origin.isclose(o, abs_tol=0):
                acc.fail(f"ucs/{name}/plane/{tw.name}/{_short(ax)}", f"UCS.{name}: the defining point has local coordinates {tuple(loc)} (component {zero} must be 0)", rep)
            dist = ax.cross(w).magnitude / ax.magnitude
            ni = {"ux": 0, "uy": 1, "uz": 2}[named]
            other = 3 - ni - zero
            if abs(abs(loc[other]) - dist) > 1024 * EPS * sc or abs(loc[ni] - w.dot(ax) / ax.magnitude) > 1024 * EPS * sc:
                acc.fail(f"ucs/{name}/coordinates/{tw.name}/{_short(ax)}", f"UCS.{name}: local coordinates of the defining point {tuple(loc)}; expected projection {w.dot(ax) / ax.magnitude} along {named} and distance {dist} from the axis", rep)
        # ALL THREE axes given, of any length ("normalization is done at initialization"): unit axes, conversions mutually
        # inverse, same frame as the two-axis form; a UCS scaled by transform() loses the scaling by copy()/rotate*()
        u0 = U.UCS.from_x_axis_and_point_in_xy(o, ax, pt)
        k1, k2, k3 = (abs(float(g.dy(r.choice([-6, 0, 6]), 4, nonzero=True))) for _ in range(3))
        u3 = U.UCS(origin=o, ux=u0.ux * k1, uy=u0.uy * k2, uz=u0.uz * k3)
        u2 = U.UCS(origin=o, ux=u0.ux * k1, uy=u0.uy * k2)
        us = u0.copy()
        us.transform(M.scale(3.0))
        for nm, uu in (("UCS(o, ux, uy, uz)", u3), ("scaled.copy()", us.copy()), ("scaled.rotate_local_z()", us.rotate_local_z(0.3)),
                       ("scaled.rotate()", us.rotate((1, 2, 2), 0.7))):
            p = V3(_fl(g.v3(e)))
            back = uu.from_wcs(uu.to_wcs(p))
            dback = uu.direction_from_wcs(uu.direction_to_wcs(p))
            tol = 1024 * EPS * (sc + abs(uu.origin.x) + abs(uu.origin.y) + abs(uu.origin.z))
            if any(abs(axv.magnitude - 1) > 64 * EPS for axv in (uu.ux, uu.uy, uu.uz)) or not _close(back, p, tol) or not _close(dback, p, tol):
                acc.fail(f"ucs/all-axes-normalized/{nm}/{tw.name}/{_short(ax)}",
                         f"{nm}: axis lengths {uu.ux.magnitude}, {uu.uy.magnitude}, {uu.uz.magnitude}; from_wcs(to_wcs({tuple(p)})) = {tuple(back)}",
                         dict(rep, k=[k1, k2, k3], p=list(p)))
        if not (u3.ux.isclose(u2.ux, abs_tol=1e-12) and u3.uy.isclose(u2.uy, abs_tol=1e-12) and u3.uz.isclose(u2.uz, abs_tol=1e-12)):
            acc.fail(f"ucs/all-axes-vs-two-axes/{tw.name}/{_short(ax)}", "UCS(o, ux, uy, uz) and UCS(o, ux, uy) give different frames for the same axes", rep)
        # growth round 2: rotate_local_z composes by angle addition; rotate() about any axis keeps the origin; to_ocs_angle_*
        # is the polar angle of the converted direction vector
        al, be = r.uniform(-3, 3), r.uniform(-3, 3)
        ra, rb = u0.rotate_local_z(al).rotate_local_z(be), u0.rotate_local_z(al + be)
        if not (ra.ux.isclose(rb.ux, abs_tol=1e-12) and ra.uy.isclose(rb.uy, abs_tol=1e-12) and ra.uz.isclose(u0.uz, abs_tol=1e-12)
                and ra.origin.isclose(u0.origin, abs_tol=0)):
            acc.fail(f"ucs/rotate_local_z-compose/{tw.name}/{al:.3g}", f"rotate_local_z({al}).rotate_local_z({be}) differs from rotate_local_z({al + be}) or moved the origin", dict(rep, angles=[al, be]))
        rr = u0.rotate(tuple(w), al)
        if tuple(rr.origin) != tuple(u0.origin) or not rr.is_cartesian:
            acc.fail(f"ucs/rotate-origin/{tw.name}/{_short(o)}", f"UCS(origin={tuple(u0.origin)}).rotate({tuple(w)}, {al}).origin = {tuple(rr.origin)}", dict(rep, angle=al))
        dv = u0.ucs_direction_to_ocs_direction(V3.from_angle(al))
        if abs(math.remainder(u0.to_ocs_angle_rad(al) - dv.angle, math.tau)) > 1e-12 or \
                abs(math.remainder(math.radians(u0.to_ocs_angle_deg(math.degrees(al))) - dv.angle, math.tau)) > 1e-9:
            acc.fail(f"ucs/to_ocs_angle/{tw.name}/{al:.3g}", "to_ocs_angle_rad/deg is not the polar angle of ucs_direction_to_ocs_direction(from_angle)", dict(rep, angle=al))
        # in-place mutators on one object
        u = U.UCS.from_x_axis_and_point_in_xy(o, ax, pt)
        ux, uy, uz, org = u.ux, u.uy, u.uz, u.origin
        same = u.shift(d)
        if same is not u or tuple(u.origin) != tuple(org + d) or (tuple(u.ux), tuple(u.uy), tuple(u.uz)) != (tuple(ux), tuple(uy), tuple(uz)):
            acc.fail(f"ucs/shift/{tw.name}/{_short(d)}", "shift(d): origin != origin + d, axes changed or not the same object", rep)
        same = u.moveto(d)
        if same is not u or tuple(u.origin) != tuple(d) or (tuple(u.ux), tuple(u.uy), tuple(u.uz)) != (tuple(ux), tuple(uy), tuple(uz)):
            acc.fail(f"ucs/moveto/{tw.name}/{_short(d)}", "moveto(d): origin != d, axes changed or not the same object", rep)
        mt = M(_fl(g.affine(0, 3)))
        before = M(list(u.matrix))
        same = u.transform(mt)
        if same is not u or list(u.matrix) != list(before * mt):
            acc.fail(f"ucs/transform-matrix/{tw.name}", "transform(m): matrix != matrix * m or not the same object", dict(rep, M=list(mt)))


def _guard(acc, fn, tw, g, name=None):
    """one oracle iteration; an exception escaping from the real code is itself a failing input"""
    import traceback
    try:
        fn(acc, tw, g, 1)
    except Exception as e:  # noqa
        tb = traceback.extract_tb(e.__traceback__)
        where = next((f"{os.path.basename(f.filename)}:{f.lineno}" for f in reversed(tb) if "ezdxf" in f.filename), "?")
        acc.fail(f"crash/{name or fn.__name__}/{tw.name}/{type(e).__name__}@{where}",
                 f"{name or fn.__name__}: {type(e).__name__}: {e} at {where}", {"op": "crash", "oracle": name or fn.__name__})


def run_oracles(twin: str, seed: int, quick: bool, ucsmod=None) -> dict:
    import random

    tw = Twin(twin)
    if ucsmod is None:
        import ezdxf.math.ucs as ucsmod
    acc = Acc(twin)
    k = 1 if quick else 25
    rng = lambda s: G(random.Random(f"{seed}/C11/oracle/{twin}/{s}"))
    plan = [(oracle_composition, "comp", 300), (oracle_batch, "batch", 200), (oracle_inverse, "inv", 300),
            (oracle_singular, "sing", 100), (oracle_factories, "fact", 200), (oracle_vectors, "vec", 400)]
    for fn, salt, n in plan:
        g = rng(salt)
        for _ in range(n * k):
            _guard(acc, fn, tw, g)
    g = rng("ocs")
    for _ in range(300 * k):
        _guard(acc, lambda a, t, gg, nn: oracle_ocs_ucs(a, t, ucsmod, gg, nn), tw, g, name="oracle_ocs_ucs")
    for fn, salt, n in ((oracle_matrix_laws2, "laws2", 200), (oracle_vec_construct, "vc", 200)):
        g = rng(salt)
        for _ in range(n * k):
            _guard(acc, fn, tw, g)
    g = rng("ucsobj")
    for _ in range(150 * k):
        _guard(acc, lambda a, t, gg, nn: oracle_ucs_objects(a, t, ucsmod, gg, nn), tw, g, name="oracle_ucs_objects")
    return {"fails": acc.fails, "counts": acc.counts}


ORACLES_UCS = {"all": lambda payload, tw, U: run_oracles("py", payload["seed"], payload["quick"], U)}


def oracle(ctx):
    import json

    results = []
    if have_cext():
        results.append(run_oracles("pyx", ctx.seed, ctx.quick))
        out = pure_python_worker(["o|all|" + json.dumps({"seed": ctx.seed, "quick": ctx.quick})])
        results.append(json.loads(out[0]))
        ctx.note("oracle: Cython twin in-process (ezdxf.math = C extension), pure-Python twin in a subprocess with "
                 "EZDXF_DISABLE_C_EXT=1 (whole library incl. ucs.py runs on the Python classes)")
    else:
        results.append(run_oracles("py", ctx.seed, ctx.quick))
    for res in results:
        for stream, (n, nt) in res["counts"].items():
            st = ctx.cov["streams"].setdefault(stream, {"evaluations": 0, "distinct_nontrivial": 0})
            st["evaluations"] += n
            st["distinct_nontrivial"] += nt
            ctx.cov["evaluations"] += n
            ctx.cov["distinct_nontrivial"] += nt
        for f in res["fails"]:
            ctx.fail(f["key"], f["what"], f["replay"])


def replay(ctx, rep):
    """re-evaluate the recorded failing inputs on the current tree"""
    import random
    bad = []
    for f in rep.get("failing_inputs", []):
        r = f["replay"]
        twin = r.get("twin", "pyx")
        if twin == "pyx" and not have_cext():
            twin = "py"
        tw = Twin(twin)
        M, V3 = tw.M, tw.V3
        try:
            op = r["op"]
            if op == "imulself":
                a = M(r["A"]); b = M(r["A"]); a *= a
                assert list(a) == list(b * b), "m *= m != m * m"
            elif op == "order":
                a, d = V3(r["a"]), V3(r["d"])
                assert ((a < d) + (d < a) + (a == d)) == 1 and (a < d) == (tuple(a) < tuple(d)), "ordering"
            elif op == "compose":
                a, b = M(r["A"]), M(r["B"])
                assert list((a * b).transform(r["v"])) == list(b.transform(a.transform(r["v"]))), "composition"
            elif op in ("inverse", "singular"):
                m = M(r["M"])
                try:
                    m.inverse()
                    assert op == "inverse", "singular matrix inverted"
                    i = M(r["M"])
                    assert _mat_err(i * m, [1.0 if k % 5 == 0 else 0.0 for k in range(16)]) < 1e-6, "M*inv(M) != I"
                except ZeroDivisionError:
                    assert op == "singular", "regular matrix raised"
            else:
                # generic: rerun the whole oracle family with the recorded seed is not possible input-wise; re-run all
                res = run_oracles(twin, rep.get("seed", 0), True)
                assert not any(x["key"] == f["key"] for x in res["fails"]), "still failing"
        except AssertionError as e:
            bad.append(f"{f['key']}: {e}")
    return (not bad, "; ".join(bad) or "all recorded failing inputs pass now")

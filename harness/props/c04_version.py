"""C04, version gates and required entries (Session 3): tables regenerated from the live registry + correspondence.

Called from harness/props/c04.py: regenerate(ctx), correspond(ctx), oracle(ctx).
Lean side: Model/DocVersion.lean (parametric model), Gen/DocVersionTables.lean (written here),
Lemmas/DocVersion.lean (theorems), Drivers/C04V.lean (line protocol)."""
from __future__ import annotations

import ast
import io
import re

import dxfparse
from leanfmt import lean_str

VERS = ["AC1009", "AC1015", "AC1018", "AC1021", "AC1024", "AC1027", "AC1032"]
NAMES = ["R12", "R2000", "R2004", "R2007", "R2010", "R2013", "R2018"]
VIDX = {v: i for i, v in enumerate(VERS)}
SRC = ["src/ezdxf/entities/dxfentity.py", "src/ezdxf/entities/factory.py", "src/ezdxf/sections/headervars.py",
       "src/ezdxf/sections/header.py", "src/ezdxf/sections/classes.py", "src/ezdxf/document.py"]

# independent knowledge (AutoCAD DXF reference): first DXF version in which the type / variable exists
INDEPENDENT_MIN = {
    "LWPOLYLINE": 1, "MTEXT": 1, "SPLINE": 1, "ELLIPSE": 1, "HATCH": 1, "IMAGE": 1, "LEADER": 1, "TOLERANCE": 1,
    "MLINE": 1, "XLINE": 1, "RAY": 1, "REGION": 1, "BODY": 1, "3DSOLID": 1, "DICTIONARY": 1, "LAYOUT": 1, "GROUP": 1,
    "XRECORD": 1, "MLINESTYLE": 1, "IMAGEDEF": 1, "WIPEOUT": 1, "ACAD_PROXY_ENTITY": 1, "OLE2FRAME": 1,
    "MESH": 1, "MULTILEADER": 1, "MLEADERSTYLE": 1, "HELIX": 1, "SUN": 1, "MATERIAL": 1, "VISUALSTYLE": 1,
    "ACAD_TABLE": 2, "SURFACE": 1, "UNDERLAY": 1, "PDFUNDERLAY": 1, "GEODATA": 1, "DIMASSOC": 1,
}
INDEPENDENT_HDR_MIN = {"$LASTSAVEDBY": 2, "$HANDSEED": 0, "$ACADVER": 0, "$CLAYER": 0, "$FINGERPRINTGUID": 1,
                       "$VERSIONGUID": 1, "$CTAB": 1, "$LWDISPLAY": 1, "$DIMASSOC": 2, "$SORTENTS": 2,
                       "$CAMERADISPLAY": 3, "$REALWORLDSCALE": 3}


def vi(v) -> int:
    return VIDX.get(v, 0 if v < "AC1015" else 6)


def tag_storage_types():
    """registered DXF types whose class is a DXFTagStorage subclass: ezdxf does not interpret them, it keeps their tags and re-writes
    them verbatim (that is property C02: a loaded R2004 file with an ACAD_TABLE must still contain it after load -> save).  Such a class
    has no version gate by design, so it is not part of the `independentMin` obligation; the one consequence (the stored record is also
    written after the user lowers doc.dxfversion below the version the type exists in) is reported by the oracle as finding
    `tag-storage-downgrade/<type>`."""
    from ezdxf.entities import factory
    from ezdxf.entities.dxfentity import DXFTagStorage
    return sorted(t for t, c in factory.ENTITY_CLASSES.items() if isinstance(c, type) and issubclass(c, DXFTagStorage))


def tables_from_registry():
    from ezdxf.entities import factory
    from ezdxf.sections.headervars import HEADER_VAR_MAP
    from ezdxf.sections import classes

    ents = sorted((t, vi(getattr(c, "MIN_DXF_VERSION_FOR_EXPORT", "AC1009"))) for t, c in factory.ENTITY_CLASSES.items())
    hvars = sorted(((n, vi(d.mindxf), min(6, vi(d.maxdxf)) if d.maxdxf <= "AC1032" else 6, d.priority) for n, d in HEADER_VAR_MAP.items()),
                   key=lambda x: (x[3], x[0]))
    defs = sorted(classes.CLASS_DEFINITIONS)
    req = [list(classes.REQUIRED_CLASSES.get(v, classes.REQ_R2004)) for v in VERS]
    return ents, hvars, defs, req


def co_classes(src_classes: str):
    """the `if "X" in dxf_types_in_use: self.add_class(...)` blocks of add_required_classes, from the AST"""
    tree = ast.parse(src_classes)
    out = []
    for node in ast.walk(tree):
        if isinstance(node, ast.FunctionDef) and node.name == "add_required_classes":
            for st in node.body:
                if isinstance(st, ast.If) and isinstance(st.test, ast.Compare) and isinstance(st.test.ops[0], ast.In) \
                        and isinstance(st.test.left, ast.Constant) and isinstance(st.test.left.value, str):
                    names = []
                    for b in st.body:
                        c = b.value
                        assert isinstance(c, ast.Call) and c.func.attr == "add_class", ast.dump(b)
                        names.append(c.args[0].value)
                    out.append((st.test.left.value, names))
            # shape check: required names first, then the co-class blocks, then every type in use
            kinds = [type(st).__name__ for st in node.body]
            assert kinds.count("For") == 2, kinds
    assert out, "add_required_classes: no co-class blocks found"
    return out


def custom_fallback(src_header: str):
    """HeaderSection.export_dxf: version guard of the fall-back that writes the custom properties when $LASTSAVEDBY is
    not written: ('none' | version index)"""
    tree = ast.parse(src_header)
    for node in ast.walk(tree):
        if isinstance(node, ast.FunctionDef) and node.name == "export_dxf":
            seg = ast.get_source_segment(src_header, node)
            if "custom_vars.write" not in seg:
                continue
            assert seg.count("custom_vars.write") in (1, 2), "export_dxf: unexpected number of custom_vars.write calls"
            if seg.count("custom_vars.write") == 1:
                return None
            for st in ast.walk(node):
                if isinstance(st, ast.If) and "custom_vars_written" in ast.get_source_segment(src_header, st.test):
                    test = ast.get_source_segment(src_header, st.test)
                    m = re.search(r"dxfversion\s*>=\s*const\.DXF(\w+)", test)
                    if m:
                        return NAMES.index("R" + m.group(1))
                    assert re.fullmatch(r"not\s+custom_vars_written", test.strip()), f"unsupported guard: {test}"
                    return 0
            raise AssertionError("fall-back branch of custom_vars.write not found")
    raise AssertionError("HeaderSection.export_dxf not found")


def lean_list(xs) -> str:
    return "[" + ", ".join(xs) + "]"


def regenerate(ctx):
    srcs = {p: ctx.src(p) for p in SRC}
    ents, hvars, defs, req = tables_from_registry()
    co = co_classes(srcs["src/ezdxf/sections/classes.py"])
    fb = custom_fallback(srcs["src/ezdxf/sections/header.py"])
    # the export gate itself: `if tagwriter.dxfversion < self.MIN_DXF_VERSION_FOR_EXPORT: return` must open export_dxf
    m = re.search(r"def export_dxf\(self, tagwriter[^\n]*\n(?:.*\n)*?\s+if tagwriter\.dxfversion < self\.MIN_DXF_VERSION_FOR_EXPORT:\n\s+return\n",
                  srcs["src/ezdxf/entities/dxfentity.py"])
    gate = bool(m)
    hv_gate = "vardef.mindxf <= dxfversion <= vardef.maxdxf" in srcs["src/ezdxf/sections/header.py"]
    cls_gate = bool(re.search(r"if dxfversion > DXF12:\n\s+self\.classes\.export_dxf\(tagwriter\)", srcs["src/ezdxf/document.py"]))
    text = "import EzdxfVerif.Model.DocVersion\nnamespace EzdxfVerif.DocVersion.Gen\nopen EzdxfVerif.DocVersion\n\n"
    text += "/-- MIN_DXF_VERSION_FOR_EXPORT of every registered DXF type (factory.ENTITY_CLASSES), version index 0..6 -/\n"
    text += "def entityMinVer : List (String × Nat) :=\n  " + lean_list(f"({lean_str(t)}, {v})" for t, v in ents) + "\n\n"
    text += "/-- HEADER_VAR_MAP: name, mindxf, maxdxf, priority -/\n"
    text += "def headerVars : List HVar :=\n  " + lean_list(f"⟨{lean_str(n)}, {a}, {b}, {p}⟩" for n, a, b, p in hvars) + "\n\n"
    text += "def classDefs : List String :=\n  " + lean_list(lean_str(n) for n in defs) + "\n\n"
    text += "/-- REQUIRED_CLASSES.get(version, REQ_R2004) per version index -/\n"
    text += "def reqClasses (v : Nat) : List String :=\n  match v with\n" + "".join(
        f"  | {i} => {lean_list(lean_str(n) for n in r)}\n" for i, r in enumerate(req)) + f"  | _ => {lean_list(lean_str(n) for n in req[-1])}\n\n"
    text += "/-- `if \"X\" in dxf_types_in_use: add_class(...)` blocks of add_required_classes (from the AST) -/\n"
    text += "def coClasses : List (String × List String) :=\n  " + lean_list(
        f"({lean_str(t)}, {lean_list(lean_str(n) for n in ns)})" for t, ns in co) + "\n\n"
    text += "/-- version guard of the custom-property fall-back in HeaderSection.export_dxf (from the AST) -/\n"
    text += f"def customFallback : Option Nat := {'none' if fb is None else f'some {fb}'}\n\n"
    text += f"/-- the three gates are present in the source as modelled -/\ndef entityGatePresent : Bool := {str(gate).lower()}\n"
    text += f"def headerGatePresent : Bool := {str(hv_gate).lower()}\ndef classesGatePresent : Bool := {str(cls_gate).lower()}\n\n"
    text += "/-- independent knowledge: first DXF version in which the type / header variable exists -/\n"
    text += "def independentMin : List (String × Nat) :=\n  " + lean_list(
        f"({lean_str(t)}, {v})" for t, v in sorted(INDEPENDENT_MIN.items()) if t in dict(ents) and t not in tag_storage_types()) + "\n"
    text += "/-- types kept as uninterpreted tag storage (C02): no version gate by design, not part of the obligation above -/\n"
    text += "def tagStorageTypes : List String :=\n  " + lean_list(lean_str(t) for t in tag_storage_types()) + "\n"
    text += "def independentHdrMin : List (String × Nat) :=\n  " + lean_list(
        f"({lean_str(t)}, {v})" for t, v in sorted(INDEPENDENT_HDR_MIN.items()) if t in {h[0] for h in hvars}) + "\n"
    text += "\nend EzdxfVerif.DocVersion.Gen\n"
    ctx.write_gen("DocVersionTables", text, SRC)
    ctx.note(f"version tables: {len(ents)} entity types, {len(hvars)} header variables, {len(defs)} class definitions, "
             f"{len(co)} co-class blocks, custom-property fall-back guard = {fb}")


# ------------------------------------------------------------------ correspondence
def sample_doc(version: str, rng, i: int):
    """a real document of `version` with many entity/object types, custom properties, deleted header variables"""
    import ezdxf

    doc = ezdxf.new(version, setup=(i % 3 == 0))
    msp = doc.modelspace()
    r12 = version == "R12"
    msp.add_line((0, 0), (1, 1))
    msp.add_circle((0, 0), 1)
    msp.add_text("t")
    msp.add_polyline2d([(0, 0), (1, 0)])
    msp.add_point((0, 0))
    blk = doc.blocks.new("B")
    blk.add_attdef("T", (0, 0))
    msp.add_blockref("B", (0, 0)).add_attrib("T", "v", (0, 0))
    adders = [
        lambda: msp.add_lwpolyline([(0, 0), (1, 0)]), lambda: msp.add_mtext("m"), lambda: msp.add_spline([(0, 0), (1, 1), (2, 0)]),
        lambda: msp.add_ellipse((0, 0), (1, 0), 0.5), lambda: msp.add_hatch(), lambda: msp.add_mesh(),
        lambda: msp.add_leader([(0, 0), (1, 1)]), lambda: msp.add_xline((0, 0), (1, 0)), lambda: msp.add_ray((0, 0), (1, 0)),
        lambda: msp.add_image(doc.add_image_def("x.png", (10, 10)), (0, 0), (1, 1)),
        lambda: msp.add_underlay(doc.add_underlay_def("x.pdf", "pdf"), (0, 0)),
        lambda: msp.add_wipeout([(0, 0), (1, 1)]), lambda: msp.add_mline([(0, 0), (1, 0)]),
        lambda: msp.add_helix(1, 1, 1), lambda: msp.add_3dsolid(), lambda: msp.add_region(), lambda: msp.add_body(),
        lambda: msp.add_extruded_surface(), lambda: msp.add_lofted_surface(), lambda: msp.add_revolved_surface(),
        lambda: msp.add_swept_surface(), lambda: msp.add_surface(),
        lambda: msp.add_multileader_mtext("Standard").build(insert=(0, 0)) if hasattr(msp, "add_multileader_mtext") else None,
        lambda: doc.groups.new("G"), lambda: msp.add_line((0, 0), (1, 0)).new_extension_dict().add_xrecord("X"),
        lambda: doc.materials.new("M"), lambda: msp.add_linear_dim(base=(0, 2), p1=(0, 0), p2=(3, 0)).render(),
    ]
    for f in rng.sample(adders, rng.randint(0, len(adders))):
        try:
            f()
        except Exception:  # noqa  (not every factory function is available for every version: R12 rejects most)
            pass
    for k in range(rng.choice([0, 0, 1, 2])):
        doc.header.custom_vars.append(f"K{k}", "v")
    for name in rng.sample(["$LASTSAVEDBY", "$CLAYER", "$LWDISPLAY", "$CTAB", "$DIMASSOC"], rng.randint(0, 3)):
        if name in doc.header:
            del doc.header[name]
    return doc


def observe(doc):
    """(types in use, header variable names stored, class names before writing, parsed file)"""
    in_use = sorted(doc.entitydb.dxf_types_in_use())
    stored = [n for n in doc.header.hdrvars]
    before = [c.dxf.name for c in doc.classes]
    ncustom = len(doc.header.custom_vars)
    s = io.StringIO()
    doc.write(s)
    tags = dxfparse.parse_ascii(s.getvalue())
    sections, _ = dxfparse.split_file(tags)
    sec = dict(sections)
    hdr = [t for r in sec["HEADER"] for t in r]
    names = [v for c, v in hdr if c == 9]
    classes = [next(v for c, v in r if c == 1) for r in sec.get("CLASSES", []) if dxfparse.rec_type(r) == "CLASS"]
    types = []
    for name in ("TABLES", "BLOCKS", "ENTITIES", "OBJECTS"):
        for r in sec.get(name, []):
            types.append(dxfparse.rec_type(r))
    return in_use, stored, before, ncustom, names, classes, types, "CLASSES" in sec


def correspond(ctx):
    rng = ctx.rng("c04v")
    cases = []
    for i in range(ctx.n(70, 700)):
        version = NAMES[i % 7]
        v = i % 7
        doc = sample_doc(version, rng, i)
        pre_stored = [n for n in doc.header.hdrvars]
        in_use0 = sorted(doc.entitydb.dxf_types_in_use())
        before = [c.dxf.name for c in doc.classes]
        in_use, stored, _, ncustom, names, classes, types, has_classes = observe(doc)
        # header: the variables stored at export time are those after _update_header_vars: ask the document again
        # (a variable whose value is None is skipped by `_write`: "will not be written, if not set")
        stored_now = [n for n, hv in doc.header.hdrvars.items() if hv.value is not None]
        std = [n for n in names if n not in ("$CUSTOMPROPERTYTAG", "$CUSTOMPROPERTY")]
        custom = int("$CUSTOMPROPERTYTAG" in names)
        cases.append((f"hdr|{v}|{' '.join(stored_now)}", " ".join(std), True))
        if ncustom:
            cases.append((f"custom|{v}|{' '.join(stored_now)}", str(custom), True))
        # classes: the types in use at export time (writing may create objects: ask after writing; idempotent)
        # the classes of the types in use are registered in the iteration order of a Python set: compared as sets,
        # the registered / required / companion part in order
        cases.append((f"cls|{v}|{' '.join(before)}|{' '.join(sorted(doc.entitydb.dxf_types_in_use()))}",
                      " ".join(sorted(classes)) if has_classes else "", True))
        cases.append((f"clsfix|{v}|{' '.join(before)}|", " ".join(classes[:fixed_len(v, before)]) if has_classes else "", True))
        # entity/object types: which of the types in use are in the file at all.  `preprocess_export` may drop an
        # entity that passes the gate (empty MESH, ACIS entity without data ...): those types are not compared
        written = sorted(set(types))
        cand = sorted(set(in_use) - {"CLASS"})
        cases.append((f"gate|{v}|{' '.join(cand)}",
                      " ".join(t for t in cand if t in written or (minimal_export(t, v) and (t in droppable() or t in not_in_file(v)))),
                      True))
        ctx.hist("X2 version gates", version)
    ctx.correspond("X2 version gates", "C04V", cases, build=["EzdxfVerif.Model.DocVersion", "Drivers.Proto"])


def not_in_file(v):
    """types that pass the entity gate but are not written because of the file structure: R12 has no BLOCK_RECORD
    table and no OBJECTS section (`Tables.export_dxf`, `Drawing.export_sections`)"""
    return {"BLOCK_RECORD"} if v == 0 else set()


_DROP = None


def droppable():
    global _DROP
    if _DROP is None:
        from ezdxf.entities import factory
        from ezdxf.entities.dxfentity import DXFEntity

        _DROP = {t for t, c in factory.ENTITY_CLASSES.items() if c.preprocess_export is not DXFEntity.preprocess_export}
    return _DROP


def fixed_len(v, before):
    """number of CLASS entries whose order is fixed: registered before + required names (with a definition)"""
    from ezdxf.sections import classes

    req = classes.REQUIRED_CLASSES.get(VERS[v], classes.REQ_R2004)
    names = list(before)
    for n in req:
        if n in classes.CLASS_DEFINITIONS and n not in names:
            names.append(n)
    return len(names)


def minimal_export(t, v):
    from ezdxf.entities import factory

    c = factory.ENTITY_CLASSES.get(t)
    return c is None or vi(getattr(c, "MIN_DXF_VERSION_FOR_EXPORT", "AC1009")) <= v


def oracle(ctx):
    """independent predicates on the real written file: nothing newer than the version (independent table)"""
    rng = ctx.rng("c04v-oracle")
    # tag-storage types (foreign content, C02) have no gate: after lowering doc.dxfversion the stored record is still written
    ents = dict(tables_from_registry()[0])
    for t in tag_storage_types():
        need = INDEPENDENT_MIN.get(t, 0)
        if need > ents.get(t, 0):
            ctx.count("O4 version gates", ("tag-storage", t), True)
            ctx.fail(f"tag-storage-downgrade/{t}", f"a loaded {t} (kept as tag storage, exists since {NAMES[need]}) is written verbatim "
                     f"after doc.dxfversion is lowered below {NAMES[need]} (registered class has MIN_DXF_VERSION_FOR_EXPORT = {NAMES[ents.get(t, 0)]})",
                     {"op": "tag-storage-downgrade", "type": t})
    for i in range(ctx.n(35, 350)):
        version = NAMES[i % 7]
        v = i % 7
        doc = sample_doc(version, rng, i + 1000)
        _, _, _, ncustom, names, classes, types, has_classes = observe(doc)
        rep = {"op": "version-doc", "i": i, "version": version}
        ctx.count("O4 version gates", (i, version), True)
        for t in set(types):
            if INDEPENDENT_MIN.get(t, 0) > v:
                ctx.fail(f"file/{version}/ascii/type {t} newer than version", f"{version}: {t} (exists since {NAMES[INDEPENDENT_MIN[t]]}) is in the file", rep)
        for n in names:
            need = 2 if n.startswith("$CUSTOMPROPERTY") else INDEPENDENT_HDR_MIN.get(n, 0)
            if need > v:
                ctx.fail(f"file/{version}/ascii/header variable {n} needs", f"{version}: header variable {n} needs {NAMES[need]}", rep)
        if v == 0 and (has_classes or "OBJECTS" in types):
            ctx.fail(f"file/{version}/ascii/CLASSES in R12", f"{version}: CLASSES/OBJECTS section in an R12 file", rep)
        if v >= 1:
            from ezdxf.sections import classes as cmod
            for t in set(types):
                if t in cmod.CLASS_DEFINITIONS and t not in classes:
                    ctx.fail(f"file/{version}/ascii/CLASS entry missing {t}", f"{version}: {t} is written but has no CLASS entry", rep)

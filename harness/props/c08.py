"""C08  All readers agree on the output of all writers (DESIGN.md section 7, C08)."""
from __future__ import annotations

import io
import logging
import os
import random
import signal

from leanfmt import lean_list, lean_str

ID = "C08"
LEAN_MODULES = ["EzdxfVerif.Props.C08"]
DRIVER_DEPS = ["EzdxfVerif.Model.Readers", "EzdxfVerif.Model.ReadersWrite", "EzdxfVerif.Model.ReadersDetect", "EzdxfVerif.Model.ReadersLines", "EzdxfVerif.Model.ReadersRepair", "EzdxfVerif.Model.ReadersSniff", "EzdxfVerif.Model.ReadersRecVer", "EzdxfVerif.Model.ReadersFilter", "EzdxfVerif.Model.ReadersLoad", "EzdxfVerif.Gen.ReaderTables", "Drivers.Proto"]
RULE = (
    "correspondence (real code vs Lean model, one line protocol driver): X1 2500/40000 generated ASCII tag streams "
    "(well-formed 60 %, else a structural fault: missing/duplicate/shuffled sections, dropped SECTION/ENDSEC/EOF/name tags, "
    "padded or lower-case structure tags, 999 comments, entities outside sections or behind EOF, tags in front of the "
    "first entity, group codes > 1071, header variables without value; paperspace flags; POLYLINE/INSERT structures "
    "complete, open, with wrong or unsupported entities inside; TEXT values with leading/trailing white space; LF, CRLF or "
    "mixed line ends) through the five real readers (ezdxf.read/readfile, the recover front end, iterdxf.modelspace, "
    "single_pass_modelspace, opendxf().modelspace()) vs the five reader models: result = type, handle, linked sub-entity "
    "handles, SEQEND and TEXT content per modelspace entity, or the exception class; X2 JSONTagWriter / json_tag_loader / "
    "TagWriter+ascii_tags_loader on random compiled tag lists vs jsonWrite/jsonLoad/asciiLoad; X3 the tag stream of random "
    "r12writer call sequences vs r12File; X4 the group structure of files written by the real iterdxf exporter vs "
    "exportFile; X5 the model's decidable FileWF' on real Drawing.write output (42/500 generated documents: many-entity "
    "generator and dochist histories, 7 versions); X6 the writer model: the sections and entity spaces of the same documents "
    "exported ONE BY ONE through their own export_dxf, assembled by the model's writeDoc, must equal the file the real "
    "Drawing.write produced tag for tag, satisfy the local predicate DocOK and flagsOK, and pass recover's re-ordering "
    "filter unchanged; X7 the five real readers on these real files, on the files the real iterdxf exporter makes of them "
    "(mixed line ends) and on the real r12export output vs the reader models on their tags (r12writer files: in X3); "
    "line ends other than LF go through ezdxf.readfile, whose sniffer is_dxf_stream is part of the model (strictf); X8 1500/30000 "
    "generated headers (variables in any order, duplicated, with wrong value codes, comments in front of the value, names "
    "without value, no / second / two HEADER sections, variables outside the header) through dxf_file_info, "
    "fileindex.load, single_pass_modelspace (encoding seen through a probe TEXT every supported encoding decodes "
    "differently), recover.detect_encoding and Recover.run().dxfversion vs dxfInfo/indexInfo/spInfo/recoverEnc/recoverVersion; X9 600/8000 generated Binary DXF "
    "headers (both group code widths, 3- and 4-digit and odd code page names, variables beyond byte 1024, look-alike names, "
    "truncated values) through binary_tags_loader (probe tag) vs binScan; X10 2500/40000 byte strings (LF/CRLF/mixed, "
    "lone CR as line end or inside a value, values ending with CR, no final newline, odd line count, blank / non-numeric / "
    "padded code lines, 3000-character values) through ascii_tags_loader on a text-mode stream, recover.bytes_loader and "
    "iterdxf.binary_tagger vs tagsText/tagsBytesLoader/tagsBinTagger; X11 1200/20000 raw tag streams (LINE and other "
    "entities with canonical, legacy x1 x2 y1 y2, shuffled, missing, duplicated or split coordinates, with and without a "
    "closing structure tag) through repair.tag_reorder_layer vs tagReorderLayer; X12 the r12export writer model: the parts of a "
    "real R12Exporter run (layouts, blocks, header, tables, in the order to_string produces them) assembled by "
    "r12exportFile must equal the real r12export output tag for tag and satisfy DocOK; X13 the byte offsets fileindex.load "
    "records for the structure tags (what IterDXF.load_entities seeks to) of generated files with LF/CRLF/mixed line ends "
    "vs locationOf; X14 the BYTES the real iterdxf exporter writes for source files with LF/CRLF/mixed line ends vs "
    "exportBytes (prefix and OBJECTS section copied verbatim, written entities with LF, ENDSEC and EOF with CRLF). non-trivial = a non-empty result, an "
    "error or a decision other than the default; distinct by hash of the request. oracle (real code only): O1 generated "
    "documents (API histories of gen/dochist.gen_rich and a many-entity-type generator with code page / UTF-8 text, special "
    "characters and extreme coordinates, 7 DXF versions, 14 code pages) written by Drawing.write ASCII (LF and CRLF), "
    "binary, JSON tags (compact, verbose), the iterdxf exporter and r12export, each output read by every reader of its "
    "format (ezdxf.readfile, ezdxf.read, recover.readfile, recover.read, load_json_tags, iterdxf.modelspace, "
    "single_pass_modelspace, opendxf().modelspace()): snapshots (type, order, every existing DXF attribute, exported "
    "content tags, linked sub-entities) compared pairwise for exact equality and with the source document; the written "
    "files are checked for well-formedness by the harness-owned parser; O2 r12writer call sequences (ASCII and binary) "
    "read by every reader and compared with the input rounded to 6 decimals (Decimal, half-even, exact binary value); O3 "
    "reader purity on every O1 document: a read with a types filter (list / iterator / set) returns exactly the unfiltered "
    "entities of these types, an unfiltered read after filtered reads returns what it returned before, "
    "iterdxf.SUPPORTED_TYPES is unchanged. All formats of a document are written from the state after a first, discarded "
    "write (Drawing.write may change the document; recorded as an observation)."
)
TRUSTED_BASE = [
    "tag level model: values are strings as the low level loaders deliver them; text decoding (C09), value typing and point "
    "compilation (C03) and the attribute loading of factory.load (C01) are outside the model",
    "Cfg abstracts what the readers take from a loaded entity (paperspace flag, owner priority, attribs_follow, bool(entity)); "
    "the driver instantiates it by the first 67/330/66 tag of the entity",
    "the content of the records a document exports (DocW: section bodies, entity tags) is an input of the writer model; its "
    "local well-formedness DocOK and the paperspace flags flagsOK are hypotheses of writers_wf / write_then_read_agree, "
    "evaluated on the records of real documents by the correspondence X6 (not proved from the entity classes: C01/C04)",
    "line level: int() is modelled for non-negative decimal group codes with ASCII white space around them (no sign, no "
    "underscore, no non-ASCII white space); bytes are code points 0‥255",
    "Binary DXF scan: bytes of names and values are ASCII (the model decodes byte = code point)",
    "harness/dxfparse.py (independent ASCII DXF reader) for the structure correspondences X3-X7 and the oracle's file check",
    "CPython: readline()/universal newlines, json.loads, Decimal.quantize as the reference for round(x, 6), codecs.lookup for "
    "the canonical codec names",
]
ASSUMPTIONS = [
    "every format of an oracle document is produced from the settled in-memory state (after writes until two consecutive "
    "ENTITIES sections are equal): the property compares readers on the same content; that the first Drawing.write may "
    "change the document (GROUP with members in several layouts) is recorded as an observation, not judged here",
    "generated values contain no line breaks (a string value with CR/LF is not a valid DXF value: C04/C09); lone_cr_differs "
    "states what the line splitters do with such values",
    "r12writer: line types / text styles other than the defaults only together with fixed_tables=True (otherwise recover's "
    "audit resets the undefined references, which is its job)",
    "the recover model covers the front end (line splitting, coordinate re-ordering filter, encoding detection, sections, "
    "ENTITIES grouping, linking); the audit that follows in recover.read is exercised by the oracle only",
    "detect_agree needs at most five occurrences of the five variables dxf_info counts ($ACADVER, $DWGCODEPAGE, $HANDSEED, "
    "$INSUNITS, $INSBASE) - true for every header written from ezdxf's HeaderSection (a dict); detect_differs shows the "
    "disagreement beyond that",
]
OPEN = [
    "readers_agree needs every modelspace entity to be truthy and single_pass with the ENDSEC fix: the proved statements for "
    "the other settings of the regenerated probes are single_pass_current and iter_agrees/index_agrees (truthy filter); "
    "counterexample theorems single_pass_loses_last_entity, falsy_entity_dropped, export_duplicates_subs",
    "writers_wf and the composition with all five readers are proved from LOCAL conditions for every writer of the shape "
    "fileOf pre es post (parts_read_agree; instances write_then_read_agree, export_read_agree, r12_read_agree, "
    "r12export_read_agree). The entity part of DocOK is reduced to conditions on single attribute tags for the generic export "
    "path (generic_record_ok, generic_linked_ok, gen_base_class_codes; tie X17: the three export parts of real entities); that "
    "export_entity of every entity class only writes attribute tags (code != 0, <= 1071, != 999) is checked on real "
    "entities (X6, X17), not proved per class (C01 territory); r12export: "
    "r12export_structure reduces it to the same writer model (gen_r12export_order), the records its converters emit are "
    "checked on real output (X12), not proved",
    "JSON is composed with the reader theorems (json_read_agrees, write_then_read_agree_json: load_json_tags = Drawing.load "
    "behind json_tag_loader, tie X16); the Binary DXF byte codec (C03's bin_file_roundtrip_all works on typed BTag values) is "
    "not composed inside Lean: it needs the value typing of tag_compiler, which the tag-level model leaves abstract; Binary DXF: scan_params is modelled (bin_scan_codepage for the value, findSub for the 1024-byte "
    "window), the tag loop behind it is C03's",
    "no reader handles a byte order mark (bom_differs); recover's version decision is modelled (recover_version_agrees, "
    "recover_version_on_written_file) but "
    "not what follows from it inside recover (removal of CLASSES/OBJECTS for R12, table rebuild)",
    "text decoding with the decided encoding, and recover's automatic \\U+XXXX decoding (known finding F7, re-examined: "
    "decoding in the strict loader would change documented behaviour for every file that contains the literal text - no "
    "small safe fix) are outside the tag-level model",
]

SRCS = [
    "src/ezdxf/addons/iterdxf.py", "src/ezdxf/lldxf/fileindex.py", "src/ezdxf/lldxf/loader.py", "src/ezdxf/lldxf/tagger.py",
    "src/ezdxf/lldxf/tags.py", "src/ezdxf/entities/subentity.py", "src/ezdxf/sections/entities.py", "src/ezdxf/recover.py",
    "src/ezdxf/lldxf/const.py", "src/ezdxf/lldxf/types.py", "src/ezdxf/lldxf/tagwriter.py", "src/ezdxf/addons/r12writer.py",
    "src/ezdxf/document.py", "src/ezdxf/entitydb.py", "src/ezdxf/filemanagement.py", "src/ezdxf/lldxf/validator.py",
    "src/ezdxf/tools/codepage.py", "src/ezdxf/lldxf/repair.py", "src/ezdxf/addons/r12export.py", "src/ezdxf/entities/dxfentity.py",
]


# ------------------------------------------------------------------ regenerate
def _probe_single_pass_flush() -> bool:
    """does single_pass_modelspace deliver the last entity of the ENTITIES section?"""
    from ezdxf.addons import iterdxf

    data = b"0\nSECTION\n2\nENTITIES\n0\nLINE\n8\n0\n10\n0\n20\n0\n11\n1\n21\n1\n0\nENDSEC\n0\nEOF\n"
    n = len(list(iterdxf.single_pass_modelspace(io.BytesIO(data))))
    if n not in (0, 1):
        raise ValueError("single_pass_modelspace probe: unexpected entity count %d" % n)
    return n == 1


def _probe_yields_falsy(tmp: str) -> bool:
    """does iterdxf.modelspace deliver a POLYLINE without vertices (an entity with bool(entity) == False)?"""
    from ezdxf.addons import iterdxf

    p = os.path.join(tmp, "probe2.dxf")
    with open(p, "wb") as fp:
        fp.write(b"0\nSECTION\n2\nENTITIES\n0\nPOLYLINE\n8\n0\n66\n1\n10\n0\n20\n0\n30\n0\n70\n0\n0\nSEQEND\n8\n0\n"
                 b"0\nLINE\n8\n0\n10\n0\n20\n0\n11\n1\n21\n1\n0\nENDSEC\n0\nEOF\n")
    types = [e.dxftype() for e in iterdxf.modelspace(p)]
    if types not in (["LINE"], ["POLYLINE", "LINE"]):
        raise ValueError("iterdxf.modelspace probe: unexpected result %r" % types)
    return len(types) == 2


def _probe_filter_drops_implicit(tmp: str) -> bool:
    """iterdxf.modelspace(types=["POLYLINE"]) on a file with INSERT + ATTRIB + SEQEND in front of a POLYLINE: is the SEQEND of
    the skipped INSERT kept back (True) or delivered as a stand-alone entity (False)?"""
    from ezdxf.addons import iterdxf

    p = os.path.join(tmp, "probe3.dxf")
    with open(p, "wb") as fp:
        fp.write(b"0\nSECTION\n2\nENTITIES\n0\nINSERT\n8\n0\n66\n1\n2\nB\n10\n0\n20\n0\n30\n0\n0\nATTRIB\n8\n0\n10\n0\n20\n0\n30\n0\n40\n1\n"
                 b"1\nv\n2\nT\n0\nSEQEND\n8\n0\n0\nPOLYLINE\n8\n0\n66\n1\n10\n0\n20\n0\n30\n0\n70\n0\n0\nVERTEX\n8\n0\n10\n1\n20\n1\n30\n0\n"
                 b"0\nSEQEND\n8\n0\n0\nENDSEC\n0\nEOF\n")
    types = [e.dxftype() for e in iterdxf.modelspace(p, types=["POLYLINE"])]
    if types not in (["POLYLINE"], ["SEQEND", "POLYLINE"]):
        raise ValueError("iterdxf.modelspace(types=['POLYLINE']) probe: unexpected result %r" % types)
    return types == ["POLYLINE"]


def _probe_max_code(tmp: str) -> int:
    from ezdxf.lldxf import fileindex
    from ezdxf.lldxf.const import DXFStructureError

    def ok(code):
        p = os.path.join(tmp, "probe.dxf")
        with open(p, "wb") as fp:
            fp.write(b"0\nSECTION\n2\nENTITIES\n0\nLINE\n%d\nx\n0\nENDSEC\n0\nEOF\n" % code)
        try:
            fileindex.load(p)
            return True
        except DXFStructureError:
            return False

    good = [c for c in range(0, 1200) if ok(c)]
    if good != list(range(0, good[-1] + 1)):
        raise ValueError("fileindex.load accepts a non-contiguous set of group codes")
    return good[-1]


def _export_order():
    """statement order of Drawing.export_sections and EntitySection.export_dxf, extracted from the AST of the CURRENT
    source; a statement the extractor does not know is recorded as `?<source>` (the theorem gen_export_order then fails
    and the writer model has to be brought up to date)"""
    import ast
    import inspect
    import textwrap

    from ezdxf.document import Drawing
    from ezdxf.sections.entities import EntitySection

    def self_attr(node):
        # self.<name>
        return node.attr if isinstance(node, ast.Attribute) and isinstance(node.value, ast.Name) and node.value.id == "self" else None

    def stmt(st, prefix=""):
        if isinstance(st, ast.Expr) and isinstance(st.value, ast.Constant):
            return []          # docstring
        if isinstance(st, ast.Assign) or isinstance(st, ast.Assert):
            return []
        if isinstance(st, ast.Expr) and isinstance(st.value, ast.Call):
            f = st.value.func
            if isinstance(f, ast.Attribute) and f.attr == "export_dxf":
                tgt = f.value
                name = self_attr(tgt)
                if name:
                    return [prefix + name]
                if isinstance(tgt, ast.Name):
                    return [prefix + tgt.id]
                # layouts.modelspace().entity_space.export_dxf(tagwriter)
                if isinstance(tgt, ast.Attribute) and tgt.attr == "entity_space" and isinstance(tgt.value, ast.Call) \
                        and isinstance(tgt.value.func, ast.Attribute):
                    return [prefix + tgt.value.func.attr]
            if isinstance(f, ast.Attribute) and f.attr == "write_tag2" and len(st.value.args) == 2 \
                    and all(isinstance(a, ast.Constant) for a in st.value.args):
                return [prefix + "tag:%s,%s" % (st.value.args[0].value, st.value.args[1].value)]
            if isinstance(f, ast.Attribute) and f.attr == "write_str" and len(st.value.args) == 1 \
                    and isinstance(st.value.args[0], ast.Constant):
                return [prefix + "str:" + st.value.args[0].value.replace("\n", "/")]
        if isinstance(st, ast.If) and not st.orelse:
            t = st.test
            if isinstance(t, ast.Compare) and len(t.ops) == 1 and isinstance(t.ops[0], ast.Gt) \
                    and isinstance(t.left, ast.Name) and t.left.id == "dxfversion" \
                    and isinstance(t.comparators[0], ast.Name) and t.comparators[0].id == "DXF12":
                return [x for b in st.body for x in stmt(b, prefix + ">R12:")]
            if isinstance(t, ast.Attribute) and t.attr == "is_valid" and self_attr(t.value):
                return [x for b in st.body for x in stmt(b, prefix + "valid:")]
        if isinstance(st, ast.For) and not st.orelse and self_attr(st.iter) and len(st.body) == 1:
            inner = stmt(st.body[0], "")
            if inner == [st.target.id if isinstance(st.target, ast.Name) else "?"]:
                return [prefix + "each:" + self_attr(st.iter)]
        return [prefix + "?" + ast.unparse(st)[:60]]

    def order(fn):
        tree = ast.parse(textwrap.dedent(inspect.getsource(fn))).body[0]
        return [x for st in tree.body for x in stmt(st)]

    return order(Drawing.export_sections), order(EntitySection.export_dxf)


def _btag(r12: bool, code: int, val: bytes) -> bytes:
    import struct

    return (bytes([code]) if r12 else struct.pack("<H", code)) + val + b"\0"


BIN_SENTINEL = b"AutoCAD Binary DXF\r\n\x1a\x00"
_PROBE = None


def probe_bytes():
    """(bytes, {decoded text: encoding}) : a byte string every supported encoding decodes differently"""
    global _PROBE
    if _PROBE is None:
        from ezdxf.tools import codepage

        encs = sorted(set(codepage.codepage_to_encoding.values()) | {"utf-8"})
        rnd = random.Random(8)
        while True:
            b = bytes(rnd.choice(range(0xA1, 0xFF)) for _ in range(8))
            dec = {}
            for e in encs:
                dec.setdefault(b.decode(e, "surrogateescape"), e)
            if len(dec) == len(encs):
                _PROBE = (b, dec)
                break
    return _PROBE


def _bin_encoding(data: bytes) -> str:
    """the text encoding binary_tags_loader chose for `data`, seen through the decoded probe tag (the last code-1 tag)"""
    from ezdxf.lldxf.tagger import binary_tags_loader

    pb, dec = probe_bytes()
    try:
        vals = [t.value for t in binary_tags_loader(data) if t.code == 1]
    except IndexError:
        return "err"
    except Exception as ex:  # noqa
        return "other:" + type(ex).__name__
    return dec.get(vals[-1], "?") if vals else "?"


def _probe_bin_scan_full() -> bool:
    pb, _ = probe_bytes()
    data = (BIN_SENTINEL + _btag(True, 0, b"SECTION") + _btag(True, 2, b"HEADER") + _btag(True, 9, b"$ACADVER")
            + _btag(True, 1, b"AC1009") + _btag(True, 9, b"$DWGCODEPAGE") + _btag(True, 3, b"ANSI_932") + _btag(True, 1, pb))
    enc = _bin_encoding(data)
    if enc not in ("cp932", "cp1252"):
        raise ValueError("binary_tags_loader probe: unexpected encoding %r" % enc)
    return enc == "cp932"


R12_ITER_ARGS = {"vertices": [(0, 0, 0), (1, 0, 0), (1, 1, 0), (0, 1, 0)], "points": [(0, 0), (1, 1)], "faces": [(0, 1, 2)]}


def r12_iterable_params():
    """every add_* method of R12FastStreamWriter with its parameters annotated as Iterable (from the live signatures)"""
    import inspect

    from ezdxf.addons.r12writer import R12FastStreamWriter

    out = []
    for name, fn in inspect.getmembers(R12FastStreamWriter, inspect.isfunction):
        if name.startswith("add_"):
            its = [p for p, v in inspect.signature(fn).parameters.items() if "Iterable" in str(v.annotation)]
            if its:
                out.append((name, its))
    return out


def _probe_r12_iterables():
    """how often does each add_* method start an iteration over each of its Iterable arguments?  (a generator survives
    exactly one; the probe object counts the __iter__ calls and the output must be the one of the list argument)"""
    from ezdxf.addons.r12writer import r12writer

    class Once:
        def __init__(self, data):
            self.data, self.n = list(data), 0

        def __iter__(self):
            self.n += 1
            return iter(self.data)

    table = []
    for name, its in r12_iterable_params():
        for p in its:
            if p not in R12_ITER_ARGS:
                raise ValueError(f"r12writer.{name}: no probe value for the Iterable parameter {p!r}")

        def run(wrap):
            sio = io.StringIO()
            with r12writer(sio) as w:
                kw = {p: wrap(R12_ITER_ARGS[p]) for p in its}
                objs = dict(kw)
                if name == "add_polymesh":
                    kw["size"] = (2, 2)
                getattr(w, name)(**kw)
            return sio.getvalue(), objs

        ref, _ = run(list)
        got, objs = run(Once)
        if got != ref:
            raise ValueError(f"r12writer.{name}: output for a re-iterable object differs from the output for a list")
        for p in its:
            table.append((name, p, objs[p].n))
    return table


def _probe_base_class_codes():
    """the group codes DXFEntity.export_base_class writes for a plain entity with appdata, extension dictionary and
    reactors (R2000+ branch) and for R12 with handles: the record head of the generic export path"""
    import ezdxf
    from ezdxf.lldxf.tagwriter import TagCollector

    _quiet()
    out = {}
    for ver in ("R2000", "R12"):
        doc = ezdxf.new(ver)
        e = doc.modelspace().add_line((0, 0), (1, 1))
        if ver == "R2000":
            e.set_app_data("VERIF", [(1, "x")])
            e.new_extension_dict()
            e.set_reactors(["FF"])
        c = TagCollector(dxfversion=doc.dxfversion, write_handles=True)
        e.export_base_class(c)
        out[ver] = [int(t.code) for t in c.tags]
    return out["R2000"], out["R12"]


def _r12export_order():
    """statement order of R12Exporter.to_string (the joined parts) and export_layouts_to_string, from the AST"""
    import ast
    import inspect
    import textwrap

    from ezdxf.addons.r12export import R12Exporter

    def fn_tree(fn):
        return ast.parse(textwrap.dedent(inspect.getsource(fn))).body[0]

    def self_call(node):
        if isinstance(node, ast.Call) and isinstance(node.func, ast.Attribute) and isinstance(node.func.value, ast.Name) \
                and node.func.value.id == "self":
            return node.func.attr
        return None

    tree = fn_tree(R12Exporter.to_string)
    names, order, calls = {}, [], []
    for st in tree.body:
        if isinstance(st, ast.Expr) and isinstance(st.value, ast.Constant):
            continue
        if isinstance(st, ast.Assign) and len(st.targets) == 1 and isinstance(st.targets[0], ast.Name) and self_call(st.value):
            names[st.targets[0].id] = self_call(st.value)
            calls.append(self_call(st.value))
            continue
        if isinstance(st, ast.Return) and isinstance(st.value, ast.Call) and isinstance(st.value.func, ast.Attribute) \
                and st.value.func.attr == "join" and len(st.value.args) == 1 and isinstance(st.value.args[0], ast.Tuple):
            for el in st.value.args[0].elts:
                if self_call(el):
                    order.append(self_call(el))
                elif isinstance(el, ast.Name):
                    order.append(names.get(el.id, el.id))
                else:
                    order.append("?" + ast.unparse(el)[:40])
            continue
        order.append("?" + ast.unparse(st)[:40])
    lay = []
    for st in fn_tree(R12Exporter.export_layouts_to_string).body:
        if isinstance(st, ast.Expr) and isinstance(st.value, ast.Constant):
            continue
        if isinstance(st, ast.Assign):
            continue
        if isinstance(st, ast.Expr) and self_call(st.value):
            name = self_call(st.value)
            if name == "_write_section_header" and st.value.args and isinstance(st.value.args[0], ast.Constant):
                lay.append("section:" + st.value.args[0].value)
            elif name == "export_entity_space" and st.value.args:
                lay.append(ast.unparse(st.value.args[0]).replace("self.doc.", "").replace("().entity_space", ""))
            elif name == "_write_endsec":
                lay.append("endsec")
            else:
                lay.append(name)
            continue
        if isinstance(st, ast.Expr) and isinstance(st.value, ast.Call):
            continue        # self._tagwriter.set_stream(...)
        if isinstance(st, ast.Return):
            continue
        lay.append("?" + ast.unparse(st)[:40])
    return order, lay


def regenerate(ctx):
    for s in SRCS:
        ctx.src(s)
    import importlib

    from ezdxf.addons import iterdxf

    r12writer = importlib.import_module("ezdxf.addons.r12writer")
    from ezdxf.entities import subentity
    from ezdxf.lldxf import const, types

    sup = sorted(iterdxf.SUPPORTED_TYPES)
    linked = sorted(subentity.LINKED_ENTITIES.items())
    managed = sorted(const.MANAGED_SECTIONS)
    ws_u = [o for o in range(0x110000) if not (0xD800 <= o < 0xE000) and chr(o).isspace()]
    ws_b = [o for o in range(256) if bytes([o]).isspace()]
    # str.strip()/bytes.strip() strip exactly the isspace() characters (checked, not assumed)
    for o in ws_u:
        if (chr(o) + "x" + chr(o)).strip() != "x":
            raise ValueError("str.strip() does not strip U+%04X" % o)
    for o in range(0x3000):
        if o not in ws_u and (chr(o) + "x").strip() == "x":
            raise ValueError("str.strip() strips U+%04X which is not isspace()" % o)
    flush = _probe_single_pass_flush()
    maxcode = _probe_max_code(str(ctx.scratch))
    falsy = _probe_yields_falsy(str(ctx.scratch))
    drops_implicit = _probe_filter_drops_implicit(str(ctx.scratch))
    export_order, entity_order = _export_order()
    from ezdxf.tools import codepage

    cp_table = list(codepage.codepage_to_encoding.items())
    bin_full = _probe_bin_scan_full()
    r12x_order, r12x_layouts = _r12export_order()
    r12_iters = _probe_r12_iterables()
    base_codes_2000, base_codes_r12 = _probe_base_class_codes()
    from ezdxf.lldxf import repair

    toolbox = [(k, list(v.keywords["codes"])) for k, v in repair.COORDINATE_FIXING_TOOLBOX.items()]
    text = f"""
namespace EzdxfVerif.Gen.ReaderTables

/-- iterdxf.SUPPORTED_TYPES (sorted) -/
def supportedTypes : List String := {lean_list(lean_str(s) for s in sup)}

/-- entities.subentity.LINKED_ENTITIES (sorted items) -/
def linkedEntities : List (String × String) := {lean_list(f"({lean_str(a)}, {lean_str(b)})" for a, b in linked)}

/-- const.MANAGED_SECTIONS (sorted) -/
def managedSections : List String := {lean_list(lean_str(s) for s in managed)}

/-- types.POINT_CODES (sorted) -/
def pointCodes : List Nat := {lean_list(str(c) for c in sorted(types.POINT_CODES))}

/-- every code point c with chr(c).isspace() (what str.strip() removes) -/
def strWhitespace : List Nat := {lean_list(str(o) for o in ws_u)}

/-- every byte b with bytes([b]).isspace() (what bytes.strip() removes) -/
def bytesWhitespace : List Nat := {lean_list(str(o) for o in ws_b)}

/-- probe of lldxf.fileindex.load: largest accepted group code -/
def maxGroupCode : Nat := {maxcode}

/-- probe of iterdxf.single_pass_modelspace on a one-entity file: is the last entity of the section delivered? -/
def singlePassFlush : Bool := {"true" if flush else "false"}

/-- probe of iterdxf.modelspace on a file with a POLYLINE without vertices: is an entity with bool(entity) == False delivered? -/
def iterdxfYieldsFalsy : Bool := {"true" if falsy else "false"}

/-- statements of Drawing.export_sections in source order (AST): which section is exported when -/
def exportOrder : List String := {lean_list(lean_str(x) for x in export_order)}

/-- statements of EntitySection.export_dxf in source order (AST) -/
def entitySpaceOrder : List String := {lean_list(lean_str(x) for x in entity_order)}

/-- tools/codepage.py codepage_to_encoding in dict order (toencoding takes the first entry the value ends with) -/
def codepageTable : List (String × String) := {lean_list(f"({lean_str(a)}, {lean_str(b)})" for a, b in cp_table)}

/-- probe of binary_tags_loader.scan_params: is the $DWGCODEPAGE value read up to its terminating zero byte
    (a 3-digit code page such as ANSI_932 is recognised)? -/
def binScanFull : Bool := {"true" if bin_full else "false"}

/-- lldxf/repair.py COORDINATE_FIXING_TOOLBOX: entity type -> point codes re-ordered by recover's tag_reorder_layer -/
def coordinateFixing : List (String × List Nat) := {lean_list("(" + lean_str(k) + ", " + lean_list(str(c) for c in v) + ")" for k, v in toolbox)}

/-- every add_* method of R12FastStreamWriter x every parameter annotated Iterable: number of iterations the method starts
    over the argument (probe object counting __iter__) -/
def r12IterCounts : List (String × String × Nat) := {lean_list("(" + lean_str(a) + ", " + lean_str(b) + ", " + str(c) + ")" for a, b, c in r12_iters)}

/-- group codes written by DXFEntity.export_base_class for an entity with app data, extension dictionary and reactors
    (DXF R2000 branch) and for DXF R12 with handles (probe through a TagCollector) -/
def baseClassCodes2000 : List Nat := {lean_list(str(c) for c in base_codes_2000)}
def baseClassCodesR12 : List Nat := {lean_list(str(c) for c in base_codes_r12)}

/-- addons/r12export.py R12Exporter.to_string: the joined parts in order (AST) -/
def r12exportOrder : List String := {lean_list(lean_str(x) for x in r12x_order)}

/-- R12Exporter.export_layouts_to_string: statements in order (AST) -/
def r12exportLayouts : List String := {lean_list(lean_str(x) for x in r12x_layouts)}

/-- probe of iterdxf.modelspace(types=["POLYLINE"]): stand-alone entities of the types that were only loaded to build the
    requested POLYLINE / INSERT entities are not returned -/
def filterDropsImplicit : Bool := {"true" if drops_implicit else "false"}

/-- r12writer.rnd = partial(round, ndigits=...) -/
def r12Digits : Nat := {r12writer.rnd.keywords["ndigits"]}

end EzdxfVerif.Gen.ReaderTables
"""
    ctx.write_gen("ReaderTables", text, SRCS)


# ------------------------------------------------------------------ protocol helpers
def esc(s: str) -> str:
    out = []
    for ch in s:
        o = ord(ch)
        if ch in "%;|,[]:!~^" or o < 32 or o > 126:
            out.append("%%%d." % o)
        else:
            out.append(ch)
    return "".join(out)


def tags_line(tags) -> str:
    return ";".join(f"{c},{esc(v)}" for c, v in tags)


def file_text(tags, eol=None) -> str:
    """eol: None = LF; otherwise a function returning the line end of the next line"""
    if eol is None:
        return "".join(f"{c}\n{v}\n" for c, v in tags)
    return "".join(f"{c}{eol()}{v}{eol()}" for c, v in tags)


# ------------------------------------------------------------------ implementation side (real readers)
S, E, EOF_T = (0, "SECTION"), (0, "ENDSEC"), (0, "EOF")
FILE_HANDLE_MIN = 0x1000   # handles of generated streams; handles ezdxf creates itself stay below


def _quiet():
    logging.getLogger("ezdxf").setLevel(logging.CRITICAL)


def show_entity(e, file_handles) -> str:
    def h(x):
        # the Drawing readers give an entity without handle a fresh one (not in the file)
        return x.dxf.handle if x.dxf.handle in file_handles else "-"

    subs = ",".join(esc(h(s)) for s in getattr(e, "_sub_entities", []))
    sq = getattr(e, "seqend", None)
    sqh = ""
    # a SEQEND created by post_bind_hook (Drawing readers) has a fresh handle that is not in the file
    if sq is not None and sq.dxf.handle and sq.dxf.handle in file_handles:
        sqh = sq.dxf.handle
    # the string content of a TEXT entity as delivered (tag values are not stripped by any reader)
    txt = "=" + esc(str(e.dxf.get("text", ""))) if e.dxftype() == "TEXT" else ""
    return f"{esc(e.dxftype())}:{esc(h(e))}[{subs}]{esc(sqh)}{txt}"


def _run(fn, file_handles, also=()) -> str:
    try:
        return "ok " + ";".join(show_entity(e, file_handles) for e in fn())
    except Exception as ex:  # noqa
        n = type(ex).__name__
        return "err:" + n if n in ("DXFStructureError", "IndexError") + tuple(also) else "err:other:" + n


def real_readers(text, path: str, file_handles, newline=None) -> dict:
    """the five real readers on one ASCII file; strict/recover results restricted to iterdxf.SUPPORTED_TYPES.
    `text` None: the file `path` exists already (written by a real writer in its own encoding)"""
    import ezdxf
    from ezdxf import recover
    from ezdxf.addons import iterdxf
    from ezdxf.document import Drawing

    sup = iterdxf.SUPPORTED_TYPES
    out = {}
    fh = file_handles
    if text is None:
        with open(path, "rb") as fp:
            data = fp.read()
        out["strict"] = _run(lambda: [e for e in ezdxf.readfile(path).modelspace() if e.dxftype() in sup], fh)
    else:
        data = text.encode("utf8")
        with open(path, "wb") as fp:
            fp.write(data)
        if newline is None:
            out["strict"] = _run(lambda: [e for e in ezdxf.read(io.StringIO(text)).modelspace() if e.dxftype() in sup], fh)
        else:       # line ends other than LF: through the file, as ezdxf.readfile does (universal newlines);
            # IOError: the sniffer is_dxf_stream of ezdxf.readfile found no (0, SECTION) tag (model: strictFileModelspace)
            out["strict"] = _run(lambda: [e for e in ezdxf.readfile(path).modelspace() if e.dxftype() in sup], fh, also=("OSError",))

    def rec():
        # front end of recover.read without the audit (the model covers the front end)
        tool = recover.Recover.run(io.BytesIO(data))
        doc = Drawing()
        doc._load_section_dict(tool.section_dict)
        return [e for e in doc.modelspace() if e.dxftype() in sup]

    out["rec"] = _run(rec, fh)
    out["iter"] = _run(lambda: list(iterdxf.modelspace(path)), fh)
    out["sp"] = _run(lambda: list(iterdxf.single_pass_modelspace(io.BytesIO(data))), fh)

    def idx():
        it = iterdxf.opendxf(path)
        try:
            return list(it.modelspace())
        finally:
            it.close()

    out["idx"] = _run(idx, fh)
    return out


# ------------------------------------------------------------------ generator of tag streams
SIMPLE = {
    "LINE": [(10, "0"), (20, "0"), (30, "0"), (11, "1"), (21, "1"), (31, "0")],
    "CIRCLE": [(10, "1"), (20, "2"), (30, "0"), (40, "2.5")],
    "POINT": [(10, "3"), (20, "4"), (30, "5")],
    "ARC": [(10, "0"), (20, "0"), (30, "0"), (40, "1"), (50, "0"), (51, "90")],
    "TEXT": [(10, "0"), (20, "0"), (30, "0"), (40, "1"), (1, "abc")],
    "FOOBAR": [(1, "unknown entity")],
    "TOLERANCE": [(3, "Standard"), (10, "0"), (20, "0"), (30, "0"), (1, "x")],
}


YZ = {20, 21, 30, 31}


def insert_comment(r, tags, lo):
    """a 999 comment between two complete tags, never inside a point (the point compilers of the readers that do not
    skip comments would take it for a coordinate: C03's subject)"""
    pos = [i for i in range(lo, len(tags) + 1) if i == len(tags) or tags[i][0] not in YZ]
    tags.insert(r.choice(pos), (999, "a comment"))


# every separator of str.splitlines() except \n, \r: only \n (and \r\n, and \r in text mode) end a DXF line
SPLITLINES_ASCII = ["a\x0bb", "a\x0cb", "\x1cx", "y\x1d", "a\x1eb", "\x0b", "x\x1c\x1d\x1ey"]
SPLITLINES_UNI = ["a\x85b", "a\u2028b", "a\u2029b", "\u2028", "x\x85", "\u2029y"]


class Gen:
    def __init__(self, rng):
        self.rng = rng
        self.h = FILE_HANDLE_MIN + rng.randrange(0x100)

    def handle(self) -> str:
        self.h += self.rng.randint(1, 3)
        return "%X" % self.h

    def group(self, typ, extra=(), psp=None):
        r = self.rng
        g = [(0, typ), (5, self.handle()), (8, r.choice(["0", "L1"]))]
        if psp is None:
            psp = r.random() < 0.2
        if psp:
            g.append((67, "1"))
        elif r.random() < 0.1:
            g.append((67, "0"))
        g += list(extra)
        if r.random() < 0.08:
            insert_comment(r, g, 1)
        return g

    def simple(self, typ=None, psp=None):
        r = self.rng
        typ = typ or r.choice(["LINE", "LINE", "CIRCLE", "POINT", "ARC", "TEXT", "FOOBAR", "TOLERANCE"])
        body = SIMPLE[typ]
        if typ == "TEXT":
            # values with leading / trailing white space: only the code-0 values are stripped by the tag compilers
            body = body[:-1] + [(1, r.choice(["abc", " lead", "trail ", "\ttab\t", "a  b", " ", "x\x0c", "\x1fy", "Total: "] + SPLITLINES_ASCII))]
        return [self.group(typ, body, psp)]

    def polyline(self, broken=0):
        r = self.rng
        psp = r.random() < 0.25
        gs = [self.group("POLYLINE", [(66, "1"), (10, "0"), (20, "0"), (30, "0"), (70, "0")], psp)]
        for _ in range(r.choice([0, 1, 2, 3])):
            gs.append(self.group("VERTEX", [(10, "1"), (20, "2"), (30, "0")], psp))
            if broken == 3 and r.random() < 0.5:
                gs.append(self.group("FOOBAR", SIMPLE["FOOBAR"], psp))      # unsupported entity inside the vertex run
        if broken == 1:
            return gs                                                      # no SEQEND
        if broken == 2:
            gs.append(self.group("ATTRIB", [(10, "0"), (20, "0"), (30, "0"), (40, "1"), (1, "v"), (2, "T")], psp))
        gs.append(self.group("SEQEND", [], psp))
        return gs

    def insert(self, broken=0):
        r = self.rng
        psp = r.random() < 0.25
        mode = r.choice(["attribs", "attribs", "plain", "zero", "stray"])
        head = [(2, "BLK"), (10, "0"), (20, "0"), (30, "0")]
        att = [(10, "0"), (20, "0"), (30, "0"), (40, "1"), (1, "v"), (2, "T")]
        if mode == "plain":
            return [self.group("INSERT", head, psp)]
        if mode == "zero":
            return [self.group("INSERT", [(66, "0")] + head, psp)]
        if mode == "stray":   # attribs_follow unset, but ATTRIB + SEQEND follow as stand alone entities
            return [self.group("INSERT", head, psp), self.group("ATTRIB", att, psp), self.group("SEQEND", [], psp)]
        gs = [self.group("INSERT", [(66, "1")] + head, psp)]
        for _ in range(r.choice([0, 1, 2])):
            gs.append(self.group("ATTRIB", att, psp))
        if broken == 1:
            return gs
        if broken == 2:
            gs.append(self.group("VERTEX", [(10, "1"), (20, "2"), (30, "0")], psp))
        gs.append(self.group("SEQEND", [], psp))
        return gs

    def entities(self, valid=True):
        r = self.rng
        out = []
        for _ in range(r.choice([0, 1, 1, 2, 3, 4, 6, 9])):
            x = r.random()
            broken = 0 if valid or r.random() < 0.7 else r.choice([1, 2, 3])
            if x < 0.5:
                out += self.simple()
            elif x < 0.75:
                out += self.polyline(broken)
            elif x < 0.95:
                out += self.insert(broken if broken != 3 else 0)
            else:
                out += [self.group(r.choice(["VERTEX", "SEQEND", "ATTRIB"]),
                                   [(10, "1"), (20, "2"), (30, "0"), (40, "1"), (1, "v"), (2, "T")])]
        return out


def loose_positions(tags, boundary=False):
    """insert positions outside of every section or inside an ENTITIES section (not in front of a y/z coordinate;
    boundary: only in front of a structure tag, so that no entity is split)"""
    pos, where = [], None
    for i, t in enumerate(tags):
        if where in (None, "ENTITIES") and t[0] not in YZ and not (i > 0 and tags[i - 1] == S) and (t[0] == 0 or not boundary):
            pos.append(i)
        if t == S:
            where = tags[i + 1][1] if i + 1 < len(tags) and tags[i + 1][0] == 2 else "?"
        elif t == E or t == EOF_T:
            where = None
    pos.append(len(tags))
    return pos


def gen_stream(rng):
    """-> (kind, tags): a mostly well-formed ASCII DXF tag stream, with a structural fault in about 40 % of the cases"""
    r = rng
    g = Gen(r)
    faulty = r.random() < 0.4
    kinds = []
    ent_groups = g.entities(valid=not faulty or r.random() < 0.5)
    ent_body = [t for grp in ent_groups for t in grp]
    secs = []
    ver = r.choice([None, "AC1009", "AC1009", "AC1015", "AC1021", "AC1032"])
    if r.random() < 0.7:
        body = []
        if ver is not None:
            body += [(9, "$ACADVER"), (1, ver)]
        if r.random() < 0.7:
            body += [(9, "$DWGCODEPAGE"), (3, "ANSI_1252")]
        if r.random() < 0.5:
            body += [(9, "$INSBASE"), (10, "0.0"), (20, "0.0"), (30, "0.0")]
        if r.random() < 0.5:
            body += [(9, "$HANDSEED"), (5, "20")]
        if faulty and r.random() < 0.15:
            body += [(9, r.choice(["$ACADVER", "$DWGCODEPAGE"]))]          # variable without value at the end of HEADER
            kinds.append("hdr-var-at-end")
        if faulty and r.random() < 0.1:
            body += [(0, "FOO"), (2, r.choice(["BAR", "ENTITIES", "HEADER"]))]
            kinds.append("hdr-structure-tag")
        secs.append(("HEADER", body))
    else:
        ver = None
    if r.random() < 0.3:
        secs.append(("CLASSES", []))
    if r.random() < 0.6:
        secs.append(("TABLES", []))
    if r.random() < 0.6:
        blk = []
        if r.random() < 0.5:
            blk = [(0, "BLOCK"), (5, g.handle()), (8, "0"), (2, "BLK"), (70, "0"), (10, "0"), (20, "0"), (30, "0"), (3, "BLK")]
            blk += [t for grp in g.simple("LINE", psp=False) for t in grp]
            blk += [(0, "ENDBLK"), (5, g.handle()), (8, "0")]
        secs.append(("BLOCKS", blk))
    secs.append(("ENTITIES", ent_body))
    need_objects = ver is not None and ver > "AC1009"
    if need_objects and not (faulty and r.random() < 0.3):
        secs.append(("OBJECTS", []))
    elif need_objects:
        kinds.append("no-objects")
    if r.random() < 0.15:
        secs.append((r.choice(["THUMBNAILIMAGE", "FOO", "ACDSDATA"]), [(90, "1")]))
    if faulty:
        x = r.random()
        if x < 0.12:
            secs = [s for s in secs if s[0] != "ENTITIES"]
            kinds.append("no-entities")
        elif x < 0.24:
            i = r.randrange(len(secs) + 1)
            secs.insert(i, ("ENTITIES", [t for grp in g.entities() for t in grp]))
            kinds.append("two-entities")
        elif x < 0.32:
            r.shuffle(secs)
            kinds.append("shuffled")
        elif x < 0.40 and ent_body:
            # tags directly after (2, ENTITIES) that are not a structure tag
            secs = [(n, ([(8, "LINE"), (5, "EEEE")] + b) if n == "ENTITIES" else b) for n, b in secs]
            kinds.append("headless")
    tags = []
    for name, body in secs:
        tags += [S, (2, name)] + body + [E]
    tags.append(EOF_T)
    if faulty:
        x = r.random()
        if x < 0.10:
            cand = [i for i, t in enumerate(tags) if t == E]
            if cand:
                del tags[r.choice(cand)]
                kinds.append("drop-endsec")
        elif x < 0.18:
            tags.pop()
            kinds.append("drop-eof")
        elif x < 0.26:
            cand = [i for i, t in enumerate(tags) if t == S]
            if cand:
                del tags[r.choice(cand)]
                kinds.append("drop-section")
        elif x < 0.34:
            cand = [i for i, t in enumerate(tags) if t[0] == 2 and i > 0 and tags[i - 1] == S]
            if cand:
                del tags[r.choice(cand)]
                kinds.append("drop-name")
        elif x < 0.44:
            i = r.choice([i for i, t in enumerate(tags) if t in (S, E, EOF_T)] )
            pad = r.choice([" %s", "%s ", "\t%s", "%s \x0c", "%s\x1f", "\x1c%s"])
            tags[i] = (0, pad % tags[i][1])
            # \x1c..\x1f are whitespace for str.strip() but not for bytes.strip()
            kinds.append("padded-u" if ("\x1f" in pad or "\x1c" in pad) else "padded")
        elif x < 0.52:
            i = r.choice([i for i, t in enumerate(tags) if t[0] == 0])
            tags[i] = (0, tags[i][1].lower())
            kinds.append("lower")
        elif x < 0.60:
            i = r.choice(loose_positions(tags, boundary=True))
            tags[i:i] = [t for grp in g.simple("LINE", psp=False) for t in grp]     # entity outside a section / in ENTITIES
            kinds.append("stray-entity")
        elif x < 0.68:
            i = r.choice(loose_positions(tags))
            tags.insert(i, (r.choice([1072, 5000, 1071]), "1"))
            kinds.append("big-code")
        elif x < 0.74:
            tags += [(0, "LINE"), (5, "FFF0"), (8, "0")] + SIMPLE["LINE"]
            kinds.append("after-eof")
    for _ in range(r.choice([0, 0, 0, 1, 2])):
        insert_comment(r, tags, 0)
        kinds.append("comment")
    return "+".join(kinds) or "wellformed", tags


def _reader_case(args):
    seed, idx = args
    _quiet()
    rng = random.Random(f"{seed}/rd/{idx}")
    kind, tags = gen_stream(rng)
    # a file every reader decodes as UTF-8 ($ACADVER >= AC1021 and $DWGCODEPAGE in the header: recover needs both):
    # TEXT values with the non-ASCII separators of str.splitlines()
    if any(t == (9, "$DWGCODEPAGE") for t in tags) and any(
            t == (9, "$ACADVER") and tags[j + 1][1] >= "AC1021" for j, t in enumerate(tags[:-1])) and kind == "wellformed":     # (text decoding of faulty files: not the tag level)
        for j in range(1, len(tags)):
            if tags[j][0] == 1 and tags[j][1] not in ("unknown entity", "x", "v") and rng.random() < 0.5:
                tags[j] = (1, rng.choice(SPLITLINES_UNI))
    path = os.path.join(_POOL_TMP, "rd-%d.dxf" % os.getpid())
    # line ends: LF, CRLF or mixed per line (the tag-level result must not depend on it: theorem lines_agree)
    style = rng.choice(["lf", "lf", "crlf", "mixed"])
    eol = None if style == "lf" else (lambda: "\r\n") if style == "crlf" else (lambda: rng.choice(["\n", "\r\n"]))
    res = real_readers(file_text(tags, eol), path, {v for c, v in tags if c == 5 and len(v) >= 4},
                       newline=None if style == "lf" else "")
    return kind + ("" if style == "lf" else "/" + style), tags, res


_POOL_TMP = "/tmp"


def _pool(n=10):
    import multiprocessing as mp

    return mp.get_context("fork").Pool(min(n, os.cpu_count() or 4))


READERS = ["strict", "rec", "iter", "sp", "idx"]


def correspond(ctx):
    global _POOL_TMP
    _POOL_TMP = str(ctx.scratch)
    _quiet()
    n = ctx.n(2500, 40000)
    with _pool() as pool:
        results = pool.map(_reader_case, [(ctx.seed, i) for i in range(n)], chunksize=50)
    cases = []
    outside = 0
    for kind, tags, res in results:
        ctx.hist("X1 readers", kind)
        line = tags_line(tags)
        for rd in READERS:
            impl = res[rd]
            if rd in ("strict", "rec") and "hdr-" in kind:
                continue   # HeaderSection.load validates the header variables (content level, not modelled)
            if rd == "rec" and "padded-u" in kind and impl.startswith("err"):
                continue   # the unstripped structure tag becomes an entity that the entity validator rejects
            if impl.startswith("err:other:") and not kind.split("/")[0].startswith("wellformed"):
                # (on a WELL-FORMED stream an unknown exception class is compared with the model like any other answer)
                outside += 1
                ctx.hist("X1 readers", "outside-model:" + rd + ":" + impl[10:])
                continue
            nontrivial = impl.startswith("err") or ("[" in impl and ("]" + "") in impl and any(c not in "[]" for c in impl))
            # line ends other than LF: the strict reader went through ezdxf.readfile (sniffer in front of ezdxf.read)
            rname = "strictf" if rd == "strict" and "/" in kind else rd
            cases.append((f"rd|{rname}|-|-|{line}", impl, impl != "ok "))
    if outside * 20 > len(cases):
        ctx.note(f"X1: {outside} reader runs raised an exception class outside the model")
    allcases = [("X1 readers", c) for c in cases]
    allcases += [("X2 json tags", c) for c in correspond_json(ctx)]
    allcases += [("X3 r12writer structure", c) for c in correspond_r12(ctx)]
    allcases += [("X4 exporter structure", c) for c in correspond_export(ctx, results)]
    x5, x6, x7, x12 = correspond_wf(ctx)
    allcases += [("X5 writers_wf", c) for c in x5]
    allcases += [("X6 writer model", c) for c in x6]
    allcases += [("X7 readers on real files", c) for c in x7]
    allcases += [("X12 r12export model", c) for c in x12]
    allcases += [("X8 version/encoding decision", c) for c in correspond_detect(ctx)]
    allcases += [("X9 binary scan_params", c) for c in correspond_binscan(ctx)]
    allcases += [("X10 line level", c) for c in correspond_lines(ctx)]
    allcases += [("X11 recover reorder filter", c) for c in correspond_reorder(ctx)]
    allcases += [("X13 fileindex locations", c) for c in correspond_locations(ctx)]
    allcases += [("X14 exporter bytes", c) for c in correspond_export_bytes(ctx, results)]
    allcases += [("X15 reader histories", c) for c in correspond_histories(ctx)]
    allcases += [("X16 load_json_tags", c) for c in correspond_json_load(ctx, results)]
    allcases += [("X17 generic records", c) for c in correspond_generic_records(ctx)]
    # one driver run for all streams
    outs = ctx.driver("C08", [c[0] for _, c in allcases], build=DRIVER_DEPS)
    for (stream, (req, impl, nontriv)), model in zip(allcases, outs):
        ctx.count(stream, req, nontriv, sample={"request": req[:300], "impl": impl[:300], "model": model[:300]})
        if impl != model:
            ctx.disagree(stream, req, impl, model)
    ctx.cov["disagreements_checked"] += len(allcases)


# ------------------------------------------------------------------ X8 / X9 format dispatch: version + encoding decisions
DET_CPS = ["ANSI_1252", "ANSI_1251", "ANSI_1250", "ANSI_932", "ANSI_936", "ANSI_949", "ANSI_950", "ANSI_874", "ANSI_1258",
           "ansi_1253", "DOS850", "", "1254", "ANSI_12520", "xANSI_950", "ANSI_949 ", "ANSI_1255", "ANSI_1256", "ANSI_1257", "932"]
DET_VERS = ["AC1009", "AC1009", "AC1015", "AC1018", "AC1021", "AC1024", "AC1032", "AC1006", "", "ac1021", "AC102", "AC1021x",
            "AC1020", "B", "AC1012", " AC1018", "AC1024 "]


def _norm_enc(e: str) -> str:
    import codecs

    return codecs.lookup(e).name


def gen_detect(rng):
    """-> (kind, tags) of an ASCII file whose header decides version and encoding in ordinary and odd ways"""
    r = rng
    kinds = []
    ver_code, cp_code = 1, 3
    if r.random() < 0.08:
        ver_code = r.choice([3, 2, 8])
        kinds.append("ver-code")
    if r.random() < 0.08:
        cp_code = r.choice([1, 2, 8])
        kinds.append("cp-code")
    pool = {
        "$ACADVER": lambda: [(ver_code, r.choice(DET_VERS))],
        "$DWGCODEPAGE": lambda: [(cp_code, r.choice(DET_CPS))],
        "$HANDSEED": lambda: [(5, "FF")],
        "$INSUNITS": lambda: [(70, r.choice(["6", "x"]))],
        "$INSBASE": lambda: [(10, "0.0"), (20, "0.0")] + ([(30, "0.0")] if r.random() < 0.7 else []),
        "$EXTMIN": lambda: [(10, "1.0"), (20, "2.0"), (30, "3.0")],
        "$LIMMAX": lambda: [(10, "420.0"), (20, "297.0")],
        "$LTSCALE": lambda: [(40, "1.0")],
        "$CLAYER": lambda: [(8, "0")],
        "$CUSTOMPROPERTYTAG": lambda: [(1, r.choice(["$ACADVER", "AC1032", "x"]))],
        "$PROJECTNAME": lambda: [(1, "")],
    }
    names = [n for n in pool if r.random() < (0.85 if n in ("$ACADVER", "$DWGCODEPAGE") else 0.5)]
    r.shuffle(names)
    if r.random() < 0.6 and "$ACADVER" in names:      # the usual place
        names.remove("$ACADVER")
        names.insert(0, "$ACADVER")
    if r.random() < 0.15:
        names.insert(r.randrange(len(names) + 1), r.choice(["$ACADVER", "$DWGCODEPAGE", "$HANDSEED", "$INSUNITS"]))
        kinds.append("duplicate")
    hdr = []
    for n in names:
        hdr.append((9, n))
        if r.random() < 0.04:
            hdr.append((999, "comment in front of the value"))
            kinds.append("comment-before-value")
        hdr += pool[n]()
        if r.random() < 0.04:
            hdr.append((999, "comment"))
            kinds.append("comment")
    if r.random() < 0.05:
        hdr.append((9, r.choice(["$ACADVER", "$DWGCODEPAGE", "$FOO"])))     # name without value at the end of the section
        kinds.append("name-at-end")
    secs = [("HEADER", hdr)]
    x = r.random()
    if x < 0.08:
        secs = []
        kinds.append("no-header")
    elif x < 0.16:
        secs.insert(0, ("TABLES", []))
        kinds.append("header-second")
    elif x < 0.22:
        secs.append(("HEADER", [(9, "$ACADVER"), (1, r.choice(DET_VERS)), (9, "$DWGCODEPAGE"), (3, r.choice(DET_CPS))]))
        kinds.append("two-headers")
    if r.random() < 0.5:
        secs.append(("TABLES", []))
    if r.random() < 0.12:
        secs.append(("BLOCKS", [(0, "BLOCK"), (2, "B"), (9, r.choice(["$ACADVER", "$DWGCODEPAGE"])), (r.choice([1, 3]), r.choice(DET_VERS + DET_CPS)),
                                (0, "ENDBLK")]))
        kinds.append("var-outside-header")
    tags = []
    for name, body in secs:
        tags += [S, (2, name)] + body + [E]
        if name == "HEADER" and r.random() < 0.05:
            tags += [(9, "$DWGCODEPAGE"), (3, r.choice(DET_CPS))]           # between two sections
            kinds.append("var-between-sections")
    tags += [S, (2, "ENTITIES"), (0, "TEXT"), (8, "0"), (10, "0.0"), (20, "0.0"), (30, "0.0"), (40, "1.0"), (1, "PROBE"), E]
    if r.random() < 0.5:
        tags += [S, (2, "OBJECTS"), E]
    tags.append(EOF_T)
    return "+".join(sorted(set(kinds))) or "plain", tags


def _det_case(args):
    seed, idx, tmp = args
    _quiet()
    from ezdxf import recover
    from ezdxf.addons import iterdxf
    from ezdxf.filemanagement import dxf_file_info
    from ezdxf.lldxf import fileindex

    rng = random.Random(f"{seed}/det/{idx}")
    kind, tags = gen_detect(rng)
    pb, dec = probe_bytes()
    data = b"".join(b"%d\n" % c + (pb if v == "PROBE" else v.encode("ascii")) + b"\n" for c, v in tags)
    if idx % 5 == 0:
        data = data.replace(b"\n", b"\r\n")
    path = os.path.join(tmp, "det-%d.dxf" % os.getpid())
    with open(path, "wb") as fp:
        fp.write(data)

    def guard(fn):
        try:
            return fn()
        except Exception as ex:  # noqa
            return "err:" + type(ex).__name__

    def a():
        i = dxf_file_info(path)
        return f"{esc(i.version)},{_norm_enc(i.encoding)}"

    def b():
        fs = fileindex.load(path)
        return f"{esc(fs.version)},{_norm_enc(fs.encoding)}"

    def c():
        with open(path, "rb") as fp:
            texts = [e.dxf.text for e in iterdxf.single_pass_modelspace(fp) if e.dxftype() == "TEXT"]
        return dec.get(texts[0], "?") if texts else "none"

    def d():
        with open(path, "rb") as fp:
            return _norm_enc(recover.detect_encoding(recover.bytes_loader(fp)))

    def e():
        with open(path, "rb") as fp:
            return esc(recover.Recover.run(fp).dxfversion)

    return kind, tags, "|".join(guard(f) for f in (a, b, c, d)), guard(e)


def correspond_detect(ctx):
    n = ctx.n(1500, 30000)
    with _pool(8) as pool:
        results = pool.map(_det_case, [(ctx.seed, i, str(ctx.scratch)) for i in range(n)], chunksize=50)
    cases = []
    for kind, tags, impl, implv in results:
        ctx.hist("X8 version/encoding decision", kind)
        if not implv.startswith("err:"):
            cases.append(("detv|" + tags_line(tags), implv, implv != "AC1009"))
        else:
            ctx.hist("X8 version/encoding decision", "recover-raised:" + implv[4:])
        if "err:" in impl:
            ctx.hist("X8 version/encoding decision", "outside-model:" + impl)
            continue
        cases.append(("det|" + tags_line(tags), impl, len(set(impl.split("|")[i].split(",")[-1] for i in range(4))) > 1 or "cp1252" not in impl))
    return cases


def gen_bin_header(rng):
    r = rng
    pb, _ = probe_bytes()
    kinds = []
    has_ver = r.random() < 0.9
    ver = r.choice(["AC1009", "AC1009", "AC1015", "AC1018", "AC1021", "AC1032", "AC1006", "AC1012"]) if has_ver else "AC1009"
    r12 = ver <= "AC1009"
    data = BIN_SENTINEL + _btag(r12, 0, b"SECTION") + _btag(r12, 2, b"HEADER")
    if has_ver:
        data += _btag(r12, 9, b"$ACADVER") + _btag(r12, 1, ver.encode())
    else:
        kinds.append("no-acadver")
    nbetween = r.choice([0, 0, 1, 3, 8, 30, 45, 60])
    for i in range(nbetween):
        name = r.choice([b"$ACADMAINTVER", b"$CLAYER", b"$TEXTSTYLE", b"$PROJECTNAME", b"$CUSTOMPROPERTYTAG", b"$LASTSAVEDBY"])
        if r.random() < 0.03:
            name = r.choice([b"$DWGCODEPAGEX", b"$ACADVERSION"])
            kinds.append("look-alike")
        data += _btag(r12, 9, name) + _btag(r12, r.choice([1, 2, 3, 7, 8]), r.choice([b"", b"0", b"Standard", b"some text value", b"ANSI_1251"]))
    if nbetween >= 30:
        kinds.append("far")
    cp = None
    if r.random() < 0.9:
        cp = r.choice(DET_CPS + ["ANSI_1251", "ANSI_932", "ANSI_936", "A", "ANSI", "ANSI_"])
        data += _btag(r12, 9, b"$DWGCODEPAGE")
        if r.random() < 0.06 and ver < "AC1021":      # (for R2007+ the scan does not look at the code page)
            data += (bytes([3]) if r12 else b"\x03\x00") + cp.encode()[:r.randint(0, 4)]       # truncated inside the value
            kinds.append("truncated")
            return "+".join(kinds), r12, data
        data += _btag(r12, 3, cp.encode())
    else:
        kinds.append("no-codepage")
    data += _btag(r12, 0, b"ENDSEC") + _btag(r12, 1, pb) + _btag(r12, 0, b"EOF")
    return "+".join(kinds) or "plain", r12, data


def correspond_binscan(ctx):
    rng = ctx.rng("binscan")
    cases = []
    for i in range(ctx.n(600, 8000)):
        kind, r12, data = gen_bin_header(rng)
        ctx.hist("X9 binary scan_params", kind)
        impl = _bin_encoding(data)
        if impl.startswith("other:") or impl == "?" or (impl == "err" and ("truncated" not in kind or "look-alike" in kind)):
            # IndexError raised by the tag loop behind scan_params (a look-alike name made the loader choose the other
            # group code width): not the decision modelled here
            ctx.hist("X9 binary scan_params", "outside-model:" + impl)
            continue
        cases.append(("bin|" + " ".join(str(b) for b in data), impl, impl != "cp1252"))
    return cases


# ------------------------------------------------------------------ X10 line level: bytes -> (code, value) pairs
def gen_line_bytes(rng):
    """-> (kind, bytes): tags written with LF / CRLF / mixed line ends, plus the odd cases: a lone CR as line end or
    inside a value, a value ending with CR, no final newline, an odd number of lines, blank or non-numeric code lines,
    padded group codes, very long values"""
    r = rng
    kinds = set()
    style = r.choice(["lf", "crlf", "mixed", "mixed"])
    out = b""
    n = r.choice([0, 1, 2, 3, 5, 8])
    for i in range(n):
        code = r.choice([0, 1, 2, 3, 5, 8, 9, 100, 330, 1000, 1001, 1005])
        val = r.choice([b"LINE", b"SECTION", b"", b" pad ", b"abc", b"x" * r.choice([10, 300, 3000]), b"A1", b"tab\tx",
                        b"a\x0bb", b"a\x0cb", b"\x1cx", b"y\x1d", b"a\x1eb", b"a\x85b", b"\x0c"])
        x = r.random()
        if x < 0.05:
            val = b"ab\rcd"
            kinds.add("cr-in-value")
        elif x < 0.09:
            val = val + b"\r"
            kinds.add("value-ends-with-cr")
        cl = b"%3d" % code
        y = r.random()
        if y < 0.06:
            cl = r.choice([b" %d ", b"\t%d", b"%d\t", b"0%d", b"  %d"]) % code
            kinds.add("padded-code")
        elif y < 0.09:
            cl = r.choice([b"", b"abc", b" ", b"x y", b"1 0", b"a7b"])
            kinds.add("bad-code")

        def eol():
            if style == "lf":
                return b"\n"
            if style == "crlf":
                return b"\r\n"
            z = r.random()
            if z < 0.04:
                kinds.add("lone-cr-eol")
                return b"\r"
            return b"\n" if z < 0.5 else b"\r\n"

        out += cl + eol() + val + eol()
    if out and r.random() < 0.04:
        out = b"\xef\xbb\xbf" + out            # UTF-8 byte order mark: no reader strips it
        kinds.add("bom")
    z = r.random()
    if z < 0.08 and out:
        out = out.rstrip(b"\r\n")
        kinds.add("no-final-newline")
    elif z < 0.16:
        out += b"%3d" % r.choice([0, 1, 5]) + r.choice([b"\n", b"\r\n", b""])
        kinds.add("odd-line-count")
    return style + ("+" + "+".join(sorted(kinds)) if kinds else ""), out


def correspond_lines(ctx):
    from ezdxf import recover
    from ezdxf.addons import iterdxf
    from ezdxf.lldxf.const import DXFStructureError
    from ezdxf.lldxf.tagger import ascii_tags_loader, internal_tag_compiler

    rng = ctx.rng("lines")
    path = os.path.join(str(ctx.scratch), "lines.dxf")
    cases = []

    def show(tags, conv):
        return ";".join(f"{t.code},{esc(conv(t.value))}" for t in tags)

    for i in range(ctx.n(2500, 40000)):
        kind, data = gen_line_bytes(rng)
        ctx.hist("X10 line level", kind)
        with open(path, "wb") as fp:
            fp.write(data)
        res = []
        try:
            with open(path, "rt", encoding="latin-1") as fp:       # universal newlines, as ezdxf.readfile opens the file
                res.append("T" + show(list(ascii_tags_loader(fp, skip_comments=False)), str))
        except DXFStructureError:
            res.append("Terr")
        try:
            with open(path, "rb") as fp:
                res.append("B" + show(list(recover.bytes_loader(fp)), lambda b: b.decode("latin-1")))
        except DXFStructureError:
            res.append("Berr")
        got = []
        with open(path, "rb") as fp:
            try:
                for t in iterdxf.binary_tagger(fp):
                    got.append(t)
            except DXFStructureError:
                pass      # int(b"") at the end of the stream, always; an invalid group code line ends it earlier
        res.append("G" + show(got, lambda b: b.decode("latin-1")))
        # internal_tag_compiler on the text IterDXF.load_entities hands to it (`to_str`: decode, \r\n -> \n); it types the
        # values, so only streams of string-valued group codes; an odd line count is an IndexError there
        try:
            # (an empty chunk never occurs - a chunk starts with a structure tag - and is `int("")` there)
            ctags = list(internal_tag_compiler(data.decode("latin-1").replace("\r\n", "\n"))) if data else []
            res.append("C" + show(ctags, str))
        except IndexError:
            res.append("C?")
        except ValueError:
            res.append("Cerr")
        cases.append(("ln|" + " ".join(str(b) for b in data), "|".join(res), len(data) > 0))
    return cases


# ------------------------------------------------------------------ X14 iterdxf exporter, byte level
def _triples(data: bytes):
    """bytes -> [(code, value, crlf)] ; crlf = the line of the group code ends with CRLF"""
    lines = data.split(b"\n")
    if lines and lines[-1] == b"":
        lines.pop()
    out = []
    for i in range(0, len(lines) - 1, 2):
        out.append((int(lines[i]), lines[i + 1].rstrip(b"\r").decode("ascii"), lines[i].endswith(b"\r")))
    return out


def correspond_export_bytes(ctx, reader_results):
    """the real iterdxf exporter on source files with LF / CRLF / mixed line ends: the exported BYTES vs exportBytes
    (copied prefix, written entities with LF, ENDSEC with CRLF, copied OBJECTS section, EOF with CRLF)"""
    from ezdxf.addons import iterdxf

    rng = ctx.rng("exportbytes")
    cases = []
    src = os.path.join(str(ctx.scratch), "xb-s.dxf")
    dst = os.path.join(str(ctx.scratch), "xb-d.dxf")
    for kind, tags, res in reader_results:
        if kind.split("/")[0] != "wellformed" or res["idx"].startswith("err"):
            continue
        if len(cases) >= ctx.n(120, 1500):
            break
        if not all(v.isascii() for _, v in tags):
            continue      # (bytes = code points in the byte-level model)
        style = rng.choice(["lf", "crlf", "mixed"])
        flags = [style == "crlf" or (style == "mixed" and rng.random() < 0.5) for _ in tags]
        data = b"".join(b"%3d" % c + (b"\r\n" if f else b"\n") + v.encode("ascii") + (b"\r\n" if f else b"\n")
                        for (c, v), f in zip(tags, flags))
        with open(src, "wb") as fp:
            fp.write(data)
        ex = None
        try:
            it = iterdxf.opendxf(src)
            try:
                ex = it.export(dst)
                for e in it.modelspace():
                    ex.write(e)
                ex.close()
            finally:
                it.close()
                if ex is not None and not ex.file.closed:
                    ex.file.close()
        except Exception as e2:  # noqa
            ctx.hist("X14 exporter bytes", "raised:" + type(e2).__name__)
            continue
        with open(dst, "rb") as fp:
            out = fp.read()
        # positions in the source: tags in front of the first structure tag behind the ENTITIES section head
        k = next(j for j, t in enumerate(tags) if t == (2, "ENTITIES") and j > 0 and tags[j - 1] == S)
        npre = next(j for j in range(k + 1, len(tags)) if tags[j][0] == 0)
        ver = next((tags[j + 1][1] for j, t in enumerate(tags[:-1]) if t == (9, "$ACADVER")), "AC1009")
        obj = "-"
        nobj = 0
        if ver > "AC1009":
            o = next(j for j, t in enumerate(tags) if t == (2, "OBJECTS") and j > 0 and tags[j - 1] == S) - 1
            oe = next(j for j in range(o, len(tags)) if tags[j] == E)
            nobj = oe - o + 1
            obj = f"{o},{nobj}"
        dtr = _triples(out)
        written = dtr[npre: len(dtr) - 1 - nobj - 1]
        req = "xb|" + ";".join(f"{c},{esc(v)},{int(f)}" for (c, v), f in zip(tags, flags)) + f"|{npre}|{obj}|" \
              + ";".join(f"{c},{esc(v)}" for c, v, _ in written)
        cases.append((req, " ".join(str(b) for b in out), bool(written)))
        ctx.hist("X14 exporter bytes", style + ("/objects" if nobj else "/r12"))
    return cases


# ------------------------------------------------------------------ X15 reader call histories with and without a types filter
HIST_TYPES = ["LINE", "CIRCLE", "POLYLINE", "INSERT", "TEXT", "VERTEX", "ATTRIB", "SEQEND", "FOOBAR", "POINT", "ARC", "TOLERANCE"]


def _history_case(args):
    """one generated file, 4-7 reads by the iterdxf readers IN ONE PROCESS (the pool worker goes on to the next file with
    the same interpreter: the history spans files), each with its own `types` filter or none"""
    seed, idx = args
    _quiet()
    from ezdxf.addons import iterdxf

    rng = random.Random(f"{seed}/hist/{idx}")
    kind, tags = gen_stream(rng)
    path = os.path.join(_POOL_TMP, "hist-%d.dxf" % os.getpid())
    with open(path, "wb") as fp:
        fp.write(file_text(tags).encode("utf8"))
    fh = {v for c, v in tags if c == 5 and len(v) >= 4}
    out = []
    for _ in range(rng.randint(4, 7)):
        rd = rng.choice(["iter", "sp", "idx"])
        x = rng.random()
        if x < 0.35:
            types = None
        elif x < 0.42:
            types = []
        else:
            types = rng.sample(HIST_TYPES, rng.choice([1, 1, 2, 3, 4]))
        # (an empty ITERATOR is truthy for `if types:` and selects nothing; only lists are passed empty)
        call_types = None if types is None else (iter(types) if types and rng.random() < 0.3 else list(types))

        def run():
            if rd == "iter":
                return list(iterdxf.modelspace(path, types=call_types))
            if rd == "sp":
                with open(path, "rb") as fp:
                    return list(iterdxf.single_pass_modelspace(fp, types=call_types))
            it = iterdxf.opendxf(path)
            try:
                return list(it.modelspace(types=call_types))
            finally:
                it.close()

        out.append((rd, types, _run(run, fh)))
    return kind, tags, out


def correspond_json_load(ctx, reader_results):
    """X16 (final round): load_json_tags = Drawing.load behind json_tag_loader on the verbose [code, value] pairs of
    generated streams vs jsonModelspace (the back end shared with ezdxf.read)"""
    from ezdxf.addons import iterdxf
    from ezdxf.document import load_json_tags

    cases = []
    sup = iterdxf.SUPPORTED_TYPES
    for kind, tags, res in reader_results:
        if len(cases) >= ctx.n(250, 4000):
            break
        if "hdr-" in kind or "comment" in kind and False:
            continue
        fh = {v for c, v in tags if c == 5 and len(v) >= 4}
        impl = _run(lambda: [e for e in load_json_tags([[c, v] for c, v in tags]).modelspace() if e.dxftype() in sup], fh)
        if impl.startswith("err:other:"):
            ctx.hist("X16 load_json_tags", "outside-model:" + impl[10:])
            continue
        ctx.hist("X16 load_json_tags", kind.split("/")[0].split("+")[0])
        cases.append((f"rd|json|-|-|{tags_line(tags)}", impl, impl != "ok "))
    return cases


def correspond_generic_records(ctx):
    """X17 (final round): real entities of generated documents, their three export parts (export_base_class, export_entity,
    export_xdata) written one by one, vs GenericRecord.group / genericOK / wEntOK of the model: the record IS the
    concatenation behind the one structure tag, and the per-tag conditions hold for real attribute tags"""
    import dxfparse
    from ezdxf.lldxf.tagwriter import TagWriter

    cases = []
    for i in range(ctx.n(14, 140)):
        rng = random.Random(f"{ctx.seed}/generic/{i}")
        vname = list(VERSIONS)[i % 7]
        ver = VERSIONS[vname]
        try:
            doc, made = build_document(rng, vname, rng.choice(list(CODEPAGES)), False)
            settle_document(doc)
        except Exception:  # noqa
            continue
        handles = bool(doc.header.get("$HANDLING", 0)) if ver == "AC1009" else True
        msp, psp = doc.modelspace().layout_key, doc.active_layout().layout_key

        def part(fn):
            sio = io.StringIO()
            fn(TagWriter(sio, write_handles=handles, dxfversion=ver))
            return dxfparse.parse_ascii(sio.getvalue())

        for e in list(doc.modelspace()) + list(doc.active_layout()):
            if e.dxftype() in ("POLYLINE", "INSERT") or ver < e.MIN_DXF_VERSION_FOR_EXPORT:
                continue
            whole = part(e.export_dxf)
            if not whole:
                continue          # nothing written (LWPOLYLINE / MLINE without vertices)
            base, body, xdata = part(e.export_base_class), part(e.export_entity), part(e.export_xdata)
            if whole != base + body + xdata:
                ctx.hist("X17 generic records", "other-path:" + e.dxftype())      # embedded objects etc.: not the generic path
                continue
            ctx.hist("X17 generic records", e.dxftype())
            cases.append((f"gr|{msp}|{psp}|{esc(e.dxftype())}|{tags_line(base[1:])}|{tags_line(body)}|{tags_line(xdata)}",
                          "1|1|" + tags_line(whole), True))
    return cases


def correspond_histories(ctx):
    global _POOL_TMP
    _POOL_TMP = str(ctx.scratch)
    n = ctx.n(500, 8000)
    with _pool(4) as pool:      # few workers: long histories per interpreter
        results = pool.map(_history_case, [(ctx.seed, i) for i in range(n)], chunksize=max(1, n // 8))
    cases = []
    for kind, tags, calls in results:
        line = tags_line(tags)
        for rd, types, impl in calls:
            if impl.startswith("err:other:"):
                ctx.hist("X15 reader histories", "outside-model:" + rd + ":" + impl[10:])
                continue
            t = "-" if types is None else ",".join(types)
            ctx.hist("X15 reader histories", rd + ("/all" if not types else "/filtered"))
            cases.append((f"rdf|{rd}|{t}|-|-|{line}", impl, impl != "ok "))
    return cases


# ------------------------------------------------------------------ X13 fileindex locations
def correspond_locations(ctx):
    """the byte offsets fileindex.load records for the structure tags (what IterDXF.load_entities seeks to) vs locationOf"""
    from ezdxf.lldxf import fileindex

    rng = ctx.rng("locations")
    path = os.path.join(str(ctx.scratch), "loc.dxf")
    cases = []
    for i in range(ctx.n(300, 4000)):
        kind, tags = gen_stream(random.Random(f"{ctx.seed}/loc/{i}"))
        if kind.split("+")[0] not in ("wellformed", "comment"):
            continue
        style = rng.choice(["lf", "crlf", "mixed", "mixed"])
        flags = [style == "crlf" or (style == "mixed" and rng.random() < 0.5) for _ in tags]
        # long values now and then: the offsets must not depend on any line length
        tags = [(c, v * rng.choice([1, 1, 1, 40]) if c == 1 else v) for c, v in tags]
        data = b"".join(b"%3d" % c + (b"\r\n" if f else b"\n") + v.encode("ascii") + (b"\r\n" if f else b"\n")
                        for (c, v), f in zip(tags, flags))
        with open(path, "wb") as fp:
            fp.write(data)
        try:
            fs = fileindex.load(path)
        except Exception as ex:  # noqa
            ctx.hist("X13 fileindex locations", "raised:" + type(ex).__name__)
            continue
        impl = ",".join(str(e.location) for e in fs.index if e.code == 0)
        req = "loc|" + ";".join(f"{c},{esc(v)},{int(f)}" for (c, v), f in zip(tags, flags))
        cases.append((req, impl, True))
        ctx.hist("X13 fileindex locations", style)
    return cases


# ------------------------------------------------------------------ X11 recover's coordinate re-ordering filter
def correspond_reorder(ctx):
    from ezdxf.lldxf import repair
    from ezdxf.lldxf.types import DXFTag

    rng = ctx.rng("reorder")
    cases = []
    coords = [(10, "1"), (20, "2"), (30, "3"), (11, "4"), (21, "5"), (31, "6")]
    for i in range(ctx.n(1200, 20000)):
        r = rng
        tags = []
        if r.random() < 0.1:
            tags += [(5, "AA"), (8, "x")]                     # tags in front of the first structure tag
        for _ in range(r.choice([1, 2, 3, 5])):
            typ = r.choice(["LINE", "LINE", "LINE", "CIRCLE", "DIMENSION", " LINE", "line", "POINT", "SECTION"])
            g = [(0, typ), (5, "%X" % r.randrange(16, 4000)), (8, "0")]
            cs = list(coords)
            mode = r.choice(["canon", "canon", "legacy", "shuffled", "missing", "dup", "split", "none"])
            if mode == "legacy":
                cs = [coords[0], coords[3], coords[1], coords[4], coords[2], coords[5]]       # x1 x2 y1 y2 z1 z2
            elif mode == "shuffled":
                r.shuffle(cs)
            elif mode == "missing":
                cs = [c for c in cs if r.random() < 0.6]
            elif mode == "dup":
                cs.insert(r.randrange(len(cs) + 1), (r.choice([10, 21, 30]), "9"))
            elif mode == "none":
                cs = []
            if mode == "split":
                g += cs[:3] + [(100, "AcDbX"), (39, "1.5")] + cs[3:]
            else:
                k = r.randrange(len(g), len(g) + 1)
                g += [(39, "0.5")] * r.choice([0, 1]) + cs + [(210, "0"), (220, "0"), (230, "1")] * r.choice([0, 1])
            if r.random() < 0.2:
                g += [(1001, "APP"), (1010, "1"), (1020, "2"), (1030, "3")]
            tags += g
            ctx.hist("X11 recover reorder filter", typ.strip().upper() + "/" + mode)
        if r.random() < 0.85:
            tags += [(0, "EOF")]
        got = list(repair.tag_reorder_layer(iter([DXFTag(c, v.encode()) for c, v in tags])))
        impl = ";".join(f"{t.code},{esc(t.value.decode())}" for t in got)
        cases.append(("ro|" + tags_line(tags), impl, impl != tags_line(tags)))
    return cases


# ------------------------------------------------------------------ X2 JSON tags
def _wtag_line(w):
    if w[0] == "s":
        return f"s,{w[1]},{esc(w[2])}"
    return f"v,{w[1]}," + " ".join(esc(x) for x in w[2])


def correspond_json(ctx):
    import json

    from ezdxf.lldxf.tagger import ascii_tags_loader, json_tag_loader
    from ezdxf.lldxf.tagwriter import JSONTagWriter, TagWriter
    from ezdxf.lldxf.types import POINT_CODES, DXFTag, DXFVertex

    rng = ctx.rng("json")
    cases = []
    pts = sorted(POINT_CODES)
    for i in range(ctx.n(600, 6000)):
        # writer: compiled tags, EOF only at the end (the JSON writer closes the list there)
        ws, real = [], []
        for _ in range(rng.randint(0, 12)):
            x = rng.random()
            if x < 0.3:
                c = rng.choice(pts)
                xs = [rng.choice([0.0, 1.5, -2.25, 1e-9, 123456.789]) for _ in range(rng.choice([2, 3]))]
                ws.append(("v", c, [str(v) for v in xs]))
                real.append(DXFVertex(c, tuple(xs)))
            elif x < 0.5:
                c = rng.choice([70, 90, 62, 280])
                v = rng.randint(-5, 300)
                ws.append(("s", c, str(v)))
                real.append(DXFTag(c, v))
            elif x < 0.65:
                c = rng.choice([40, 50, 140])
                v = rng.choice([0.0, 2.5, -1e-7, 1e20])
                ws.append(("s", c, str(v)))
                real.append(DXFTag(c, v))
            elif x < 0.75:
                ws.append(("s", 999, "comment"))
                real.append(DXFTag(999, "comment"))
            else:
                c = rng.choice([0, 1, 2, 5, 8, 100, 1000])
                v = rng.choice(["LINE", "SECTION", 'q"uote', "back\\slash", "äΩ", "", " pad ", "A1", "tab\tx"])
                ws.append(("s", c, v))
                real.append(DXFTag(c, v))
        ws.append(("s", 0, "EOF"))
        real.append(DXFTag(0, "EOF"))
        compact = i % 2 == 0
        out = io.StringIO()
        w = JSONTagWriter(out, compact=compact)
        for t in real[:-1]:
            w.write_tag(t)
        w.write_tag2(0, "EOF")
        data = json.loads(out.getvalue())
        pairs = []
        for c, v in data:
            pairs.append(f"v,{c}," + " ".join(esc(str(x)) for x in v) if isinstance(v, list) else f"s,{c},{esc(str(v))}")
        loaded = ";".join(f"{t.code},{esc(str(t.value))}" for t in json_tag_loader(data))
        a = io.StringIO()
        tw = TagWriter(a)
        for t in real:
            tw.write_tag(t)
        a.seek(0)
        asc = ";".join(f"{t.code},{esc(str(t.value))}" for t in ascii_tags_loader(a))
        impl = ";".join(pairs) + "|" + loaded + "|" + asc
        cases.append((f"jw|{int(compact)}|" + ";".join(_wtag_line(x) for x in ws), impl, len(ws) > 1))
    for i in range(ctx.n(400, 4000)):
        # loader alone: EOF and comments anywhere, coordinate lists under point and non point codes
        js, data = [], []
        for _ in range(rng.randint(0, 10)):
            x = rng.random()
            if x < 0.3:
                c = rng.choice(pts)
                xs = [rng.choice([0.0, 1.5, -2.25]) for _ in range(rng.choice([0, 1, 2, 3]))]
                js.append(f"v,{c}," + " ".join(esc(str(v)) for v in xs))
                data.append([c, xs])
            elif x < 0.4:
                js.append("s,0,EOF")
                data.append([0, "EOF"])
            elif x < 0.55:
                js.append("s,999,c")
                data.append([999, "c"])
            else:
                c = rng.choice([0, 1, 8, 70, 10, 20])
                v = rng.choice(["LINE", "x", "1", "EOF"])
                js.append(f"s,{c},{esc(v)}")
                data.append([c, v])
        impl = ";".join(f"{t.code},{esc(str(t.value))}" for t in json_tag_loader(data))
        cases.append(("jl|" + ";".join(js), impl, bool(js)))
    return cases


# ------------------------------------------------------------------ X3 r12writer tag structure
def correspond_r12(ctx):
    import dxfparse
    from ezdxf.addons.r12writer import r12writer

    rng = ctx.rng("r12corr")
    cases = []
    for i in range(ctx.n(300, 3000)):
        fixed = i % 4 == 0
        calls = gen_r12_calls(rng, fixed)
        out = io.StringIO()
        with r12writer(out, fixed_tables=fixed) as w:
            for name, kw, _ in calls:
                getattr(w, name)(**with_generators(kw, i % 3))      # lists, generators, iterators
        tags = dxfparse.parse_ascii(out.getvalue())
        k = next(j for j, t in enumerate(tags) if t == (2, "ENTITIES")) - 1
        pre, body = tags[:k], tags[k + 2:-2]
        groups = dxfparse.records(body)
        enc, pos = [], 0
        for name, kw, exp in calls:
            if pos >= len(groups):
                enc = None
                break
            if exp[2] is None:
                g = groups[pos]
                pos += 1
                enc.append("S~" + esc(g[0][1]) + "~" + tags_line(g[1:]))
            else:
                n = len(exp[2])
                g = groups[pos]
                vs = groups[pos + 1: pos + 1 + n]
                if pos + 1 + n >= len(groups) or groups[pos + 1 + n] != [(0, "SEQEND")]:
                    enc = None       # not POLYLINE + n VERTEX + SEQEND: reported as a disagreement below
                    break
                pos += n + 2
                enc.append("P~" + tags_line(g[1:]) + "".join("~" + tags_line(v[1:]) for v in vs))
        if enc is None or pos != len(groups):
            cases.append(("r12|-|structure", "the file does not have the structure of the calls: " + str([c[0] for c in calls]), True))
            continue
        cases.append((f"r12|{tags_line(pre)}|" + "!".join(enc), tags_line(tags), True))
        ctx.hist("X3 r12writer structure", "fixed_tables" if fixed else "plain")
        if i % 5 == 0:
            # the five real readers on the real r12writer file vs the reader models on its tags
            p2 = os.path.join(str(ctx.scratch), "r12w.dxf")
            with open(p2, "wb") as fp:
                fp.write(out.getvalue().encode("cp1252", "replace"))
            t2 = dxfparse.parse_ascii(out.getvalue().encode("cp1252", "replace").decode("cp1252"))
            rr = real_readers(None, p2, set())
            for rd in READERS:
                if not rr[rd].startswith("err:other:"):
                    cases.append((f"rd|{rd}|-|-|{tags_line(t2)}", rr[rd], True))
    return cases


# ------------------------------------------------------------------ X4 iterdxf exporter tag structure
def _export_case(args):
    tags, path = args
    _quiet()
    import dxfparse
    from ezdxf.addons import iterdxf

    src = path + "-s.dxf"
    dst = path + "-d.dxf"
    with open(src, "wb") as fp:
        fp.write(file_text(tags).encode("utf8"))
    ex = None
    try:
        it = iterdxf.opendxf(src)
        try:
            ex = it.export(dst)
            for e in it.modelspace():
                ex.write(e)
            ex.close()
        finally:
            it.close()
            if ex is not None and not ex.file.closed:
                ex.file.close()
    except Exception as e:  # noqa
        return "err:" + type(e).__name__
    with open(dst, "rb") as fp:
        text = fp.read().decode("utf8").replace("\r\n", "\n")
    out = []
    for r in dxfparse.records(dxfparse.parse_ascii(text)):
        h = next((v for c, v in r[1:] if c == 5), "-")
        out.append(esc(r[0][1]) + ":" + esc(h))
    return ";".join(out)


def correspond_export(ctx, reader_results):
    from ezdxf.addons import iterdxf

    # current behaviour of the exporter (probe): are sub-entities written twice?
    dup = _export_case(([S, (2, "ENTITIES"), (0, "POLYLINE"), (5, "A1"), (8, "0"), (66, "1"), (10, "0"), (20, "0"), (30, "0"),
                         (0, "VERTEX"), (5, "A2"), (8, "0"), (10, "0"), (20, "0"), (30, "0"), (0, "SEQEND"), (5, "A3"), (8, "0"),
                         E, EOF_T], os.path.join(str(ctx.scratch), "xp"))).count("VERTEX") == 2
    cases = []
    todo = []
    for kind, tags, res in reader_results:
        if kind.split("/")[0] != "wellformed" or res["idx"].startswith("err"):
            continue
        ver = next((tags[j + 1][1] for j, t in enumerate(tags[:-1]) if t == (9, "$ACADVER")), "AC1009")
        todo.append((tags, ver))
        if len(todo) >= ctx.n(300, 3000):
            break
    for i, (tags, ver) in enumerate(todo):
        impl = _export_case((tags, os.path.join(str(ctx.scratch), "x%d" % (i % 8))))
        if impl.startswith("err:"):
            ctx.hist("X4 exporter structure", impl)
            continue
        cases.append((f"ex|{int(dup)}|{int(ver <= 'AC1009')}|{tags_line(tags)}", impl, "POLYLINE" in impl or "INSERT" in impl))
    ctx.hist("X4 exporter structure", "writes-sub-entities-twice" if dup else "writes-sub-entities-once")
    return cases


# ------------------------------------------------------------------ X5 writers_wf: FileWF' of the model on real written files
def _ent_line(groups) -> str:
    return "~".join(tags_line(g) for g in groups)


def _wf_case(args):
    """one generated document written by the REAL Drawing.write:
    X5 FileWF' of the model on the file; X6 the writer model: the document's sections and entity spaces exported ONE BY
    ONE through their own export_dxf into separate tag writers, assembled by the model's `writeDoc`, must be the file the
    real Drawing.write produced, and the records must satisfy the local predicate DocOK; X7 the five real readers on
    the real file vs the five reader models on its tags"""
    seed, idx, tmp = args
    _quiet()
    import dxfparse
    from ezdxf.lldxf.tagwriter import TagWriter

    signal.signal(signal.SIGALRM, _on_alarm)
    rng = random.Random(f"{seed}/wf/{idx}")
    vname = list(VERSIONS)[idx % 7]
    ver = VERSIONS[vname]
    kinds = []
    try:
        signal.alarm(30)
        if idx % 3 == 2:
            from gen.dochist import Runner, gen_rich

            r = Runner(vname)
            choose = gen_rich(random.Random(rng.randrange(1 << 30)))
            for _ in range(rng.choice([10, 20, 30])):
                op = choose(r)
                if vname == "R12" and op[0] in ("newlayout", "dellayout", "renlayout", "activate", "reload"):
                    continue
                if op[0] == "reactor":
                    continue
                r.apply(op)
                kinds.append(op[0])
            doc = r.doc
        else:
            doc, made = build_document(rng, vname, rng.choice(list(CODEPAGES)), False)
            kinds = [m[0] for m in made]
        settle_document(doc)        # (a first write may change the document: compare the writer model on the settled state)
        out = io.StringIO()
        doc.write(out)
    except _Timeout:
        return None
    except Exception as ex:  # noqa
        if "All entities have to be in the same layout" in str(ex):
            return None      # C04's finding F21: nothing was written
        raise
    finally:
        signal.alarm(0)
    text = out.getvalue()
    tags = dxfparse.parse_ascii(text)
    msp = doc.modelspace().layout_key
    psp = doc.active_layout().layout_key
    res = {"kinds": kinds, "version": vname, "wf": f"wf|{msp}|{psp}|{tags_line(tags)}"}
    # --- X6: the parts, exported one by one
    handles = bool(doc.header.get("$HANDLING", 0)) if ver == "AC1009" else True

    def part(export):
        sio = io.StringIO()
        export(TagWriter(sio, write_handles=handles, dxfversion=ver))
        return dxfparse.parse_ascii(sio.getvalue())

    def sec(export):
        t = part(export)
        if len(t) < 3 or t[0] != S or t[1][0] != 2 or t[-1] != E:
            raise ValueError("section export without SECTION/name/ENDSEC frame: %r" % (t[:3],))
        return t[1][1], t[2:-1]

    def space(layout):
        ents = []
        for e in layout.entity_space:
            recs = dxfparse.records(part(e.export_dxf))
            if not recs:
                continue      # nothing written for this entity (LWPOLYLINE / MLINE without vertices)
            if len(recs) > 1 and recs[-1][0][1] == "SEQEND":
                ents.append(_ent_line([recs[0]] + recs[1:-1]) + "!" + tags_line(recs[-1]))
            else:
                ents.append(_ent_line(recs) + "!")
        return "^".join(ents)

    r12 = not ver > "AC1009"
    hdr = sec(doc.header.export_dxf)[1]
    cls = [] if r12 else sec(doc.classes.export_dxf)[1]
    tab = sec(doc.tables.export_dxf)[1]
    blk = sec(doc.blocks.export_dxf)[1]
    obj = [] if r12 else sec(doc.objects.export_dxf)[1]
    # AcDsDataSection.export_dxf writes nothing unless the section is valid AND has records
    acds = tags_line(sec(doc.acdsdata.export_dxf)[1]) if doc.acdsdata.is_valid and part(doc.acdsdata.export_dxf) else "-"
    stored = "^".join(esc(n) + "~" + tags_line(b) for n, b in (sec(x.export_dxf) for x in doc.stored_sections))
    res["wd"] = "|".join(["wd", msp, psp, str(int(r12)), tags_line(hdr), tags_line(cls), tags_line(tab), tags_line(blk),
                          tags_line(obj), acds, stored, space(doc.modelspace()), space(doc.active_layout())])
    res["wd_impl"] = "1|1|1|" + tags_line(tags)
    # --- X7: the five real readers on the real file
    path = os.path.join(tmp, "wfr-%d.dxf" % os.getpid())
    doc.saveas(path)
    with open(path, "rb") as fp:
        enc = "utf8" if ver >= "AC1021" else doc.encoding
        ftags = dxfparse.parse_ascii(fp.read().decode(enc, "surrogateescape").replace("\r\n", "\n"))
    # handles of the entities in the file (the header's $HANDSEED value is the first handle the loader hands out)
    fh = {v for j, (c, v) in enumerate(ftags) if c == 5 and not (j > 0 and ftags[j - 1] == (9, "$HANDSEED"))}
    res["rd_line"] = f"{msp}|{psp}|{tags_line(ftags)}"
    res["rd"] = real_readers(None, path, fh)
    # --- the other real writers on the same document: iterdxf exporter (mixed line ends) and r12export
    res["more"] = []

    def entity_handles(ft):
        return {v for j, (c, v) in enumerate(ft) if c == 5 and not (j > 0 and ft[j - 1] == (9, "$HANDSEED"))}

    def read_tags(p2, enc2):
        with open(p2, "rb") as fp:
            return dxfparse.parse_ascii(fp.read().decode(enc2, "surrogateescape").replace("\r\n", "\n"))

    from ezdxf.addons import iterdxf, r12export

    pe = path[:-4] + "-e.dxf"
    try:
        it = iterdxf.opendxf(path)
        ex = None
        try:
            ex = it.export(pe)
            for e in it.modelspace():
                ex.write(e)
            ex.close()
        finally:
            it.close()
            if ex is not None and not ex.file.closed:
                ex.file.close()
        et = read_tags(pe, enc)
        res["more"].append(("export", f"{msp}|{psp}|{tags_line(et)}", real_readers(None, pe, entity_handles(et))))
    except Exception as ex2:  # noqa
        res["more"].append(("export-raised:" + type(ex2).__name__, None, None))
    if ver != "AC1009":
        pr = path[:-4] + "-r.dxf"
        try:
            signal.alarm(20)
            try:
                r12export.saveas(doc, pr)
            finally:
                signal.alarm(0)
            rt = read_tags(pr, doc.encoding if ver < "AC1021" else "cp1252")
            if not file_problems(pr):
                res["more"].append(("r12export", f"-|-|{tags_line(rt)}", real_readers(None, pr, entity_handles(rt))))
            # X12: the r12export writer model - a second exporter run, its parts taken one by one in the order to_string
            # produces them (layouts, blocks, header, tables), assembled by the model
            from ezdxf.addons.r12export import R12Exporter

            signal.alarm(20)
            try:
                # (render.hatching jiggles pattern lines by random.random(): both runs start from the same state of the
                # global generator, which is restored afterwards)
                rstate = random.getstate()
                random.seed(20260930)
                whole = dxfparse.parse_ascii(R12Exporter(doc).to_string())
                random.seed(20260930)
                x = R12Exporter(doc)

                def space_tags(sp):
                    sio = io.StringIO()
                    x._tagwriter.set_stream(sio)
                    x.export_entity_space(sp)
                    return dxfparse.parse_ascii(sio.getvalue())

                m_t = space_tags(doc.modelspace().entity_space)
                p_t = space_tags(doc.paperspace().entity_space)

                def body(text):
                    t = dxfparse.parse_ascii(text)
                    if len(t) < 3 or t[0] != S or t[1][0] != 2 or t[-1] != E:
                        raise ValueError("r12export part without SECTION/name/ENDSEC frame")
                    return t[2:-1]

                b_t = body(x.export_blocks_to_string())
                h_t = body(x.export_header_to_string())
                t_t = body(x.export_tables_to_string())
                res["r12x"] = ("|".join(["r12x", tags_line(h_t), tags_line(t_t), tags_line(b_t), tags_line(m_t), tags_line(p_t)]),
                               "1|" + tags_line(whole))
            finally:
                signal.alarm(0)
                random.setstate(rstate)
        except _Timeout:
            pass
        except Exception as ex3:  # noqa
            res["more"].append(("r12export-raised:" + type(ex3).__name__, None, None))
    for px in (pe, path[:-4] + "-r.dxf"):
        try:
            os.remove(px)
        except OSError:
            pass
    return res


def correspond_wf(ctx):
    """`writers_wf` on the real code (X5), the writer model against the real Drawing.write (X6), the reader models
    against the real readers on real written files (X7)"""
    n = ctx.n(42, 500)
    with _pool(8) as pool:
        results = pool.map(_wf_case, [(ctx.seed, i, str(ctx.scratch)) for i in range(n)], chunksize=2)
    x5, x6, x7, x12 = [], [], [], []
    for r in results:
        if r is None:
            continue
        ctx.hist("X5 writers_wf", r["version"])
        x5.append((r["wf"], "1", True))
        x6.append((r["wd"], r["wd_impl"], True))
        ctx.hist("X6 writer model", r["version"])
        for k in set(r["kinds"]):
            ctx.hist("X6 writer model", "k:" + str(k))
        for rd in READERS:
            impl = r["rd"][rd]
            if impl.startswith("err:other:"):
                ctx.hist("X7 readers on real files", "outside-model:" + rd + ":" + impl[10:])
                continue
            x7.append((f"rd|{rd}|{r['rd_line']}", impl, impl != "ok "))
        if "r12x" in r:
            x12.append((r["r12x"][0], r["r12x"][1], True))
        for wname, line, rr in r["more"]:
            ctx.hist("X7 readers on real files", "writer:" + wname)
            if line is None:
                continue
            for rd in READERS:
                impl = rr[rd]
                if impl.startswith("err:other:"):
                    ctx.hist("X7 readers on real files", "outside-model:" + wname + ":" + rd + ":" + impl[10:])
                    continue
                if rd == "rec" and "\\U+" in line:
                    # known finding F7: recover decodes the \U+XXXX escapes r12export writes for characters outside
                    # cp1252 (text decoding is outside the tag-level model)
                    ctx.hist("X7 readers on real files", "F7-dxf-unicode:" + wname)
                    continue
                x7.append((f"rd|{rd}|{line}", impl, impl != "ok "))
    return x5, x6, x7, x12


# =========================================================================================== oracle on the real code
VERSIONS = {"R12": "AC1009", "R2000": "AC1015", "R2004": "AC1018", "R2007": "AC1021", "R2010": "AC1024",
            "R2013": "AC1027", "R2018": "AC1032"}
CODEPAGES = {
    "cp1252": "éüß€ñ×", "cp1250": "ąčžłő", "cp1251": "дфЖя", "cp1253": "αβΩψ", "cp1254": "ğİşı", "cp1255": "אבג",
    "cp1256": "ابت", "cp1257": "āčėų", "cp1258": "ăơư", "cp874": "กขค", "cp932": "日本語ｱ", "gbk": "中文测试", "cp949": "한국어",
    "cp950": "中文測試",
}
# characters that str.splitlines() / a careless strip() would treat specially but readline() does not
TRICKY_ASCII = ["\x0b", "\x0c", "\x1c", "\x1d", "\x1e", "\x1f", "\t"]
TRICKY_UNI = ["\x85", "\xa0", " ", " ", "　"]


class _Timeout(Exception):
    pass


def _on_alarm(*a):
    raise _Timeout()


def _strings(rng, version, enc):
    """pool of text values for one document"""
    native = CODEPAGES[enc] if version < "AC1021" else "".join(CODEPAGES.values())
    pool = ["plain", "", " lead", "trail ", "  ", "a;b|c,d", 'q"uote', "back\\slash", "%%d%%u", "^J^I^ ", "{\\C1;x}", "\\P",
            "x" * 300, "tab\tin", "a" + rng.choice(TRICKY_ASCII) + "b"]
    for _ in range(6):
        pool.append("".join(rng.choice(native) for _ in range(rng.randint(1, 6))) + rng.choice(["", " z", "9"]))
    if version >= "AC1021":
        pool += ["a" + rng.choice(TRICKY_UNI) + "b", "\U0001F600 emoji", "Ωmega ∑"]
    return pool


def _num(rng):
    x = rng.random()
    if x < 0.25:
        return float(rng.randint(-50, 50))
    if x < 0.45:
        return rng.randint(-4000, 4000) / 64.0
    if x < 0.6:
        return rng.choice([0.1 + 0.2, 1e-9, -1e-9, 1e12, 123456.789012345, -0.0, 1 / 3, 2.5e-5, 9.999999999999999e22])
    return rng.uniform(-1000, 1000)


def _pt(rng, dim=3):
    return tuple(_num(rng) for _ in range(dim))


def build_document(rng, version_name, enc, unencodable=False):
    """a document with many entity types through the public factory API"""
    import ezdxf

    ver = VERSIONS[version_name]
    r12 = ver == "AC1009"
    doc = ezdxf.new(version_name)
    if ver < "AC1021":
        doc.encoding = enc
    if r12 and rng.random() < 0.5:
        doc.header["$HANDLING"] = 0
    pool = _strings(rng, ver, enc)
    if unencodable:
        pool = pool + ["Ω∑ outside the code page", "x€y" if enc not in ("cp1252",) else "кириллица"]
    S = lambda: rng.choice(pool)      # noqa: E731
    doc.layers.add("L1", color=2)
    lname = "L" + "".join(c for c in CODEPAGES[enc][:2]) if ver < "AC1021" else "LΩ"
    if not r12:
        try:
            doc.layers.add(lname)
        except Exception:  # noqa
            lname = "L1"
    else:
        lname = "L1"
    blk = doc.blocks.new("BLK")
    blk.add_line((0, 0), (1, 1))
    blk.add_attdef("TAG", (0, 0), S() or "x")
    msp = doc.modelspace()
    layouts = [msp, msp, msp, doc.paperspace()]
    if not r12 and rng.random() < 0.5:
        layouts.append(doc.layouts.new("Second"))
    kinds = ["line", "circle", "arc", "point", "text", "attdef", "solid", "trace", "face", "pl2d", "pl3d", "mesh", "pface",
             "plempty", "insert", "insert_attr", "shape"]
    if not r12:
        kinds += ["lwpl", "lwempty", "mtext", "mtextlong", "ellipse", "spline", "hatch", "ray", "xline", "leader", "meshent",
                  "image", "wipeout", "mline", "dim", "mleader", "solid3d", "region", "tolerance", "helix", "lwpl", "mtext"]
    n = rng.choice([3, 6, 10, 16])
    made = []
    for _ in range(n):
        lay = rng.choice(layouts)
        kind = rng.choice(kinds)
        attribs = {"layer": rng.choice(["0", "L1", lname]), "color": rng.choice([256, 1, 7, 0])}
        if rng.random() < 0.2:
            attribs["linetype"] = "BYLAYER"
        if not r12 and rng.random() < 0.2:
            attribs["lineweight"] = rng.choice([-1, 13, 50])
        if ver >= "AC1018" and rng.random() < 0.2:
            attribs["true_color"] = rng.randrange(1 << 24)
        e = None
        try:
            if kind == "line":
                e = lay.add_line(_pt(rng), _pt(rng), dxfattribs=attribs)
                if rng.random() < 0.2:
                    e.dxf.thickness = _num(rng)
                    e.dxf.extrusion = (0, 0, -1)
            elif kind == "circle":
                e = lay.add_circle(_pt(rng), abs(_num(rng)) + 0.1, dxfattribs=attribs)
            elif kind == "arc":
                e = lay.add_arc(_pt(rng), abs(_num(rng)) + 0.1, _num(rng), _num(rng), dxfattribs=attribs)
            elif kind == "point":
                e = lay.add_point(_pt(rng), dxfattribs=attribs)
            elif kind == "text":
                e = lay.add_text(S(), height=abs(_num(rng)) + 0.1, rotation=_num(rng), dxfattribs=attribs)
                e.dxf.insert = _pt(rng)
            elif kind == "attdef":
                e = lay.add_attdef("T" + str(rng.randint(1, 9)), _pt(rng, 2), S(), dxfattribs=attribs)
            elif kind == "solid":
                e = lay.add_solid([_pt(rng, 2) for _ in range(rng.choice([3, 4]))], dxfattribs=attribs)
            elif kind == "trace":
                e = lay.add_trace([_pt(rng, 2) for _ in range(4)], dxfattribs=attribs)
            elif kind == "face":
                e = lay.add_3dface([_pt(rng) for _ in range(rng.choice([3, 4]))], dxfattribs=attribs)
            elif kind == "pl2d":
                e = lay.add_polyline2d([(_num(rng), _num(rng), 0.5, 0.25, _num(rng)) for _ in range(rng.randint(1, 5))],
                                       format="xyseb", dxfattribs=attribs)
            elif kind == "pl3d":
                e = lay.add_polyline3d([_pt(rng) for _ in range(rng.randint(1, 5))], dxfattribs=attribs)
            elif kind == "mesh":
                e = lay.add_polymesh((2, 2), dxfattribs=attribs)
                e.set_mesh_vertex((0, 0), _pt(rng))
            elif kind == "pface":
                e = lay.add_polyface(dxfattribs=attribs)
                e.append_face([_pt(rng), _pt(rng), _pt(rng)])
            elif kind == "plempty":
                e = lay.add_polyline2d([], dxfattribs=attribs)
            elif kind == "insert":
                e = lay.add_blockref("BLK", _pt(rng), dxfattribs=dict(attribs, xscale=_num(rng) or 1, rotation=_num(rng)))
            elif kind == "insert_attr":
                e = lay.add_blockref("BLK", _pt(rng), dxfattribs=attribs)
                for i in range(rng.randint(1, 3)):
                    e.add_attrib("TAG%d" % i, S(), _pt(rng, 2))
            elif kind == "shape":
                e = lay.add_shape("S1", _pt(rng), size=abs(_num(rng)) + 0.1, dxfattribs=attribs)
            elif kind == "lwpl":
                e = lay.add_lwpolyline([(_num(rng), _num(rng), 0.0, 0.0, _num(rng)) for _ in range(rng.randint(1, 6))],
                                       dxfattribs=attribs)
                e.closed = rng.random() < 0.5
            elif kind == "lwempty":
                e = lay.add_lwpolyline([], dxfattribs=attribs)
            elif kind == "mtext":
                e = lay.add_mtext(S(), dxfattribs=attribs)
                e.dxf.insert = _pt(rng)
                e.dxf.char_height = abs(_num(rng)) + 0.1
            elif kind == "mtextlong":
                e = lay.add_mtext((S() + " ") * 120, dxfattribs=attribs)
            elif kind == "ellipse":
                # moderate size: r12export flattens ellipses (C14's subject)
                e = lay.add_ellipse((rng.uniform(-500, 500), rng.uniform(-500, 500), rng.choice([0.0, 2.5])),
                                    major_axis=(rng.uniform(1, 50), rng.uniform(-20, 20), 0), ratio=rng.choice([0.5, 0.25, 1.0]),
                                    dxfattribs=attribs)
            elif kind == "spline":
                # fit points of moderate size (the CAD fit point interpolation is C13's subject)
                mp = lambda: (rng.uniform(-100, 100), rng.uniform(-100, 100), rng.choice([0.0, 1.5]))  # noqa: E731
                e = lay.add_spline([mp() for _ in range(rng.randint(3, 6))], dxfattribs=attribs)
                if rng.random() < 0.5:
                    e = lay.add_open_spline([mp() for _ in range(5)], degree=3, dxfattribs=attribs)
            elif kind == "hatch":
                e = lay.add_hatch(color=rng.randint(1, 6), dxfattribs={"layer": attribs["layer"]})
                # moderate size: r12export renders pattern lines (their number grows with area / scale)
                e.paths.add_polyline_path([(rng.uniform(-50, 50), rng.uniform(-50, 50), rng.choice([0, 0.5, -1.25]))
                                           for _ in range(4)], is_closed=True)
                if rng.random() < 0.5:
                    ep = e.paths.add_edge_path()
                    ep.add_line((rng.uniform(-9, 9), 0.125), (rng.uniform(-9, 9), 7.5))
                    ep.add_arc((rng.uniform(-9, 9), 1), 1.5, 0, 90)
                if rng.random() < 0.4:
                    e.set_pattern_fill("ANSI31", scale=rng.choice([1.0, 2.5, 4.0]))
                elif ver >= "AC1018" and rng.random() < 0.4:
                    e.set_gradient((10, 20, 30), (200, 100, 50))
            elif kind == "ray":
                e = lay.add_ray(_pt(rng), (1, 0, 0), dxfattribs=attribs)
            elif kind == "xline":
                e = lay.add_xline(_pt(rng), (0, 1, 0), dxfattribs=attribs)
            elif kind == "leader":
                e = lay.add_leader([_pt(rng, 2) for _ in range(3)], dxfattribs=attribs)
            elif kind == "meshent":
                e = lay.add_mesh(dxfattribs=attribs)
                with e.edit_data() as d:
                    d.vertices = [_pt(rng) for _ in range(4)]
                    d.faces = [[0, 1, 2], [0, 2, 3]]
            elif kind == "image":
                idef = doc.add_image_def("pic" + S()[:3] + ".png", (640, 480))
                e = lay.add_image(idef, _pt(rng), (3, 2), dxfattribs=attribs)
            elif kind == "wipeout":
                e = lay.add_wipeout([_pt(rng, 2) for _ in range(4)], dxfattribs=attribs)
            elif kind == "mline":
                e = lay.add_mline([_pt(rng) for _ in range(rng.choice([0, 2, 3]))], dxfattribs=attribs)
            elif kind == "dim":
                d = lay.add_linear_dim(base=(0, 3), p1=_pt(rng, 2), p2=_pt(rng, 2), text=rng.choice(["<>", S()]))
                d.render()
                e = d.dimension
            elif kind == "mleader":
                b = lay.add_multileader_mtext("Standard")
                b.set_content(S() or "c")
                from ezdxf.math import Vec2
                b.add_leader_line(__import__("ezdxf").render.mleader.ConnectionSide.left, [Vec2(-5, -5)])
                b.build(insert=Vec2(_pt(rng, 2)))
                e = b.multileader
            elif kind == "solid3d":
                e = lay.add_3dsolid(dxfattribs=attribs)
            elif kind == "region":
                e = lay.add_region(dxfattribs=attribs)
            elif kind == "tolerance":
                e = lay.new_entity("TOLERANCE", dict(attribs, insert=_pt(rng), content=S()))
            elif kind == "helix":
                e = lay.add_helix(radius=2, pitch=1, turns=2, dxfattribs=attribs)
        except (_Timeout, KeyboardInterrupt):
            raise
        except Exception as ex:  # noqa  (a factory call this version does not support)
            made.append(("skip", kind, type(ex).__name__))
            continue
        if e is None:
            continue
        made.append((kind, lay.name))
        if rng.random() < 0.15:
            if "VERIFAPP" not in doc.appids:
                doc.appids.add("VERIFAPP")
            e.set_xdata("VERIFAPP", [(1000, S()), (1070, 7), (1040, _num(rng)), (1010, _pt(rng))])
        if not r12 and rng.random() < 0.1:
            xd = e.new_extension_dict()
            xd.add_xrecord("K").reset([(1, S()), (90, 5)])
    return doc, made


# ------------------------------------------------------------------ snapshots
def _canon(v):
    from ezdxf.math import Vec2, Vec3

    if isinstance(v, Vec3):
        return ("V3", v.x, v.y, v.z)
    if isinstance(v, Vec2):
        return ("V2", v.x, v.y)
    if isinstance(v, float):
        return ("F", v)
    if isinstance(v, (list, tuple)):
        return tuple(_canon(x) for x in v)
    return v


DROP_ATTRIBS = ("owner",)
DROP_CODES = (330,)       # owner handle in the exported tags


def snap(e, ver, with_handle=True):
    """(dxftype, attribs, exported content tags or None, sub-entity snapshots)"""
    from ezdxf.lldxf.tagwriter import TagCollector

    attribs = {k: _canon(v) for k, v in e.dxf.all_existing_dxf_attribs().items()
               if k not in DROP_ATTRIBS and (with_handle or k != "handle")}
    try:
        tags = tuple((t.code, _canon(t.value)) for t in TagCollector.dxftags(e, ver)
                     if t.code not in DROP_CODES and (with_handle or t.code != 5))
    except Exception:  # noqa  (export of an entity without document can need the document)
        tags = None
    subs = tuple(snap(s, ver, with_handle) for s in getattr(e, "_sub_entities", ()))
    return (e.dxftype(), tuple(sorted(attribs.items())), tags, subs)


def snaps(entities, ver, with_handle=True, supported_only=False):
    from ezdxf.addons import iterdxf

    return [snap(e, ver, with_handle) for e in entities if not supported_only or e.dxftype() in iterdxf.SUPPORTED_TYPES]


def diff(a, b):
    """first difference of two snapshot lists as (class, text), None if equal"""
    if len(a) != len(b):
        return "len", f"{len(a)} vs {len(b)} entities: {[x[0] for x in a][:10]} vs {[x[0] for x in b][:10]}"
    for i, (x, y) in enumerate(zip(a, b)):
        if x[0] != y[0]:
            return "type", f"#{i} {x[0]} vs {y[0]}"
        if x[1] != y[1]:
            da, db = dict(x[1]), dict(y[1])
            ks = sorted(k for k in set(da) | set(db) if da.get(k) != db.get(k))
            return "attrib:" + ks[0], f"#{i} {x[0]}: " + ", ".join(f"{k}: {da.get(k)!r} vs {db.get(k)!r}" for k in ks[:3])
        if len(x[3]) != len(y[3]):
            return "subs", f"#{i} {x[0]}: {len(x[3])} vs {len(y[3])} sub-entities"
        d = diff(list(x[3]), list(y[3]))
        if d:
            return "sub-" + d[0], f"#{i} {x[0]} sub-entity " + d[1]
        if x[2] is not None and y[2] is not None and x[2] != y[2]:
            for j, (p, q) in enumerate(zip(x[2], y[2])):
                if p != q:
                    return "content", f"#{i} {x[0]} exported tag {j}: {p} vs {q}"
            return "content", f"#{i} {x[0]}: {len(x[2])} vs {len(y[2])} exported tags"
    return None


def _decoded(x: str) -> str:
    from ezdxf.lldxf.encoding import decode_dxf_unicode, has_dxf_unicode

    return decode_dxf_unicode(x) if has_dxf_unicode(x) else x


def _same(a, b) -> bool:
    """attribute values of source and reader: numbers by value (1.0 == 1, -0.0 == 0), the rest canonically"""
    if isinstance(a, (int, float)) and isinstance(b, (int, float)) and not isinstance(a, bool) and not isinstance(b, bool):
        return a == b
    return _canon(a) == _canon(b)


def _not_written(e) -> bool:
    """entities Drawing.write leaves out on purpose: LWPOLYLINE / MLINE without vertices (C04's subject)"""
    return e.dxftype() in ("LWPOLYLINE", "MLINE") and len(e) == 0


def source_diff(src_entities, got_entities, with_handle=True):
    """what the source document defines must arrive (defaults may be added by the writer: C01's subject)"""
    src_entities = [e for e in src_entities if not _not_written(e)]
    if len(src_entities) != len(got_entities):
        return "len", f"source has {[e.dxftype() for e in src_entities][:12]}, reader {[e.dxftype() for e in got_entities][:12]}"
    for i, (s, g) in enumerate(zip(src_entities, got_entities)):
        if s.dxftype() != g.dxftype():
            return "type", f"#{i} {s.dxftype()} vs {g.dxftype()}"
        for k, v in s.dxf.all_existing_dxf_attribs().items():
            if k in DROP_ATTRIBS or (k == "handle" and not with_handle):
                continue
            if k == "attribs_follow":
                continue     # derived from the attached ATTRIBs at export
            try:
                gv = g.dxf.get(k, g.dxf.dxf_default_value(k))
            except Exception:  # noqa
                gv = g.dxf.get(k)
            if gv is None:
                continue     # not exported for this DXF version / default elided (C01, C04)
            if not _same(v, gv):
                if isinstance(v, str) and isinstance(gv, str) and _decoded(gv) == v:
                    return "dxf-unicode", f"#{i} {s.dxftype()}.{k}: source {v!r} reader {gv!r}"
                return "attrib:" + k, f"#{i} {s.dxftype()}.{k}: source {v!r} reader {gv!r}"
        ss, gs = getattr(s, "_sub_entities", []), getattr(g, "_sub_entities", [])
        d = source_diff(list(ss), list(gs), with_handle)
        if d:
            return "sub-" + d[0], f"#{i} {s.dxftype()} sub-entity " + d[1]
    return None


def _falsy(sn) -> bool:
    """entity the iterdxf readers do not yield: `if queued:` with len(entity) == 0"""
    typ, attribs, tags, subs = sn
    if typ == "POLYLINE":
        return len(subs) == 0
    if typ == "LWPOLYLINE":
        return tags is not None and not any(c == 10 for c, _ in tags) or dict(attribs).get("count", 1) == 0
    if typ == "MLINE":
        return dict(attribs).get("count", 1) == 0 or (tags is not None and not any(c == 11 for c, _ in tags))
    return False


# ------------------------------------------------------------------ readers of one ASCII file
def ascii_readers(path, ver, with_handle):
    import ezdxf
    from ezdxf import recover
    from ezdxf.addons import iterdxf
    from ezdxf.filemanagement import dxf_file_info

    out = {}

    def run(name, fn):
        signal.alarm(20)
        try:
            out[name] = fn()
        except _Timeout:
            out[name] = "EXC watchdog"
        except Exception as ex:  # noqa
            out[name] = f"EXC {type(ex).__name__}: {str(ex)[:120]}"
        finally:
            signal.alarm(0)

    run("readfile", lambda: snaps(ezdxf.readfile(path).modelspace(), ver, with_handle, True))

    def rd():
        info = dxf_file_info(path)
        with open(path, "rt", encoding=info.encoding, errors="surrogateescape") as fp:
            return snaps(ezdxf.read(fp).modelspace(), ver, with_handle, True)

    run("read", rd)
    run("recover.readfile", lambda: snaps(recover.readfile(path)[0].modelspace(), ver, with_handle, True))

    def rr():
        with open(path, "rb") as fp:
            return snaps(recover.read(fp)[0].modelspace(), ver, with_handle, True)

    run("recover.read", rr)
    run("iterdxf.modelspace", lambda: snaps(iterdxf.modelspace(path), ver, with_handle))

    def sp():
        with open(path, "rb") as fp:
            return snaps(iterdxf.single_pass_modelspace(fp), ver, with_handle)

    run("iterdxf.single_pass_modelspace", sp)

    def od():
        it = iterdxf.opendxf(path)
        try:
            return snaps(it.modelspace(), ver, with_handle)
        finally:
            it.close()

    run("iterdxf.opendxf", od)
    return out


ITER_READERS = ("iterdxf.modelspace", "iterdxf.single_pass_modelspace", "iterdxf.opendxf")


def _unicode_only(ref, got) -> bool:
    """the two snapshot lists differ only by `\\U+XXXX` sequences that one side decoded (long MTEXT content is chunked
    differently then: string content tags are compared joined)"""
    def norm_ent(sn):
        typ, attribs, tags, subs = sn
        na = tuple((k, _decoded(v) if isinstance(v, str) else v) for k, v in attribs)
        if tags is None:
            nt = None
        else:
            text = _decoded("".join(v for c, v in tags if isinstance(v, str) and c in (1, 3)))
            nt = (text, tuple((c, _decoded(v) if isinstance(v, str) else v) for c, v in tags if not (isinstance(v, str) and c in (1, 3))))
        return (typ, na, nt, tuple(norm_ent(x) for x in subs))

    if len(ref) != len(got):
        return False
    a, b = [norm_ent(x) for x in ref], [norm_ent(x) for x in got]
    for x, y in zip(a, b):
        if x[0] != y[0] or x[1] != y[1] or x[3] != y[3]:
            return False
        if x[2] is not None and y[2] is not None and x[2] != y[2]:
            return False
    return True


def _last_group_lost(x, got) -> bool:
    """`got` is `x` without the last group of the section: the last entity, its SEQEND or its last sub-entity"""
    if not x:
        return False
    if diff(x[:-1], got) is None:
        return True
    if len(x) != len(got) or diff(x[:-1], got[:-1]) is not None:
        return False
    a, b = x[-1], got[-1]
    if a[0] != b[0] or a[1] != b[1]:
        return False
    return diff(list(a[3]), list(b[3])) is None or diff(list(a[3][:-1]), list(b[3])) is None


def judge(fails, tag, writer, res, ref_name="readfile"):
    """pairwise agreement of all readers with the reference reader; appends (key, what)"""
    ref = res[ref_name]
    if isinstance(ref, str):
        fails.append((f"{writer}/{ref_name}/raised/{ref.split(':')[0][4:]}", f"{tag}: {ref_name} raised {ref}"))
        return
    for name, got in res.items():
        if name == ref_name:
            continue
        if isinstance(got, str):
            fails.append((f"{writer}/{name}/raised/{got.split(':')[0][4:]}", f"{tag}: {name} {got}"))
            continue
        d = diff(ref, got)
        if d is None:
            continue
        if name in ITER_READERS:
            nofalsy = [s for s in ref if not _falsy(s)]
            has_falsy = len(nofalsy) != len(ref)
            falsy_type = next((s[0] for s in ref if _falsy(s)), "")
            if has_falsy and diff(nofalsy, got) is None:
                fails.append((f"iterdxf/falsy-entity-dropped/{falsy_type}",
                              f"{tag}: {name} does not yield the empty {falsy_type} (bool(entity) is False)"))
                continue
            if name == "iterdxf.single_pass_modelspace":
                if _last_group_lost(ref, got):
                    fails.append(("single-pass/last-entity-lost",
                                  f"{tag}: single_pass_modelspace lost the last group of the ENTITIES section ({d[1]})"))
                    continue
                if has_falsy and _last_group_lost(nofalsy, got):
                    fails.append(("single-pass/last-entity-lost",
                                  f"{tag}: single_pass_modelspace lost the last group of the ENTITIES section ({d[1]})"))
                    fails.append((f"iterdxf/falsy-entity-dropped/{falsy_type}", f"{tag}: {name} does not yield the empty {falsy_type}"))
                    continue
        if _unicode_only(ref, got):
            fails.append(("recover/dxf-unicode-decoded", f"{tag}: {name} and {ref_name} differ only by \\U+XXXX escapes one of them decoded: {d[1]}"))
            continue
        fails.append((f"{writer}/{name}/{d[0]}", f"{tag}: {name} vs {ref_name}: {d[1]}"))


def file_problems(path, enc="cp1252"):
    """the writer side of the property (`FileWF'` of the Lean model, evaluated on the real output with the harness-owned
    parser): sections bracketed, one ENTITIES section, no comments, linked structures complete"""
    import dxfparse

    with open(path, "rb") as fp:
        text = fp.read().decode(enc, "surrogateescape").replace("\r\n", "\n")
    tags = dxfparse.parse_ascii(text)
    sections, problems = dxfparse.split_file(tags)
    problems = list(problems)
    names = [n for n, _ in sections]
    if names.count("ENTITIES") != 1:
        problems.append(f"{names.count('ENTITIES')} ENTITIES sections")
    if any(c == 999 for c, _ in tags):
        problems.append("comment tag")
    if any(c > 1071 for c, _ in tags):
        problems.append("group code > 1071")
    for name, recs in sections:
        if name not in ("ENTITIES", "BLOCKS"):
            continue
        open_main = None
        for r in recs:
            typ = r[0][1]
            if typ == "<SECTION-TAGS>":
                problems.append(f"tags between (2, {name}) and the first entity")
                continue
            if typ in ("BLOCK", "ENDBLK") and open_main:
                problems.append(f"{open_main[0]} not closed by SEQEND (next entity {typ})")
                open_main = None
            if open_main:
                if typ == "SEQEND":
                    open_main = None
                elif typ != open_main[1]:
                    problems.append(f"{open_main[0]} not closed by SEQEND (next entity {typ})")
                    open_main = None
                continue
            if typ == "POLYLINE":
                open_main = ("POLYLINE", "VERTEX")
            elif typ == "INSERT" and any(c == 66 and str(v).strip() not in ("0", "") for c, v in r):
                open_main = ("INSERT", "ATTRIB")
        if open_main:
            problems.append(f"{open_main[0]} not closed by SEQEND (end of section)")
    return problems


def _doc_case(args):
    """one generated document through every writer and every reader; returns (stats, [(key, what)], replay)"""
    seed, idx, tmp = args
    _quiet()
    signal.signal(signal.SIGALRM, _on_alarm)
    rng = random.Random(f"{seed}/doc/{idx}")
    vname = list(VERSIONS)[idx % 7]
    ver = VERSIONS[vname]
    enc = rng.choice(list(CODEPAGES)) if idx % 3 else "cp1252"
    mode = "rich" if idx % 4 else "history"
    unenc = mode == "rich" and idx % 11 == 5
    replay = {"op": "doc", "seed": seed, "idx": idx}
    fails = []
    stats = {"version": vname, "enc": enc if ver < "AC1021" else "utf8", "mode": mode, "kinds": []}
    try:
        signal.alarm(30)
        if mode == "rich":
            doc, made = build_document(rng, vname, enc, unenc)
            stats["kinds"] = [m[0] for m in made if m[0] != "skip"]
        else:
            from gen.dochist import Runner, gen_rich

            r = Runner(vname)
            choose = gen_rich(random.Random(rng.randrange(1 << 30)))
            for _ in range(rng.choice([10, 20, 30])):
                op = choose(r)
                if vname == "R12" and op[0] in ("newlayout", "dellayout", "renlayout", "activate", "reload"):
                    continue
                if op[0] == "reactor":
                    continue
                r.apply(op)
                stats["kinds"].append(op[0])
            doc = r.doc
        signal.alarm(0)
    except _Timeout:
        return stats, [], replay, "watchdog-build"
    finally:
        signal.alarm(0)
    tag = f"{vname}/{stats['enc']}/{mode}#{idx}"
    base = os.path.join(tmp, f"d{os.getpid()}-{idx}")
    try:
        fails += run_writers(doc, ver, tag, base, stats)
    except _Timeout:
        return stats, fails, replay, "watchdog-io"
    finally:
        for suffix in "acbepr":
            try:
                os.remove(f"{base}-{suffix}.dxf")
            except OSError:
                pass
    return stats, fails, replay, None


def _body_without_header(text: str) -> str:
    """the ENTITIES section of a written ASCII DXF text (what the modelspace readers see; the first write of a new document
    also completes CLASSES / TABLES / OBJECTS, which is no change of the content)"""
    i = text.find("\nENTITIES\n")
    if i < 0:
        return text
    j = text.find("\nENDSEC\n", i)
    return text[i:j] if j >= 0 else text[i:]


def settle_document(doc, rounds: int = 3):
    """write the document until two consecutive writes have the same ENTITIES section; -> True if the first write differed
    from the second (writing changed the entities), None if a write raised (the caller's own write reports it)"""
    try:
        prev = io.StringIO()
        doc.write(prev)
        prev = _body_without_header(prev.getvalue())
        differs = False
        for _ in range(rounds):
            out = io.StringIO()
            doc.write(out)
            cur = _body_without_header(out.getvalue())
            if cur == prev:
                break
            differs = True
            prev = cur
        return differs
    except _Timeout:
        raise
    except Exception:  # noqa
        return None


def reader_purity(path, ver, with_handle, tag, res):
    """O3 reader purity: a read with a `types` filter (list or one-shot iterator) returns exactly the entities of the
    unfiltered read whose type was asked for, and an unfiltered read AFTER filtered reads by any iterdxf reader returns
    what it returned before; iterdxf.SUPPORTED_TYPES is the same set afterwards"""
    from ezdxf.addons import iterdxf

    fails = []
    ref = res.get("iterdxf.modelspace")
    if isinstance(ref, str) or ref is None:
        return fails
    rng = random.Random("purity/" + tag)
    before = set(iterdxf.SUPPORTED_TYPES)
    present = sorted({s_[0] for s_ in ref} - {"VERTEX", "ATTRIB", "SEQEND"})
    pool = sorted(set(present + ["LINE", "CIRCLE", "MTEXT", "HATCH"]) - {"POLYLINE", "INSERT"})
    types = rng.sample(pool, min(len(pool), rng.choice([1, 2, 3])))
    for extra in ("POLYLINE", "INSERT"):    # independently: asking for one of them alone must not deliver the SEQEND of the other
        if rng.random() < 0.5:
            types.append(extra)

    def readers(t):
        def od():
            it = iterdxf.opendxf(path)
            try:
                return snaps(it.modelspace(types=t() if t else None), ver, with_handle)
            finally:
                it.close()

        def sp():
            with open(path, "rb") as fp:
                return snaps(iterdxf.single_pass_modelspace(fp, types=t() if t else None), ver, with_handle)

        return {"iterdxf.modelspace": lambda: snaps(iterdxf.modelspace(path, types=t() if t else None), ver, with_handle),
                "iterdxf.single_pass_modelspace": sp, "iterdxf.opendxf": od}

    def guarded(fn):
        signal.alarm(20)
        try:
            return fn()
        except _Timeout:
            return "EXC watchdog"
        except Exception as ex:  # noqa
            return f"EXC {type(ex).__name__}: {str(ex)[:100]}"
        finally:
            signal.alarm(0)

    makers = [lambda: list(types), lambda: iter(list(types)), lambda: set(types)]
    for k, (name, fn) in enumerate(readers(makers[rng.randrange(3)]).items()):
        got = guarded(fn)
        base_ = res.get(name)
        if isinstance(got, str):
            fails.append((f"filter/{name}/raised/{got.split(':')[0][4:]}", f"{tag}: {name}(types={types}) {got}"))
        elif not isinstance(base_, str) and base_ is not None:
            exp = [s_ for s_ in base_ if s_[0] in types]
            d = diff(exp, got)
            if d:
                fails.append((f"filter/{name}/{d[0]}", f"{tag}: {name}(types={types}) is not the unfiltered result restricted to these types: {d[1]}"))
    for name, fn in readers(None).items():
        got = guarded(fn)
        base_ = res.get(name)
        if isinstance(got, str) or isinstance(base_, str) or base_ is None:
            if isinstance(got, str) and not isinstance(base_, str):
                fails.append((f"purity/{name}/raised", f"{tag}: {name} without filter after filtered reads: {got}"))
            continue
        d = diff(base_, got)
        if d:
            fails.append((f"purity/{name}/{d[0]}", f"{tag}: {name} without filter returns something else after reads with types={types}: {d[1]}"))
    if set(iterdxf.SUPPORTED_TYPES) != before:
        fails.append(("purity/SUPPORTED_TYPES-changed", f"{tag}: iterdxf.SUPPORTED_TYPES changed by reads with types={types}: "
                      f"lost {sorted(before - set(iterdxf.SUPPORTED_TYPES))[:6]}"))
        iterdxf.SUPPORTED_TYPES.clear()
        iterdxf.SUPPORTED_TYPES.update(before)      # keep the rest of this worker's documents meaningful
    return fails


def run_writers(doc, ver, tag, base, stats):
    import json

    import ezdxf
    from ezdxf.addons import iterdxf, r12export
    from ezdxf.document import export_json_tags, load_json_tags

    fails = []
    with_handle = not (ver == "AC1009" and not doc.header.get("$HANDLING", 0))
    # --- Drawing.write may CHANGE the document (export pre-processing: e.g. a GROUP whose members live in several layouts
    # is cleared at its first export, after the ENTITIES section went out, and its members lose the reactor).  The
    # property compares readers on the SAME content, so every format is written from the state after a first, discarded
    # write; "the second write differs from the first" is recorded as an observation, not as a failure of C08.
    stats["rewrite_differs"] = settle_document(doc)
    # --- Drawing.write ASCII (LF)
    pa = base + "-a.dxf"
    try:
        doc.saveas(pa)
    except Exception as ex:  # noqa
        if "All entities have to be in the same layout" in str(ex):
            return fails   # C04's finding F21 (group members in several layouts): nothing was written
        fails.append((f"write-asc/raised/{type(ex).__name__}", f"{tag}: saveas raised {type(ex).__name__}: {str(ex)[:100]}"))
        return fails
    src = [e for e in doc.modelspace() if e.dxftype() in iterdxf.SUPPORTED_TYPES]
    probs = file_problems(pa)
    if probs:
        fails.append((f"asc/not-wellformed/{probs[0][:30]}", f"{tag}: Drawing.write output: {probs[0]}"))
    res = ascii_readers(pa, ver, with_handle)
    judge(fails, tag, "asc", res)
    fails += reader_purity(pa, ver, with_handle, tag, res)
    ref = res["readfile"]
    stats["entities"] = len(ref) if not isinstance(ref, str) else -1
    if not isinstance(ref, str):
        got = [e for e in ezdxf.readfile(pa).modelspace() if e.dxftype() in iterdxf.SUPPORTED_TYPES]
        d = source_diff(src, got, with_handle)
        if d and d[0].endswith("dxf-unicode"):
            fails.append(("recover/dxf-unicode-decoded", f"{tag}: source document vs readfile (escape not decoded): {d[1]}"))
        elif d:
            fails.append((f"asc/source/{d[0]}", f"{tag}: source document vs readfile: {d[1]}"))
    # --- the same content with CRLF line ends (what saveas produces on Windows)
    pc = base + "-c.dxf"
    with open(pa, "rb") as fp:
        data = fp.read()
    with open(pc, "wb") as fp:
        fp.write(data.replace(b"\n", b"\r\n"))
    res_c = ascii_readers(pc, ver, with_handle)
    if not isinstance(ref, str):
        res_c["readfile(LF)"] = ref
        judge(fails, tag + " CRLF", "asc-crlf", res_c, "readfile(LF)")
    # --- binary
    pb = base + "-b.dxf"
    try:
        doc.saveas(pb, fmt="bin")
        rb = {"readfile": ref, "readfile(bin)": snaps(ezdxf.readfile(pb).modelspace(), ver, with_handle, True)}
        if not isinstance(ref, str):
            judge(fails, tag + " bin", "bin", rb)
    except _Timeout:
        raise
    except Exception as ex:  # noqa
        fails.append((f"bin/raised/{type(ex).__name__}", f"{tag}: binary write/read raised {type(ex).__name__}: {str(ex)[:100]}"))
    # --- JSON tags
    for compact in (True, False):
        try:
            text = export_json_tags(doc, compact=compact)
            jdoc = load_json_tags(json.loads(text))
            rj = {"readfile": ref, "load_json_tags": snaps(jdoc.modelspace(), ver, with_handle, True)}
            if not isinstance(ref, str):
                judge(fails, tag + (" json-compact" if compact else " json-verbose"), "json", rj)
        except _Timeout:
            raise
        except Exception as ex:  # noqa
            fails.append((f"json/raised/{type(ex).__name__}", f"{tag}: JSON export/load (compact={compact}) raised {type(ex).__name__}: {str(ex)[:100]}"))
    # --- iterdxf exporter: every modelspace entity of the ASCII file into a new file
    pe = base + "-e.dxf"
    try:
        it = iterdxf.opendxf(pa)
        ex = None
        try:
            ex = it.export(pe)
            n = 0
            for e in it.modelspace():
                ex.write(e)
                n += 1
            ex.close()
        finally:
            it.close()
            if ex is not None and not ex.file.closed:
                ex.file.close()     # a failed export must not flush into the file of a later document
        res_e = ascii_readers(pe, ver, with_handle)
        src_e = res["iterdxf.opendxf"]
        if not isinstance(src_e, str):
            res_e["source(opendxf)"] = src_e
            fe = []
            judge(fe, tag + " iterdxf-export", "export", res_e, "source(opendxf)")
            linked = any(s_[3] for s_ in src_e)
            for k, w in fe:
                # sub-entities written twice: they come back as additional stand-alone VERTEX/ATTRIB/SEQEND entities
                if linked and k.startswith("export/") and k.endswith("/len"):
                    fails.append(("export/sub-entities-written-twice", w))
                else:
                    fails.append((k, w))
    except _Timeout:
        raise
    except Exception as ex2:  # noqa
        kind = "xdict" if "dictionary handle" in str(ex2) else type(ex2).__name__
        fails.append((f"export/raised/{kind}", f"{tag}: iterdxf export raised {type(ex2).__name__}: {str(ex2)[:100]}"))
    # --- r12export (downgrade): all readers must agree on its output
    if ver != "AC1009":
        pr = base + "-r.dxf"
        try:
            signal.alarm(20)
            try:
                r12export.saveas(doc, pr)
            finally:
                signal.alarm(0)
            probs = file_problems(pr)
            if probs:
                kind = "missing-seqend" if "SEQEND" in probs[0] else "structure"
                fails.append((f"r12export/not-wellformed/{kind}", f"{tag}: r12export output: {probs[0]}"))
            else:
                res_r = ascii_readers(pr, "AC1009", False)
                judge(fails, tag + " r12export", "r12export", res_r)
        except _Timeout:
            raise
        except Exception as ex3:  # noqa
            fails.append((f"r12export/raised/{type(ex3).__name__}", f"{tag}: r12export raised {type(ex3).__name__}: {str(ex3)[:100]}"))
    return fails


def oracle(ctx):
    _quiet()
    tmp = str(ctx.scratch)
    n = ctx.n(210, 6000)
    with _pool(12) as pool:
        results = pool.map(_doc_case, [(ctx.seed, i, tmp) for i in range(n)], chunksize=5)
    rewrites = []
    for stats, fails, replay, wd in results:
        if wd:
            ctx.hist("O1 documents", wd)
            ctx.note(f"O1: document {replay['idx']} ({stats['version']}): {wd}, skipped")
            continue
        ctx.count("O1 documents", (replay["idx"], tuple(stats["kinds"])), stats.get("entities", 0) > 0)
        ctx.hist("O1 documents", stats["version"])
        ctx.hist("O1 documents", "enc:" + stats["enc"])
        for k in stats["kinds"]:
            ctx.hist("O1 documents", "k:" + k)
        if stats.get("rewrite_differs"):
            # observation, not a failure of this property: Drawing.write changed the document (see run_writers)
            ctx.hist("O1 documents", "note:first-write-changed-the-document")
            rewrites.append(replay["idx"])
        for key, what in fails:
            ctx.fail(key, what, replay)
    if rewrites:
        ctx.note(f"O1: Drawing.write changed {len(rewrites)} document(s) at their first write (the second write differs; all "
                 f"formats were compared from the settled state), e.g. document #{rewrites[0]}")
    # O2: r12writer call sequences, ASCII and binary, against the input rounded to 6 decimals
    n2 = ctx.n(400, 8000)
    with _pool(12) as pool:
        results = pool.map(_r12_case, [(ctx.seed, i, tmp) for i in range(n2)], chunksize=10)
    for kinds, fails, replay in results:
        ctx.count("O2 r12writer", (replay["idx"], tuple(kinds)), True)
        for k in kinds:
            ctx.hist("O2 r12writer", k)
        for key, what in fails:
            ctx.fail(key, what, replay)
    for key, what in r12_probes():
        ctx.count("O2 r12writer", key, True)
        ctx.fail(key, what, {"op": "r12-probe"})


def replay(ctx, rep):
    _quiet()
    bad = []
    probe_keys = None
    for f in rep.get("failing_inputs", []):
        r = f["replay"]
        keys = []
        if r.get("op") == "doc":
            _, fails, _, _ = _doc_case((r["seed"], r["idx"], str(ctx.scratch)))
            keys = [k for k, _ in fails]
        elif r.get("op") == "r12":
            _, fails, _ = _r12_case((r["seed"], r["idx"], str(ctx.scratch)))
            keys = [k for k, _ in fails]
        elif r.get("op") == "r12-probe":
            if probe_keys is None:
                probe_keys = [k for k, _ in r12_probes()]
            keys = probe_keys
        if f["key"] in keys:
            bad.append(f["key"])
    return (not bad, "; ".join(bad) or "recorded failing inputs pass now")


# ------------------------------------------------------------------ O2: r12writer call sequences
def rnd6(x):
    """round(x, 6) computed independently: exact binary value, half-even at the 6th decimal"""
    from decimal import ROUND_HALF_EVEN, Decimal

    if isinstance(x, int):
        return float(x)
    return float(Decimal(x).quantize(Decimal("0.000001"), rounding=ROUND_HALF_EVEN))


def _c(rng):
    x = rng.random()
    if x < 0.2:
        return rng.randint(-100, 100)
    if x < 0.4:
        return rng.randint(-10 ** 7, 10 ** 7) / 10 ** 7 + rng.choice([0, 5e-7, 0.5e-6, 1e-9])     # 7th decimal: rounding needed
    if x < 0.55:
        return rng.choice([0.0000005, 0.0000015, 0.0000025, 2.5000005, -0.0000005, 1.0000004999999, 0.1 + 0.2, -0.0,
                           123456789.1234567, 1e-7, 4.35, 2.675e-5, 1e15 + 0.3, 0.5e-6, 8.5e-7])
    return rng.uniform(-1000, 1000)


def _v(rng, dim):
    return tuple(_c(rng) for _ in range(dim))


def r3(v):
    """expected location of a written vertex: rounded components, missing z = 0"""
    t = tuple(rnd6(c) for c in v)
    return t + (0.0,) * (3 - len(t))


R12_TEXTS = ["plain", "with space ", "äöü ß € ©", "semi;colon", "%%c", "", "x" * 200, 'q"', "back\\slash"]


R12_ITERABLE_KEYS = ("vertices", "points", "faces")


def with_generators(kw, mode):
    """the call arguments with every Iterable argument as a one-shot generator (mode 1) or iterator (mode 2)"""
    if not mode:
        return kw
    out = dict(kw)
    for k in R12_ITERABLE_KEYS:
        if k in out:
            data = list(out[k])
            out[k] = (x for x in data) if mode == 1 else iter(data)
    return out


def gen_r12_calls(rng, fixed):
    """-> list of (method, kwargs, expected) ; expected = (dxftype, attribs, vertices or None).
    Line types and text styles other than the defaults only together with fixed_tables=True (they are defined there);
    without tables recover's audit resets the undefined references, rightly."""
    calls = []
    for _ in range(rng.choice([1, 2, 4, 8, 12])):
        m = rng.choice(["line", "circle", "arc", "point", "face", "solid", "polyline", "polyline_2d", "polyface", "polymesh", "text"])
        common = {}
        exp_c = {"layer": "0"}
        if rng.random() < 0.5:
            common["layer"] = rng.choice(["L1", "LAYER 2", "é"])
            exp_c["layer"] = common["layer"]
        if rng.random() < 0.4:
            common["color"] = rng.choice([0, 1, 7, 255, 256])
            exp_c["color"] = common["color"]
        if fixed and m not in ("text",) and rng.random() < 0.3:
            common["linetype"] = rng.choice(["DASHED", "CONTINUOUS"])
            exp_c["linetype"] = common["linetype"]
        if m == "line":
            d = rng.choice([2, 3])
            a, b = _v(rng, d), _v(rng, d)
            calls.append(("add_line", dict(start=a, end=b, **common), ("LINE", dict(exp_c, start=r3(a), end=r3(b)), None)))
        elif m == "circle":
            c, r = _v(rng, rng.choice([2, 3])), abs(_c(rng)) + 0.001
            calls.append(("add_circle", dict(center=c, radius=r, **common), ("CIRCLE", dict(exp_c, center=r3(c), radius=rnd6(r)), None)))
        elif m == "arc":
            c, r, s, e = _v(rng, 2), abs(_c(rng)) + 0.001, _c(rng), _c(rng)
            calls.append(("add_arc", dict(center=c, radius=r, start=s, end=e, **common),
                          ("ARC", dict(exp_c, center=r3(c), radius=rnd6(r), start_angle=rnd6(s), end_angle=rnd6(e)), None)))
        elif m == "point":
            p = _v(rng, rng.choice([2, 3]))
            calls.append(("add_point", dict(location=p, **common), ("POINT", dict(exp_c, location=r3(p)), None)))
        elif m in ("face", "solid"):
            n = rng.choice([3, 4])
            vs = [_v(rng, 3 if m == "face" else 2) for _ in range(n)]
            ex = dict(exp_c)
            full = vs + [vs[-1]] if n == 3 else vs
            for i, v in enumerate(full):
                ex["vtx%d" % i] = r3(v)
            kw = dict(vertices=vs, **common)
            if m == "face":
                inv = rng.choice([0, 0, 5, 15])
                kw["invisible"] = inv
                if inv:
                    ex["invisible_edges"] = inv
            calls.append(("add_3dface" if m == "face" else "add_solid", kw, ("3DFACE" if m == "face" else "SOLID", ex, None)))
        elif m == "polyline":
            d = rng.choice([2, 3])
            vs = [_v(rng, d) for _ in range(rng.randint(1, 5))]
            closed = rng.random() < 0.5
            vex = [dict(layer=exp_c["layer"], flags=32, location=r3(v)) for v in vs]
            calls.append(("add_polyline", dict(vertices=vs, closed=closed, **common),
                          ("POLYLINE", dict(exp_c, flags=8 + int(closed)), vex)))
        elif m == "polyline_2d":
            fmt = rng.choice(["xy", "xyb", "xyseb", "xybse", "xys", "xye"])
            pts, vex = [], []
            for _ in range(rng.randint(1, 5)):
                vals = {"x": _c(rng), "y": _c(rng), "s": rng.choice([0, 0.5, 0.1234567]), "e": rng.choice([0, 0.25]),
                        "b": rng.choice([0, 1, -0.4142135623730951])}
                pts.append(tuple(vals[c] for c in fmt))
                ex = dict(layer=exp_c["layer"], flags=0, location=(float(vals["x"]), float(vals["y"]), 0.0))   # NOT rounded
                for c, name in (("s", "start_width"), ("e", "end_width"), ("b", "bulge")):
                    if c in fmt and vals[c] != 0:
                        ex[name] = float(vals[c])
                vex.append(ex)
            closed = rng.random() < 0.5
            sw, ew = rng.choice([0, 0.5]), rng.choice([0, 0.75])
            ex = dict(exp_c, flags=int(closed))
            if sw:
                ex["default_start_width"] = sw
            if ew:
                ex["default_end_width"] = ew
            calls.append(("add_polyline_2d", dict(points=pts, format=fmt, closed=closed, start_width=sw, end_width=ew, **common),
                          ("POLYLINE", ex, vex)))
        elif m == "polyface":
            vs = [_v(rng, 3) for _ in range(rng.randint(3, 6))]
            faces = [tuple(rng.sample(range(len(vs)), rng.choice([3, 4]) if len(vs) > 3 else 3)) for _ in range(rng.randint(1, 3))]
            cm = {k: v for k, v in common.items()}
            vex = [dict(layer=exp_c["layer"], flags=192, location=r3(v)) for v in vs]
            for f in faces:
                fx = dict(layer=exp_c["layer"], flags=128, location=(0.0, 0.0, 0.0))
                if "color" in exp_c:
                    fx["color"] = exp_c["color"]
                for i, ix in enumerate(f):
                    fx["vtx%d" % i] = ix + 1
                vex.append(fx)
            calls.append(("add_polyface", dict(vertices=vs, faces=faces, **cm),
                          ("POLYLINE", dict(exp_c, flags=64, m_count=len(vs), n_count=len(faces)), vex)))
        elif m == "polymesh":
            mm, nn = rng.choice([(2, 2), (2, 3), (3, 2)])
            vs = [_v(rng, 3) for _ in range(mm * nn)]
            cl = (rng.random() < 0.5, rng.random() < 0.5)
            vex = [dict(layer=exp_c["layer"], flags=64, location=r3(v)) for v in vs]
            calls.append(("add_polymesh", dict(vertices=vs, size=(mm, nn), closed=cl, **common),
                          ("POLYLINE", dict(exp_c, flags=16 + int(cl[0]) + 32 * int(cl[1]), m_count=mm, n_count=nn), vex)))
        else:
            txt = rng.choice(R12_TEXTS)
            ins = _v(rng, 2)
            h, w, rot, obl = abs(_c(rng)) + 0.01, rng.choice([1.0, 0.8, 1.2345678]), rng.choice([0.0, _c(rng)]), rng.choice([0.0, 15.0000005])
            align = rng.choice(["LEFT", "CENTER", "MIDDLE_CENTER", "top_right", "BOTTOM_LEFT"])
            style = rng.choice(["STANDARD", "OpenSans"]) if fixed else "STANDARD"
            from ezdxf.addons.r12writer import TEXT_ALIGN_FLAGS

            ha, va = TEXT_ALIGN_FLAGS[align.upper()]
            ex = {"layer": exp_c["layer"], "text": txt, "insert": r3(ins), "height": rnd6(h), "align_point": r3(ins)}
            if "color" in exp_c:
                ex["color"] = exp_c["color"]
            if w != 1.0:
                ex["width"] = rnd6(w)
            if rot != 0.0:
                ex["rotation"] = rnd6(rot)
            if obl != 0.0:
                ex["oblique"] = rnd6(obl)
            if style != "STANDARD":
                ex["style"] = style
            ex["halign"], ex["valign"] = ha, va
            kw = dict(text=txt, insert=ins, height=h, width=w, align=align, rotation=rot, oblique=obl, style=style)
            kw.update({k: v for k, v in common.items() if k != "linetype"})
            calls.append(("add_text", kw, ("TEXT", ex, None)))
    return calls


def _check_r12_entity(e, exp):
    typ, attribs, verts = exp
    if e.dxftype() != typ:
        return f"type {e.dxftype()} instead of {typ}"
    for k, v in attribs.items():
        got = e.dxf.get(k, e.dxf.dxf_default_value(k) if e.dxf.is_supported(k) else None)
        if isinstance(v, tuple):
            from ezdxf.math import Vec3

            g = Vec3(got) if got is not None else None
            if g is None or (g.x, g.y, g.z) != v:
                return f"{typ}.{k} = {got!r}, expected {v!r}"
        elif isinstance(v, str):
            if got != v:
                return f"{typ}.{k} = {got!r}, expected {v!r}"
        elif got is None or float(got) != float(v):
            return f"{typ}.{k} = {got!r}, expected {v!r}"
    if verts is not None:
        subs = list(getattr(e, "_sub_entities", []))
        if len(subs) != len(verts):
            return f"{typ} has {len(subs)} vertices, expected {len(verts)}"
        for i, (s, vx) in enumerate(zip(subs, verts)):
            d = _check_r12_entity(s, ("VERTEX", vx, None))
            if d:
                return f"vertex {i}: {d}"
    return None


def _r12_case(args):
    seed, idx, tmp = args
    _quiet()
    signal.signal(signal.SIGALRM, _on_alarm)
    import ezdxf
    from ezdxf import recover
    from ezdxf.addons import iterdxf
    from ezdxf.addons.r12writer import r12writer

    rng = random.Random(f"{seed}/r12/{idx}")
    fixed = idx % 3 == 0
    calls = gen_r12_calls(rng, fixed)
    fails = []
    kinds = [c[0] for c in calls]
    base = os.path.join(tmp, f"r{os.getpid()}")
    for fmt in ("asc", "bin"):
        path = f"{base}-{fmt}.dxf"
        tag = f"r12writer#{idx}/{fmt}"
        try:
            with r12writer(path, fixed_tables=fixed, fmt=fmt) as w:
                for name, kw, _ in calls:
                    # every Iterable argument as list / one-shot generator / iterator: the result must not depend on it
                    getattr(w, name)(**with_generators(kw, (idx // 2) % 3))
        except Exception as ex:  # noqa
            fails.append((f"r12writer/raised/{type(ex).__name__}", f"{tag}: {kinds} raised {type(ex).__name__}: {ex}"))
            continue
        readers = {"readfile": lambda: list(ezdxf.readfile(path).modelspace())}
        if fmt == "asc":
            probs = file_problems(path)
            if probs:
                fails.append(("r12writer/not-wellformed", f"{tag}: {probs[0]}"))
            readers["recover.readfile"] = lambda: list(recover.readfile(path)[0].modelspace())
            readers["iterdxf.modelspace"] = lambda: list(iterdxf.modelspace(path))

            def sp():
                with open(path, "rb") as fp:
                    return list(iterdxf.single_pass_modelspace(fp))

            readers["iterdxf.single_pass_modelspace"] = sp

            def od():
                it = iterdxf.opendxf(path)
                try:
                    return list(it.modelspace())
                finally:
                    it.close()

            readers["iterdxf.opendxf"] = od
        for rname, fn in readers.items():
            signal.alarm(20)
            try:
                ents = fn()
            except _Timeout:
                fails.append((f"r12writer/{fmt}/{rname}/watchdog", f"{tag}: {rname} did not finish"))
                continue
            except Exception as ex:  # noqa
                fails.append((f"r12writer/{fmt}/{rname}/raised/{type(ex).__name__}", f"{tag}: {rname} raised {type(ex).__name__}: {str(ex)[:100]}"))
                continue
            finally:
                signal.alarm(0)
            exp = [c[2] for c in calls]
            if rname == "iterdxf.single_pass_modelspace" and len(ents) == len(exp) - 1:
                # the last call wrote one entity (or one POLYLINE with SEQEND as the last group)
                bad = next((d for d in (_check_r12_entity(e, x) for e, x in zip(ents, exp)) if d), None)
                if bad is None:
                    fails.append(("single-pass/last-entity-lost", f"{tag}: single_pass_modelspace lost the last entity {exp[-1][0]}"))
                    continue
            if len(ents) != len(exp):
                fails.append((f"r12writer/{fmt}/{rname}/len", f"{tag}: {rname} delivers {[e.dxftype() for e in ents]}, written {[x[0] for x in exp]}"))
                continue
            for i, (e, x) in enumerate(zip(ents, exp)):
                d = _check_r12_entity(e, x)
                if d:
                    fails.append((f"r12writer/{fmt}/{rname}/value/{calls[i][0]}", f"{tag}: {rname} entity {i} ({calls[i][0]}): {d}"))
                    break
    return kinds, fails, {"op": "r12", "seed": seed, "idx": idx}


def r12_probes():
    """documented call variants of add_polyline_2d"""
    import io

    from ezdxf.addons.r12writer import r12writer

    out = []
    for fmt, pts in (("vb", [((1.0, 2.0), 0.5)]), ("v", [((1.0, 2.0),)]), ("yx", [(2.0, 1.0)]), ("bxy", [(0.5, 1.0, 2.0)])):
        s = io.StringIO()
        try:
            with r12writer(s) as w:
                w.add_polyline_2d(pts, format=fmt)
        except Exception as ex:  # noqa
            out.append((f"r12writer/polyline_2d-format/{fmt}/raised/{type(ex).__name__}",
                        f"add_polyline_2d(points={pts}, format={fmt!r}) raised {type(ex).__name__}: {ex}"))
            continue
        import ezdxf

        try:
            doc = ezdxf.read(io.StringIO(s.getvalue()))
            pl = doc.modelspace()[0]
            loc = pl.vertices[0].dxf.location
            if (loc.x, loc.y) != (1.0, 2.0):
                out.append((f"r12writer/polyline_2d-format/{fmt}/value", f"format {fmt!r}: vertex read back as {loc}"))
        except Exception as ex:  # noqa
            out.append((f"r12writer/polyline_2d-format/{fmt}/unreadable/{type(ex).__name__}",
                        f"add_polyline_2d(points={pts}, format={fmt!r}) writes a file ezdxf.read rejects: {type(ex).__name__}: {ex}"))
    return out

"""C08  All readers agree on the output of all writers (DESIGN.md section 7, C08)."""
from __future__ import annotations

import io
import logging
import os
import random
import signal

from leanfmt import lean_list, lean_str

ID = "C08"
LEAN_MODULES = ["EzdxfVerif.Props.C08"]
DRIVER_DEPS = ["EzdxfVerif.Model.Readers", "EzdxfVerif.Gen.ReaderTables", "Drivers.Proto"]
RULE = (
    "correspondence (real code vs Lean model, one line protocol driver): X1 2500/40000 generated ASCII tag streams "
    "(well-formed 60 %, else a structural fault: missing/duplicate/shuffled sections, dropped SECTION/ENDSEC/EOF/name tags, "
    "padded or lower-case structure tags, 999 comments, entities outside sections or behind EOF, tags in front of the "
    "first entity, group codes > 1071, header variables without value; paperspace flags; POLYLINE/INSERT structures "
    "complete, open, with wrong or unsupported entities inside) through the five real readers (ezdxf.read, the recover "
    "front end, iterdxf.modelspace, single_pass_modelspace, opendxf().modelspace()) vs the five reader models: result = "
    "type, handle, linked sub-entity handles and SEQEND per modelspace entity, or the exception class; X2 JSONTagWriter / "
    "json_tag_loader / TagWriter+ascii_tags_loader on random compiled tag lists vs jsonWrite/jsonLoad/asciiLoad; X3 the tag "
    "stream of random r12writer call sequences (all add_* methods, fixed tables or not) vs r12File; X4 the group "
    "structure of files written by the real iterdxf exporter vs exportFile; X5 the model's decidable FileWF' evaluated "
    "on real Drawing.write output of generated documents (all 7 versions). non-trivial = a non-empty result or an "
    "error; distinct by hash of the request. oracle (real code only): O1 generated documents (API histories of "
    "gen/dochist.gen_rich and a many-entity-type generator with code page / UTF-8 text, special characters and "
    "extreme coordinates, 7 DXF versions, 14 code pages) written by Drawing.write ASCII (LF and CRLF), binary, JSON "
    "tags (compact, verbose), the iterdxf exporter and r12export, each output read by every reader of its format "
    "(ezdxf.readfile, ezdxf.read, recover.readfile, recover.read, load_json_tags, iterdxf.modelspace, "
    "single_pass_modelspace, opendxf().modelspace()): snapshots (type, order, every existing DXF attribute, exported "
    "content tags, linked sub-entities) compared pairwise for exact equality and with the source document; the written "
    "files are checked for well-formedness by the harness-owned parser; O2 r12writer call sequences (ASCII and binary) "
    "read by every reader and compared with the input rounded to 6 decimals (Decimal, half-even, exact binary value)."
)
TRUSTED_BASE = [
    "tag level model: values are strings as the low level loaders deliver them; text decoding (C09), value typing and point "
    "compilation (C03) and the attribute loading of factory.load (C01) are outside the model",
    "Cfg abstracts what the readers take from a loaded entity (paperspace flag, owner priority, attribs_follow, bool(entity)); "
    "the driver instantiates it by the first 67/330/66 tag of the entity",
    "harness/dxfparse.py (independent ASCII DXF reader) for the structure correspondences X3-X5 and the oracle's file check",
    "CPython: readline()/universal newlines, json.loads, Decimal.quantize as the reference for round(x, 6)",
]
ASSUMPTIONS = [
    "generated values contain no line breaks (a string value with CR/LF is not a valid DXF value: C04/C09)",
    "r12writer: line types / text styles other than the defaults only together with fixed_tables=True (otherwise recover's "
    "audit resets the undefined references, which is its job)",
    "the recover model covers the front end (sections, ENTITIES grouping, linking); the audit that follows in recover.read is "
    "exercised by the oracle only",
]
OPEN = [
    "readers_agree needs every modelspace entity to be truthy and single_pass with the ENDSEC fix: on the unchanged tree the "
    "proved statements are single_pass_current (the last group of the section is lost) and iter_agrees/index_agrees (falsy "
    "entities are filtered); counterexample theorems single_pass_loses_last_entity, falsy_entity_dropped, export_duplicates_subs",
    "writers_wf (FileWF' of Drawing.write output) is checked on real files by correspondence X5, proved only for the "
    "r12writer (r12_structure) and the patched iterdxf exporter (export_structure)",
    "binary DXF and JSON files reach the strict reader through other tag loaders: their tag-level equality with the ASCII "
    "loader is C03's theorem set plus json_roundtrip here; format/encoding detection (dxf_info) is oracle-only",
]

SRCS = [
    "src/ezdxf/addons/iterdxf.py", "src/ezdxf/lldxf/fileindex.py", "src/ezdxf/lldxf/loader.py", "src/ezdxf/lldxf/tagger.py",
    "src/ezdxf/lldxf/tags.py", "src/ezdxf/entities/subentity.py", "src/ezdxf/sections/entities.py", "src/ezdxf/recover.py",
    "src/ezdxf/lldxf/const.py", "src/ezdxf/lldxf/types.py", "src/ezdxf/lldxf/tagwriter.py", "src/ezdxf/addons/r12writer.py",
    "src/ezdxf/document.py",
]


# ------------------------------------------------------------------ regenerate
def _probe_single_pass_flush() -> bool:
    """does single_pass_modelspace deliver the last entity of the ENTITIES section?"""
    from ezdxf.addons import iterdxf

    data = b"0\nSECTION\n2\nENTITIES\n0\nLINE\n8\n0\n10\n0\n20\n0\n11\n1\n21\n1\n0\nENDSEC\n0\nEOF\n"
    n = len(list(iterdxf.single_pass_modelspace(io.BytesIO(data))))
    if n not in (0, 1):
        raise ValueError("single_pass_modelspace probe: unexpected entity count %d" % n)
    return n == 1


def _probe_yields_falsy(tmp: str) -> bool:
    """does iterdxf.modelspace deliver a POLYLINE without vertices (an entity with bool(entity) == False)?"""
    from ezdxf.addons import iterdxf

    p = os.path.join(tmp, "probe2.dxf")
    with open(p, "wb") as fp:
        fp.write(b"0\nSECTION\n2\nENTITIES\n0\nPOLYLINE\n8\n0\n66\n1\n10\n0\n20\n0\n30\n0\n70\n0\n0\nSEQEND\n8\n0\n"
                 b"0\nLINE\n8\n0\n10\n0\n20\n0\n11\n1\n21\n1\n0\nENDSEC\n0\nEOF\n")
    types = [e.dxftype() for e in iterdxf.modelspace(p)]
    if types not in (["LINE"], ["POLYLINE", "LINE"]):
        raise ValueError("iterdxf.modelspace probe: unexpected result %r" % types)
    return len(types) == 2


def _probe_max_code(tmp: str) -> int:
    from ezdxf.lldxf import fileindex
    from ezdxf.lldxf.const import DXFStructureError

    def ok(code):
        p = os.path.join(tmp, "probe.dxf")
        with open(p, "wb") as fp:
            fp.write(b"0\nSECTION\n2\nENTITIES\n0\nLINE\n%d\nx\n0\nENDSEC\n0\nEOF\n" % code)
        try:
            fileindex.load(p)
            return True
        except DXFStructureError:
            return False

    good = [c for c in range(0, 1200) if ok(c)]
    if good != list(range(0, good[-1] + 1)):
        raise ValueError("fileindex.load accepts a non-contiguous set of group codes")
    return good[-1]


def regenerate(ctx):
    for s in SRCS:
        ctx.src(s)
    import importlib

    from ezdxf.addons import iterdxf

    r12writer = importlib.import_module("ezdxf.addons.r12writer")
    from ezdxf.entities import subentity
    from ezdxf.lldxf import const, types

    sup = sorted(iterdxf.SUPPORTED_TYPES)
    linked = sorted(subentity.LINKED_ENTITIES.items())
    managed = sorted(const.MANAGED_SECTIONS)
    ws_u = [o for o in range(0x110000) if not (0xD800 <= o < 0xE000) and chr(o).isspace()]
    ws_b = [o for o in range(256) if bytes([o]).isspace()]
    # str.strip()/bytes.strip() strip exactly the isspace() characters (checked, not assumed)
    for o in ws_u:
        if (chr(o) + "x" + chr(o)).strip() != "x":
            raise ValueError("str.strip() does not strip U+%04X" % o)
    for o in range(0x3000):
        if o not in ws_u and (chr(o) + "x").strip() == "x":
            raise ValueError("str.strip() strips U+%04X which is not isspace()" % o)
    flush = _probe_single_pass_flush()
    maxcode = _probe_max_code(str(ctx.scratch))
    falsy = _probe_yields_falsy(str(ctx.scratch))
    text = f"""
namespace EzdxfVerif.Gen.ReaderTables

/-- iterdxf.SUPPORTED_TYPES (sorted) -/
def supportedTypes : List String := {lean_list(lean_str(s) for s in sup)}

/-- entities.subentity.LINKED_ENTITIES (sorted items) -/
def linkedEntities : List (String × String) := {lean_list(f"({lean_str(a)}, {lean_str(b)})" for a, b in linked)}

/-- const.MANAGED_SECTIONS (sorted) -/
def managedSections : List String := {lean_list(lean_str(s) for s in managed)}

/-- types.POINT_CODES (sorted) -/
def pointCodes : List Nat := {lean_list(str(c) for c in sorted(types.POINT_CODES))}

/-- every code point c with chr(c).isspace() (what str.strip() removes) -/
def strWhitespace : List Nat := {lean_list(str(o) for o in ws_u)}

/-- every byte b with bytes([b]).isspace() (what bytes.strip() removes) -/
def bytesWhitespace : List Nat := {lean_list(str(o) for o in ws_b)}

/-- probe of lldxf.fileindex.load: largest accepted group code -/
def maxGroupCode : Nat := {maxcode}

/-- probe of iterdxf.single_pass_modelspace on a one-entity file: is the last entity of the section delivered? -/
def singlePassFlush : Bool := {"true" if flush else "false"}

/-- probe of iterdxf.modelspace on a file with a POLYLINE without vertices: is an entity with bool(entity) == False delivered? -/
def iterdxfYieldsFalsy : Bool := {"true" if falsy else "false"}

/-- r12writer.rnd = partial(round, ndigits=...) -/
def r12Digits : Nat := {r12writer.rnd.keywords["ndigits"]}

end EzdxfVerif.Gen.ReaderTables
"""
    ctx.write_gen("ReaderTables", text, SRCS)


# ------------------------------------------------------------------ protocol helpers
def esc(s: str) -> str:
    out = []
    for ch in s:
        o = ord(ch)
        if ch in "%;|,[]:" or o < 32 or o > 126:
            out.append("%%%d." % o)
        else:
            out.append(ch)
    return "".join(out)


def tags_line(tags) -> str:
    return ";".join(f"{c},{esc(v)}" for c, v in tags)


def file_text(tags) -> str:
    return "".join(f"{c}\n{v}\n" for c, v in tags)


# ------------------------------------------------------------------ implementation side (real readers)
S, E, EOF_T = (0, "SECTION"), (0, "ENDSEC"), (0, "EOF")
FILE_HANDLE_MIN = 0x1000   # handles of generated streams; handles ezdxf creates itself stay below


def _quiet():
    logging.getLogger("ezdxf").setLevel(logging.CRITICAL)


def show_entity(e, file_handles) -> str:
    def h(x):
        # the Drawing readers give an entity without handle a fresh one (not in the file)
        return x.dxf.handle if x.dxf.handle in file_handles else "-"

    subs = ",".join(esc(h(s)) for s in getattr(e, "_sub_entities", []))
    sq = getattr(e, "seqend", None)
    sqh = ""
    # a SEQEND created by post_bind_hook (Drawing readers) has a fresh handle that is not in the file
    if sq is not None and sq.dxf.handle and sq.dxf.handle in file_handles:
        sqh = sq.dxf.handle
    return f"{esc(e.dxftype())}:{esc(h(e))}[{subs}]{esc(sqh)}"


def _run(fn, file_handles) -> str:
    try:
        return "ok " + ";".join(show_entity(e, file_handles) for e in fn())
    except Exception as ex:  # noqa
        n = type(ex).__name__
        return "err:" + n if n in ("DXFStructureError", "IndexError") else "err:other:" + n


def real_readers(text: str, path: str, file_handles) -> dict:
    """the five real readers on one ASCII file; strict/recover results restricted to iterdxf.SUPPORTED_TYPES"""
    import ezdxf
    from ezdxf import recover
    from ezdxf.addons import iterdxf
    from ezdxf.document import Drawing

    data = text.encode("utf8")
    with open(path, "wb") as fp:
        fp.write(data)
    sup = iterdxf.SUPPORTED_TYPES
    out = {}
    fh = file_handles
    out["strict"] = _run(lambda: [e for e in ezdxf.read(io.StringIO(text)).modelspace() if e.dxftype() in sup], fh)

    def rec():
        # front end of recover.read without the audit (the model covers the front end)
        tool = recover.Recover.run(io.BytesIO(data))
        doc = Drawing()
        doc._load_section_dict(tool.section_dict)
        return [e for e in doc.modelspace() if e.dxftype() in sup]

    out["rec"] = _run(rec, fh)
    out["iter"] = _run(lambda: list(iterdxf.modelspace(path)), fh)
    out["sp"] = _run(lambda: list(iterdxf.single_pass_modelspace(io.BytesIO(data))), fh)

    def idx():
        it = iterdxf.opendxf(path)
        try:
            return list(it.modelspace())
        finally:
            it.close()

    out["idx"] = _run(idx, fh)
    return out


# ------------------------------------------------------------------ generator of tag streams
SIMPLE = {
    "LINE": [(10, "0"), (20, "0"), (30, "0"), (11, "1"), (21, "1"), (31, "0")],
    "CIRCLE": [(10, "1"), (20, "2"), (30, "0"), (40, "2.5")],
    "POINT": [(10, "3"), (20, "4"), (30, "5")],
    "ARC": [(10, "0"), (20, "0"), (30, "0"), (40, "1"), (50, "0"), (51, "90")],
    "TEXT": [(10, "0"), (20, "0"), (30, "0"), (40, "1"), (1, "abc")],
    "FOOBAR": [(1, "unknown entity")],
    "TOLERANCE": [(3, "Standard"), (10, "0"), (20, "0"), (30, "0"), (1, "x")],
}


YZ = {20, 21, 30, 31}


def insert_comment(r, tags, lo):
    """a 999 comment between two complete tags, never inside a point (the point compilers of the readers that do not
    skip comments would take it for a coordinate: C03's subject)"""
    pos = [i for i in range(lo, len(tags) + 1) if i == len(tags) or tags[i][0] not in YZ]
    tags.insert(r.choice(pos), (999, "a comment"))


class Gen:
    def __init__(self, rng):
        self.rng = rng
        self.h = FILE_HANDLE_MIN + rng.randrange(0x100)

    def handle(self) -> str:
        self.h += self.rng.randint(1, 3)
        return "%X" % self.h

    def group(self, typ, extra=(), psp=None):
        r = self.rng
        g = [(0, typ), (5, self.handle()), (8, r.choice(["0", "L1"]))]
        if psp is None:
            psp = r.random() < 0.2
        if psp:
            g.append((67, "1"))
        elif r.random() < 0.1:
            g.append((67, "0"))
        g += list(extra)
        if r.random() < 0.08:
            insert_comment(r, g, 1)
        return g

    def simple(self, typ=None, psp=None):
        r = self.rng
        typ = typ or r.choice(["LINE", "LINE", "CIRCLE", "POINT", "ARC", "TEXT", "FOOBAR", "TOLERANCE"])
        return [self.group(typ, SIMPLE[typ], psp)]

    def polyline(self, broken=0):
        r = self.rng
        psp = r.random() < 0.25
        gs = [self.group("POLYLINE", [(66, "1"), (10, "0"), (20, "0"), (30, "0"), (70, "0")], psp)]
        for _ in range(r.choice([0, 1, 2, 3])):
            gs.append(self.group("VERTEX", [(10, "1"), (20, "2"), (30, "0")], psp))
            if broken == 3 and r.random() < 0.5:
                gs.append(self.group("FOOBAR", SIMPLE["FOOBAR"], psp))      # unsupported entity inside the vertex run
        if broken == 1:
            return gs                                                      # no SEQEND
        if broken == 2:
            gs.append(self.group("ATTRIB", [(10, "0"), (20, "0"), (30, "0"), (40, "1"), (1, "v"), (2, "T")], psp))
        gs.append(self.group("SEQEND", [], psp))
        return gs

    def insert(self, broken=0):
        r = self.rng
        psp = r.random() < 0.25
        mode = r.choice(["attribs", "attribs", "plain", "zero", "stray"])
        head = [(2, "BLK"), (10, "0"), (20, "0"), (30, "0")]
        att = [(10, "0"), (20, "0"), (30, "0"), (40, "1"), (1, "v"), (2, "T")]
        if mode == "plain":
            return [self.group("INSERT", head, psp)]
        if mode == "zero":
            return [self.group("INSERT", [(66, "0")] + head, psp)]
        if mode == "stray":   # attribs_follow unset, but ATTRIB + SEQEND follow as stand alone entities
            return [self.group("INSERT", head, psp), self.group("ATTRIB", att, psp), self.group("SEQEND", [], psp)]
        gs = [self.group("INSERT", [(66, "1")] + head, psp)]
        for _ in range(r.choice([0, 1, 2])):
            gs.append(self.group("ATTRIB", att, psp))
        if broken == 1:
            return gs
        if broken == 2:
            gs.append(self.group("VERTEX", [(10, "1"), (20, "2"), (30, "0")], psp))
        gs.append(self.group("SEQEND", [], psp))
        return gs

    def entities(self, valid=True):
        r = self.rng
        out = []
        for _ in range(r.choice([0, 1, 1, 2, 3, 4, 6, 9])):
            x = r.random()
            broken = 0 if valid or r.random() < 0.7 else r.choice([1, 2, 3])
            if x < 0.5:
                out += self.simple()
            elif x < 0.75:
                out += self.polyline(broken)
            elif x < 0.95:
                out += self.insert(broken if broken != 3 else 0)
            else:
                out += [self.group(r.choice(["VERTEX", "SEQEND", "ATTRIB"]),
                                   [(10, "1"), (20, "2"), (30, "0"), (40, "1"), (1, "v"), (2, "T")])]
        return out


def loose_positions(tags, boundary=False):
    """insert positions outside of every section or inside an ENTITIES section (not in front of a y/z coordinate;
    boundary: only in front of a structure tag, so that no entity is split)"""
    pos, where = [], None
    for i, t in enumerate(tags):
        if where in (None, "ENTITIES") and t[0] not in YZ and not (i > 0 and tags[i - 1] == S) and (t[0] == 0 or not boundary):
            pos.append(i)
        if t == S:
            where = tags[i + 1][1] if i + 1 < len(tags) and tags[i + 1][0] == 2 else "?"
        elif t == E or t == EOF_T:
            where = None
    pos.append(len(tags))
    return pos


def gen_stream(rng):
    """-> (kind, tags): a mostly well-formed ASCII DXF tag stream, with a structural fault in about 40 % of the cases"""
    r = rng
    g = Gen(r)
    faulty = r.random() < 0.4
    kinds = []
    ent_groups = g.entities(valid=not faulty or r.random() < 0.5)
    ent_body = [t for grp in ent_groups for t in grp]
    secs = []
    ver = r.choice([None, "AC1009", "AC1009", "AC1015", "AC1021", "AC1032"])
    if r.random() < 0.7:
        body = []
        if ver is not None:
            body += [(9, "$ACADVER"), (1, ver)]
        if r.random() < 0.7:
            body += [(9, "$DWGCODEPAGE"), (3, "ANSI_1252")]
        if r.random() < 0.5:
            body += [(9, "$INSBASE"), (10, "0.0"), (20, "0.0"), (30, "0.0")]
        if r.random() < 0.5:
            body += [(9, "$HANDSEED"), (5, "20")]
        if faulty and r.random() < 0.15:
            body += [(9, r.choice(["$ACADVER", "$DWGCODEPAGE"]))]          # variable without value at the end of HEADER
            kinds.append("hdr-var-at-end")
        if faulty and r.random() < 0.1:
            body += [(0, "FOO"), (2, r.choice(["BAR", "ENTITIES", "HEADER"]))]
            kinds.append("hdr-structure-tag")
        secs.append(("HEADER", body))
    else:
        ver = None
    if r.random() < 0.3:
        secs.append(("CLASSES", []))
    if r.random() < 0.6:
        secs.append(("TABLES", []))
    if r.random() < 0.6:
        blk = []
        if r.random() < 0.5:
            blk = [(0, "BLOCK"), (5, g.handle()), (8, "0"), (2, "BLK"), (70, "0"), (10, "0"), (20, "0"), (30, "0"), (3, "BLK")]
            blk += [t for grp in g.simple("LINE", psp=False) for t in grp]
            blk += [(0, "ENDBLK"), (5, g.handle()), (8, "0")]
        secs.append(("BLOCKS", blk))
    secs.append(("ENTITIES", ent_body))
    need_objects = ver is not None and ver > "AC1009"
    if need_objects and not (faulty and r.random() < 0.3):
        secs.append(("OBJECTS", []))
    elif need_objects:
        kinds.append("no-objects")
    if r.random() < 0.15:
        secs.append((r.choice(["THUMBNAILIMAGE", "FOO", "ACDSDATA"]), [(90, "1")]))
    if faulty:
        x = r.random()
        if x < 0.12:
            secs = [s for s in secs if s[0] != "ENTITIES"]
            kinds.append("no-entities")
        elif x < 0.24:
            i = r.randrange(len(secs) + 1)
            secs.insert(i, ("ENTITIES", [t for grp in g.entities() for t in grp]))
            kinds.append("two-entities")
        elif x < 0.32:
            r.shuffle(secs)
            kinds.append("shuffled")
        elif x < 0.40 and ent_body:
            # tags directly after (2, ENTITIES) that are not a structure tag
            secs = [(n, ([(8, "LINE"), (5, "EEEE")] + b) if n == "ENTITIES" else b) for n, b in secs]
            kinds.append("headless")
    tags = []
    for name, body in secs:
        tags += [S, (2, name)] + body + [E]
    tags.append(EOF_T)
    if faulty:
        x = r.random()
        if x < 0.10:
            cand = [i for i, t in enumerate(tags) if t == E]
            if cand:
                del tags[r.choice(cand)]
                kinds.append("drop-endsec")
        elif x < 0.18:
            tags.pop()
            kinds.append("drop-eof")
        elif x < 0.26:
            cand = [i for i, t in enumerate(tags) if t == S]
            if cand:
                del tags[r.choice(cand)]
                kinds.append("drop-section")
        elif x < 0.34:
            cand = [i for i, t in enumerate(tags) if t[0] == 2 and i > 0 and tags[i - 1] == S]
            if cand:
                del tags[r.choice(cand)]
                kinds.append("drop-name")
        elif x < 0.44:
            i = r.choice([i for i, t in enumerate(tags) if t in (S, E, EOF_T)] )
            pad = r.choice([" %s", "%s ", "\t%s", "%s \x0c", "%s\x1f", "\x1c%s"])
            tags[i] = (0, pad % tags[i][1])
            # \x1c..\x1f are whitespace for str.strip() but not for bytes.strip()
            kinds.append("padded-u" if ("\x1f" in pad or "\x1c" in pad) else "padded")
        elif x < 0.52:
            i = r.choice([i for i, t in enumerate(tags) if t[0] == 0])
            tags[i] = (0, tags[i][1].lower())
            kinds.append("lower")
        elif x < 0.60:
            i = r.choice(loose_positions(tags, boundary=True))
            tags[i:i] = [t for grp in g.simple("LINE", psp=False) for t in grp]     # entity outside a section / in ENTITIES
            kinds.append("stray-entity")
        elif x < 0.68:
            i = r.choice(loose_positions(tags))
            tags.insert(i, (r.choice([1072, 5000, 1071]), "1"))
            kinds.append("big-code")
        elif x < 0.74:
            tags += [(0, "LINE"), (5, "FFF0"), (8, "0")] + SIMPLE["LINE"]
            kinds.append("after-eof")
    for _ in range(r.choice([0, 0, 0, 1, 2])):
        insert_comment(r, tags, 0)
        kinds.append("comment")
    return "+".join(kinds) or "wellformed", tags


def _reader_case(args):
    seed, idx = args
    _quiet()
    rng = random.Random(f"{seed}/rd/{idx}")
    kind, tags = gen_stream(rng)
    path = os.path.join(_POOL_TMP, "rd-%d.dxf" % os.getpid())
    res = real_readers(file_text(tags), path, {v for c, v in tags if c == 5 and len(v) >= 4})
    return kind, tags, res


_POOL_TMP = "/tmp"


def _pool(n=10):
    import multiprocessing as mp

    return mp.get_context("fork").Pool(min(n, os.cpu_count() or 4))


READERS = ["strict", "rec", "iter", "sp", "idx"]


def correspond(ctx):
    global _POOL_TMP
    _POOL_TMP = str(ctx.scratch)
    _quiet()
    n = ctx.n(2500, 40000)
    with _pool() as pool:
        results = pool.map(_reader_case, [(ctx.seed, i) for i in range(n)], chunksize=50)
    cases = []
    outside = 0
    for kind, tags, res in results:
        ctx.hist("X1 readers", kind)
        line = tags_line(tags)
        for rd in READERS:
            impl = res[rd]
            if rd in ("strict", "rec") and "hdr-" in kind:
                continue   # HeaderSection.load validates the header variables (content level, not modelled)
            if rd == "rec" and "padded-u" in kind and impl.startswith("err"):
                continue   # the unstripped structure tag becomes an entity that the entity validator rejects
            if impl.startswith("err:other:"):
                outside += 1
                ctx.hist("X1 readers", "outside-model:" + rd + ":" + impl[10:])
                continue
            nontrivial = impl.startswith("err") or ("[" in impl and ("]" + "") in impl and any(c not in "[]" for c in impl))
            cases.append((f"rd|{rd}|-|-|{line}", impl, impl != "ok "))
    if outside * 20 > len(cases):
        ctx.note(f"X1: {outside} reader runs raised an exception class outside the model")
    allcases = [("X1 readers", c) for c in cases]
    allcases += [("X2 json tags", c) for c in correspond_json(ctx)]
    allcases += [("X3 r12writer structure", c) for c in correspond_r12(ctx)]
    allcases += [("X4 exporter structure", c) for c in correspond_export(ctx, results)]
    allcases += [("X5 writers_wf", c) for c in correspond_wf(ctx)]
    # one driver run for all streams
    outs = ctx.driver("C08", [c[0] for _, c in allcases], build=DRIVER_DEPS)
    for (stream, (req, impl, nontriv)), model in zip(allcases, outs):
        ctx.count(stream, req, nontriv, sample={"request": req[:300], "impl": impl[:300], "model": model[:300]})
        if impl != model:
            ctx.disagree(stream, req, impl, model)
    ctx.cov["disagreements_checked"] += len(allcases)


# ------------------------------------------------------------------ X2 JSON tags
def _wtag_line(w):
    if w[0] == "s":
        return f"s,{w[1]},{esc(w[2])}"
    return f"v,{w[1]}," + " ".join(esc(x) for x in w[2])


def correspond_json(ctx):
    import json

    from ezdxf.lldxf.tagger import ascii_tags_loader, json_tag_loader
    from ezdxf.lldxf.tagwriter import JSONTagWriter, TagWriter
    from ezdxf.lldxf.types import POINT_CODES, DXFTag, DXFVertex

    rng = ctx.rng("json")
    cases = []
    pts = sorted(POINT_CODES)
    for i in range(ctx.n(600, 6000)):
        # writer: compiled tags, EOF only at the end (the JSON writer closes the list there)
        ws, real = [], []
        for _ in range(rng.randint(0, 12)):
            x = rng.random()
            if x < 0.3:
                c = rng.choice(pts)
                xs = [rng.choice([0.0, 1.5, -2.25, 1e-9, 123456.789]) for _ in range(rng.choice([2, 3]))]
                ws.append(("v", c, [str(v) for v in xs]))
                real.append(DXFVertex(c, tuple(xs)))
            elif x < 0.5:
                c = rng.choice([70, 90, 62, 280])
                v = rng.randint(-5, 300)
                ws.append(("s", c, str(v)))
                real.append(DXFTag(c, v))
            elif x < 0.65:
                c = rng.choice([40, 50, 140])
                v = rng.choice([0.0, 2.5, -1e-7, 1e20])
                ws.append(("s", c, str(v)))
                real.append(DXFTag(c, v))
            elif x < 0.75:
                ws.append(("s", 999, "comment"))
                real.append(DXFTag(999, "comment"))
            else:
                c = rng.choice([0, 1, 2, 5, 8, 100, 1000])
                v = rng.choice(["LINE", "SECTION", 'q"uote', "back\\slash", "äΩ", "", " pad ", "A1", "tab\tx"])
                ws.append(("s", c, v))
                real.append(DXFTag(c, v))
        ws.append(("s", 0, "EOF"))
        real.append(DXFTag(0, "EOF"))
        compact = i % 2 == 0
        out = io.StringIO()
        w = JSONTagWriter(out, compact=compact)
        for t in real[:-1]:
            w.write_tag(t)
        w.write_tag2(0, "EOF")
        data = json.loads(out.getvalue())
        pairs = []
        for c, v in data:
            pairs.append(f"v,{c}," + " ".join(esc(str(x)) for x in v) if isinstance(v, list) else f"s,{c},{esc(str(v))}")
        loaded = ";".join(f"{t.code},{esc(str(t.value))}" for t in json_tag_loader(data))
        a = io.StringIO()
        tw = TagWriter(a)
        for t in real:
            tw.write_tag(t)
        a.seek(0)
        asc = ";".join(f"{t.code},{esc(str(t.value))}" for t in ascii_tags_loader(a))
        impl = ";".join(pairs) + "|" + loaded + "|" + asc
        cases.append((f"jw|{int(compact)}|" + ";".join(_wtag_line(x) for x in ws), impl, len(ws) > 1))
    for i in range(ctx.n(400, 4000)):
        # loader alone: EOF and comments anywhere, coordinate lists under point and non point codes
        js, data = [], []
        for _ in range(rng.randint(0, 10)):
            x = rng.random()
            if x < 0.3:
                c = rng.choice(pts)
                xs = [rng.choice([0.0, 1.5, -2.25]) for _ in range(rng.choice([0, 1, 2, 3]))]
                js.append(f"v,{c}," + " ".join(esc(str(v)) for v in xs))
                data.append([c, xs])
            elif x < 0.4:
                js.append("s,0,EOF")
                data.append([0, "EOF"])
            elif x < 0.55:
                js.append("s,999,c")
                data.append([999, "c"])
            else:
                c = rng.choice([0, 1, 8, 70, 10, 20])
                v = rng.choice(["LINE", "x", "1", "EOF"])
                js.append(f"s,{c},{esc(v)}")
                data.append([c, v])
        impl = ";".join(f"{t.code},{esc(str(t.value))}" for t in json_tag_loader(data))
        cases.append(("jl|" + ";".join(js), impl, bool(js)))
    return cases


# ------------------------------------------------------------------ X3 r12writer tag structure
def correspond_r12(ctx):
    import dxfparse
    from ezdxf.addons.r12writer import r12writer

    rng = ctx.rng("r12corr")
    cases = []
    for i in range(ctx.n(300, 3000)):
        fixed = i % 4 == 0
        calls = gen_r12_calls(rng, fixed)
        out = io.StringIO()
        with r12writer(out, fixed_tables=fixed) as w:
            for name, kw, _ in calls:
                getattr(w, name)(**kw)
        tags = dxfparse.parse_ascii(out.getvalue())
        k = next(j for j, t in enumerate(tags) if t == (2, "ENTITIES")) - 1
        pre, body = tags[:k], tags[k + 2:-2]
        groups = dxfparse.records(body)
        enc, pos = [], 0
        for name, kw, exp in calls:
            if exp[2] is None:
                g = groups[pos]
                pos += 1
                enc.append("S~" + esc(g[0][1]) + "~" + tags_line(g[1:]))
            else:
                n = len(exp[2])
                g = groups[pos]
                vs = groups[pos + 1: pos + 1 + n]
                assert groups[pos + 1 + n] == [(0, "SEQEND")], groups[pos + 1 + n]
                pos += n + 2
                enc.append("P~" + tags_line(g[1:]) + "".join("~" + tags_line(v[1:]) for v in vs))
        assert pos == len(groups)
        cases.append((f"r12|{tags_line(pre)}|" + "!".join(enc), tags_line(tags), True))
        ctx.hist("X3 r12writer structure", "fixed_tables" if fixed else "plain")
    return cases


# ------------------------------------------------------------------ X4 iterdxf exporter tag structure
def _export_case(args):
    tags, path = args
    _quiet()
    import dxfparse
    from ezdxf.addons import iterdxf

    src = path + "-s.dxf"
    dst = path + "-d.dxf"
    with open(src, "wb") as fp:
        fp.write(file_text(tags).encode("utf8"))
    ex = None
    try:
        it = iterdxf.opendxf(src)
        try:
            ex = it.export(dst)
            for e in it.modelspace():
                ex.write(e)
            ex.close()
        finally:
            it.close()
            if ex is not None and not ex.file.closed:
                ex.file.close()
    except Exception as e:  # noqa
        return "err:" + type(e).__name__
    with open(dst, "rb") as fp:
        text = fp.read().decode("utf8").replace("\r\n", "\n")
    out = []
    for r in dxfparse.records(dxfparse.parse_ascii(text)):
        h = next((v for c, v in r[1:] if c == 5), "-")
        out.append(esc(r[0][1]) + ":" + esc(h))
    return ";".join(out)


def correspond_export(ctx, reader_results):
    from ezdxf.addons import iterdxf

    # current behaviour of the exporter (probe): are sub-entities written twice?
    dup = _export_case(([S, (2, "ENTITIES"), (0, "POLYLINE"), (5, "A1"), (8, "0"), (66, "1"), (10, "0"), (20, "0"), (30, "0"),
                         (0, "VERTEX"), (5, "A2"), (8, "0"), (10, "0"), (20, "0"), (30, "0"), (0, "SEQEND"), (5, "A3"), (8, "0"),
                         E, EOF_T], os.path.join(str(ctx.scratch), "xp"))).count("VERTEX") == 2
    cases = []
    todo = []
    for kind, tags, res in reader_results:
        if kind != "wellformed" or res["idx"].startswith("err"):
            continue
        ver = next((tags[j + 1][1] for j, t in enumerate(tags[:-1]) if t == (9, "$ACADVER")), "AC1009")
        todo.append((tags, ver))
        if len(todo) >= ctx.n(300, 3000):
            break
    for i, (tags, ver) in enumerate(todo):
        impl = _export_case((tags, os.path.join(str(ctx.scratch), "x%d" % (i % 8))))
        if impl.startswith("err:"):
            ctx.hist("X4 exporter structure", impl)
            continue
        cases.append((f"ex|{int(dup)}|{int(ver <= 'AC1009')}|{tags_line(tags)}", impl, "POLYLINE" in impl or "INSERT" in impl))
    ctx.hist("X4 exporter structure", "writes-sub-entities-twice" if dup else "writes-sub-entities-once")
    return cases


# ------------------------------------------------------------------ X5 writers_wf: FileWF' of the model on real written files
def _wf_case(args):
    seed, idx = args
    _quiet()
    import dxfparse

    signal.signal(signal.SIGALRM, _on_alarm)
    rng = random.Random(f"{seed}/wf/{idx}")
    vname = list(VERSIONS)[idx % 7]
    try:
        signal.alarm(30)
        doc, made = build_document(rng, vname, rng.choice(list(CODEPAGES)), False)
        out = io.StringIO()
        doc.write(out)
    except _Timeout:
        return None
    finally:
        signal.alarm(0)
    tags = dxfparse.parse_ascii(out.getvalue())
    msp = doc.modelspace().layout_key
    psp = doc.paperspace().layout_key
    return vname, [m[0] for m in made], f"wf|{msp}|{psp}|{tags_line(tags)}"


def correspond_wf(ctx):
    """`writers_wf` on the real code: the decidable FileWF' of the Lean model holds for what Drawing.write produces"""
    n = ctx.n(42, 700)
    with _pool(8) as pool:
        results = pool.map(_wf_case, [(ctx.seed, i) for i in range(n)], chunksize=2)
    cases = []
    for r in results:
        if r is None:
            continue
        vname, kinds, line = r
        ctx.hist("X5 writers_wf", vname)
        cases.append((line, "1", True))
    return cases


# =========================================================================================== oracle on the real code
VERSIONS = {"R12": "AC1009", "R2000": "AC1015", "R2004": "AC1018", "R2007": "AC1021", "R2010": "AC1024",
            "R2013": "AC1027", "R2018": "AC1032"}
CODEPAGES = {
    "cp1252": "éüß€ñ×", "cp1250": "ąčžłő", "cp1251": "дфЖя", "cp1253": "αβΩψ", "cp1254": "ğİşı", "cp1255": "אבג",
    "cp1256": "ابت", "cp1257": "āčėų", "cp1258": "ăơư", "cp874": "กขค", "cp932": "日本語ｱ", "gbk": "中文测试", "cp949": "한국어",
    "cp950": "中文測試",
}
# characters that str.splitlines() / a careless strip() would treat specially but readline() does not
TRICKY_ASCII = ["\x0b", "\x0c", "\x1c", "\x1d", "\x1e", "\x1f", "\t"]
TRICKY_UNI = ["\x85", "\xa0", " ", " ", "　"]


class _Timeout(Exception):
    pass


def _on_alarm(*a):
    raise _Timeout()


def _strings(rng, version, enc):
    """pool of text values for one document"""
    native = CODEPAGES[enc] if version < "AC1021" else "".join(CODEPAGES.values())
    pool = ["plain", "", " lead", "trail ", "  ", "a;b|c,d", 'q"uote', "back\\slash", "%%d%%u", "^J^I^ ", "{\\C1;x}", "\\P",
            "x" * 300, "tab\tin", "a" + rng.choice(TRICKY_ASCII) + "b"]
    for _ in range(6):
        pool.append("".join(rng.choice(native) for _ in range(rng.randint(1, 6))) + rng.choice(["", " z", "9"]))
    if version >= "AC1021":
        pool += ["a" + rng.choice(TRICKY_UNI) + "b", "\U0001F600 emoji", "Ωmega ∑"]
    return pool


def _num(rng):
    x = rng.random()
    if x < 0.25:
        return float(rng.randint(-50, 50))
    if x < 0.45:
        return rng.randint(-4000, 4000) / 64.0
    if x < 0.6:
        return rng.choice([0.1 + 0.2, 1e-9, -1e-9, 1e12, 123456.789012345, -0.0, 1 / 3, 2.5e-5, 9.999999999999999e22])
    return rng.uniform(-1000, 1000)


def _pt(rng, dim=3):
    return tuple(_num(rng) for _ in range(dim))


def build_document(rng, version_name, enc, unencodable=False):
    """a document with many entity types through the public factory API"""
    import ezdxf

    ver = VERSIONS[version_name]
    r12 = ver == "AC1009"
    doc = ezdxf.new(version_name)
    if ver < "AC1021":
        doc.encoding = enc
    if r12 and rng.random() < 0.5:
        doc.header["$HANDLING"] = 0
    pool = _strings(rng, ver, enc)
    if unencodable:
        pool = pool + ["Ω∑ outside the code page", "x€y" if enc not in ("cp1252",) else "кириллица"]
    S = lambda: rng.choice(pool)      # noqa: E731
    doc.layers.add("L1", color=2)
    lname = "L" + "".join(c for c in CODEPAGES[enc][:2]) if ver < "AC1021" else "LΩ"
    if not r12:
        try:
            doc.layers.add(lname)
        except Exception:  # noqa
            lname = "L1"
    else:
        lname = "L1"
    blk = doc.blocks.new("BLK")
    blk.add_line((0, 0), (1, 1))
    blk.add_attdef("TAG", (0, 0), S() or "x")
    msp = doc.modelspace()
    layouts = [msp, msp, msp, doc.paperspace()]
    if not r12 and rng.random() < 0.5:
        layouts.append(doc.layouts.new("Second"))
    kinds = ["line", "circle", "arc", "point", "text", "attdef", "solid", "trace", "face", "pl2d", "pl3d", "mesh", "pface",
             "plempty", "insert", "insert_attr", "shape"]
    if not r12:
        kinds += ["lwpl", "lwempty", "mtext", "mtextlong", "ellipse", "spline", "hatch", "ray", "xline", "leader", "meshent",
                  "image", "wipeout", "mline", "dim", "mleader", "solid3d", "region", "tolerance", "helix", "lwpl", "mtext"]
    n = rng.choice([3, 6, 10, 16])
    made = []
    for _ in range(n):
        lay = rng.choice(layouts)
        kind = rng.choice(kinds)
        attribs = {"layer": rng.choice(["0", "L1", lname]), "color": rng.choice([256, 1, 7, 0])}
        if rng.random() < 0.2:
            attribs["linetype"] = "BYLAYER"
        if not r12 and rng.random() < 0.2:
            attribs["lineweight"] = rng.choice([-1, 13, 50])
        if ver >= "AC1018" and rng.random() < 0.2:
            attribs["true_color"] = rng.randrange(1 << 24)
        e = None
        try:
            if kind == "line":
                e = lay.add_line(_pt(rng), _pt(rng), dxfattribs=attribs)
                if rng.random() < 0.2:
                    e.dxf.thickness = _num(rng)
                    e.dxf.extrusion = (0, 0, -1)
            elif kind == "circle":
                e = lay.add_circle(_pt(rng), abs(_num(rng)) + 0.1, dxfattribs=attribs)
            elif kind == "arc":
                e = lay.add_arc(_pt(rng), abs(_num(rng)) + 0.1, _num(rng), _num(rng), dxfattribs=attribs)
            elif kind == "point":
                e = lay.add_point(_pt(rng), dxfattribs=attribs)
            elif kind == "text":
                e = lay.add_text(S(), height=abs(_num(rng)) + 0.1, rotation=_num(rng), dxfattribs=attribs)
                e.dxf.insert = _pt(rng)
            elif kind == "attdef":
                e = lay.add_attdef("T" + str(rng.randint(1, 9)), _pt(rng, 2), S(), dxfattribs=attribs)
            elif kind == "solid":
                e = lay.add_solid([_pt(rng, 2) for _ in range(rng.choice([3, 4]))], dxfattribs=attribs)
            elif kind == "trace":
                e = lay.add_trace([_pt(rng, 2) for _ in range(4)], dxfattribs=attribs)
            elif kind == "face":
                e = lay.add_3dface([_pt(rng) for _ in range(rng.choice([3, 4]))], dxfattribs=attribs)
            elif kind == "pl2d":
                e = lay.add_polyline2d([(_num(rng), _num(rng), 0.5, 0.25, _num(rng)) for _ in range(rng.randint(1, 5))],
                                       format="xyseb", dxfattribs=attribs)
            elif kind == "pl3d":
                e = lay.add_polyline3d([_pt(rng) for _ in range(rng.randint(1, 5))], dxfattribs=attribs)
            elif kind == "mesh":
                e = lay.add_polymesh((2, 2), dxfattribs=attribs)
                e.set_mesh_vertex((0, 0), _pt(rng))
            elif kind == "pface":
                e = lay.add_polyface(dxfattribs=attribs)
                e.append_face([_pt(rng), _pt(rng), _pt(rng)])
            elif kind == "plempty":
                e = lay.add_polyline2d([], dxfattribs=attribs)
            elif kind == "insert":
                e = lay.add_blockref("BLK", _pt(rng), dxfattribs=dict(attribs, xscale=_num(rng) or 1, rotation=_num(rng)))
            elif kind == "insert_attr":
                e = lay.add_blockref("BLK", _pt(rng), dxfattribs=attribs)
                for i in range(rng.randint(1, 3)):
                    e.add_attrib("TAG%d" % i, S(), _pt(rng, 2))
            elif kind == "shape":
                e = lay.add_shape("S1", _pt(rng), size=abs(_num(rng)) + 0.1, dxfattribs=attribs)
            elif kind == "lwpl":
                e = lay.add_lwpolyline([(_num(rng), _num(rng), 0.0, 0.0, _num(rng)) for _ in range(rng.randint(1, 6))],
                                       dxfattribs=attribs)
                e.closed = rng.random() < 0.5
            elif kind == "lwempty":
                e = lay.add_lwpolyline([], dxfattribs=attribs)
            elif kind == "mtext":
                e = lay.add_mtext(S(), dxfattribs=attribs)
                e.dxf.insert = _pt(rng)
                e.dxf.char_height = abs(_num(rng)) + 0.1
            elif kind == "mtextlong":
                e = lay.add_mtext((S() + " ") * 120, dxfattribs=attribs)
            elif kind == "ellipse":
                # moderate size: r12export flattens ellipses (C14's subject)
                e = lay.add_ellipse((rng.uniform(-500, 500), rng.uniform(-500, 500), rng.choice([0.0, 2.5])),
                                    major_axis=(rng.uniform(1, 50), rng.uniform(-20, 20), 0), ratio=rng.choice([0.5, 0.25, 1.0]),
                                    dxfattribs=attribs)
            elif kind == "spline":
                # fit points of moderate size (the CAD fit point interpolation is C13's subject)
                mp = lambda: (rng.uniform(-100, 100), rng.uniform(-100, 100), rng.choice([0.0, 1.5]))  # noqa: E731
                e = lay.add_spline([mp() for _ in range(rng.randint(3, 6))], dxfattribs=attribs)
                if rng.random() < 0.5:
                    e = lay.add_open_spline([mp() for _ in range(5)], degree=3, dxfattribs=attribs)
            elif kind == "hatch":
                e = lay.add_hatch(color=rng.randint(1, 6), dxfattribs={"layer": attribs["layer"]})
                # moderate size: r12export renders pattern lines (their number grows with area / scale)
                e.paths.add_polyline_path([(rng.uniform(-50, 50), rng.uniform(-50, 50), rng.choice([0, 0.5, -1.25]))
                                           for _ in range(4)], is_closed=True)
                if rng.random() < 0.5:
                    ep = e.paths.add_edge_path()
                    ep.add_line((rng.uniform(-9, 9), 0.125), (rng.uniform(-9, 9), 7.5))
                    ep.add_arc((rng.uniform(-9, 9), 1), 1.5, 0, 90)
                if rng.random() < 0.4:
                    e.set_pattern_fill("ANSI31", scale=rng.choice([1.0, 2.5, 4.0]))
                elif ver >= "AC1018" and rng.random() < 0.4:
                    e.set_gradient((10, 20, 30), (200, 100, 50))
            elif kind == "ray":
                e = lay.add_ray(_pt(rng), (1, 0, 0), dxfattribs=attribs)
            elif kind == "xline":
                e = lay.add_xline(_pt(rng), (0, 1, 0), dxfattribs=attribs)
            elif kind == "leader":
                e = lay.add_leader([_pt(rng, 2) for _ in range(3)], dxfattribs=attribs)
            elif kind == "meshent":
                e = lay.add_mesh(dxfattribs=attribs)
                with e.edit_data() as d:
                    d.vertices = [_pt(rng) for _ in range(4)]
                    d.faces = [[0, 1, 2], [0, 2, 3]]
            elif kind == "image":
                idef = doc.add_image_def("pic" + S()[:3] + ".png", (640, 480))
                e = lay.add_image(idef, _pt(rng), (3, 2), dxfattribs=attribs)
            elif kind == "wipeout":
                e = lay.add_wipeout([_pt(rng, 2) for _ in range(4)], dxfattribs=attribs)
            elif kind == "mline":
                e = lay.add_mline([_pt(rng) for _ in range(rng.choice([0, 2, 3]))], dxfattribs=attribs)
            elif kind == "dim":
                d = lay.add_linear_dim(base=(0, 3), p1=_pt(rng, 2), p2=_pt(rng, 2), text=rng.choice(["<>", S()]))
                d.render()
                e = d.dimension
            elif kind == "mleader":
                b = lay.add_multileader_mtext("Standard")
                b.set_content(S() or "c")
                from ezdxf.math import Vec2
                b.add_leader_line(__import__("ezdxf").render.mleader.ConnectionSide.left, [Vec2(-5, -5)])
                b.build(insert=Vec2(_pt(rng, 2)))
                e = b.multileader
            elif kind == "solid3d":
                e = lay.add_3dsolid(dxfattribs=attribs)
            elif kind == "region":
                e = lay.add_region(dxfattribs=attribs)
            elif kind == "tolerance":
                e = lay.new_entity("TOLERANCE", dict(attribs, insert=_pt(rng), content=S()))
            elif kind == "helix":
                e = lay.add_helix(radius=2, pitch=1, turns=2, dxfattribs=attribs)
        except (_Timeout, KeyboardInterrupt):
            raise
        except Exception as ex:  # noqa  (a factory call this version does not support)
            made.append(("skip", kind, type(ex).__name__))
            continue
        if e is None:
            continue
        made.append((kind, lay.name))
        if rng.random() < 0.15:
            if "VERIFAPP" not in doc.appids:
                doc.appids.add("VERIFAPP")
            e.set_xdata("VERIFAPP", [(1000, S()), (1070, 7), (1040, _num(rng)), (1010, _pt(rng))])
        if not r12 and rng.random() < 0.1:
            xd = e.new_extension_dict()
            xd.add_xrecord("K").reset([(1, S()), (90, 5)])
    return doc, made


# ------------------------------------------------------------------ snapshots
def _canon(v):
    from ezdxf.math import Vec2, Vec3

    if isinstance(v, Vec3):
        return ("V3", v.x, v.y, v.z)
    if isinstance(v, Vec2):
        return ("V2", v.x, v.y)
    if isinstance(v, float):
        return ("F", v)
    if isinstance(v, (list, tuple)):
        return tuple(_canon(x) for x in v)
    return v


DROP_ATTRIBS = ("owner",)
DROP_CODES = (330,)       # owner handle in the exported tags


def snap(e, ver, with_handle=True):
    """(dxftype, attribs, exported content tags or None, sub-entity snapshots)"""
    from ezdxf.lldxf.tagwriter import TagCollector

    attribs = {k: _canon(v) for k, v in e.dxf.all_existing_dxf_attribs().items()
               if k not in DROP_ATTRIBS and (with_handle or k != "handle")}
    try:
        tags = tuple((t.code, _canon(t.value)) for t in TagCollector.dxftags(e, ver)
                     if t.code not in DROP_CODES and (with_handle or t.code != 5))
    except Exception:  # noqa  (export of an entity without document can need the document)
        tags = None
    subs = tuple(snap(s, ver, with_handle) for s in getattr(e, "_sub_entities", ()))
    return (e.dxftype(), tuple(sorted(attribs.items())), tags, subs)


def snaps(entities, ver, with_handle=True, supported_only=False):
    from ezdxf.addons import iterdxf

    return [snap(e, ver, with_handle) for e in entities if not supported_only or e.dxftype() in iterdxf.SUPPORTED_TYPES]


def diff(a, b):
    """first difference of two snapshot lists as (class, text), None if equal"""
    if len(a) != len(b):
        return "len", f"{len(a)} vs {len(b)} entities: {[x[0] for x in a][:10]} vs {[x[0] for x in b][:10]}"
    for i, (x, y) in enumerate(zip(a, b)):
        if x[0] != y[0]:
            return "type", f"#{i} {x[0]} vs {y[0]}"
        if x[1] != y[1]:
            da, db = dict(x[1]), dict(y[1])
            ks = sorted(k for k in set(da) | set(db) if da.get(k) != db.get(k))
            return "attrib:" + ks[0], f"#{i} {x[0]}: " + ", ".join(f"{k}: {da.get(k)!r} vs {db.get(k)!r}" for k in ks[:3])
        if len(x[3]) != len(y[3]):
            return "subs", f"#{i} {x[0]}: {len(x[3])} vs {len(y[3])} sub-entities"
        d = diff(list(x[3]), list(y[3]))
        if d:
            return "sub-" + d[0], f"#{i} {x[0]} sub-entity " + d[1]
        if x[2] is not None and y[2] is not None and x[2] != y[2]:
            for j, (p, q) in enumerate(zip(x[2], y[2])):
                if p != q:
                    return "content", f"#{i} {x[0]} exported tag {j}: {p} vs {q}"
            return "content", f"#{i} {x[0]}: {len(x[2])} vs {len(y[2])} exported tags"
    return None


def _decoded(x: str) -> str:
    from ezdxf.lldxf.encoding import decode_dxf_unicode, has_dxf_unicode

    return decode_dxf_unicode(x) if has_dxf_unicode(x) else x


def _same(a, b) -> bool:
    """attribute values of source and reader: numbers by value (1.0 == 1, -0.0 == 0), the rest canonically"""
    if isinstance(a, (int, float)) and isinstance(b, (int, float)) and not isinstance(a, bool) and not isinstance(b, bool):
        return a == b
    return _canon(a) == _canon(b)


def _not_written(e) -> bool:
    """entities Drawing.write leaves out on purpose: LWPOLYLINE / MLINE without vertices (C04's subject)"""
    return e.dxftype() in ("LWPOLYLINE", "MLINE") and len(e) == 0


def source_diff(src_entities, got_entities, with_handle=True):
    """what the source document defines must arrive (defaults may be added by the writer: C01's subject)"""
    src_entities = [e for e in src_entities if not _not_written(e)]
    if len(src_entities) != len(got_entities):
        return "len", f"source has {[e.dxftype() for e in src_entities][:12]}, reader {[e.dxftype() for e in got_entities][:12]}"
    for i, (s, g) in enumerate(zip(src_entities, got_entities)):
        if s.dxftype() != g.dxftype():
            return "type", f"#{i} {s.dxftype()} vs {g.dxftype()}"
        for k, v in s.dxf.all_existing_dxf_attribs().items():
            if k in DROP_ATTRIBS or (k == "handle" and not with_handle):
                continue
            if k == "attribs_follow":
                continue     # derived from the attached ATTRIBs at export
            try:
                gv = g.dxf.get(k, g.dxf.dxf_default_value(k))
            except Exception:  # noqa
                gv = g.dxf.get(k)
            if gv is None:
                continue     # not exported for this DXF version / default elided (C01, C04)
            if not _same(v, gv):
                if isinstance(v, str) and isinstance(gv, str) and _decoded(gv) == v:
                    return "dxf-unicode", f"#{i} {s.dxftype()}.{k}: source {v!r} reader {gv!r}"
                return "attrib:" + k, f"#{i} {s.dxftype()}.{k}: source {v!r} reader {gv!r}"
        ss, gs = getattr(s, "_sub_entities", []), getattr(g, "_sub_entities", [])
        d = source_diff(list(ss), list(gs), with_handle)
        if d:
            return "sub-" + d[0], f"#{i} {s.dxftype()} sub-entity " + d[1]
    return None


def _falsy(sn) -> bool:
    """entity the iterdxf readers do not yield: `if queued:` with len(entity) == 0"""
    typ, attribs, tags, subs = sn
    if typ == "POLYLINE":
        return len(subs) == 0
    if typ == "LWPOLYLINE":
        return tags is not None and not any(c == 10 for c, _ in tags) or dict(attribs).get("count", 1) == 0
    if typ == "MLINE":
        return dict(attribs).get("count", 1) == 0 or (tags is not None and not any(c == 11 for c, _ in tags))
    return False


# ------------------------------------------------------------------ readers of one ASCII file
def ascii_readers(path, ver, with_handle):
    import ezdxf
    from ezdxf import recover
    from ezdxf.addons import iterdxf
    from ezdxf.filemanagement import dxf_file_info

    out = {}

    def run(name, fn):
        signal.alarm(20)
        try:
            out[name] = fn()
        except _Timeout:
            out[name] = "EXC watchdog"
        except Exception as ex:  # noqa
            out[name] = f"EXC {type(ex).__name__}: {str(ex)[:120]}"
        finally:
            signal.alarm(0)

    run("readfile", lambda: snaps(ezdxf.readfile(path).modelspace(), ver, with_handle, True))

    def rd():
        info = dxf_file_info(path)
        with open(path, "rt", encoding=info.encoding, errors="surrogateescape") as fp:
            return snaps(ezdxf.read(fp).modelspace(), ver, with_handle, True)

    run("read", rd)
    run("recover.readfile", lambda: snaps(recover.readfile(path)[0].modelspace(), ver, with_handle, True))

    def rr():
        with open(path, "rb") as fp:
            return snaps(recover.read(fp)[0].modelspace(), ver, with_handle, True)

    run("recover.read", rr)
    run("iterdxf.modelspace", lambda: snaps(iterdxf.modelspace(path), ver, with_handle))

    def sp():
        with open(path, "rb") as fp:
            return snaps(iterdxf.single_pass_modelspace(fp), ver, with_handle)

    run("iterdxf.single_pass_modelspace", sp)

    def od():
        it = iterdxf.opendxf(path)
        try:
            return snaps(it.modelspace(), ver, with_handle)
        finally:
            it.close()

    run("iterdxf.opendxf", od)
    return out


ITER_READERS = ("iterdxf.modelspace", "iterdxf.single_pass_modelspace", "iterdxf.opendxf")


def _unicode_only(ref, got) -> bool:
    """the two snapshot lists differ only by `\\U+XXXX` sequences that one side decoded (long MTEXT content is chunked
    differently then: string content tags are compared joined)"""
    def norm_ent(sn):
        typ, attribs, tags, subs = sn
        na = tuple((k, _decoded(v) if isinstance(v, str) else v) for k, v in attribs)
        if tags is None:
            nt = None
        else:
            text = _decoded("".join(v for c, v in tags if isinstance(v, str) and c in (1, 3)))
            nt = (text, tuple((c, _decoded(v) if isinstance(v, str) else v) for c, v in tags if not (isinstance(v, str) and c in (1, 3))))
        return (typ, na, nt, tuple(norm_ent(x) for x in subs))

    if len(ref) != len(got):
        return False
    a, b = [norm_ent(x) for x in ref], [norm_ent(x) for x in got]
    for x, y in zip(a, b):
        if x[0] != y[0] or x[1] != y[1] or x[3] != y[3]:
            return False
        if x[2] is not None and y[2] is not None and x[2] != y[2]:
            return False
    return True


def _last_group_lost(x, got) -> bool:
    """`got` is `x` without the last group of the section: the last entity, its SEQEND or its last sub-entity"""
    if not x:
        return False
    if diff(x[:-1], got) is None:
        return True
    if len(x) != len(got) or diff(x[:-1], got[:-1]) is not None:
        return False
    a, b = x[-1], got[-1]
    if a[0] != b[0] or a[1] != b[1]:
        return False
    return diff(list(a[3]), list(b[3])) is None or diff(list(a[3][:-1]), list(b[3])) is None


def judge(fails, tag, writer, res, ref_name="readfile"):
    """pairwise agreement of all readers with the reference reader; appends (key, what)"""
    ref = res[ref_name]
    if isinstance(ref, str):
        fails.append((f"{writer}/{ref_name}/raised/{ref.split(':')[0][4:]}", f"{tag}: {ref_name} raised {ref}"))
        return
    for name, got in res.items():
        if name == ref_name:
            continue
        if isinstance(got, str):
            fails.append((f"{writer}/{name}/raised/{got.split(':')[0][4:]}", f"{tag}: {name} {got}"))
            continue
        d = diff(ref, got)
        if d is None:
            continue
        if name in ITER_READERS:
            nofalsy = [s for s in ref if not _falsy(s)]
            has_falsy = len(nofalsy) != len(ref)
            falsy_type = next((s[0] for s in ref if _falsy(s)), "")
            if has_falsy and diff(nofalsy, got) is None:
                fails.append((f"iterdxf/falsy-entity-dropped/{falsy_type}",
                              f"{tag}: {name} does not yield the empty {falsy_type} (bool(entity) is False)"))
                continue
            if name == "iterdxf.single_pass_modelspace":
                if _last_group_lost(ref, got):
                    fails.append(("single-pass/last-entity-lost",
                                  f"{tag}: single_pass_modelspace lost the last group of the ENTITIES section ({d[1]})"))
                    continue
                if has_falsy and _last_group_lost(nofalsy, got):
                    fails.append(("single-pass/last-entity-lost",
                                  f"{tag}: single_pass_modelspace lost the last group of the ENTITIES section ({d[1]})"))
                    fails.append((f"iterdxf/falsy-entity-dropped/{falsy_type}", f"{tag}: {name} does not yield the empty {falsy_type}"))
                    continue
        if _unicode_only(ref, got):
            fails.append(("recover/dxf-unicode-decoded", f"{tag}: {name} and {ref_name} differ only by \\U+XXXX escapes one of them decoded: {d[1]}"))
            continue
        fails.append((f"{writer}/{name}/{d[0]}", f"{tag}: {name} vs {ref_name}: {d[1]}"))


def file_problems(path, enc="cp1252"):
    """the writer side of the property (`FileWF'` of the Lean model, evaluated on the real output with the harness-owned
    parser): sections bracketed, one ENTITIES section, no comments, linked structures complete"""
    import dxfparse

    with open(path, "rb") as fp:
        text = fp.read().decode(enc, "surrogateescape").replace("\r\n", "\n")
    tags = dxfparse.parse_ascii(text)
    sections, problems = dxfparse.split_file(tags)
    problems = list(problems)
    names = [n for n, _ in sections]
    if names.count("ENTITIES") != 1:
        problems.append(f"{names.count('ENTITIES')} ENTITIES sections")
    if any(c == 999 for c, _ in tags):
        problems.append("comment tag")
    if any(c > 1071 for c, _ in tags):
        problems.append("group code > 1071")
    for name, recs in sections:
        if name not in ("ENTITIES", "BLOCKS"):
            continue
        open_main = None
        for r in recs:
            typ = r[0][1]
            if typ == "<SECTION-TAGS>":
                problems.append(f"tags between (2, {name}) and the first entity")
                continue
            if typ in ("BLOCK", "ENDBLK") and open_main:
                problems.append(f"{open_main[0]} not closed by SEQEND (next entity {typ})")
                open_main = None
            if open_main:
                if typ == "SEQEND":
                    open_main = None
                elif typ != open_main[1]:
                    problems.append(f"{open_main[0]} not closed by SEQEND (next entity {typ})")
                    open_main = None
                continue
            if typ == "POLYLINE":
                open_main = ("POLYLINE", "VERTEX")
            elif typ == "INSERT" and any(c == 66 and str(v).strip() not in ("0", "") for c, v in r):
                open_main = ("INSERT", "ATTRIB")
        if open_main:
            problems.append(f"{open_main[0]} not closed by SEQEND (end of section)")
    return problems


def _doc_case(args):
    """one generated document through every writer and every reader; returns (stats, [(key, what)], replay)"""
    seed, idx, tmp = args
    _quiet()
    signal.signal(signal.SIGALRM, _on_alarm)
    rng = random.Random(f"{seed}/doc/{idx}")
    vname = list(VERSIONS)[idx % 7]
    ver = VERSIONS[vname]
    enc = rng.choice(list(CODEPAGES)) if idx % 3 else "cp1252"
    mode = "rich" if idx % 4 else "history"
    unenc = mode == "rich" and idx % 11 == 5
    replay = {"op": "doc", "seed": seed, "idx": idx}
    fails = []
    stats = {"version": vname, "enc": enc if ver < "AC1021" else "utf8", "mode": mode, "kinds": []}
    try:
        signal.alarm(30)
        if mode == "rich":
            doc, made = build_document(rng, vname, enc, unenc)
            stats["kinds"] = [m[0] for m in made if m[0] != "skip"]
        else:
            from gen.dochist import Runner, gen_rich

            r = Runner(vname)
            choose = gen_rich(random.Random(rng.randrange(1 << 30)))
            for _ in range(rng.choice([10, 20, 30])):
                op = choose(r)
                if vname == "R12" and op[0] in ("newlayout", "dellayout", "renlayout", "activate", "reload"):
                    continue
                if op[0] == "reactor":
                    continue
                r.apply(op)
                stats["kinds"].append(op[0])
            doc = r.doc
        signal.alarm(0)
    except _Timeout:
        return stats, [], replay, "watchdog-build"
    finally:
        signal.alarm(0)
    tag = f"{vname}/{stats['enc']}/{mode}#{idx}"
    base = os.path.join(tmp, f"d{os.getpid()}-{idx}")
    try:
        fails += run_writers(doc, ver, tag, base, stats)
    except _Timeout:
        return stats, fails, replay, "watchdog-io"
    finally:
        for suffix in "acbepr":
            try:
                os.remove(f"{base}-{suffix}.dxf")
            except OSError:
                pass
    return stats, fails, replay, None


def run_writers(doc, ver, tag, base, stats):
    import json

    import ezdxf
    from ezdxf.addons import iterdxf, r12export
    from ezdxf.document import export_json_tags, load_json_tags

    fails = []
    with_handle = not (ver == "AC1009" and not doc.header.get("$HANDLING", 0))
    # --- Drawing.write ASCII (LF)
    pa = base + "-a.dxf"
    try:
        doc.saveas(pa)
    except Exception as ex:  # noqa
        if "All entities have to be in the same layout" in str(ex):
            return fails   # C04's finding F21 (group members in several layouts): nothing was written
        fails.append((f"write-asc/raised/{type(ex).__name__}", f"{tag}: saveas raised {type(ex).__name__}: {str(ex)[:100]}"))
        return fails
    src = [e for e in doc.modelspace() if e.dxftype() in iterdxf.SUPPORTED_TYPES]
    probs = file_problems(pa)
    if probs:
        fails.append((f"asc/not-wellformed/{probs[0][:30]}", f"{tag}: Drawing.write output: {probs[0]}"))
    res = ascii_readers(pa, ver, with_handle)
    judge(fails, tag, "asc", res)
    ref = res["readfile"]
    stats["entities"] = len(ref) if not isinstance(ref, str) else -1
    if not isinstance(ref, str):
        got = [e for e in ezdxf.readfile(pa).modelspace() if e.dxftype() in iterdxf.SUPPORTED_TYPES]
        d = source_diff(src, got, with_handle)
        if d and d[0].endswith("dxf-unicode"):
            fails.append(("recover/dxf-unicode-decoded", f"{tag}: source document vs readfile (escape not decoded): {d[1]}"))
        elif d:
            fails.append((f"asc/source/{d[0]}", f"{tag}: source document vs readfile: {d[1]}"))
    # --- the same content with CRLF line ends (what saveas produces on Windows)
    pc = base + "-c.dxf"
    with open(pa, "rb") as fp:
        data = fp.read()
    with open(pc, "wb") as fp:
        fp.write(data.replace(b"\n", b"\r\n"))
    res_c = ascii_readers(pc, ver, with_handle)
    if not isinstance(ref, str):
        res_c["readfile(LF)"] = ref
        judge(fails, tag + " CRLF", "asc-crlf", res_c, "readfile(LF)")
    # --- binary
    pb = base + "-b.dxf"
    try:
        doc.saveas(pb, fmt="bin")
        rb = {"readfile": ref, "readfile(bin)": snaps(ezdxf.readfile(pb).modelspace(), ver, with_handle, True)}
        if not isinstance(ref, str):
            judge(fails, tag + " bin", "bin", rb)
    except _Timeout:
        raise
    except Exception as ex:  # noqa
        fails.append((f"bin/raised/{type(ex).__name__}", f"{tag}: binary write/read raised {type(ex).__name__}: {str(ex)[:100]}"))
    # --- JSON tags
    for compact in (True, False):
        try:
            text = export_json_tags(doc, compact=compact)
            jdoc = load_json_tags(json.loads(text))
            rj = {"readfile": ref, "load_json_tags": snaps(jdoc.modelspace(), ver, with_handle, True)}
            if not isinstance(ref, str):
                judge(fails, tag + (" json-compact" if compact else " json-verbose"), "json", rj)
        except _Timeout:
            raise
        except Exception as ex:  # noqa
            fails.append((f"json/raised/{type(ex).__name__}", f"{tag}: JSON export/load (compact={compact}) raised {type(ex).__name__}: {str(ex)[:100]}"))
    # --- iterdxf exporter: every modelspace entity of the ASCII file into a new file
    pe = base + "-e.dxf"
    try:
        it = iterdxf.opendxf(pa)
        ex = None
        try:
            ex = it.export(pe)
            n = 0
            for e in it.modelspace():
                ex.write(e)
                n += 1
            ex.close()
        finally:
            it.close()
            if ex is not None and not ex.file.closed:
                ex.file.close()     # a failed export must not flush into the file of a later document
        res_e = ascii_readers(pe, ver, with_handle)
        src_e = res["iterdxf.opendxf"]
        if not isinstance(src_e, str):
            res_e["source(opendxf)"] = src_e
            fe = []
            judge(fe, tag + " iterdxf-export", "export", res_e, "source(opendxf)")
            linked = any(s_[3] for s_ in src_e)
            for k, w in fe:
                # sub-entities written twice: they come back as additional stand-alone VERTEX/ATTRIB/SEQEND entities
                if linked and k.startswith("export/") and k.endswith("/len"):
                    fails.append(("export/sub-entities-written-twice", w))
                else:
                    fails.append((k, w))
    except _Timeout:
        raise
    except Exception as ex2:  # noqa
        kind = "xdict" if "dictionary handle" in str(ex2) else type(ex2).__name__
        fails.append((f"export/raised/{kind}", f"{tag}: iterdxf export raised {type(ex2).__name__}: {str(ex2)[:100]}"))
    # --- r12export (downgrade): all readers must agree on its output
    if ver != "AC1009":
        pr = base + "-r.dxf"
        try:
            signal.alarm(20)
            try:
                r12export.saveas(doc, pr)
            finally:
                signal.alarm(0)
            probs = file_problems(pr)
            if probs:
                kind = "missing-seqend" if "SEQEND" in probs[0] else "structure"
                fails.append((f"r12export/not-wellformed/{kind}", f"{tag}: r12export output: {probs[0]}"))
            else:
                res_r = ascii_readers(pr, "AC1009", False)
                judge(fails, tag + " r12export", "r12export", res_r)
        except _Timeout:
            raise
        except Exception as ex3:  # noqa
            fails.append((f"r12export/raised/{type(ex3).__name__}", f"{tag}: r12export raised {type(ex3).__name__}: {str(ex3)[:100]}"))
    return fails


def oracle(ctx):
    _quiet()
    tmp = str(ctx.scratch)
    n = ctx.n(210, 6000)
    with _pool(12) as pool:
        results = pool.map(_doc_case, [(ctx.seed, i, tmp) for i in range(n)], chunksize=5)
    for stats, fails, replay, wd in results:
        if wd:
            ctx.hist("O1 documents", wd)
            ctx.note(f"O1: document {replay['idx']} ({stats['version']}): {wd}, skipped")
            continue
        ctx.count("O1 documents", (replay["idx"], tuple(stats["kinds"])), stats.get("entities", 0) > 0)
        ctx.hist("O1 documents", stats["version"])
        ctx.hist("O1 documents", "enc:" + stats["enc"])
        for k in stats["kinds"]:
            ctx.hist("O1 documents", "k:" + k)
        for key, what in fails:
            ctx.fail(key, what, replay)
    # O2: r12writer call sequences, ASCII and binary, against the input rounded to 6 decimals
    n2 = ctx.n(400, 8000)
    with _pool(12) as pool:
        results = pool.map(_r12_case, [(ctx.seed, i, tmp) for i in range(n2)], chunksize=10)
    for kinds, fails, replay in results:
        ctx.count("O2 r12writer", (replay["idx"], tuple(kinds)), True)
        for k in kinds:
            ctx.hist("O2 r12writer", k)
        for key, what in fails:
            ctx.fail(key, what, replay)
    for key, what in r12_probes():
        ctx.count("O2 r12writer", key, True)
        ctx.fail(key, what, {"op": "r12-probe"})


def replay(ctx, rep):
    _quiet()
    bad = []
    probe_keys = None
    for f in rep.get("failing_inputs", []):
        r = f["replay"]
        keys = []
        if r.get("op") == "doc":
            _, fails, _, _ = _doc_case((r["seed"], r["idx"], str(ctx.scratch)))
            keys = [k for k, _ in fails]
        elif r.get("op") == "r12":
            _, fails, _ = _r12_case((r["seed"], r["idx"], str(ctx.scratch)))
            keys = [k for k, _ in fails]
        elif r.get("op") == "r12-probe":
            if probe_keys is None:
                probe_keys = [k for k, _ in r12_probes()]
            keys = probe_keys
        if f["key"] in keys:
            bad.append(f["key"])
    return (not bad, "; ".join(bad) or "recorded failing inputs pass now")


# ------------------------------------------------------------------ O2: r12writer call sequences
def rnd6(x):
    """round(x, 6) computed independently: exact binary value, half-even at the 6th decimal"""
    from decimal import ROUND_HALF_EVEN, Decimal

    if isinstance(x, int):
        return float(x)
    return float(Decimal(x).quantize(Decimal("0.000001"), rounding=ROUND_HALF_EVEN))


def _c(rng):
    x = rng.random()
    if x < 0.2:
        return rng.randint(-100, 100)
    if x < 0.4:
        return rng.randint(-10 ** 7, 10 ** 7) / 10 ** 7 + rng.choice([0, 5e-7, 0.5e-6, 1e-9])     # 7th decimal: rounding needed
    if x < 0.55:
        return rng.choice([0.0000005, 0.0000015, 0.0000025, 2.5000005, -0.0000005, 1.0000004999999, 0.1 + 0.2, -0.0,
                           123456789.1234567, 1e-7, 4.35, 2.675e-5, 1e15 + 0.3, 0.5e-6, 8.5e-7])
    return rng.uniform(-1000, 1000)


def _v(rng, dim):
    return tuple(_c(rng) for _ in range(dim))


def r3(v):
    """expected location of a written vertex: rounded components, missing z = 0"""
    t = tuple(rnd6(c) for c in v)
    return t + (0.0,) * (3 - len(t))


R12_TEXTS = ["plain", "with space ", "äöü ß € ©", "semi;colon", "%%c", "", "x" * 200, 'q"', "back\\slash"]


def gen_r12_calls(rng, fixed):
    """-> list of (method, kwargs, expected) ; expected = (dxftype, attribs, vertices or None).
    Line types and text styles other than the defaults only together with fixed_tables=True (they are defined there);
    without tables recover's audit resets the undefined references, rightly."""
    calls = []
    for _ in range(rng.choice([1, 2, 4, 8, 12])):
        m = rng.choice(["line", "circle", "arc", "point", "face", "solid", "polyline", "polyline_2d", "polyface", "polymesh", "text"])
        common = {}
        exp_c = {"layer": "0"}
        if rng.random() < 0.5:
            common["layer"] = rng.choice(["L1", "LAYER 2", "é"])
            exp_c["layer"] = common["layer"]
        if rng.random() < 0.4:
            common["color"] = rng.choice([0, 1, 7, 255, 256])
            exp_c["color"] = common["color"]
        if fixed and m not in ("text",) and rng.random() < 0.3:
            common["linetype"] = rng.choice(["DASHED", "CONTINUOUS"])
            exp_c["linetype"] = common["linetype"]
        if m == "line":
            d = rng.choice([2, 3])
            a, b = _v(rng, d), _v(rng, d)
            calls.append(("add_line", dict(start=a, end=b, **common), ("LINE", dict(exp_c, start=r3(a), end=r3(b)), None)))
        elif m == "circle":
            c, r = _v(rng, rng.choice([2, 3])), abs(_c(rng)) + 0.001
            calls.append(("add_circle", dict(center=c, radius=r, **common), ("CIRCLE", dict(exp_c, center=r3(c), radius=rnd6(r)), None)))
        elif m == "arc":
            c, r, s, e = _v(rng, 2), abs(_c(rng)) + 0.001, _c(rng), _c(rng)
            calls.append(("add_arc", dict(center=c, radius=r, start=s, end=e, **common),
                          ("ARC", dict(exp_c, center=r3(c), radius=rnd6(r), start_angle=rnd6(s), end_angle=rnd6(e)), None)))
        elif m == "point":
            p = _v(rng, rng.choice([2, 3]))
            calls.append(("add_point", dict(location=p, **common), ("POINT", dict(exp_c, location=r3(p)), None)))
        elif m in ("face", "solid"):
            n = rng.choice([3, 4])
            vs = [_v(rng, 3 if m == "face" else 2) for _ in range(n)]
            ex = dict(exp_c)
            full = vs + [vs[-1]] if n == 3 else vs
            for i, v in enumerate(full):
                ex["vtx%d" % i] = r3(v)
            kw = dict(vertices=vs, **common)
            if m == "face":
                inv = rng.choice([0, 0, 5, 15])
                kw["invisible"] = inv
                if inv:
                    ex["invisible_edges"] = inv
            calls.append(("add_3dface" if m == "face" else "add_solid", kw, ("3DFACE" if m == "face" else "SOLID", ex, None)))
        elif m == "polyline":
            d = rng.choice([2, 3])
            vs = [_v(rng, d) for _ in range(rng.randint(1, 5))]
            closed = rng.random() < 0.5
            vex = [dict(layer=exp_c["layer"], flags=32, location=r3(v)) for v in vs]
            calls.append(("add_polyline", dict(vertices=vs, closed=closed, **common),
                          ("POLYLINE", dict(exp_c, flags=8 + int(closed)), vex)))
        elif m == "polyline_2d":
            fmt = rng.choice(["xy", "xyb", "xyseb", "xybse", "xys", "xye"])
            pts, vex = [], []
            for _ in range(rng.randint(1, 5)):
                vals = {"x": _c(rng), "y": _c(rng), "s": rng.choice([0, 0.5, 0.1234567]), "e": rng.choice([0, 0.25]),
                        "b": rng.choice([0, 1, -0.4142135623730951])}
                pts.append(tuple(vals[c] for c in fmt))
                ex = dict(layer=exp_c["layer"], flags=0, location=(float(vals["x"]), float(vals["y"]), 0.0))   # NOT rounded
                for c, name in (("s", "start_width"), ("e", "end_width"), ("b", "bulge")):
                    if c in fmt and vals[c] != 0:
                        ex[name] = float(vals[c])
                vex.append(ex)
            closed = rng.random() < 0.5
            sw, ew = rng.choice([0, 0.5]), rng.choice([0, 0.75])
            ex = dict(exp_c, flags=int(closed))
            if sw:
                ex["default_start_width"] = sw
            if ew:
                ex["default_end_width"] = ew
            calls.append(("add_polyline_2d", dict(points=pts, format=fmt, closed=closed, start_width=sw, end_width=ew, **common),
                          ("POLYLINE", ex, vex)))
        elif m == "polyface":
            vs = [_v(rng, 3) for _ in range(rng.randint(3, 6))]
            faces = [tuple(rng.sample(range(len(vs)), rng.choice([3, 4]) if len(vs) > 3 else 3)) for _ in range(rng.randint(1, 3))]
            cm = {k: v for k, v in common.items()}
            vex = [dict(layer=exp_c["layer"], flags=192, location=r3(v)) for v in vs]
            for f in faces:
                fx = dict(layer=exp_c["layer"], flags=128, location=(0.0, 0.0, 0.0))
                if "color" in exp_c:
                    fx["color"] = exp_c["color"]
                for i, ix in enumerate(f):
                    fx["vtx%d" % i] = ix + 1
                vex.append(fx)
            calls.append(("add_polyface", dict(vertices=vs, faces=faces, **cm),
                          ("POLYLINE", dict(exp_c, flags=64, m_count=len(vs), n_count=len(faces)), vex)))
        elif m == "polymesh":
            mm, nn = rng.choice([(2, 2), (2, 3), (3, 2)])
            vs = [_v(rng, 3) for _ in range(mm * nn)]
            cl = (rng.random() < 0.5, rng.random() < 0.5)
            vex = [dict(layer=exp_c["layer"], flags=64, location=r3(v)) for v in vs]
            calls.append(("add_polymesh", dict(vertices=vs, size=(mm, nn), closed=cl, **common),
                          ("POLYLINE", dict(exp_c, flags=16 + int(cl[0]) + 32 * int(cl[1]), m_count=mm, n_count=nn), vex)))
        else:
            txt = rng.choice(R12_TEXTS)
            ins = _v(rng, 2)
            h, w, rot, obl = abs(_c(rng)) + 0.01, rng.choice([1.0, 0.8, 1.2345678]), rng.choice([0.0, _c(rng)]), rng.choice([0.0, 15.0000005])
            align = rng.choice(["LEFT", "CENTER", "MIDDLE_CENTER", "top_right", "BOTTOM_LEFT"])
            style = rng.choice(["STANDARD", "OpenSans"]) if fixed else "STANDARD"
            from ezdxf.addons.r12writer import TEXT_ALIGN_FLAGS

            ha, va = TEXT_ALIGN_FLAGS[align.upper()]
            ex = {"layer": exp_c["layer"], "text": txt, "insert": r3(ins), "height": rnd6(h), "align_point": r3(ins)}
            if "color" in exp_c:
                ex["color"] = exp_c["color"]
            if w != 1.0:
                ex["width"] = rnd6(w)
            if rot != 0.0:
                ex["rotation"] = rnd6(rot)
            if obl != 0.0:
                ex["oblique"] = rnd6(obl)
            if style != "STANDARD":
                ex["style"] = style
            ex["halign"], ex["valign"] = ha, va
            kw = dict(text=txt, insert=ins, height=h, width=w, align=align, rotation=rot, oblique=obl, style=style)
            kw.update({k: v for k, v in common.items() if k != "linetype"})
            calls.append(("add_text", kw, ("TEXT", ex, None)))
    return calls


def _check_r12_entity(e, exp):
    typ, attribs, verts = exp
    if e.dxftype() != typ:
        return f"type {e.dxftype()} instead of {typ}"
    for k, v in attribs.items():
        got = e.dxf.get(k, e.dxf.dxf_default_value(k) if e.dxf.is_supported(k) else None)
        if isinstance(v, tuple):
            from ezdxf.math import Vec3

            g = Vec3(got) if got is not None else None
            if g is None or (g.x, g.y, g.z) != v:
                return f"{typ}.{k} = {got!r}, expected {v!r}"
        elif isinstance(v, str):
            if got != v:
                return f"{typ}.{k} = {got!r}, expected {v!r}"
        elif got is None or float(got) != float(v):
            return f"{typ}.{k} = {got!r}, expected {v!r}"
    if verts is not None:
        subs = list(getattr(e, "_sub_entities", []))
        if len(subs) != len(verts):
            return f"{typ} has {len(subs)} vertices, expected {len(verts)}"
        for i, (s, vx) in enumerate(zip(subs, verts)):
            d = _check_r12_entity(s, ("VERTEX", vx, None))
            if d:
                return f"vertex {i}: {d}"
    return None


def _r12_case(args):
    seed, idx, tmp = args
    _quiet()
    signal.signal(signal.SIGALRM, _on_alarm)
    import ezdxf
    from ezdxf import recover
    from ezdxf.addons import iterdxf
    from ezdxf.addons.r12writer import r12writer

    rng = random.Random(f"{seed}/r12/{idx}")
    fixed = idx % 3 == 0
    calls = gen_r12_calls(rng, fixed)
    fails = []
    kinds = [c[0] for c in calls]
    base = os.path.join(tmp, f"r{os.getpid()}")
    for fmt in ("asc", "bin"):
        path = f"{base}-{fmt}.dxf"
        tag = f"r12writer#{idx}/{fmt}"
        try:
            with r12writer(path, fixed_tables=fixed, fmt=fmt) as w:
                for name, kw, _ in calls:
                    getattr(w, name)(**kw)
        except Exception as ex:  # noqa
            fails.append((f"r12writer/raised/{type(ex).__name__}", f"{tag}: {kinds} raised {type(ex).__name__}: {ex}"))
            continue
        readers = {"readfile": lambda: list(ezdxf.readfile(path).modelspace())}
        if fmt == "asc":
            probs = file_problems(path)
            if probs:
                fails.append(("r12writer/not-wellformed", f"{tag}: {probs[0]}"))
            readers["recover.readfile"] = lambda: list(recover.readfile(path)[0].modelspace())
            readers["iterdxf.modelspace"] = lambda: list(iterdxf.modelspace(path))

            def sp():
                with open(path, "rb") as fp:
                    return list(iterdxf.single_pass_modelspace(fp))

            readers["iterdxf.single_pass_modelspace"] = sp

            def od():
                it = iterdxf.opendxf(path)
                try:
                    return list(it.modelspace())
                finally:
                    it.close()

            readers["iterdxf.opendxf"] = od
        for rname, fn in readers.items():
            signal.alarm(20)
            try:
                ents = fn()
            except _Timeout:
                fails.append((f"r12writer/{fmt}/{rname}/watchdog", f"{tag}: {rname} did not finish"))
                continue
            except Exception as ex:  # noqa
                fails.append((f"r12writer/{fmt}/{rname}/raised/{type(ex).__name__}", f"{tag}: {rname} raised {type(ex).__name__}: {str(ex)[:100]}"))
                continue
            finally:
                signal.alarm(0)
            exp = [c[2] for c in calls]
            if rname == "iterdxf.single_pass_modelspace" and len(ents) == len(exp) - 1:
                # the last call wrote one entity (or one POLYLINE with SEQEND as the last group)
                bad = next((d for d in (_check_r12_entity(e, x) for e, x in zip(ents, exp)) if d), None)
                if bad is None:
                    fails.append(("single-pass/last-entity-lost", f"{tag}: single_pass_modelspace lost the last entity {exp[-1][0]}"))
                    continue
            if len(ents) != len(exp):
                fails.append((f"r12writer/{fmt}/{rname}/len", f"{tag}: {rname} delivers {[e.dxftype() for e in ents]}, written {[x[0] for x in exp]}"))
                continue
            for i, (e, x) in enumerate(zip(ents, exp)):
                d = _check_r12_entity(e, x)
                if d:
                    fails.append((f"r12writer/{fmt}/{rname}/value/{calls[i][0]}", f"{tag}: {rname} entity {i} ({calls[i][0]}): {d}"))
                    break
    return kinds, fails, {"op": "r12", "seed": seed, "idx": idx}


def r12_probes():
    """documented call variants of add_polyline_2d"""
    import io

    from ezdxf.addons.r12writer import r12writer

    out = []
    for fmt, pts in (("vb", [((1.0, 2.0), 0.5)]), ("v", [((1.0, 2.0),)]), ("yx", [(2.0, 1.0)]), ("bxy", [(0.5, 1.0, 2.0)])):
        s = io.StringIO()
        try:
            with r12writer(s) as w:
                w.add_polyline_2d(pts, format=fmt)
        except Exception as ex:  # noqa
            out.append((f"r12writer/polyline_2d-format/{fmt}/raised/{type(ex).__name__}",
                        f"add_polyline_2d(points={pts}, format={fmt!r}) raised {type(ex).__name__}: {ex}"))
            continue
        import ezdxf

        try:
            doc = ezdxf.read(io.StringIO(s.getvalue()))
            pl = doc.modelspace()[0]
            loc = pl.vertices[0].dxf.location
            if (loc.x, loc.y) != (1.0, 2.0):
                out.append((f"r12writer/polyline_2d-format/{fmt}/value", f"format {fmt!r}: vertex read back as {loc}"))
        except Exception as ex:  # noqa
            out.append((f"r12writer/polyline_2d-format/{fmt}/unreadable/{type(ex).__name__}",
                        f"add_polyline_2d(points={pts}, format={fmt!r}) writes a file ezdxf.read rejects: {type(ex).__name__}: {ex}"))
    return out

"""C08  All readers agree on the output of all writers (DESIGN.md section 7, C08)."""
from __future__ import annotations

import io
import logging
import os
import random
import signal

from leanfmt import lean_list, lean_str

ID = "C08"
LEAN_MODULES = ["EzdxfVerif.Props.C08"]
DRIVER_DEPS = ["EzdxfVerif.Model.Readers", "EzdxfVerif.Gen.ReaderTables", "Drivers.Proto"]
RULE = "see below"
TRUSTED_BASE = []
ASSUMPTIONS = []
OPEN = []

SRCS = [
    "src/ezdxf/addons/iterdxf.py", "src/ezdxf/lldxf/fileindex.py", "src/ezdxf/lldxf/loader.py", "src/ezdxf/lldxf/tagger.py",
    "src/ezdxf/lldxf/tags.py", "src/ezdxf/entities/subentity.py", "src/ezdxf/sections/entities.py", "src/ezdxf/recover.py",
    "src/ezdxf/lldxf/const.py", "src/ezdxf/lldxf/types.py", "src/ezdxf/lldxf/tagwriter.py", "src/ezdxf/addons/r12writer.py",
    "src/ezdxf/document.py",
]


# ------------------------------------------------------------------ regenerate
def _probe_single_pass_flush() -> bool:
    """does single_pass_modelspace deliver the last entity of the ENTITIES section?"""
    from ezdxf.addons import iterdxf

    data = b"0\nSECTION\n2\nENTITIES\n0\nLINE\n8\n0\n10\n0\n20\n0\n11\n1\n21\n1\n0\nENDSEC\n0\nEOF\n"
    n = len(list(iterdxf.single_pass_modelspace(io.BytesIO(data))))
    if n not in (0, 1):
        raise ValueError("single_pass_modelspace probe: unexpected entity count %d" % n)
    return n == 1


def _probe_max_code(tmp: str) -> int:
    from ezdxf.lldxf import fileindex
    from ezdxf.lldxf.const import DXFStructureError

    def ok(code):
        p = os.path.join(tmp, "probe.dxf")
        with open(p, "wb") as fp:
            fp.write(b"0\nSECTION\n2\nENTITIES\n0\nLINE\n%d\nx\n0\nENDSEC\n0\nEOF\n" % code)
        try:
            fileindex.load(p)
            return True
        except DXFStructureError:
            return False

    good = [c for c in range(0, 1200) if ok(c)]
    if good != list(range(0, good[-1] + 1)):
        raise ValueError("fileindex.load accepts a non-contiguous set of group codes")
    return good[-1]


def regenerate(ctx):
    for s in SRCS:
        ctx.src(s)
    import importlib

    from ezdxf.addons import iterdxf

    r12writer = importlib.import_module("ezdxf.addons.r12writer")
    from ezdxf.entities import subentity
    from ezdxf.lldxf import const, types

    sup = sorted(iterdxf.SUPPORTED_TYPES)
    linked = sorted(subentity.LINKED_ENTITIES.items())
    managed = sorted(const.MANAGED_SECTIONS)
    ws_u = [o for o in range(0x110000) if not (0xD800 <= o < 0xE000) and chr(o).isspace()]
    ws_b = [o for o in range(256) if bytes([o]).isspace()]
    # str.strip()/bytes.strip() strip exactly the isspace() characters (checked, not assumed)
    for o in ws_u:
        if (chr(o) + "x" + chr(o)).strip() != "x":
            raise ValueError("str.strip() does not strip U+%04X" % o)
    for o in range(0x3000):
        if o not in ws_u and (chr(o) + "x").strip() == "x":
            raise ValueError("str.strip() strips U+%04X which is not isspace()" % o)
    flush = _probe_single_pass_flush()
    maxcode = _probe_max_code(str(ctx.scratch))
    text = f"""
namespace EzdxfVerif.Gen.ReaderTables

/-- iterdxf.SUPPORTED_TYPES (sorted) -/
def supportedTypes : List String := {lean_list(lean_str(s) for s in sup)}

/-- entities.subentity.LINKED_ENTITIES (sorted items) -/
def linkedEntities : List (String × String) := {lean_list(f"({lean_str(a)}, {lean_str(b)})" for a, b in linked)}

/-- const.MANAGED_SECTIONS (sorted) -/
def managedSections : List String := {lean_list(lean_str(s) for s in managed)}

/-- types.POINT_CODES (sorted) -/
def pointCodes : List Nat := {lean_list(str(c) for c in sorted(types.POINT_CODES))}

/-- every code point c with chr(c).isspace() (what str.strip() removes) -/
def strWhitespace : List Nat := {lean_list(str(o) for o in ws_u)}

/-- every byte b with bytes([b]).isspace() (what bytes.strip() removes) -/
def bytesWhitespace : List Nat := {lean_list(str(o) for o in ws_b)}

/-- probe of lldxf.fileindex.load: largest accepted group code -/
def maxGroupCode : Nat := {maxcode}

/-- probe of iterdxf.single_pass_modelspace on a one-entity file: is the last entity of the section delivered? -/
def singlePassFlush : Bool := {"true" if flush else "false"}

/-- r12writer.rnd = partial(round, ndigits=...) -/
def r12Digits : Nat := {r12writer.rnd.keywords["ndigits"]}

end EzdxfVerif.Gen.ReaderTables
"""
    ctx.write_gen("ReaderTables", text, SRCS)


# ------------------------------------------------------------------ protocol helpers
def esc(s: str) -> str:
    out = []
    for ch in s:
        o = ord(ch)
        if ch in "%;|,[]:" or o < 32 or o > 126:
            out.append("%%%d." % o)
        else:
            out.append(ch)
    return "".join(out)


def tags_line(tags) -> str:
    return ";".join(f"{c},{esc(v)}" for c, v in tags)


def file_text(tags) -> str:
    return "".join(f"{c}\n{v}\n" for c, v in tags)


# ------------------------------------------------------------------ implementation side (real readers)
S, E, EOF_T = (0, "SECTION"), (0, "ENDSEC"), (0, "EOF")
FILE_HANDLE_MIN = 0x1000   # handles of generated streams; handles ezdxf creates itself stay below


def _quiet():
    logging.getLogger("ezdxf").setLevel(logging.CRITICAL)


def show_entity(e, file_handles) -> str:
    def h(x):
        # the Drawing readers give an entity without handle a fresh one (not in the file)
        return x.dxf.handle if x.dxf.handle in file_handles else "-"

    subs = ",".join(esc(h(s)) for s in getattr(e, "_sub_entities", []))
    sq = getattr(e, "seqend", None)
    sqh = ""
    # a SEQEND created by post_bind_hook (Drawing readers) has a fresh handle that is not in the file
    if sq is not None and sq.dxf.handle and sq.dxf.handle in file_handles:
        sqh = sq.dxf.handle
    return f"{esc(e.dxftype())}:{esc(h(e))}[{subs}]{esc(sqh)}"


def _run(fn, file_handles) -> str:
    try:
        return "ok " + ";".join(show_entity(e, file_handles) for e in fn())
    except Exception as ex:  # noqa
        n = type(ex).__name__
        return "err:" + n if n in ("DXFStructureError", "IndexError") else "err:other:" + n


def real_readers(text: str, path: str, file_handles) -> dict:
    """the five real readers on one ASCII file; strict/recover results restricted to iterdxf.SUPPORTED_TYPES"""
    import ezdxf
    from ezdxf import recover
    from ezdxf.addons import iterdxf
    from ezdxf.document import Drawing

    data = text.encode("utf8")
    with open(path, "wb") as fp:
        fp.write(data)
    sup = iterdxf.SUPPORTED_TYPES
    out = {}
    fh = file_handles
    out["strict"] = _run(lambda: [e for e in ezdxf.read(io.StringIO(text)).modelspace() if e.dxftype() in sup], fh)

    def rec():
        # front end of recover.read without the audit (the model covers the front end)
        tool = recover.Recover.run(io.BytesIO(data))
        doc = Drawing()
        doc._load_section_dict(tool.section_dict)
        return [e for e in doc.modelspace() if e.dxftype() in sup]

    out["rec"] = _run(rec, fh)
    out["iter"] = _run(lambda: list(iterdxf.modelspace(path)), fh)
    out["sp"] = _run(lambda: list(iterdxf.single_pass_modelspace(io.BytesIO(data))), fh)

    def idx():
        it = iterdxf.opendxf(path)
        try:
            return list(it.modelspace())
        finally:
            it.close()

    out["idx"] = _run(idx, fh)
    return out


# ------------------------------------------------------------------ generator of tag streams
SIMPLE = {
    "LINE": [(10, "0"), (20, "0"), (30, "0"), (11, "1"), (21, "1"), (31, "0")],
    "CIRCLE": [(10, "1"), (20, "2"), (30, "0"), (40, "2.5")],
    "POINT": [(10, "3"), (20, "4"), (30, "5")],
    "ARC": [(10, "0"), (20, "0"), (30, "0"), (40, "1"), (50, "0"), (51, "90")],
    "TEXT": [(10, "0"), (20, "0"), (30, "0"), (40, "1"), (1, "abc")],
    "FOOBAR": [(1, "unknown entity")],
    "TOLERANCE": [(3, "Standard"), (10, "0"), (20, "0"), (30, "0"), (1, "x")],
}


YZ = {20, 21, 30, 31}


def insert_comment(r, tags, lo):
    """a 999 comment between two complete tags, never inside a point (the point compilers of the readers that do not
    skip comments would take it for a coordinate: C03's subject)"""
    pos = [i for i in range(lo, len(tags) + 1) if i == len(tags) or tags[i][0] not in YZ]
    tags.insert(r.choice(pos), (999, "a comment"))


class Gen:
    def __init__(self, rng):
        self.rng = rng
        self.h = FILE_HANDLE_MIN + rng.randrange(0x100)

    def handle(self) -> str:
        self.h += self.rng.randint(1, 3)
        return "%X" % self.h

    def group(self, typ, extra=(), psp=None):
        r = self.rng
        g = [(0, typ), (5, self.handle()), (8, r.choice(["0", "L1"]))]
        if psp is None:
            psp = r.random() < 0.2
        if psp:
            g.append((67, "1"))
        elif r.random() < 0.1:
            g.append((67, "0"))
        g += list(extra)
        if r.random() < 0.08:
            insert_comment(r, g, 1)
        return g

    def simple(self, typ=None, psp=None):
        r = self.rng
        typ = typ or r.choice(["LINE", "LINE", "CIRCLE", "POINT", "ARC", "TEXT", "FOOBAR", "TOLERANCE"])
        return [self.group(typ, SIMPLE[typ], psp)]

    def polyline(self, broken=0):
        r = self.rng
        psp = r.random() < 0.25
        gs = [self.group("POLYLINE", [(66, "1"), (10, "0"), (20, "0"), (30, "0"), (70, "0")], psp)]
        for _ in range(r.choice([0, 1, 2, 3])):
            gs.append(self.group("VERTEX", [(10, "1"), (20, "2"), (30, "0")], psp))
            if broken == 3 and r.random() < 0.5:
                gs.append(self.group("FOOBAR", SIMPLE["FOOBAR"], psp))      # unsupported entity inside the vertex run
        if broken == 1:
            return gs                                                      # no SEQEND
        if broken == 2:
            gs.append(self.group("ATTRIB", [(10, "0"), (20, "0"), (30, "0"), (40, "1"), (1, "v"), (2, "T")], psp))
        gs.append(self.group("SEQEND", [], psp))
        return gs

    def insert(self, broken=0):
        r = self.rng
        psp = r.random() < 0.25
        mode = r.choice(["attribs", "attribs", "plain", "zero", "stray"])
        head = [(2, "BLK"), (10, "0"), (20, "0"), (30, "0")]
        att = [(10, "0"), (20, "0"), (30, "0"), (40, "1"), (1, "v"), (2, "T")]
        if mode == "plain":
            return [self.group("INSERT", head, psp)]
        if mode == "zero":
            return [self.group("INSERT", [(66, "0")] + head, psp)]
        if mode == "stray":   # attribs_follow unset, but ATTRIB + SEQEND follow as stand alone entities
            return [self.group("INSERT", head, psp), self.group("ATTRIB", att, psp), self.group("SEQEND", [], psp)]
        gs = [self.group("INSERT", [(66, "1")] + head, psp)]
        for _ in range(r.choice([0, 1, 2])):
            gs.append(self.group("ATTRIB", att, psp))
        if broken == 1:
            return gs
        if broken == 2:
            gs.append(self.group("VERTEX", [(10, "1"), (20, "2"), (30, "0")], psp))
        gs.append(self.group("SEQEND", [], psp))
        return gs

    def entities(self, valid=True):
        r = self.rng
        out = []
        for _ in range(r.choice([0, 1, 1, 2, 3, 4, 6, 9])):
            x = r.random()
            broken = 0 if valid or r.random() < 0.7 else r.choice([1, 2, 3])
            if x < 0.5:
                out += self.simple()
            elif x < 0.75:
                out += self.polyline(broken)
            elif x < 0.95:
                out += self.insert(broken if broken != 3 else 0)
            else:
                out += [self.group(r.choice(["VERTEX", "SEQEND", "ATTRIB"]),
                                   [(10, "1"), (20, "2"), (30, "0"), (40, "1"), (1, "v"), (2, "T")])]
        return out


def loose_positions(tags, boundary=False):
    """insert positions outside of every section or inside an ENTITIES section (not in front of a y/z coordinate;
    boundary: only in front of a structure tag, so that no entity is split)"""
    pos, where = [], None
    for i, t in enumerate(tags):
        if where in (None, "ENTITIES") and t[0] not in YZ and not (i > 0 and tags[i - 1] == S) and (t[0] == 0 or not boundary):
            pos.append(i)
        if t == S:
            where = tags[i + 1][1] if i + 1 < len(tags) and tags[i + 1][0] == 2 else "?"
        elif t == E or t == EOF_T:
            where = None
    pos.append(len(tags))
    return pos


def gen_stream(rng):
    """-> (kind, tags): a mostly well-formed ASCII DXF tag stream, with a structural fault in about 40 % of the cases"""
    r = rng
    g = Gen(r)
    faulty = r.random() < 0.4
    kinds = []
    ent_groups = g.entities(valid=not faulty or r.random() < 0.5)
    ent_body = [t for grp in ent_groups for t in grp]
    secs = []
    ver = r.choice([None, "AC1009", "AC1009", "AC1015", "AC1021", "AC1032"])
    if r.random() < 0.7:
        body = []
        if ver is not None:
            body += [(9, "$ACADVER"), (1, ver)]
        if r.random() < 0.7:
            body += [(9, "$DWGCODEPAGE"), (3, "ANSI_1252")]
        if r.random() < 0.5:
            body += [(9, "$INSBASE"), (10, "0.0"), (20, "0.0"), (30, "0.0")]
        if r.random() < 0.5:
            body += [(9, "$HANDSEED"), (5, "20")]
        if faulty and r.random() < 0.15:
            body += [(9, r.choice(["$ACADVER", "$DWGCODEPAGE"]))]          # variable without value at the end of HEADER
            kinds.append("hdr-var-at-end")
        if faulty and r.random() < 0.1:
            body += [(0, "FOO"), (2, r.choice(["BAR", "ENTITIES", "HEADER"]))]
            kinds.append("hdr-structure-tag")
        secs.append(("HEADER", body))
    else:
        ver = None
    if r.random() < 0.3:
        secs.append(("CLASSES", []))
    if r.random() < 0.6:
        secs.append(("TABLES", []))
    if r.random() < 0.6:
        blk = []
        if r.random() < 0.5:
            blk = [(0, "BLOCK"), (5, g.handle()), (8, "0"), (2, "BLK"), (70, "0"), (10, "0"), (20, "0"), (30, "0"), (3, "BLK")]
            blk += [t for grp in g.simple("LINE", psp=False) for t in grp]
            blk += [(0, "ENDBLK"), (5, g.handle()), (8, "0")]
        secs.append(("BLOCKS", blk))
    secs.append(("ENTITIES", ent_body))
    need_objects = ver is not None and ver > "AC1009"
    if need_objects and not (faulty and r.random() < 0.3):
        secs.append(("OBJECTS", []))
    elif need_objects:
        kinds.append("no-objects")
    if r.random() < 0.15:
        secs.append((r.choice(["THUMBNAILIMAGE", "FOO", "ACDSDATA"]), [(90, "1")]))
    if faulty:
        x = r.random()
        if x < 0.12:
            secs = [s for s in secs if s[0] != "ENTITIES"]
            kinds.append("no-entities")
        elif x < 0.24:
            i = r.randrange(len(secs) + 1)
            secs.insert(i, ("ENTITIES", [t for grp in g.entities() for t in grp]))
            kinds.append("two-entities")
        elif x < 0.32:
            r.shuffle(secs)
            kinds.append("shuffled")
        elif x < 0.40 and ent_body:
            # tags directly after (2, ENTITIES) that are not a structure tag
            secs = [(n, ([(8, "LINE"), (5, "EEEE")] + b) if n == "ENTITIES" else b) for n, b in secs]
            kinds.append("headless")
    tags = []
    for name, body in secs:
        tags += [S, (2, name)] + body + [E]
    tags.append(EOF_T)
    if faulty:
        x = r.random()
        if x < 0.10:
            i = r.choice([i for i, t in enumerate(tags) if t == E])
            del tags[i]
            kinds.append("drop-endsec")
        elif x < 0.18:
            tags.pop()
            kinds.append("drop-eof")
        elif x < 0.26:
            i = r.choice([i for i, t in enumerate(tags) if t == S])
            del tags[i]
            kinds.append("drop-section")
        elif x < 0.34:
            i = r.choice([i for i, t in enumerate(tags) if t[0] == 2 and i > 0 and tags[i - 1] == S])
            del tags[i]
            kinds.append("drop-name")
        elif x < 0.44:
            i = r.choice([i for i, t in enumerate(tags) if t in (S, E, EOF_T)] )
            pad = r.choice([" %s", "%s ", "\t%s", "%s \x0c", "%s\x1f", "\x1c%s"])
            tags[i] = (0, pad % tags[i][1])
            # \x1c..\x1f are whitespace for str.strip() but not for bytes.strip()
            kinds.append("padded-u" if ("\x1f" in pad or "\x1c" in pad) else "padded")
        elif x < 0.52:
            i = r.choice([i for i, t in enumerate(tags) if t[0] == 0])
            tags[i] = (0, tags[i][1].lower())
            kinds.append("lower")
        elif x < 0.60:
            i = r.choice(loose_positions(tags, boundary=True))
            tags[i:i] = [t for grp in g.simple("LINE", psp=False) for t in grp]     # entity outside a section / in ENTITIES
            kinds.append("stray-entity")
        elif x < 0.68:
            i = r.choice(loose_positions(tags))
            tags.insert(i, (r.choice([1072, 5000, 1071]), "1"))
            kinds.append("big-code")
        elif x < 0.74:
            tags += [(0, "LINE"), (5, "FFF0"), (8, "0")] + SIMPLE["LINE"]
            kinds.append("after-eof")
    for _ in range(r.choice([0, 0, 0, 1, 2])):
        insert_comment(r, tags, 0)
        kinds.append("comment")
    return "+".join(kinds) or "wellformed", tags


def _reader_case(args):
    seed, idx = args
    _quiet()
    rng = random.Random(f"{seed}/rd/{idx}")
    kind, tags = gen_stream(rng)
    path = os.path.join(_POOL_TMP, "rd-%d.dxf" % os.getpid())
    res = real_readers(file_text(tags), path, {v for c, v in tags if c == 5 and len(v) >= 4})
    return kind, tags, res


_POOL_TMP = "/tmp"


def _pool(n=10):
    import multiprocessing as mp

    return mp.get_context("fork").Pool(min(n, os.cpu_count() or 4))


READERS = ["strict", "rec", "iter", "sp", "idx"]


def correspond(ctx):
    global _POOL_TMP
    _POOL_TMP = str(ctx.scratch)
    _quiet()
    n = ctx.n(2500, 40000)
    with _pool() as pool:
        results = pool.map(_reader_case, [(ctx.seed, i) for i in range(n)], chunksize=50)
    cases = []
    outside = 0
    for kind, tags, res in results:
        ctx.hist("X1 readers", kind)
        line = tags_line(tags)
        for rd in READERS:
            impl = res[rd]
            if rd in ("strict", "rec") and "hdr-" in kind:
                continue   # HeaderSection.load validates the header variables (content level, not modelled)
            if rd == "rec" and "padded-u" in kind and impl.startswith("err"):
                continue   # the unstripped structure tag becomes an entity that the entity validator rejects
            if impl.startswith("err:other:"):
                outside += 1
                ctx.hist("X1 readers", "outside-model:" + rd + ":" + impl[10:])
                continue
            nontrivial = impl.startswith("err") or ("[" in impl and ("]" + "") in impl and any(c not in "[]" for c in impl))
            cases.append((f"rd|{rd}|-|-|{line}", impl, impl != "ok "))
    if outside * 20 > len(cases):
        ctx.note(f"X1: {outside} reader runs raised an exception class outside the model")
    ctx.correspond("X1 readers", "C08", cases, build=DRIVER_DEPS)

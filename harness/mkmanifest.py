#!/venv/bin/python
"""Assemble /verif/MANIFEST.json from manifest.d/Cxx.json fragments (claimed checks) and
manifest.d/not_applicable.json; every property of properties.jsonl is either claimed or listed."""
import json
from pathlib import Path

V = Path(__file__).resolve().parent.parent
props = [json.loads(l)["id"] for l in (V / "properties.jsonl").read_text().splitlines() if l.strip()]
checks = []
# a fragment counts only after it was reviewed and enabled (one id per line in manifest.d/ENABLED)
enabled = set((V / "manifest.d" / "ENABLED").read_text().split())
for pid in props:
    f = V / "manifest.d" / f"{pid}.json"
    if f.exists() and pid in enabled:
        d = json.loads(f.read_text())
        d.setdefault("property_id", pid)
        d.setdefault("quick_cmd", f"./check {pid} --tier quick")
        d.setdefault("thorough_cmd", f"./check {pid} --tier thorough")
        d.setdefault("evidence_file", f"evidence/{pid}.json")
        d.setdefault("replay_cmd_template", f"./check {pid} --replay {{path}}")
        d.setdefault("engine", "lean4-proof+correspondence")
        checks.append(d)
na_file = V / "manifest.d" / "not_applicable.json"
na = json.loads(na_file.read_text()) if na_file.exists() else {}
claimed = {c["property_id"] for c in checks}
not_applicable = [
    {"property_id": pid, "reason": na.get(pid, "not built yet: no model/correspondence for this property exists in /verif at this commit (see DESIGN.md section 7 for the plan)")}
    for pid in props if pid not in claimed
]
manifest = {
    "version": 1,
    "setup_cmd": "./check --setup",
    "hooks": {
        "guard": "EZDXF_VERIF",
        "enable": "no hooks are compiled into /repo: the harness wraps public callables in-process; checks export EZDXF_VERIF=1 for uniformity",
        "baseline_off_cmd": "cd /repo && /venv/bin/python -m pytest -ra -q -p no:cacheprovider --timeout=900 --continue-on-collection-errors",
        "source_commits": [],
        "add_only": True,
    },
    "engines": [
        {
            "name": "lean4-proof+correspondence",
            "path": "lean/ harness/",
            "serves_properties": sorted(claimed),
            "kind_free_text": "Lean 4 theorems about executable models (lean/EzdxfVerif), tied to /repo on every run by translators that regenerate lean/EzdxfVerif/Gen/*.lean from the source and by a line-protocol correspondence check (harness/props/*.py vs lean/Drivers/*.lean); failing-input search on the real code when a proof or the correspondence breaks",
        }
    ],
    "checks": checks,
    "not_applicable": not_applicable,
    "notes": "Entry point ./check Cxx --tier quick|thorough. KNOWN_FINDINGS.json lists genuine defects (reported as KNOWN-FINDING) and fixed ones. DESIGN.md explains models, theorems, trusted base per property.",
}
(V / "MANIFEST.json").write_text(json.dumps(manifest, indent=1) + "\n")
print(f"MANIFEST.json: {len(checks)} checks, {len(not_applicable)} not_applicable")

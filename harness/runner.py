#!/venv/bin/python
"""Entry point of every check:  ./check Cxx --tier quick|thorough [--replay FILE]

Skeleton (DESIGN.md section 2), identical for all properties:
  1 freshness   rebuild C-extensions if a .pyx is newer than its .so, import ezdxf from /repo/src
  2 regenerate  Gen/*.lean from the current source (translators)
  3 prove       lake build Props.Cxx, axiom audit (#print axioms), forbidden-token scan
  4 correspond  model (Lean driver) vs implementation on generated inputs
  5 oracle      the property's own predicate on the real code (failing-input search)
  6 decide      exit 0 | exit 1 + VIOLATION line | exit 2 (infrastructure)
"""
from __future__ import annotations

import argparse
import fcntl
import hashlib
import importlib
import json
import os
import re
import shutil
import subprocess
import sys
import time
import traceback
from pathlib import Path

VERIF = Path(__file__).resolve().parent.parent
REPO = Path(os.environ.get("VERIF_REPO", "/repo"))
LEAN = VERIF / "lean"
SCRATCH = VERIF / ".scratch"
ALLOWED_AXIOMS = {"propext", "Classical.choice", "Quot.sound"}
FORBIDDEN = re.compile(
    r"\bsorry\b|\badmit\b|^\s*axiom\s|native_decide|bv_decide|implemented_by|\bunsafe\s|maxHeartbeats\s+0\b"
)

sys.path.insert(0, str(VERIF / "harness"))


class Infra(Exception):
    """infrastructure failure -> exit 2"""


class Failure:
    """A concrete input on which the property's oracle fails on the real code."""

    def __init__(self, key: str, what: str, replay: dict):
        self.key = key  # stable identity used by KNOWN_FINDINGS.json ("match" = prefix of key)
        self.what = what
        self.replay = replay


class Broken:
    """A proof obligation / translation / correspondence that no longer checks."""

    def __init__(self, kind: str, name: str, detail: str = "", input=None):
        self.kind, self.name, self.detail, self.input = kind, name, detail, input

    def asdict(self):
        return {"kind": self.kind, "name": self.name, "detail": self.detail[-4000:], "input": self.input}


class Ctx:
    def __init__(self, pid: str, tier: str, seed: int):
        self.pid, self.tier, self.seed = pid, tier, seed
        self.t0 = time.time()
        self.broken: list[Broken] = []
        self.failures: list[Failure] = []
        self.notes: list[str] = []
        self.cov: dict = {
            "evaluations": 0,
            "distinct_nontrivial": 0,
            "samples": [],
            "streams": {},
            "disagreements_checked": 0,
        }
        self._distinct: set = set()
        self.sources: dict[str, str] = {}
        self.checker_cmds: list[str] = []
        self.scratch = SCRATCH / f"{pid}-{os.getpid()}"
        self.scratch.mkdir(parents=True, exist_ok=True)

    # ------------------------------------------------------------------ helpers
    @property
    def quick(self) -> bool:
        return self.tier == "quick"

    def n(self, quick: int, thorough: int) -> int:
        return quick if self.quick else thorough

    def rng(self, salt: str = ""):
        import random

        return random.Random(f"{self.seed}/{self.pid}/{salt}")

    def note(self, s: str):
        self.notes.append(s)

    def src(self, rel: str) -> str:
        """read a source file of /repo and record its hash in the evidence"""
        p = REPO / rel
        data = p.read_bytes()
        self.sources[rel] = hashlib.sha256(data).hexdigest()[:16]
        return data.decode("utf8")

    def count(self, stream: str, case, nontrivial: bool = True, sample=None):
        """account one evaluated case; `case` must be hashable/reprable"""
        st = self.cov["streams"].setdefault(stream, {"evaluations": 0, "distinct_nontrivial": 0})
        st["evaluations"] += 1
        self.cov["evaluations"] += 1
        if nontrivial:
            h = hashlib.blake2b(repr((stream, case)).encode("utf8", "surrogatepass"), digest_size=8).digest()
            if h not in self._distinct:
                self._distinct.add(h)
                st["distinct_nontrivial"] += 1
                self.cov["distinct_nontrivial"] += 1
        if sample is not None and len([s for s in self.cov["samples"] if s.get("stream") == stream]) < 3:
            self.cov["samples"].append({"stream": stream, **sample})

    def hist(self, stream: str, key: str, n: int = 1):
        st = self.cov["streams"].setdefault(stream, {"evaluations": 0, "distinct_nontrivial": 0})
        d = st.setdefault("distribution", {})
        d[key] = d.get(key, 0) + n

    def disagree(self, stream: str, inp, impl, model):
        self.cov["disagreements_checked"] += 0
        if sum(1 for b in self.broken if b.kind == "correspondence" and b.name == stream) >= 5:
            return
        self.broken.append(
            Broken("correspondence", stream, f"impl={impl!r} model={model!r}", input=inp)
        )

    def correspond(self, stream: str, driver: str, cases, build=None, on_diff=None):
        """cases: iterable of (request_line, impl_response, nontrivial: bool).
        Runs the Lean driver on all request lines and compares line by line."""
        cases = list(cases)
        outs = self.driver(driver, [c[0] for c in cases], build=build)
        ndis = 0
        for (req, impl, nontriv), model in zip(cases, outs):
            self.count(stream, req, nontriv, sample={"request": req[:300], "impl": impl[:300], "model": model[:300]})
            if impl != model:
                ndis += 1
                self.disagree(stream, req, impl, model)
                if on_diff:
                    on_diff(req, impl, model)
        self.cov["disagreements_checked"] += len(cases)
        return ndis

    def fail(self, key: str, what: str, replay: dict):
        if any(f.key == key for f in self.failures):
            return
        self.failures.append(Failure(key, what, replay))

    # ------------------------------------------------------------------ lean
    def _lake(self, args: list[str], timeout=3600, stdin=None) -> subprocess.CompletedProcess:
        env = dict(os.environ)
        env.pop("LEAN_PATH", None)
        return subprocess.run(
            ["lake"] + args, cwd=LEAN, env=env, capture_output=True, text=True, timeout=timeout, input=stdin
        )

    def write_gen(self, name: str, text: str, srcs: list[str]):
        """write lean/EzdxfVerif/Gen/<name>.lean only if changed (keeps lake incremental)"""
        head = "-- GENERATED on every run by /verif/harness from:\n" + "".join(
            f"--   {s} sha256:{self.sources.get(s, '?')}\n" for s in srcs
        )
        p = LEAN / "EzdxfVerif" / "Gen" / f"{name}.lean"
        p.parent.mkdir(parents=True, exist_ok=True)
        new = head + text
        with lean_lock():
            if not p.exists() or p.read_text() != new:
                p.write_text(new)

    def lean_build(self, module: str) -> tuple[bool, str]:
        cmd = f"cd lean && lake build {module}"
        self.checker_cmds.append(cmd)
        with lean_lock():
            r = self._lake(["build", module])
        return r.returncode == 0, (r.stdout + r.stderr)

    def lean_prove(self, module: str) -> dict:
        """build the Props module, audit axioms of each theorem, scan for forbidden tokens.
        returns {"obligations": [...names], "discharged": [...names]} and records Broken entries."""
        rel = Path("EzdxfVerif") / "Props" / (module.split(".")[-1] + ".lean")
        text = (LEAN / rel).read_text()
        names = re.findall(r"^theorem\s+([A-Za-z0-9_.']+)", text, flags=re.M)
        res = {"obligations": names, "discharged": [], "axioms": {}}
        # forbidden tokens in every hand-written Lean file (comments stripped)
        for f in import_closure(LEAN / rel):
            body = strip_lean_comments(f.read_text())
            for ln in body.splitlines():
                if FORBIDDEN.search(ln):
                    self.broken.append(Broken("forbidden-token", str(f.relative_to(LEAN)), ln.strip()))
        ok, log = self.lean_build(module)
        if not ok:
            failing = failing_theorems(log, LEAN)
            self.broken.append(
                Broken("theorem", ",".join(sorted(failing)) or module, detail=tail_errors(log))
            )
            res["build_log"] = tail_errors(log)
            # theorems of this file that still compile are unknown when the module fails: none discharged
            return res
        audit = LEAN / f"Audit_{self.pid}_{os.getpid()}.lean"
        audit.write_text(
            f"import {module}\n" + "".join(f"#print axioms {module}.{n}\n" for n in names)
        )
        try:
            cmd = f"cd lean && lake env lean {audit.name}   # '#print axioms' for {len(names)} theorems"
            self.checker_cmds.append(cmd)
            r = self._lake(["env", "lean", audit.name])
            out = r.stdout + r.stderr
        finally:
            audit.unlink(missing_ok=True)
        for n in names:
            m = re.search(
                r"'" + re.escape(module + "." + n) + r"' (does not depend on any axioms|depends on axioms: \[([^\]]*)\])", out
            )
            if not m:
                self.broken.append(Broken("theorem", n, "not found by #print axioms: " + out[-500:]))
                continue
            axs = set(a.strip() for a in (m.group(2) or "").replace("\n", " ").split(",") if a.strip())
            res["axioms"][n] = sorted(axs)
            if axs <= ALLOWED_AXIOMS:
                res["discharged"].append(n)
            else:
                self.broken.append(Broken("axiom-audit", n, f"axioms {sorted(axs)}"))
        if self.tier == "thorough" and os.environ.get("VERIF_LEANCHECKER", "1") == "1":
            cmd = f"cd lean && lake env leanchecker {module}"
            self.checker_cmds.append(cmd)
            r = self._lake(["env", "leanchecker", module], timeout=1800)
            if r.returncode != 0:
                self.broken.append(Broken("leanchecker", module, (r.stdout + r.stderr)[-2000:]))
        return res

    def driver(self, name: str, lines: list[str], build: list[str] | None = None) -> list[str]:
        """run lean/Drivers/<name>.lean on request lines, return response lines (1:1)."""
        if not lines:
            return []
        for b in build or []:
            ok, log = self.lean_build(b)
            if not ok:
                raise Infra(f"driver dependency {b} does not build:\n{tail_errors(log)}")
        req = self.scratch / f"{name}.req"
        req.write_text("".join(l + "\n" for l in lines), encoding="utf8")
        with open(req, "rb") as fh:
            env = dict(os.environ)
            r = subprocess.run(
                ["lake", "env", "lean", "--run", f"Drivers/{name}.lean"],
                cwd=LEAN, env=env, stdin=fh, capture_output=True, timeout=3600,
            )
        out = r.stdout.decode("utf8", "replace").splitlines()
        if r.returncode != 0 or len(out) != len(lines):
            raise Infra(
                f"driver {name}: rc={r.returncode} lines in={len(lines)} out={len(out)}\n"
                + r.stderr.decode("utf8", "replace")[-3000:] + "\n".join(out[-5:])
            )
        bad = [i for i, o in enumerate(out) if o.startswith("bad-op")]
        if bad:
            raise Infra(f"driver {name}: bad-op for request {lines[bad[0]]!r}")
        return out


class lean_lock:
    def __enter__(self):
        SCRATCH.mkdir(exist_ok=True)
        self.fh = open(SCRATCH / "lake.lock", "w")
        fcntl.flock(self.fh, fcntl.LOCK_EX)

    def __exit__(self, *a):
        fcntl.flock(self.fh, fcntl.LOCK_UN)
        self.fh.close()


def import_closure(root: Path) -> list[Path]:
    """the Props file and every EzdxfVerif/Drivers module it imports, transitively"""
    seen, todo = {}, [root]
    while todo:
        f = todo.pop()
        if f in seen or not f.exists():
            continue
        seen[f] = True
        for m in re.findall(r"^import\s+((?:EzdxfVerif|Drivers)[A-Za-z0-9_.]*)", f.read_text(), flags=re.M):
            todo.append(LEAN / (m.replace(".", "/") + ".lean"))
    return sorted(seen)


def strip_lean_comments(s: str) -> str:
    # nested block comments + line comments + string literals are handled approximately but safely:
    out, i, depth = [], 0, 0
    while i < len(s):
        if s.startswith("/-", i):
            depth += 1
            i += 2
        elif depth and s.startswith("-/", i):
            depth -= 1
            i += 2
        elif depth:
            if s[i] == "\n":
                out.append("\n")
            i += 1
        elif s.startswith("--", i):
            while i < len(s) and s[i] != "\n":
                i += 1
        else:
            out.append(s[i])
            i += 1
    return "".join(out)


def tail_errors(log: str) -> str:
    lines = [l for l in log.splitlines() if "error" in l.lower()]
    return "\n".join(lines[:40]) + "\n...\n" + log[-1500:]


def failing_theorems(log: str, root: Path) -> set[str]:
    """map `file:line:col: error` positions to the enclosing `theorem` name"""
    names = set()
    for m in re.finditer(r"error: ([^\s:]+\.lean):(\d+):(\d+)", log):
        f, line = m.group(1), int(m.group(2))
        p = (root / f) if not os.path.isabs(f) else Path(f)
        try:
            src = p.read_text().splitlines()
        except OSError:
            continue
        for i in range(min(line, len(src)) - 1, -1, -1):
            mm = re.match(r"^(?:private\s+)?(?:theorem|lemma|def|example|instance)\s+([A-Za-z0-9_.']+)?", src[i])
            if mm:
                names.add(f"{p.stem}:{mm.group(1) or 'example@' + str(i + 1)}")
                break
    return names


def ensure_cext():
    """rebuild the C-extensions in place if a .pyx/.pxd is newer than its .so"""
    acc = REPO / "src" / "ezdxf" / "acc"
    stale = []
    for pyx in acc.glob("*.pyx"):
        sos = list(acc.glob(pyx.stem + ".*.so"))
        newest_src = max([pyx.stat().st_mtime] + [p.stat().st_mtime for p in acc.glob("*.pxd")] + [ (acc / "constants.h").stat().st_mtime if (acc / "constants.h").exists() else 0])
        if not sos or max(s.stat().st_mtime for s in sos) < newest_src:
            stale.append(pyx.name)
    if stale:
        SCRATCH.mkdir(exist_ok=True)
        with open(SCRATCH / "cext.lock", "w") as fh:
            fcntl.flock(fh, fcntl.LOCK_EX)
            r = subprocess.run(
                ["/venv/bin/python", "setup.py", "build_ext", "--inplace", "-q"],
                cwd=REPO, capture_output=True, text=True, timeout=1800,
            )
        shutil.rmtree(REPO / "build", ignore_errors=True)
        if r.returncode != 0:
            raise Infra("C-extension rebuild failed:\n" + (r.stdout + r.stderr)[-3000:])
    return stale


def repo_state() -> dict:
    def git(*a):
        return subprocess.run(["git", "-C", str(REPO)] + list(a), capture_output=True, text=True).stdout.strip()

    diff = git("diff", "HEAD")
    return {"head": git("rev-parse", "HEAD"), "dirty_sha": hashlib.sha256(diff.encode()).hexdigest()[:16] if diff else None}


def load_known(pid: str) -> list[dict]:
    out = []
    files = [VERIF / "KNOWN_FINDINGS.json"] + sorted((VERIF / "known.d").glob("*.json"))
    for p in files:
        if p.exists():
            data = json.loads(p.read_text())
            out += [f for f in data.get("known", []) if f["property"] == pid]
    return out


def main(argv=None) -> int:
    if argv is None and "--setup" in sys.argv[1:]:
        return setup()
    ap = argparse.ArgumentParser()
    ap.add_argument("pid")
    ap.add_argument("--tier", default=os.environ.get("VERIF_TIER", "quick"), choices=["quick", "thorough"])
    ap.add_argument("--replay", default=None)
    ap.add_argument("--no-lean", action="store_true", help="development only: skip the proof step")
    args = ap.parse_args(argv)
    pid = args.pid.upper()
    seed = int(os.environ.get("VERIF_SEED", "0") or 0)
    ctx = Ctx(pid, args.tier, seed)
    rc = 2
    # development aid: tools/try_seed.py holds this lock exclusively while a seeded change is applied to /repo,
    # so that concurrently running checks never see a half-applied or foreign change (no effect on a single run)
    repo_lock = None
    if not os.environ.get("VERIF_REPO_LOCK_HELD"):
        SCRATCH.mkdir(exist_ok=True)
        repo_lock = open(SCRATCH / "repo.lock", "w")
        fcntl.flock(repo_lock, fcntl.LOCK_SH)
    try:
        rc = run(ctx, args)
    except subprocess.TimeoutExpired as e:
        print(f"INFRA: timeout {e}", file=sys.stderr)
        rc = 2
    except Infra as e:
        print(f"INFRA: {e}", file=sys.stderr)
        rc = 2
    finally:
        shutil.rmtree(ctx.scratch, ignore_errors=True)
    return rc


def setup() -> int:
    """MANIFEST.setup_cmd: regenerate every Gen/*.lean from /repo and build the whole Lean library"""
    os.environ.setdefault("EZDXF_VERIF", "1")
    ensure_cext()
    sys.path.insert(0, str(REPO / "src"))
    enabled = set((VERIF / "manifest.d" / "ENABLED").read_text().split())
    mods = sorted(p.stem for p in (VERIF / "harness" / "props").glob("c[0-9][0-9].py") if p.stem.upper() in enabled)
    targets = ["Drivers.Proto"]
    for m in mods:
        mod = importlib.import_module(f"props.{m}")
        ctx = Ctx(m.upper(), "quick", 0)
        try:
            if hasattr(mod, "regenerate"):
                mod.regenerate(ctx)
        finally:
            shutil.rmtree(ctx.scratch, ignore_errors=True)
        targets += getattr(mod, "LEAN_MODULES", [f"EzdxfVerif.Props.{m.upper()}"])
        targets += getattr(mod, "DRIVER_DEPS", [])
    with lean_lock():
        r = subprocess.run(["lake", "build"] + list(dict.fromkeys(targets)), cwd=LEAN, capture_output=True, text=True)
    print(r.stdout[-3000:], r.stderr[-3000:])
    print("setup:", "ok" if r.returncode == 0 else "FAILED", len(targets), "targets")
    return 0 if r.returncode == 0 else 2


def run(ctx: Ctx, args) -> int:
    pid = ctx.pid
    os.environ.setdefault("EZDXF_VERIF", "1")
    stale = ensure_cext()
    sys.path.insert(0, str(REPO / "src"))
    import ezdxf  # noqa: F401  (from /repo/src)

    if not str(Path(ezdxf.__file__).resolve()).startswith(str(REPO.resolve())):
        raise Infra(f"ezdxf imported from {ezdxf.__file__}, expected {REPO}/src")
    mod = importlib.import_module(f"props.{pid.lower()}")

    if args.replay:
        rep = json.loads(Path(args.replay).read_text())
        ok, msg = mod.replay(ctx, rep)
        print(("REPLAY-PASS " if ok else "REPLAY-FAIL ") + msg)
        return 0 if ok else 1

    proof = {"obligations": [], "discharged": [], "axioms": {}}
    # 2 regenerate
    try:
        if hasattr(mod, "regenerate"):
            mod.regenerate(ctx)
    except Infra:
        raise
    except Exception as e:  # translation left the supported subset => broken obligation
        ctx.broken.append(Broken("translation", type(e).__name__, traceback.format_exc()))
    # 3 prove
    if not args.no_lean:
        for module in getattr(mod, "LEAN_MODULES", [f"EzdxfVerif.Props.{pid}"]):
            r = ctx.lean_prove(module)
            proof["obligations"] += r["obligations"]
            proof["discharged"] += r["discharged"]
            proof["axioms"].update(r["axioms"])
    # 4 correspond   5 oracle
    try:
        if hasattr(mod, "correspond"):
            mod.correspond(ctx)
    except Infra:
        raise
    except Exception as e:
        ctx.broken.append(Broken("correspondence", "harness-exception", traceback.format_exc()))
    try:
        if hasattr(mod, "oracle"):
            mod.oracle(ctx)
    except Infra:
        raise
    except Exception as e:
        ctx.broken.append(Broken("oracle", "harness-exception", traceback.format_exc()))

    # 6 decide
    known = load_known(pid)
    listed, unlisted = [], []
    for f in ctx.failures:
        k = next((k for k in known if f.key.startswith(k["match"])), None)
        (listed if k else unlisted).append((f, k))
    by_entry: dict = {}
    for f, k in listed:
        by_entry.setdefault(k["match"], (k, []))[1].append(f)
    for k, fs in by_entry.values():
        print(f"KNOWN-FINDING: property={pid} {k['what']} [{len(fs)} input(s) this run, e.g. {fs[0].key}]")
    rc = 0
    replay_path = None
    if unlisted or ctx.broken:
        rc = 1
        (VERIF / "replays").mkdir(exist_ok=True)
        body = {
            "property": pid,
            "seed": ctx.seed,
            "tier": ctx.tier,
            "repo": repo_state(),
            "failing_inputs": [{"key": f.key, "what": f.what, "replay": f.replay} for f, _ in unlisted],
            "broken": [b.asdict() for b in ctx.broken],
        }
        h = hashlib.sha256(json.dumps(body, sort_keys=True, default=str).encode()).hexdigest()[:12]
        replay_path = VERIF / "replays" / f"{pid}-{h}.json"
        replay_path.write_text(json.dumps(body, indent=1, default=str))
        rel = replay_path.relative_to(VERIF)
        if unlisted:
            for f, _ in unlisted[:10]:
                print(f"  failing input: {f.key}: {f.what}")
            print(f"VIOLATION property={pid} replay={rel}")
        else:
            for b in ctx.broken[:10]:
                print(f"  broken {b.kind}: {b.name}: {b.detail[:300]}")
            print(f"VIOLATION property={pid} replay={rel} no-failing-input-found")

    cov = ctx.cov
    cov["obligations"] = len(proof["obligations"])
    cov["discharged"] = len(proof["discharged"])
    cov["theorems"] = proof["obligations"]
    cov["axioms"] = proof["axioms"]
    cov["checker_cmd"] = " ; ".join(dict.fromkeys(ctx.checker_cmds)) or "(proof step skipped)"
    cov["trusted_base"] = getattr(mod, "TRUSTED_BASE", []) + [
        "Lean 4.33.0 kernel; axioms allowed: propext, Classical.choice, Quot.sound (audited by #print axioms this run)",
        "translators / correspondence harness under /verif/harness (Python)",
    ]
    cov["rule"] = getattr(mod, "RULE", "")
    cov["open_statements"] = getattr(mod, "OPEN", [])
    cov["regenerated_from"] = ctx.sources
    cov["repo"] = repo_state()
    cov["rebuilt_cext"] = stale
    cov["known_findings_reproduced"] = [f.key for f, _ in listed]
    cov["broken"] = [b.asdict() for b in ctx.broken]
    cov["notes"] = ctx.notes
    if not cov["samples"]:
        cov["samples"] = [{"theorem": n} for n in proof["obligations"][:3]]
    ev = {
        "property_id": pid,
        "tier": ctx.tier,
        "seed": ctx.seed,
        "level": "proof",
        "coverage": cov,
        "assumptions": getattr(mod, "ASSUMPTIONS", []),
        "wall_s": round(time.time() - ctx.t0, 2),
        "violations": len(unlisted) + (1 if (ctx.broken and not unlisted) else 0),
    }
    (VERIF / "evidence").mkdir(exist_ok=True)
    (VERIF / "evidence" / f"{pid}.json").write_text(json.dumps(ev, indent=1, default=str, ensure_ascii=True))
    print(
        f"{pid} {ctx.tier} seed={ctx.seed}: theorems {cov['discharged']}/{cov['obligations']} "
        f"evaluations={cov['evaluations']} distinct_nontrivial={cov['distinct_nontrivial']} "
        f"known={len(listed)} unlisted={len(unlisted)} broken={len(ctx.broken)} wall={ev['wall_s']}s"
    )
    return rc


if __name__ == "__main__":
    sys.exit(main())

"""Harness-owned DXF reader and structural validator (shares no code with ezdxf).

parse_ascii / parse_binary  -> list[(code:int, value:str|bytes|float|int)]  (values of ASCII files stay strings)
split_file                  -> {"sections": [(name, [records])], ...}   record = list of tags starting with code 0
check_file                  -> list of problem strings (empty = structurally valid and referentially closed)

Used by C04 (oracle: every written file is well-formed and closed), C06, C01/C02/C08 helpers.
"""
from __future__ import annotations

import struct

POINT_X = {10, 11, 12, 13, 14, 15, 16, 17, 18, 110, 111, 112, 210, 211, 212, 213, 1010, 1011, 1012, 1013}


def parse_ascii(text: str):
    lines = text.split("\n")
    if lines and lines[-1] == "":
        lines.pop()
    tags = []
    i = 0
    n = len(lines)
    while i + 1 < n:
        code = int(lines[i].strip())
        val = lines[i + 1].rstrip("\r")
        tags.append((code, val))
        i += 2
        if code == 0 and val.strip() == "EOF":
            break
    return tags


def _cls(code: int) -> str:
    if 310 <= code < 320 or code == 1004:
        return "bin"
    if 290 <= code < 300:
        return "b"
    if 60 <= code < 80 or 170 <= code < 180 or 270 <= code < 290 or 370 <= code < 390 or 400 <= code < 410 or 1060 <= code < 1071:
        return "h"
    if 90 <= code < 100 or 420 <= code < 430 or 440 <= code < 460 or code == 1071:
        return "i"
    if 160 <= code < 170:
        return "q"
    if 10 <= code < 60 or 110 <= code < 150 or 210 <= code < 240 or 460 <= code < 470 or 1010 <= code < 1060:
        return "d"
    return "s"


def parse_binary(data: bytes):
    assert data[:22] == b"AutoCAD Binary DXF\r\n\x1a\x00", "no binary DXF signature"
    # version sniffing like every reader must do
    r12 = True
    enc = "cp1252"
    p = data.find(b"$ACADVER", 22, 1024)
    if p >= 0:
        q = p + 9
        while data[q] != 65:  # 'A'
            q += 1
        ver = data[q : q + 6].decode()
        r12 = ver <= "AC1009"
        if ver >= "AC1021":
            enc = "utf8"
    i = 22
    tags = []
    n = len(data)
    while i < n:
        if r12:
            code = data[i]
            i += 1
            if code == 255:
                code = data[i] | (data[i + 1] << 8)
                i += 2
        else:
            code = data[i] | (data[i + 1] << 8)
            i += 2
        c = _cls(code)
        if c == "bin":
            ln = data[i]
            tags.append((code, data[i + 1 : i + 1 + ln].hex().upper()))
            i += 1 + ln
        elif c == "b":
            tags.append((code, str(data[i])))
            i += 1
        elif c == "h":
            tags.append((code, str(struct.unpack_from("<h", data, i)[0])))
            i += 2
        elif c == "i":
            tags.append((code, str(struct.unpack_from("<i", data, i)[0])))
            i += 4
        elif c == "q":
            tags.append((code, str(struct.unpack_from("<q", data, i)[0])))
            i += 8
        elif c == "d":
            tags.append((code, repr(struct.unpack_from("<d", data, i)[0])))
            i += 8
        else:
            j = data.index(b"\x00", i)
            tags.append((code, data[i:j].decode(enc, "surrogateescape")))
            i = j + 1
        if tags[-1] == (0, "EOF"):
            break
    return tags


def records(tags):
    """split at code 0"""
    out = []
    for t in tags:
        if t[0] == 0:
            out.append([t])
        elif out:
            out[-1].append(t)
        else:
            out.append([(0, "<PREFACE>"), t])
    return out


def split_file(tags):
    """-> (sections: list[(name, records)], problems)"""
    problems = []
    recs = records(tags)
    sections = []
    i = 0
    if not recs or recs[-1][0] != (0, "EOF"):
        problems.append("file does not end with (0, EOF)")
    while i < len(recs):
        r = recs[i]
        typ = r[0][1]
        if typ == "EOF":
            if i != len(recs) - 1:
                problems.append("data after EOF")
            break
        if typ != "SECTION":
            problems.append(f"record {typ} outside of a section")
            i += 1
            continue
        if len(r) < 2 or r[1][0] != 2:
            problems.append("SECTION without name")
            name = "?"
        else:
            name = r[1][1]
        body = []
        if len(r) > 2:
            body.append([(0, "<SECTION-TAGS>")] + r[2:])   # e.g. the HEADER variables
        i += 1
        closed = False
        while i < len(recs):
            t = recs[i][0][1]
            if t == "ENDSEC":
                closed = True
                i += 1
                break
            if t in ("SECTION", "EOF"):
                break
            body.append(recs[i])
            i += 1
        if not closed:
            problems.append(f"section {name} not closed by ENDSEC")
        sections.append((name, body))
    return sections, problems


def rec_type(r):
    return r[0][1]


def rec_handle(r):
    code = 105 if rec_type(r) == "DIMSTYLE" else 5
    for c, v in r[1:]:
        if c == code:
            return v.upper().lstrip("0") or "0"
        if c == 100:
            break
    return None


def norm(h: str) -> str:
    return h.upper().lstrip("0") or "0"


def base_refs(r):
    """(owner, reactors, xdict) from the base class (before the first subclass marker)"""
    owner, reactors, xdict = None, [], None
    grp = None
    for c, v in r[1:]:
        if c == 100:
            break
        if c == 102:
            grp = v if v.startswith("{") else None
            continue
        if grp == "{ACAD_REACTORS" and c == 330:
            reactors.append(norm(v))
        elif grp == "{ACAD_XDICTIONARY" and c == 360:
            xdict = norm(v)
        elif grp is None and c == 330 and owner is None:
            owner = norm(v)
    return owner, reactors, xdict


ORDER_R2000 = ["HEADER", "CLASSES", "TABLES", "BLOCKS", "ENTITIES", "OBJECTS"]
ORDER_R12 = ["HEADER", "TABLES", "BLOCKS", "ENTITIES"]
TABLES_R2000 = ["VPORT", "LTYPE", "LAYER", "STYLE", "VIEW", "UCS", "APPID", "DIMSTYLE", "BLOCK_RECORD"]
TABLES_R12 = ["VPORT", "LTYPE", "LAYER", "STYLE", "VIEW", "UCS", "APPID", "DIMSTYLE"]


def header_vars(body):
    """HEADER section body is one pseudo record list: collect (9 name) -> following tags"""
    out = {}
    cur = None
    for r in body:
        for c, v in r:
            if c == 9:
                cur = v
                out[cur] = []
            elif cur is not None:
                out[cur].append((c, v))
    return out


def check_file(tags, version: str, min_versions: dict | None = None, required_classes: dict | None = None,
               header_min: dict | None = None):
    """version: 'AC1009', 'AC1015', ... ; returns list of problems"""
    sections, problems = split_file(tags)
    r12 = version <= "AC1009"
    names = [n for n, _ in sections]
    want = ORDER_R12 if r12 else ORDER_R2000
    core = [n for n in names if n in want]
    if core != want:
        problems.append(f"sections {names} are not {want} in order")
    if len(set(names)) != len(names):
        problems.append(f"duplicate section in {names}")
    sec = dict(sections)
    # ---- header
    hv = {}
    if "HEADER" in sec:
        pre = [t for r in sec["HEADER"] for t in r if t[0] != 0]
        cur = None
        for c, v in pre:
            if c == 9:
                cur = v
                hv[cur] = []
            elif cur:
                hv[cur].append((c, v))
    acadver = hv.get("$ACADVER", [(1, "?")])[0][1]
    if acadver != version:
        problems.append(f"$ACADVER is {acadver}, expected {version}")
    handseed = None
    if "$HANDSEED" in hv:
        handseed = int(hv["$HANDSEED"][0][1], 16)
    elif not r12:
        problems.append("$HANDSEED missing")
    if header_min:
        for name in hv:
            mv = header_min.get(name)
            if mv is not None and mv > version:
                problems.append(f"header variable {name} needs {mv} but file is {version}")
    # ---- tables
    handles = {}
    table_entries = {}

    def reg(r, where):
        h = rec_handle(r)
        if h is None:
            if not r12 and rec_type(r) not in ("ENDTAB", "CLASS", "TABLE"):
                problems.append(f"{where}: {rec_type(r)} without handle")
            return None
        if h in handles:
            problems.append(f"duplicate handle {h}: {handles[h][0]} and {rec_type(r)} in {where}")
        handles[h] = (rec_type(r), r, where)
        return h

    if "TABLES" in sec:
        body = sec["TABLES"]
        tnames = []
        i = 0
        while i < len(body):
            r = body[i]
            if rec_type(r) != "TABLE":
                problems.append(f"TABLES: unexpected {rec_type(r)} outside TABLE")
                i += 1
                continue
            tname = r[1][1] if len(r) > 1 and r[1][0] == 2 else "?"
            tnames.append(tname)
            reg(r, "TABLES")
            i += 1
            entries = []
            closed = False
            while i < len(body):
                t = rec_type(body[i])
                if t == "ENDTAB":
                    closed = True
                    i += 1
                    break
                if t == "TABLE":
                    break
                if t != tname:
                    problems.append(f"table {tname} holds a {t} record")
                entries.append(body[i])
                reg(body[i], f"table {tname}")
                i += 1
            if not closed:
                problems.append(f"table {tname} not closed by ENDTAB")
            table_entries[tname] = entries
        wt = TABLES_R12 if r12 else TABLES_R2000
        if [t for t in tnames if t in wt] != wt:
            problems.append(f"tables {tnames}: required {wt} in this order")

    def entry_names(t):
        return {next((v for c, v in r if c == 2), "").lower() for r in table_entries.get(t, [])}

    req = {"LAYER": ["0"], "LTYPE": ["bylayer", "byblock", "continuous"], "STYLE": ["standard"], "APPID": ["acad"],
           "DIMSTYLE": ["standard"]}
    if not r12:
        req["BLOCK_RECORD"] = ["*model_space", "*paper_space"]
    for t, ns in req.items():
        have = entry_names(t)
        for n in ns:
            if n not in have:
                problems.append(f"required {t} entry '{n}' missing")
    # ---- classes
    class_names = set()
    for r in sec.get("CLASSES", []):
        if rec_type(r) == "CLASS":
            class_names.add(next((v for c, v in r if c == 1), ""))
    # ---- blocks
    block_names = {}
    body = sec.get("BLOCKS", [])
    i = 0
    block_entities = []
    while i < len(body):
        r = body[i]
        if rec_type(r) != "BLOCK":
            problems.append(f"BLOCKS: {rec_type(r)} outside BLOCK/ENDBLK")
            i += 1
            continue
        bname = next((v for c, v in r if c == 2), "?")
        if bname.lower() in block_names:
            problems.append(f"block {bname} defined twice")
        block_names[bname.lower()] = r
        reg(r, "BLOCKS")
        i += 1
        closed = False
        while i < len(body):
            t = rec_type(body[i])
            if t == "ENDBLK":
                reg(body[i], "BLOCKS")
                closed = True
                i += 1
                break
            if t == "BLOCK":
                break
            block_entities.append((bname, body[i]))
            reg(body[i], f"block {bname}")
            i += 1
        if not closed:
            problems.append(f"block {bname} not closed by ENDBLK")
    if not r12:
        for n in entry_names("BLOCK_RECORD"):
            if n not in block_names:
                problems.append(f"BLOCK_RECORD {n} has no BLOCK definition")
        for n in block_names:
            if n not in entry_names("BLOCK_RECORD"):
                problems.append(f"BLOCK {n} has no BLOCK_RECORD")
    # ---- entities / objects
    ents = [("ENTITIES", r) for r in sec.get("ENTITIES", [])]
    for _, r in ents:
        reg(r, "ENTITIES")
    objs = sec.get("OBJECTS", [])
    for r in objs:
        reg(r, "OBJECTS")
    if not r12 and objs:
        if rec_type(objs[0]) != "DICTIONARY":
            problems.append("OBJECTS does not start with the root DICTIONARY")
    # ---- handle bounds
    if handseed is not None:
        for h in handles:
            try:
                if int(h, 16) >= handseed:
                    problems.append(f"handle {h} >= $HANDSEED {handseed:X}")
            except ValueError:
                problems.append(f"invalid handle {h!r}")
    # ---- references
    all_graphic = [(w, r) for w, r in ents] + [(f"block {b}", r) for b, r in block_entities]
    if not r12:
        for h, (typ, r, where) in handles.items():
            owner, reactors, xdict = base_refs(r)
            if typ in ("TABLE",):
                continue
            if owner is not None and owner != "0" and owner not in handles:
                problems.append(f"{typ} #{h} in {where}: owner {owner} not in file")
            for x in reactors:
                if x not in handles:
                    problems.append(f"{typ} #{h}: reactor {x} not in file")
            if xdict is not None and xdict not in handles:
                problems.append(f"{typ} #{h}: extension dictionary {xdict} not in file")
        # graphic entities: owner is the block record of their layout
        brs = {rec_handle(r): next((v for c, v in r if c == 2), "") for r in table_entries.get("BLOCK_RECORD", [])}
        for where, r in all_graphic:
            typ = rec_type(r)
            if typ in ("VERTEX", "ATTRIB", "SEQEND"):
                continue
            owner, _, _ = base_refs(r)
            if owner is None:
                problems.append(f"{typ} #{rec_handle(r)} in {where} has no owner tag")
            elif owner not in brs:
                problems.append(f"{typ} #{rec_handle(r)} in {where}: owner {owner} is not a BLOCK_RECORD")
            elif where.startswith("block "):
                if brs[owner].lower() != where[6:].lower():
                    problems.append(f"{typ} #{rec_handle(r)} written in {where} but owned by {brs[owner]}")
            else:
                if brs[owner].lower() not in ("*model_space", "*paper_space"):
                    problems.append(f"{typ} #{rec_handle(r)} written in ENTITIES but owned by {brs[owner]}")
        # dictionaries, layouts, groups
        for r in objs:
            typ = rec_type(r)
            h = rec_handle(r)
            if typ in ("DICTIONARY", "ACDBDICTIONARYWDFLT"):
                for c, v in r:
                    if c in (350, 360) and norm(v) not in handles:
                        problems.append(f"DICTIONARY #{h}: entry {v} not in file")
                    if c == 340 and typ == "ACDBDICTIONARYWDFLT" and norm(v) not in handles:
                        problems.append(f"DICTIONARY #{h}: default {v} not in file")
            elif typ == "LAYOUT":
                sub = False
                br = None
                for c, v in r:
                    if c == 100:
                        sub = v == "AcDbLayout"
                    elif sub and c == 330:
                        br = norm(v)
                if br is None or br not in brs:
                    problems.append(f"LAYOUT #{h}: block record {br} missing")
                else:
                    brrec = handles[br][1]
                    back = next((norm(v) for c, v in brrec if c == 340), None)
                    if back != h:
                        problems.append(f"LAYOUT #{h} <-> BLOCK_RECORD #{br}: back link is {back}")
            elif typ == "GROUP":
                for c, v in r:
                    if c == 340 and norm(v) not in handles:
                        problems.append(f"GROUP #{h}: member {v} not in file")
        for r in table_entries.get("BLOCK_RECORD", []):
            lay = next((norm(v) for c, v in r if c == 340), None)
            if lay not in (None, "0") and (lay not in handles or handles[lay][0] != "LAYOUT"):
                problems.append(f"BLOCK_RECORD #{rec_handle(r)}: layout {lay} not in file")
    # ---- block references and linked entities
    for seq_where, seq in [("ENTITIES", [r for _, r in ents])] + [(f"block {b}", [r for bb, r in block_entities if bb == b]) for b in dict.fromkeys(b for b, _ in block_entities)]:
        i = 0
        while i < len(seq):
            r = seq[i]
            typ = rec_type(r)
            if typ == "INSERT":
                name = next((v for c, v in r if c == 2), "")
                if name.lower() not in block_names:
                    problems.append(f"INSERT #{rec_handle(r)} in {seq_where}: block '{name}' not defined")
            follows = next((v for c, v in r if c == 66), "0").strip() not in ("0", "")
            if typ == "POLYLINE" or (typ == "INSERT" and follows):
                sub = "VERTEX" if typ == "POLYLINE" else "ATTRIB"
                j = i + 1
                while j < len(seq) and rec_type(seq[j]) == sub:
                    j += 1
                if j >= len(seq) or rec_type(seq[j]) != "SEQEND":
                    problems.append(f"{typ} #{rec_handle(r)} in {seq_where}: missing SEQEND")
                else:
                    if not r12:
                        # sub-entities are owned by the parent or (as ezdxf and several CAD applications
                        # write it) by the owner of the parent
                        po, _, _ = base_refs(r)
                        o, _, _ = base_refs(seq[j])
                        if o not in (rec_handle(r), po):
                            problems.append(f"SEQEND of {typ} #{rec_handle(r)}: owner {o}")
                        for k in range(i + 1, j):
                            o, _, _ = base_refs(seq[k])
                            if o not in (rec_handle(r), po):
                                problems.append(f"{sub} #{rec_handle(seq[k])} of {typ} #{rec_handle(r)}: owner {o}")
                i = j + 1
                continue
            if typ in ("VERTEX", "ATTRIB", "SEQEND"):
                problems.append(f"stray {typ} #{rec_handle(r)} in {seq_where}")
            i += 1
    # ---- version gates and class entries
    types_in_file = {rec_type(r) for _, r in all_graphic} | {rec_type(r) for r in objs}
    if min_versions:
        for t in types_in_file:
            mv = min_versions.get(t)
            if mv and mv > version:
                problems.append(f"entity type {t} needs {mv} but file is {version}")
    if required_classes and not r12:
        for t in types_in_file:
            if t in required_classes and t not in class_names:
                problems.append(f"CLASS entry for {t} missing")
    return problems

#!/venv/bin/python
"""print per-property status from evidence/*.json (numbers measured by the last run in /verif)"""
import json, glob
print('| id | theorems (discharged/obligations) | evaluations | distinct non-trivial | streams | known findings reproduced | wall s | tier |\n|---|---|---|---|---|---|---|---|')
tot = 0
for f in sorted(glob.glob('/verif/evidence/C*.json')):
    e = json.load(open(f)); c = e['coverage']
    tot += c.get('discharged', 0)
    print(f"| {e['property_id']} | {c.get('discharged')}/{c.get('obligations')} | {c.get('evaluations')} | {c.get('distinct_nontrivial')} | {len(c.get('streams', {}))} | {len(c.get('known_findings_reproduced', []))} | {e.get('wall_s')} | {e.get('tier')} |")
print(f'\ntotal counted theorems: {tot}')

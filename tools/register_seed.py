#!/venv/bin/python
"""tools/register_seed.py <src dir> <seed id> <Cxx> "<needs>"  : run try_seed and store the seeded change under seeded/<id>/"""
import json, os, shutil, subprocess, sys
REPO = os.environ.get("VERIF_REPO", "/repo")
from pathlib import Path
V = Path(__file__).resolve().parent.parent
src, sid, pid, needs = Path(sys.argv[1]), sys.argv[2], sys.argv[3], sys.argv[4]
out = V / "seeded" / sid
out.mkdir(parents=True, exist_ok=True)
for f in ("patch.diff", "demo.py", "notes.txt"):
    if (src / f).exists():
        shutil.copy(src / f, out / f)
# demo on the pristine tree must pass
d0 = subprocess.run(["/venv/bin/python", str(out / "demo.py")], capture_output=True, text=True, cwd=REPO, env=dict(os.environ, PYTHONPATH=REPO + "/src"), timeout=900).returncode
r = subprocess.run([str(V / "tools" / "try_seed.py"), str(out), pid], capture_output=True, text=True, timeout=7200)
res = json.loads(r.stdout[r.stdout.index("{"):]) if "{" in r.stdout else {"error": r.stdout[-500:] + r.stderr[-500:]}
meta = {"property": pid, "needs_to_manifest": needs, "origin": "fresh sub-agent given only the property text and a scratch worktree",
        "confirmed": {"demo_exit_pristine": d0, "demo_exit_with_change": res.get("demo_exit_with_change"),
                      "existing_tests": "sub-agent ran the relevant directories and the full suite with the change (see notes.txt); re-run of the relevant directories by the verifier"},
        "check": {"cmd": f"./check {pid} --tier quick", "exit": res.get("check_exit"), "wall_s": res.get("wall_s"), "report": res.get("report")},
        "caught": res.get("check_exit") == 1}
(out / "meta.json").write_text(json.dumps(meta, indent=1))
print(sid, "caught" if meta["caught"] else "MISSED", d0, res.get("demo_exit_with_change"), res.get("report", [])[:1])

#!/venv/bin/python
"""print a markdown table of all seeded changes from seeded/*/meta.json (+ first line of notes.txt)"""
import json, glob, os, re
rows = []
for d in sorted(glob.glob('/verif/seeded/*/')):
    sid = os.path.basename(d.rstrip('/'))
    mp = d + 'meta.json'
    if not os.path.exists(mp):
        rows.append((sid, '?', '?', '', 'no meta.json')); continue
    m = json.load(open(mp))
    files = sorted(set(re.findall(r'^diff --git a/(\S+)', open(d + 'patch.diff').read(), re.M))) if os.path.exists(d + 'patch.diff') else []
    first = m.get('first_run', {})
    if isinstance(first, str):
        fr = 'missed' if 'miss' in first.lower() else 'caught'
    elif isinstance(first, dict) and first:
        fr = 'missed' if (first.get('exit') == 0 or first.get('caught') is False) else 'caught'
    else:
        fr = 'caught' if m.get('caught') else 'missed'
    now = 'caught' if m.get('caught') else 'MISSED'
    if m.get('status') == 'neutralised':
        now = 'neutralised by ' + str(m.get('neutralised_by', 'a later fix')) + ' (the change is no regression any more: demo exits 0)'
    rep = (m.get('check', {}).get('report') or [''])
    how = ''
    for l in rep:
        l = l.strip()
        if l.startswith('failing input:'): how = 'failing input ' + l[14:].strip().split(':')[0][:70]; break
        if l.startswith('broken'): how = l[:80]
    needs = re.sub(r'\s+', ' ', str(m.get('needs_to_manifest', '')))[:150]
    rows.append((sid, ', '.join(os.path.basename(f) for f in files)[:50], needs, fr, now + (': ' + how if how else '')))
print('| seed | file(s) | needs | first run | now |\n|---|---|---|---|---|')
for r in rows:
    print('| ' + ' | '.join(x.replace('|', '/') for x in r) + ' |')
c = sum(1 for r in rows if r[4].startswith('caught')); n = sum(1 for r in rows if r[4].startswith('neutral')); print(f'\n{c} of {len(rows)} caught, {n} neutralised, {len(rows) - c - n} missed')

#!/venv/bin/python
"""after a history rewrite in /repo: make every 'fixed: property=Cxx <hash> <subject...>' line (known.d/*.json, KNOWN_FINDINGS.json) and
every other mention of a stale short hash in known.d/, reports/, manifest.d/, seeded/*/meta.json point to the commit with that subject."""
import json, glob, re, subprocess, sys
log = subprocess.run(["git", "-C", "/repo", "log", "--format=%h %s", "-600"], capture_output=True, text=True).stdout.splitlines()
by_subj = {}
for l in log:
    h, s = l.split(" ", 1)
    by_subj.setdefault(s, h[:9])
hashes = set(by_subj.values())
remap, gone = {}, []
def fix_line(l):
    m = re.match(r"(fixed: property=\S+ )([0-9a-f]{7,10})( )(.*)", l, re.S)
    if not m:
        # no hash in the line ("fixed: property=Cxx fix: <subject> ..."): insert the hash of the commit with that subject
        m2 = re.match(r"(fixed: property=\S+ )(fix: .*)", l, re.S)
        if m2:
            rest = m2.group(2)
            cand = [h for s_, h in by_subj.items() if rest.startswith(s_)]
            if len(cand) == 1:
                return m2.group(1) + cand[0] + " " + rest
            gone.append(("-", rest[:90]))
        return l
    old, rest = m.group(2), m.group(4)
    if old[:9] in hashes: return l
    cand = [h for s, h in by_subj.items() if rest.startswith(s) or rest.startswith(s[5:].strip())]
    if not cand:
        cand = [h for s, h in by_subj.items() if s[5:45].strip() and s[5:45].strip() in rest]
    if len(cand) == 1:
        remap[old[:9]] = cand[0]; return m.group(1) + cand[0] + m.group(3) + rest
    gone.append((old, rest[:90])); return l
for f in sorted(glob.glob('/verif/known.d/*.json')) + ['/verif/KNOWN_FINDINGS.json']:
    d = json.load(open(f))
    if isinstance(d, dict) and 'fixed' in d:
        d['fixed'] = [fix_line(l) for l in d['fixed']]
        json.dump(d, open(f, 'w'), indent=1, ensure_ascii=False)
# other textual mentions
for f in glob.glob('/verif/known.d/*.json') + glob.glob('/verif/reports/*.md') + glob.glob('/verif/manifest.d/*.json') + glob.glob('/verif/seeded/*/meta.json') + ['/verif/KNOWN_FINDINGS.json'] + glob.glob('/verif/harness/props/*.py') + glob.glob('/verif/lean/EzdxfVerif/**/*.lean', recursive=True):
    s = open(f).read(); t = s
    for o, n in remap.items():
        t = t.replace(o, n)
    if t != s: open(f, 'w').write(t)
print("remapped:", remap)
print("no commit found for:", gone)

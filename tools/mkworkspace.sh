#!/bin/bash
# tools/mkworkspace.sh <name>  : private, fully isolated copy for a builder: /tmp/vb-<name>/verif (git worktree of /verif HEAD + built .lake + Gen)
# and /tmp/vb-<name>/repo (git worktree of /repo HEAD + compiled C-extensions).  Use with  export VERIF_REPO=/tmp/vb-<name>/repo
# tools/mkworkspace.sh --remove <name>  removes both.
set -e
if [ "$1" = "--remove" ]; then
  n=$2
  git -C /verif worktree remove --force /tmp/vb-$n/verif 2>/dev/null || true
  git -C /repo worktree remove --force /tmp/vb-$n/repo 2>/dev/null || true
  rm -rf /tmp/vb-$n; git -C /verif worktree prune; git -C /repo worktree prune
  exit 0
fi
n=$1
mkdir -p /tmp/vb-$n
git -C /verif worktree add -q --detach /tmp/vb-$n/verif HEAD
git -C /repo worktree add -q --detach /tmp/vb-$n/repo HEAD
cp -a /verif/lean/.lake /tmp/vb-$n/verif/lean/.lake
mkdir -p /tmp/vb-$n/verif/lean/EzdxfVerif/Gen /tmp/vb-$n/verif/.scratch
cp -a /verif/lean/EzdxfVerif/Gen/*.lean /tmp/vb-$n/verif/lean/EzdxfVerif/Gen/ 2>/dev/null || true
cp -a /repo/src/ezdxf/acc/*.so /tmp/vb-$n/repo/src/ezdxf/acc/
cp -a /repo/src/ezdxf/acc/*.c /repo/src/ezdxf/acc/*.cpp /tmp/vb-$n/repo/src/ezdxf/acc/ 2>/dev/null || true
touch /tmp/vb-$n/repo/src/ezdxf/acc/*.so
echo "workspace /tmp/vb-$n ready: export VERIF_REPO=/tmp/vb-$n/repo ; cd /tmp/vb-$n/verif"

#!/venv/bin/python
"""tools/integrate.py <WS> : bring the work of the builder workspace /tmp/vb-<WS> into /verif and /repo.

1. every commit the builder made on the detached HEAD of /tmp/vb-<WS>/repo (all must start with "fix:") is cherry-picked
   into /repo (fast-forward when possible, so hashes survive); old -> new short hashes are rewritten in the patch of step 2;
2. the working-tree changes of /tmp/vb-<WS>/verif (tracked + untracked, without evidence/ and replays/) are applied to /verif
   with a 3-way merge.
Nothing is committed in /verif: run the checks, mkmanifest, then commit.  Prints what it did."""
import subprocess, sys, re, os
from pathlib import Path

ws = sys.argv[1]
EXCLUDE = [a.split("=",1)[1] for a in sys.argv[2:] if a.startswith("--exclude=")]
W = Path(f"/tmp/vb-{ws}")
def sh(*a, cwd=None, check=True, inp=None):
    r = subprocess.run(list(a), cwd=cwd, capture_output=True, text=True, input=inp)
    if check and r.returncode:
        print("FAILED:", " ".join(a), "\n", r.stdout[-2000:], r.stderr[-2000:]); sys.exit(1)
    return r

# ---- 1. repo fixes
assert sh("git", "-C", "/repo", "status", "--porcelain", "--untracked-files=no").stdout.strip() == "", "/repo dirty"
assert sh("git", "-C", str(W / "repo"), "status", "--porcelain", "--untracked-files=no").stdout.strip() == "", "builder repo worktree dirty"
head = sh("git", "-C", str(W / "repo"), "rev-parse", "HEAD").stdout.strip()
base = sh("git", "-C", "/repo", "merge-base", "main", head).stdout.strip()
commits = sh("git", "-C", "/repo", "rev-list", "--reverse", f"{base}..{head}").stdout.split()
mapping = {}
for c in commits:
    subj = sh("git", "-C", "/repo", "log", "-1", "--format=%s", c).stdout.strip()
    assert subj.startswith("fix:"), f"commit {c[:9]} is not a fix: commit: {subj}"
    main = sh("git", "-C", "/repo", "rev-parse", "main").stdout.strip()
    # already in main (cherry-picked there from another builder's worktree)?  same subject => same fix
    have = {l.split(" ", 1)[1]: l.split(" ", 1)[0] for l in sh("git", "-C", "/repo", "log", "main", "-400", "--format=%H %s").stdout.splitlines() if " " in l}
    if subj in have:
        mapping[c[:9]] = have[subj][:9]
        print(f"repo: {c[:9]} already in main as {have[subj][:9]}  {subj}")
        continue
    parent = sh("git", "-C", "/repo", "rev-parse", c + "^").stdout.strip()
    if parent == main:
        sh("git", "-C", "/repo", "merge", "--ff-only", c)
        new = c
    else:
        r = sh("git", "-C", "/repo", "cherry-pick", c, check=False)
        if r.returncode:
            print("CHERRY-PICK CONFLICT for", c[:9], subj, "\n", r.stdout, r.stderr)
            print("resolve in /repo (git cherry-pick --continue) and re-run")
            sys.exit(1)
        new = sh("git", "-C", "/repo", "rev-parse", "HEAD").stdout.strip()
    mapping[c[:9]] = new[:9]
    print(f"repo: {c[:9]} -> {new[:9]}  {subj}")

# ---- 2. verif patch
V = W / "verif"
sh("git", "-C", str(V), "add", "-A")
patch = sh("git", "-C", str(V), "diff", "--cached", "--binary", "HEAD", "--", ".", ":!evidence", ":!replays", ":!.scratch", ":!MANIFEST.json", *[":!" + e for e in EXCLUDE]).stdout
sh("git", "-C", str(V), "reset", "-q")
for old, new in mapping.items():
    if old != new:
        patch = patch.replace(old, new)
Path("/verif/.scratch").mkdir(exist_ok=True)
pf = Path(f"/verif/.scratch/integrate-{ws}.diff"); pf.write_text(patch)
if patch.strip():
    r = sh("git", "-C", "/verif", "apply", "--3way", "--whitespace=nowarn", str(pf), check=False)
    print(r.stdout[-3000:], r.stderr[-3000:])
    if r.returncode:
        # conflicts in seeded/*/meta.json (updated by both sides): the builder's copy is the newer observation
        bad = []
        for l in sh("git", "-C", "/verif", "status", "--porcelain").stdout.splitlines():
            if l[:2] in ("UU", "AA", "DU", "UD"):
                f = l[3:]
                if f.startswith("seeded/") and f.endswith("meta.json"):
                    Path("/verif", f).write_bytes((V / f).read_bytes())
                else:
                    bad.append(f)
        if bad:
            print("VERIF PATCH DID NOT APPLY CLEANLY:", bad, "see", pf); sys.exit(1)
    sh("git", "-C", "/verif", "reset", "-q")
files = sorted(set(re.findall(r"^diff --git a/(\S+)", patch, re.M)))
print(f"verif: {len(files)} files:", " ".join(files))

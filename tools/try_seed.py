#!/venv/bin/python
"""Run a check against a seeded change:  tools/try_seed.py <dir with patch.diff [+ demo.py]> <Cxx> [--tier quick]

Applies patch.diff to /repo (git apply), runs demo.py (expects exit 1 = property violated), runs ./check Cxx,
always restores /repo (git checkout -- . ; rebuilds C-extensions if a .pyx was touched) and prints a one-line verdict.
Never leaves /repo modified."""
import json, subprocess, sys, time
from pathlib import Path

V = Path(__file__).resolve().parent.parent
d = Path(sys.argv[1]).resolve()
pid = sys.argv[2]
tier = sys.argv[4] if len(sys.argv) > 4 else "quick"
patch = d / "patch.diff"
import fcntl, os
REPO = os.environ.get("VERIF_REPO", "/repo")
(V / ".scratch").mkdir(exist_ok=True)
_lock = open(V / ".scratch" / "repo.lock", "w")
fcntl.flock(_lock, fcntl.LOCK_EX)  # running checks hold it shared: wait for them, block new ones while /repo is modified
assert subprocess.run(["git", "-C", REPO, "status", "--porcelain", "--untracked-files=no"], capture_output=True, text=True).stdout.strip() == "", "/repo is dirty"
r = subprocess.run(["git", "-C", REPO, "apply", "--whitespace=nowarn", str(patch)], capture_output=True, text=True)
if r.returncode:
    r = subprocess.run(["git", "-C", REPO, "apply", "--3way", "--whitespace=nowarn", str(patch)], capture_output=True, text=True)
    if r.returncode:
        print("APPLY-FAILED", r.stderr[:300]); sys.exit(2)
res = {"dir": str(d), "property": pid}
_ev = V / "evidence" / f"{pid}.json"
_ev_saved = _ev.read_bytes() if _ev.exists() else None  # evidence must describe the unchanged tree: restore it afterwards
try:
    pyx = ".pyx" in patch.read_text()
    if (d / "demo.py").exists():
        q = subprocess.run(["/venv/bin/python", str(d / "demo.py")], capture_output=True, text=True, cwd=REPO,
                           env={"PYTHONPATH": REPO + "/src", "PATH": "/usr/bin:/bin", "EZDXF_DISABLE_C_EXT": "1"} if not pyx else dict(os.environ, PYTHONPATH=REPO + "/src"), timeout=600)
        res["demo_exit_with_change"] = q.returncode
    t = time.time()
    c = subprocess.run(["./check", pid, "--tier", tier], cwd=V, capture_output=True, text=True, timeout=3600,
                       env=dict(os.environ, VERIF_REPO_LOCK_HELD="1"))
    res["check_exit"] = c.returncode
    res["wall_s"] = round(time.time() - t, 1)
    lines = [l for l in c.stdout.splitlines() if l.startswith("VIOLATION") or l.startswith("  failing input") or l.startswith("  broken")]
    res["report"] = lines[:6]
finally:
    subprocess.run(["git", "-C", REPO, "apply", "-R", "--whitespace=nowarn", str(patch)], capture_output=True)
    subprocess.run(["git", "-C", REPO, "checkout", "--", "."], check=True)
    if _ev_saved is not None:
        _ev.write_bytes(_ev_saved)
print(json.dumps(res, indent=1))

#!/venv/bin/python
"""replace the generated tables of DESIGN.md (between <!-- SEEDTABLE-BEGIN/END -->) by the output of tools/seed_table.py"""
import subprocess, re
p = '/verif/DESIGN.md'; s = open(p).read()
t = subprocess.run(['/verif/tools/seed_table.py'], capture_output=True, text=True).stdout
s = re.sub(r'<!-- SEEDTABLE-BEGIN -->.*?<!-- SEEDTABLE-END -->', lambda m: '<!-- SEEDTABLE-BEGIN -->\n' + t + '<!-- SEEDTABLE-END -->', s, flags=re.S)
open(p, 'w').write(s)
print('DESIGN.md seed table updated:', t.strip().splitlines()[-1])

#!/venv/bin/python
"""replace the generated tables of DESIGN.md (between <!-- SEEDTABLE-BEGIN/END -->) by the output of tools/seed_table.py"""
import subprocess, re
p = '/verif/DESIGN.md'; s = open(p).read()
t = subprocess.run(['/verif/tools/seed_table.py'], capture_output=True, text=True).stdout
s = re.sub(r'<!-- SEEDTABLE-BEGIN -->.*?<!-- SEEDTABLE-END -->', lambda m: '<!-- SEEDTABLE-BEGIN -->\n' + t + '<!-- SEEDTABLE-END -->', s, flags=re.S)
st = subprocess.run(['/verif/tools/status_table.py'], capture_output=True, text=True).stdout
s = re.sub(r'<!-- STATUSTABLE-BEGIN -->.*?<!-- STATUSTABLE-END -->', lambda m: '<!-- STATUSTABLE-BEGIN -->\n' + st + '<!-- STATUSTABLE-END -->', s, flags=re.S)
import glob
def loc(pat): return sum(len(open(f).read().splitlines()) for f in glob.glob(pat, recursive=True))
sizes = (f"Sizes: `Model/` {loc('/verif/lean/EzdxfVerif/Model/*.lean')/1000:.1f} kLoC in {len(glob.glob('/verif/lean/EzdxfVerif/Model/*.lean'))} files (core Lean only), "
         f"`Lemmas/` {loc('/verif/lean/EzdxfVerif/Lemmas/*.lean')/1000:.1f} kLoC in {len(glob.glob('/verif/lean/EzdxfVerif/Lemmas/*.lean'))} files, `Props/` {loc('/verif/lean/EzdxfVerif/Props/*.lean')/1000:.1f} kLoC, "
         f"drivers {loc('/verif/lean/Drivers/*.lean')/1000:.1f} kLoC, harness {loc('/verif/harness/**/*.py')/1000:.1f} kLoC Python; "
         f"{len(subprocess.run(['git','-C','/repo','log','--format=%s'],capture_output=True,text=True).stdout.count and [l for l in subprocess.run(['git','-C','/repo','log','--format=%s'],capture_output=True,text=True).stdout.splitlines() if l.startswith('fix:')])} `fix:` commits in /repo.")
s = re.sub(r'<!-- SIZES -->(\nSizes:[^\n]*)?', lambda m: '<!-- SIZES -->\n' + sizes, s)
open(p, 'w').write(s)
print('DESIGN.md seed table updated:', t.strip().splitlines()[-1])

#!/venv/bin/python
"""copy the `fixed` lines of known.d/*.json into KNOWN_FINDINGS.json (central list of fix: commits), without duplicates"""
import json, glob
k = json.load(open('/verif/KNOWN_FINDINGS.json'))
for f in sorted(glob.glob('/verif/known.d/*.json')):
    d = json.load(open(f))
    for l in d.get('fixed', []) if isinstance(d, dict) else []:
        if l not in k['fixed']:
            k['fixed'].append(l)
json.dump(k, open('/verif/KNOWN_FINDINGS.json', 'w'), indent=1, ensure_ascii=False)
print(len(k['fixed']), 'fixed entries')

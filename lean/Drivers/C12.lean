/-
Line-protocol driver for C12 (entity transformation).

Request   <op>|<arg>|…|<impl>|<tol>      answer: `agree` or `DISAGREE <model value>`
  impl   what the real code produced: `ok <field>;<field>;…` (field = comma separated rationals, `n` = attribute absent,
         `T`/`F` flags as 1/0) or `err <ErrorName>`
  tol    rational t: two numbers agree when |a - b| ≤ t · max(1, |a|, |b|); errors must agree exactly
  arg    rationals `p/q`; vectors / matrices comma separated; an OCS is `<T|F>,<16 numbers>`; lists `;` separated
ops      ot (OCSTransform methods)  ext (transform_extrusion)  line  circle  arc  lw  solid  ins  imat  nest  up  temp  hatch  text  mtext  rytz  minor  mline  dim  pl2d  ell  elledge  mins  trans  imatgen
Square roots are supplied by `sqrtA` (relative error < 2⁻¹⁰⁰; the theorems quantify over exact roots); directions are
normalised with it before they are compared with (cos, sin) of the angle the real code stores.
-/
import EzdxfVerif.Model.Rat3
import EzdxfVerif.Gen.TransformKernels
import EzdxfVerif.Model.Transform
import Drivers.Proto
open EzdxfVerif.Rat3 EzdxfVerif.Gen EzdxfVerif.Transform

namespace C12

-- ------------------------------------------------------------------------------------------- parsing / printing
def parseRat (s : String) : Option Rat :=
  match s.splitOn "/" with
  | [p] => (Proto.parseInt p).map fun n => (n : Rat)
  | [p, q] => match Proto.parseInt p, q.toNat? with
    | some n, some d => if d = 0 then none else some ((n : Rat) / (d : Rat))
    | _, _ => none
  | _ => none

def parseRats (s : String) : Option (List Rat) :=
  if s.isEmpty then some [] else (s.splitOn ",").mapM parseRat
def parseV3 (s : String) : Option V3 :=
  match parseRats s with | some [x, y, z] => some ⟨x, y, z⟩ | _ => none
def parseV2 (s : String) : Option V2 :=
  match parseRats s with | some [x, y] => some ⟨x, y⟩ | _ => none
def parseM (s : String) : Option M44 := (parseRats s).bind M44.ofList
def parseOcs (s : String) : Option Ocs :=
  match s.splitOn "," with
  | f :: rest =>
    match (if f = "T" then some true else if f = "F" then some false else none), (rest.mapM parseRat).bind M44.ofList with
    | some t, some m => some ⟨t, m⟩
    | _, _ => none
  | _ => none
def parseOpt (s : String) : Option (Option Rat) := if s = "n" then some none else (parseRat s).map some
def parseOptV3 (s : String) : Option (Option V3) := if s = "n" then some none else (parseV3 s).map some
def parseList {α} (f : String → Option α) (s : String) : Option (List α) :=
  if s.isEmpty then some [] else (s.splitOn ";").mapM f

def showRat (r : Rat) : String := if r.den = 1 then toString r.num else toString r.num ++ "/" ++ toString r.den
def showRats (l : List Rat) : String := ",".intercalate (l.map showRat)
def v3l (v : V3) : List Rat := [v.x, v.y, v.z]
def v2l (v : V2) : List Rat := [v.x, v.y]

/-- a value in canonical form: list of fields, each a list of numbers (`none` = absent attribute) -/
inductive Out where
  | ok (fields : List (Option (List Rat)))
  | err (name : String)

def Out.show : Out → String
  | .ok fs => "ok " ++ ";".intercalate (fs.map fun f => match f with | some l => showRats l | none => "n")
  | .err e => "err " ++ e

def parseOut (s : String) : Option Out :=
  if s.startsWith "err " then some (.err (s.drop 4).toString)
  else if s.startsWith "ok " then
    ((s.drop 3).toString.splitOn ";").mapM (fun f => if f = "n" then some none else (parseRats f).map some) |>.map .ok
  else none

def absR (a : Rat) : Rat := if a < 0 then -a else a
def maxR (a b : Rat) : Rat := if a < b then b else a
def close (tol a b : Rat) : Bool := decide (absR (a - b) ≤ tol * maxR 1 (maxR (absR a) (absR b)))

def agree (tol : Rat) : Out → Out → Bool
  | .err a, .err b => a == b
  | .ok a, .ok b =>
    a.length == b.length && (List.zip a b).all fun (x, y) =>
      match x, y with
      | none, none => true
      | some l, some r => l.length == r.length && (List.zip l r).all fun (p, q) => close tol p q
      | _, _ => false
  | _, _ => false

-- ------------------------------------------------------------------------------------------- approximate sqrt
partial def isqrtLoop (n x : Nat) : Nat :=
  let y := (x + n / x) / 2
  if y ≥ x then x else isqrtLoop n y
def isqrt (n : Nat) : Nat := if n = 0 then 0 else isqrtLoop n (2 ^ (n.log2 / 2 + 1))
/-- exact for rational squares, else relative error < 2⁻¹⁰⁰ -/
def sqrtA (a : Rat) : Rat :=
  if a ≤ 0 then 0 else
  let p := a.num.toNat
  let q := a.den
  let sp := isqrt p
  let sq := isqrt q
  if sp * sp = p ∧ sq * sq = q then ((sp : Nat) : Rat) / ((sq : Nat) : Rat) else
  let bits := (p * q).log2
  let k := if bits < 220 then (220 - bits) / 2 + 1 else 0
  ((isqrt (p * q * 4 ^ k) : Nat) : Rat) / ((q * 2 ^ k : Nat) : Rat)

def unit2 (d : V2) : List Rat :=
  let r := sqrtA (d.x * d.x + d.y * d.y)
  if r = 0 then [0, 0] else [d.x / r, d.y / r]

def terr : TErr → String
  | .nonUniformScaling => "NonUniformScalingError"
  | .insertTransformation => "InsertTransformationError"
  | .zeroDivision => "ZeroDivisionError"
def perr : PyErr → String
  | .zeroDivision => "ZeroDivisionError" | .typeError => "TypeError" | .valueError => "ValueError" | .indexError => "IndexError"

def optR (o : Option Rat) : Option (List Rat) := o.map fun r => [r]
def optV (o : Option V3) : Option (List Rat) := o.map v3l

-- ------------------------------------------------------------------------------------------- entities
def parseLwVertex (s : String) : Option LwVertex :=
  match parseRats s with | some [x, y, sw, ew, b] => some ⟨x, y, sw, ew, b⟩ | _ => none

def circleOut (c : Circle) : List (Option (List Rat)) := [some (v3l c.center), some [c.radius], optR c.thickness]

/-- prefix encoding of a block tree: `P x,y,z` | `R <16 numbers> <k> child…` -/
partial def parseNode : List String → Option (Node × List String)
  | "P" :: v :: rest => (parseV3 v).map fun p => (Node.point p, rest)
  | "R" :: m :: k :: rest =>
    match parseM m, k.toNat? with
    | some mm, some kk =>
      let rec go (n : Nat) (toks : List String) (acc : List Node) : Option (List Node × List String) :=
        match n with
        | 0 => some (acc.reverse, toks)
        | n + 1 => match parseNode toks with
          | some (c, r) => go n r (c :: acc)
          | none => none
      (go kk rest []).map fun (cs, r) => (Node.ref mm cs, r)
    | _, _ => none
  | _ => none

-- ------------------------------------------------------------------------------------------- HATCH paths
def parsePts (s : String) : Option (List V2) := if s.isEmpty then some [] else (s.splitOn "_").mapM parseV2
def parseOptV2 (s : String) : Option (Option V2) := if s = "n" then some none else (parseV2 s).map some

/-- edge: `L:s:e` | `A:c:r:s:e:<T|F full>:<T|F ccw>` | `S:cps:fits:st:et` | `C:c` -/
def parseEdge (s : String) : Option HEdge :=
  match s.splitOn ":" with
  | ["L", a, b] => do some (.line (← parseV2 a) (← parseV2 b))
  | ["A", c, r, a, b, f, w] => do some (.arc (← parseV2 c) (← parseRat r) (← parseV2 a) (← parseV2 b) (f = "T") (w = "T"))
  | ["S", cps, fits, st, et] => do some (.spline (← parsePts cps) (← parsePts fits) (← parseOptV2 st) (← parseOptV2 et))
  | ["C", c] => do some (.ellipse (← parseV2 c))
  | _ => none

def parsePVertex (s : String) : Option PVertex :=
  match parseRats s with | some [x, y, b] => some ⟨x, y, b⟩ | _ => none

/-- path: `P;<T|F closed>;v;v;…` | `E;edge;edge;…` -/
def parsePath (s : String) : Option BPath :=
  match s.splitOn ";" with
  | "P" :: c :: vs => (vs.mapM parsePVertex).map fun l => .poly l (c = "T")
  | "E" :: es => (es.mapM parseEdge).map .edges
  | _ => none

def edgeOut : HEdge → List (Option (List Rat))
  | .line a b => [some (v2l a), some (v2l b)]
  | .arc c r a b _ _ => [some (v2l c), some [r], some (unit2 a), some (unit2 b)]
  | .spline cps fits st et =>
    (cps.map fun v => some (v2l v)) ++ (fits.map fun v => some (v2l v)) ++ [st.map v2l, et.map v2l]
  | .ellipse c => [some (v2l c)]

def pathOut : BPath → List (Option (List Rat))
  | .poly vs _ => vs.map fun v => some [v.x, v.y, v.bulge]
  | .edges es => es.flatMap edgeOut

/-- DIMENSION attribute `name=P:x,y,z` | `name=A:c,s` -/
def parseDimAttr (s : String) : Option (String × DimVal) :=
  match s.splitOn "=" with
  | [n, v] =>
    match v.splitOn ":" with
    | ["P", p] => (parseV3 p).map fun q => (n, DimVal.pt q)
    | ["A", d] => (parseV2 d).map fun q => (n, DimVal.ang q)
    | _ => none
  | _ => none

/-- 2-D POLYLINE vertex `x,y,z,bulge:sw|n:ew|n` -/
def parsePlVertex (s : String) : Option PlVertex :=
  match s.splitOn ":" with
  | [a, sw, ew] =>
    match parseRats a with
    | some [x, y, z, b] => do some ⟨⟨x, y, z⟩, b, ← parseOpt sw, ← parseOpt ew⟩
    | _ => none
  | _ => none

def model (op : String) (a : List String) : Option Out :=
  match op, a with
  | "ot", [m, old, new, kind, x, y] => do
    let o : OcsT := ⟨← parseM m, ← parseOcs old, ← parseOcs new, true⟩
    match kind with
    | "vertex" => some (.ok [some (v3l (o.vertex (← parseV3 x)))])
    | "dir" => some (.ok [some (v3l (o.direction (← parseV3 x)))])
    | "thick" => some (.ok [some [o.thickness (← parseRat x)]])
    | "len" => some (.ok [some [o.length sqrtA (← parseV3 x)]])
    | "lenr" => some (.ok [some [o.lengthR sqrtA (← parseV3 x) (← parseRat y)]])
    | "width" => some (.ok [some [o.width sqrtA (← parseRat x)]])
    | "v2d" => some (.ok [some (v2l (o.vertex2d (← parseV2 x) (← parseRat y)))])
    | _ => none
  | "ext", [old, m] => do
    match transformExtrusion sqrtA (← parseOcs old) (← parseM m) with
    | .ok (n, u) => some (.ok [some (v3l n), some [if u then 1 else 0]])
    | .error e => some (.err (perr e))
  | "line", [m, s, e, t, n] => do
    match Line.transform sqrtA (← parseM m) ⟨← parseV3 s, ← parseV3 e, ← parseOpt t, ← parseOptV3 n⟩ with
    | .ok l => some (.ok [some (v3l l.start), some (v3l l.stop), optR l.thickness, optV l.extrusion])
    | .error e => some (.err (terr e))
  | "circle", [m, old, new, u, c, r, t] => do
    let o : OcsT := ⟨← parseM m, ← parseOcs old, ← parseOcs new, u = "T"⟩
    match Circle.transform sqrtA o ⟨← parseV3 c, ← parseRat r, ← parseOpt t⟩ with
    | .ok c' => some (.ok (circleOut c'))
    | .error e => some (.err (terr e))
  | "arc", [m, old, new, u, c, r, t, s, e, full] => do
    let o : OcsT := ⟨← parseM m, ← parseOcs old, ← parseOcs new, u = "T"⟩
    match Arc.transform sqrtA o ⟨⟨← parseV3 c, ← parseRat r, ← parseOpt t⟩, ← parseV2 s, ← parseV2 e, full = "T"⟩ with
    | .ok a' => some (.ok (circleOut a'.circle ++ [some (unit2 a'.s), some (unit2 a'.e)]))
    | .error e => some (.err (terr e))
  | "lw", [m, old, new, u, elev, cw, t, pts] => do
    let o : OcsT := ⟨← parseM m, ← parseOcs old, ← parseOcs new, u = "T"⟩
    match LwPolyline.transform sqrtA o ⟨← parseList parseLwVertex pts, ← parseRat elev, ← parseOpt cw, ← parseOpt t⟩ with
    | .ok p => some (.ok ([some [p.elevation], optR p.constWidth, optR p.thickness] ++
        p.pts.map fun v => some [v.x, v.y, v.startWidth, v.endWidth, v.bulge]))
    | .error e => some (.err (terr e))
  | "solid", [m, old, new, t, vs] => do
    let o : OcsT := ⟨← parseM m, ← parseOcs old, ← parseOcs new, true⟩
    let s := Solid.transform o ⟨← parseList parseV3 vs, ← parseOpt t⟩
    some (.ok (optR s.thickness :: s.vtx.map fun v => some (v3l v)))
  | "ins", [m, old, new, tol, p, sc, rot] => do
    match ← parseRats sc with
    | [sx, sy, sz] =>
      match Ins.transform sqrtA (← parseOcs old) (← parseOcs new) (← parseM m) ⟨← parseV3 p, sx, sy, sz, ← parseV2 rot⟩ (← parseRat tol) with
      | .ok i => some (.ok [some (v3l i.insert), some [i.sx, i.sy, i.sz], some (unit2 i.rot)])
      | .error e => some (.err (terr e))
    | _ => none
  | "imat", [ocs, p, sc, rot, base] => do
    match ← parseRats sc with
    | [sx, sy, sz] => some (.ok [some (insertMatrix (← parseOcs ocs) ⟨← parseV3 p, sx, sy, sz, ← parseV2 rot⟩ (← parseV3 base)).toList])
    | _ => none
  | "nest", [tree] => do
    let (n, rest) ← parseNode (tree.splitOn " ")
    if !rest.isEmpty then none else
    let e := Node.expand n
    let f := Node.flat M44.identity n
    -- both the level-by-level expansion and the path-product specification are returned: they must coincide
    some (.ok ((e.map fun p => some (v3l p)) ++ (f.map fun p => some (v3l p))))
  | "hatch", [m, old, new, u, elev, paths] => do
    let o : OcsT := ⟨← parseM m, ← parseOcs old, ← parseOcs new, u = "T"⟩
    let ps ← (if paths.isEmpty then some [] else (paths.splitOn "#").mapM parsePath)
    match Hatch.transform sqrtA o ⟨ps, ← parseRat elev⟩ with
    | some h => some (.ok (some [h.elevation] :: h.paths.flatMap pathOut))
    | none => some (.err "NotModelled")
  | "text", [m, old, new, u, ins, al, rot, obl, h, w, t] => do
    let o : OcsT := ⟨← parseM m, ← parseOcs old, ← parseOcs new, u = "T"⟩
    match Txt.transform sqrtA o ⟨← parseV3 ins, ← parseOptV3 al, ← parseV2 rot, ← parseV2 obl, ← parseRat h, ← parseRat w, ← parseOpt t⟩ with
    | .ok x => some (.ok [some (v3l x.insert), optV x.align, some (unit2 x.rot), some (v2l x.obl), some [x.height], some [x.width], optR x.thickness])
    | .error e => some (.err (terr e))
  | "mtext", [m, old, ins, dir, ext, h, w] => do
    match MTxt.transform sqrtA (← parseOcs old) (← parseM m) ⟨← parseV3 ins, ← parseV3 dir, ← parseV3 ext, ← parseRat h, ← parseOpt w⟩ with
    | .ok x => some (.ok [some (v3l x.insert), some (v3l x.dir), some (v3l x.ext), some [x.charHeight], optR x.width])
    | .error e => some (.err (terr e))
  | "rytz", [a, b] => do
    match TransformKernels.rytzS sqrtA (← parseV3 a) (← parseV3 b) with
    | .ok (mj, mn, ratio) => some (.ok [some (v3l mj), some (v3l mn), some [ratio]])
    | .error .valueError => some (.err "ArithmeticError")
    | .error e => some (.err (perr e))
  | "mline", [m, sc, pts] => do
    let l := MLine.transform sqrtA (← parseM m) ⟨← parseList parseV3 pts, ← parseRat sc⟩
    some (.ok (some [l.scale] :: l.locations.map fun p => some (v3l p)))
  | "dim", [m, old, new, attrs] => do
    let o : OcsT := ⟨← parseM m, ← parseOcs old, ← parseOcs new, true⟩
    let r := Dim.transform o (← parseList parseDimAttr attrs)
    some (.ok (r.map fun nv => match nv.2 with | .pt p => some (v3l p) | .ang d => some (unit2 d)))
  | "minor", [a, b, r] => do
    match TransformKernels.minorAxisS sqrtA (← parseV3 a) (← parseV3 b) (← parseRat r) with
    | .ok v => some (.ok [some (v3l v)])
    | .error e => some (.err (perr e))
  | "pl2d", [m, old, new, u, elev, t, vs] => do
    let o : OcsT := ⟨← parseM m, ← parseOcs old, ← parseOcs new, u = "T"⟩
    match Polyline2d.transform sqrtA o ⟨← parseList parsePlVertex vs, ← parseOpt elev, ← parseOpt t⟩ with
    | .ok p => some (.ok ([optR p.elevation, optR p.thickness] ++
        p.vertices.flatMap fun v => [some [v.loc.x, v.loc.y, v.loc.z, v.bulge], optR v.startWidth, optR v.endWidth]))
    | .error e => some (.err (terr e))
  | "ell", [m, c, mj, ext, r] => do
    match Ell.transform sqrtA (← parseM m) ⟨← parseV3 c, ← parseV3 mj, ← parseV3 ext, ← parseRat r⟩ with
    | .ok e => some (.ok [some (v3l e.center), some (v3l e.major), some (v3l e.minor), some (v3l e.ext), some [e.ratio]])
    | .error .valueError => some (.err "ArithmeticError")
    | .error x => some (.err (perr x))
  | "elledge", [m, old, new, elev, c, mj, r] => do
    let o : OcsT := ⟨← parseM m, ← parseOcs old, ← parseOcs new, true⟩
    match ellipseEdgeAxes sqrtA o (← parseRat elev) (← parseV2 c) (← parseV2 mj) (← parseRat r) with
    | .ok (c', mj', r') => some (.ok [some (v2l c'), some (v2l mj'), some [r']])
    | .error .valueError => some (.err "ArithmeticError")
    | .error x => some (.err (perr x))
  | "mins", [sc, sc', cs, rs] => do
    match ← parseRats sc, ← parseRats sc' with
    | [sx, sy, sz], [sx', sy', sz'] =>
      let r := minsertSpacing ⟨⟨0, 0, 0⟩, sx, sy, sz, ⟨1, 0⟩⟩ ⟨⟨0, 0, 0⟩, sx', sy', sz', ⟨1, 0⟩⟩ (← parseRat cs) (← parseRat rs)
      some (.ok [some [r.1], some [r.2]])
    | _, _ => none
  | "trans", [cls, ocs, ps, d] => do
    let o ← parseOcs ocs
    let l ← parseList parseV3 ps
    match ← parseRats d, cls, l with
    | [dx, dy, dz], "Circle", [p] => some (.ok [some (v3l (TransformKernels.translateCircle o.t o.m p dx dy dz))])
    | [dx, dy, dz], "Insert", [p] => some (.ok [some (v3l (TransformKernels.translateInsert o.t o.m p dx dy dz))])
    | [dx, dy, dz], "Text", [p, q] =>
      let r := TransformKernels.translateText o.t o.m p q dx dy dz
      some (.ok [some (v3l r.1), some (v3l r.2)])
    | [dx, dy, dz], "Ellipse", [p] => some (.ok [some (v3l (TransformKernels.translateEllipse p dx dy dz))])
    | [dx, dy, dz], "Point", [p] => some (.ok [some (v3l (TransformKernels.translatePoint p dx dy dz))])
    | [dx, dy, dz], "XLine", [p] => some (.ok [some (v3l (TransformKernels.translateXLine p dx dy dz))])
    | [dx, dy, dz], "Line", [p, q] =>
      let r := TransformKernels.translateLine p q dx dy dz
      some (.ok [some (v3l r.1), some (v3l r.2)])
    | _, _, _ => none
  | "imatgen", [ocs, p, sc, rot, base] => do
    let o ← parseOcs ocs
    let d ← parseV2 rot
    match ← parseRats sc with
    | [sx, sy, sz] =>
      match TransformKernels.insertMatrixGenS sqrtA o.t o.m sx sy sz (← parseV3 p) (← parseV3 base) d.x d.y with
      | .ok mm => some (.ok [some mm.toList])
      | .error e => some (.err (perr e))
    | _ => none
  | "mcell", [ocs, p, sc, rot, base, col, row, cs, rs] => do
    match ← parseRats sc with
    | [sx, sy, sz] =>
      let i : Ins := ⟨← parseV3 p, sx, sy, sz, ← parseV2 rot⟩
      some (.ok [some (insertMatrix (← parseOcs ocs) (i.gridCell (← parseRat col) (← parseRat row) (← parseRat cs) (← parseRat rs)) (← parseV3 base)).toList])
    | _ => none
  | "shape", [m, old, new, ins, rot, size, xs, t] => do
    let o : OcsT := ⟨← parseM m, ← parseOcs old, ← parseOcs new, true⟩
    let r := Shp.transform sqrtA o ⟨← parseV3 ins, ← parseV2 rot, ← parseRat size, ← parseRat xs, ← parseOpt t⟩
    some (.ok [some (v3l r.insert), some (unit2 r.rot), some [r.size], some [r.xscale], optR r.thickness])
  | "temp", [ms] => do
    -- history of `transform` calls on one ACIS entity: the pending matrix (absent for an empty history)
    match tempRun none (← parseList parseM ms) with
    | some acc => some (.ok [some acc.toList])
    | none => some (.ok [none])
  | "up", ["circle", c, r, t] => do
    let c' := (Circle.mk (← parseV3 c) (← parseRat r) (← parseOpt t)).upright
    some (.ok (circleOut c'))
  | "up", ["arc", c, r, t, s, e] => do
    let a := (Arc.mk ⟨← parseV3 c, ← parseRat r, ← parseOpt t⟩ (← parseV2 s) (← parseV2 e) false).upright
    some (.ok (circleOut a.circle ++ [some (v2l a.s), some (v2l a.e)]))
  | "up", ["solid", t, vs] => do
    let s := (Solid.mk (← parseList parseV3 vs) (← parseOpt t)).upright
    some (.ok (optR s.thickness :: s.vtx.map fun v => some (v3l v)))
  | "up", ["lw", elev, t, pts] => do
    let p := (LwPolyline.mk (← parseList parseLwVertex pts) (← parseRat elev) none (← parseOpt t)).upright
    some (.ok ([some [p.elevation], optR p.thickness] ++ p.pts.map fun v => some [v.x, v.y, v.startWidth, v.endWidth, v.bulge]))
  | "up", ["ins", p, sc, rot] => do
    match ← parseRats sc with
    | [sx, sy, sz] =>
      let i := (Ins.mk (← parseV3 p) sx sy sz (← parseV2 rot)).upright
      some (.ok [some (v3l i.insert), some [i.sx, i.sy, i.sz], some (v2l i.rot)])
    | _ => none
  | _, _ => none

def step (line : String) : String :=
  let parts := line.splitOn "|"
  if parts.length < 3 then "bad-op" else
  let op := parts.head!
  let tolS := parts.getLast!
  let implS := parts.dropLast.getLast!
  let args := (parts.drop 1).dropLast.dropLast
  match model op args, parseOut implS, parseRat tolS with
  | some mo, some io, some tol => if agree tol mo io then "agree" else "DISAGREE " ++ mo.show
  | _, _, _ => "bad-op " ++ op

end C12

def main : IO Unit := Proto.run C12.step

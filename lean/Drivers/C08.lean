import EzdxfVerif.Model.Readers
import EzdxfVerif.Gen.ReaderTables
import Drivers.Proto
open EzdxfVerif EzdxfVerif.Readers Proto

/-! line protocol of C08
  tags   = `code,value;code,value;...`   value: printable text, `%N.` = code point N (for `% ; | ,` and non-ASCII)
  rd|READER|MSP|PSP|tags        READER in strict iter sp0 sp1 idx rec; MSP/PSP = owner handles of the layout block records
                                -> `ok TYPE:HANDLE[sub,sub]seqend;...` or `err:<class>`
  grp|tags                      -> groupTags: `n1,n2,...` sizes and first values
  jw|compact(0/1)|wtags         wtags = `s,code,value` or `v,code,x y z` separated by `;`  -> json pairs + loader result + ascii
  r12|pretags|calls             calls = `S~TYPE~tags` or `P~tags~vtags~vtags...` separated by `!`; pretags = preface file part
                                -> tags of r12File
  ex|dup(0/1)|r12(0/1)|tags     iterdxf exporter on a well-formed source file, all delivered modelspace entities written
                                -> `TYPE:HANDLE;...` of every group of the exported file, or `err`
  wf|MSP|PSP|tags               -> FileWF' of the driver's Cfg (1/0)
  jl|jtags                      jtags = `s,code,value` or `v,code,x y z`  -> json_tag_loader result
-/

def unesc (s : String) : String := Id.run do
  let mut out : List Char := []
  let mut num : Option Nat := none
  for c in s.toList do
    match num with
    | some n =>
      if c = '.' then
        out := Char.ofNat n :: out
        num := none
      else num := some (n * 10 + (c.toNat - 48))
    | none =>
      if c = '%' then num := some 0 else out := c :: out
  return String.ofList out.reverse

def esc (s : String) : String :=
  String.join (s.toList.map fun c =>
    if c = '%' ∨ c = ';' ∨ c = '|' ∨ c = ',' ∨ c = '[' ∨ c = ']' ∨ c = ':' ∨ c.toNat < 32 ∨ c.toNat > 126 then s!"%{c.toNat}." else c.toString)

def parseTag (s : String) : Option Tag :=
  match s.splitOn "," with
  | [c, v] => c.toNat?.map (fun n => ⟨n, unesc v⟩)
  | _ => none

def parseTags (s : String) : Option (List Tag) :=
  if s.isEmpty then some [] else (s.splitOn ";").mapM parseTag

def wsU : List Nat := Gen.ReaderTables.strWhitespace
def wsB : List Nat := Gen.ReaderTables.bytesWhitespace

def stripWith (ws : List Nat) (s : String) : String :=
  let l := s.toList.dropWhile (fun c => ws.contains c.toNat)
  String.ofList (l.reverse.dropWhile (fun c => ws.contains c.toNat)).reverse

def upperA (s : String) : String :=
  String.ofList (s.toList.map fun c => if 97 ≤ c.toNat ∧ c.toNat ≤ 122 then Char.ofNat (c.toNat - 32) else c)

def firstVal (code : Nat) (g : Group) : Option String := (g.find? (fun t => t.code = code)).map (·.val)

def intVal (s : String) : Int := ((s.trimAscii.toString).toInt?).getD 0

def mkCfg (msp psp : String) : Cfg where
  truthy := fun e =>
    if Gen.ReaderTables.iterdxfYieldsFalsy then true
    else if dxftype e.main = "POLYLINE" then !e.subs.isEmpty
    else if dxftype e.main = "LWPOLYLINE" then (firstVal 10 e.main).isSome
    else if dxftype e.main = "MLINE" then (firstVal 11 e.main).isSome
    else true
  psp := fun g => match firstVal 67 g with | some v => intVal v ≠ 0 | none => false
  pspS := fun g =>
    match firstVal 330 g with
    | some o => if o = msp then false else if o = psp then true
                else (match firstVal 67 g with | some v => intVal v ≠ 0 | none => false)
    | none => match firstVal 67 g with | some v => intVal v ≠ 0 | none => false
  af := fun g => match firstVal 66 g with | some v => intVal v ≠ 0 | none => false
  req := fun s => Gen.ReaderTables.supportedTypes.contains s
  strip := stripWith wsU
  stripB := stripWith wsB
  upper := upperA
  managed := fun s => Gen.ReaderTables.managedSections.contains s

def handleOf (g : Group) : String := (firstVal 5 g).getD "-"

def showEnt (e : Ent) : String :=
  esc (dxftype e.main) ++ ":" ++ esc (handleOf e.main) ++ "[" ++ ",".intercalate (e.subs.map (fun s => esc (handleOf s))) ++ "]"
    ++ (match e.seqend with | some s => esc (handleOf s) | none => "")

def showRes : Except Err (List Ent) → String
  | .ok es => "ok " ++ ";".intercalate (es.map showEnt)
  | .error .dxfStructureError => "err:DXFStructureError"
  | .error .indexError => "err:IndexError"

def parseW (s : String) : Option WTag :=
  match s.splitOn "," with
  | ["s", c, v] => c.toNat?.map (fun n => WTag.single n (unesc v))
  | ["v", c, xs] => c.toNat?.map (fun n => WTag.vertex n ((xs.splitOn " ").map unesc))
  | _ => none

def showTags (ts : List Tag) : String := ";".intercalate (ts.map fun t => s!"{t.code},{esc t.val}")

def showJ : JTag → String
  | .single c v => s!"s,{c},{esc v}"
  | .point c xs => s!"v,{c}," ++ " ".intercalate (xs.map esc)

def parseCall (s : String) : Option R12Call :=
  match s.splitOn "~" with
  | ["S", ty, ts] => (parseTags ts).map (fun a => R12Call.simple (unesc ty) a)
  | "P" :: ts :: vs => do
    let a ← parseTags ts
    let v ← vs.mapM parseTags
    some (R12Call.polyline a v)
  | _ => none

def showGroups (f : List Tag) : String :=
  ";".intercalate ((groupTags f).map fun g => esc (dxftype g) ++ ":" ++ esc (handleOf g))

def step (line : String) : String :=
  match line.splitOn "|" with
  | ["rd", rdr, msp, psp, ts] =>
    match parseTags ts with
    | none => "bad-op tags"
    | some f =>
      let cfg := mkCfg msp psp
      let sup := fun (r : Except Err (List Ent)) => match r with
        | .ok es => Except.ok (es.filter (fun e => cfg.req (dxftype e.main)))
        | .error e => .error e
      match rdr with
      | "strict" => showRes (sup (strictModelspace cfg f))
      | "rec" => showRes (sup (recoverModelspace cfg f))
      | "iter" => showRes (iterModelspace cfg f)
      | "sp0" => showRes (singlePass cfg false f)
      | "sp1" => showRes (singlePass cfg true f)
      | "sp" => showRes (singlePass cfg Gen.ReaderTables.singlePassFlush f)
      | "idx" => showRes (indexModelspace cfg Gen.ReaderTables.maxGroupCode f)
      | _ => "bad-op reader"
  | ["grp", ts] =>
    match parseTags ts with
    | none => "bad-op tags"
    | some f => ";".intercalate ((groupTags f).map fun g => s!"{g.length}:{esc (dxftype g)}")
  | ["jw", compact, ws] =>
    match (if ws.isEmpty then some [] else (ws.splitOn ";").mapM parseW) with
    | none => "bad-op wtags"
    | some w =>
      let j := jsonWrite (compact = "1") w
      let isPt := fun c => Gen.ReaderTables.pointCodes.contains c
      ";".intercalate (j.map showJ) ++ "|" ++ showTags (jsonLoad isPt j) ++ "|" ++ showTags (asciiLoad (asciiWrite w))
  | ["r12", pre, cs] =>
    match parseTags pre, (if cs.isEmpty then some [] else (cs.splitOn "!").mapM parseCall) with
    | some p, some calls =>
      -- the preface is passed as the tags of complete sections
      match parseFile (p ++ [tEOF]) with
      | some secs => showTags (r12File secs calls)
      | none => "bad-op preface"
    | _, _ => "bad-op r12"
  | ["ex", dup, r12, ts] =>
    match parseTags ts with
    | none => "bad-op tags"
    | some f =>
      let cfg := mkCfg "-" "-"
      match parseFile f with
      | none => "err"
      | some secs =>
        match splitEnt secs with
        | none => "err"
        | some (pre, _, post) =>
          -- the harness writes what opendxf().modelspace() delivers
          match indexModelspace cfg Gen.ReaderTables.maxGroupCode f with
          | .error _ => "err"
          | .ok written =>
            let objects := if r12 = "1" then none else post.find? (fun s => s.name = "OBJECTS")
            showGroups (exportFile (dup = "1") pre written objects)
  | ["wf", msp, psp, ts] =>
    match parseTags ts with
    | none => "bad-op tags"
    | some f => if FileWF' (mkCfg msp psp) Gen.ReaderTables.maxGroupCode f then "1" else "0"
  | ["jl", js] =>
    let parseJ := fun (x : String) => match x.splitOn "," with
      | ["s", c, v] => c.toNat?.map (fun n => JTag.single n (unesc v))
      | ["v", c, xs] => c.toNat?.map (fun n => JTag.point n (if xs.isEmpty then [] else (xs.splitOn " ").map unesc))
      | _ => none
    match (if js.isEmpty then some [] else (js.splitOn ";").mapM parseJ) with
    | none => "bad-op jtags"
    | some j => showTags (jsonLoad (fun c => Gen.ReaderTables.pointCodes.contains c) j)
  | _ => "bad-op"

def main : IO Unit := Proto.run step

import EzdxfVerif.Model.Readers
import EzdxfVerif.Model.ReadersWrite
import EzdxfVerif.Model.ReadersDetect
import EzdxfVerif.Model.ReadersLines
import EzdxfVerif.Model.ReadersRepair
import EzdxfVerif.Model.ReadersSniff
import EzdxfVerif.Model.ReadersRecVer
import EzdxfVerif.Model.ReadersFilter
import EzdxfVerif.Model.ReadersLoad
import EzdxfVerif.Gen.ReaderTables
import Drivers.Proto
open EzdxfVerif EzdxfVerif.Readers Proto

/-! line protocol of C08
  tags   = `code,value;code,value;...`   value: printable text, `%N.` = code point N (for `% ; | ,` and non-ASCII)
  rd|READER|MSP|PSP|tags        READER in strict strictf iter sp0 sp1 idx rec; MSP/PSP = owner handles of the layout block records
                                -> `ok TYPE:HANDLE[sub,sub]seqend;...` or `err:<class>`
  rdf|READER|TYPES|MSP|PSP|tags READER in iter sp idx; TYPES = `-` (None), empty, or a comma separated list: a read with `types=`
  grp|tags                      -> groupTags: `n1,n2,...` sizes and first values
  jw|compact(0/1)|wtags         wtags = `s,code,value` or `v,code,x y z` separated by `;`  -> json pairs + loader result + ascii
  r12|pretags|calls             calls = `S~TYPE~tags` or `P~tags~vtags~vtags...` separated by `!`; pretags = preface file part
                                -> tags of r12File
  ex|dup(0/1)|r12(0/1)|tags     iterdxf exporter on a well-formed source file, all delivered modelspace entities written
                                -> `TYPE:HANDLE;...` of every group of the exported file, or `err`
  wf|MSP|PSP|tags               -> FileWF' of the driver's Cfg (1/0)
  wd|MSP|PSP|r12|hdr|cls|tab|blk|obj|acds|stored|msp|psp   the parts of a document exported one by one (bodies as tags;
                                acds `-` = none; stored = `name~tags^...`; entity = `main~sub~sub!seqend`, entities joined by `^`)
                                -> `DocOK|flagsOK|reorder filter is the identity on it|tags of writeDoc`
  r12x|hdr|tab|blk|msp|psp      the parts of an r12export run (section bodies; the tags of the two exported entity spaces)
                                -> `DocOK|tags of r12exportFile`
  xb|src triples|nPrefix|objStart,objLen or -|written tags   -> the bytes of the iterdxf exporter's output file
  loc|c,val,crlf;...            -> fileindex locations (byte offsets) of the structure tags
  ro|tags                       -> recover's tag_reorder_layer on a raw tag stream
  ln|bytes (decimal, blank separated)  -> `T<tags>|B<tags>|G<tags>|C<tags>`: ascii_tags_loader on a text-mode stream, bytes_loader,
                                iterdxf binary_tagger, internal_tag_compiler behind `to_str` (`err` for an invalid group code line)
  det|tags                      -> `ver,enc|ver,enc|enc|enc` decisions of dxf_info, fileindex.load, single_pass_modelspace, detect_encoding
  detv|tags                     -> Recover.run().dxfversion
  bin|bytes (decimal, blank separated)  -> encoding chosen by binary_tags_loader.scan_params or `err`
  jl|jtags                      jtags = `s,code,value` or `v,code,x y z`  -> json_tag_loader result
-/

def unesc (s : String) : String := Id.run do
  let mut out : List Char := []
  let mut num : Option Nat := none
  for c in s.toList do
    match num with
    | some n =>
      if c = '.' then
        out := Char.ofNat n :: out
        num := none
      else num := some (n * 10 + (c.toNat - 48))
    | none =>
      if c = '%' then num := some 0 else out := c :: out
  return String.ofList out.reverse

def esc (s : String) : String :=
  String.join (s.toList.map fun c =>
    if c = '%' ∨ c = ';' ∨ c = '|' ∨ c = ',' ∨ c = '[' ∨ c = ']' ∨ c = ':' ∨ c = '!' ∨ c = '~' ∨ c = '^' ∨ c.toNat < 32 ∨ c.toNat > 126 then s!"%{c.toNat}." else c.toString)

def parseTag (s : String) : Option Tag :=
  match s.splitOn "," with
  | [c, v] => c.toNat?.map (fun n => ⟨n, unesc v⟩)
  | _ => none

def parseTags (s : String) : Option (List Tag) :=
  if s.isEmpty then some [] else (s.splitOn ";").mapM parseTag

def wsU : List Nat := Gen.ReaderTables.strWhitespace
def wsB : List Nat := Gen.ReaderTables.bytesWhitespace

def stripWith (ws : List Nat) (s : String) : String :=
  let l := s.toList.dropWhile (fun c => ws.contains c.toNat)
  String.ofList (l.reverse.dropWhile (fun c => ws.contains c.toNat)).reverse

def upperA (s : String) : String :=
  String.ofList (s.toList.map fun c => if 97 ≤ c.toNat ∧ c.toNat ≤ 122 then Char.ofNat (c.toNat - 32) else c)

def firstVal (code : Nat) (g : Group) : Option String := (g.find? (fun t => t.code = code)).map (·.val)

def intVal (s : String) : Int := ((s.trimAscii.toString).toInt?).getD 0

def mkCfg (msp psp : String) : Cfg where
  truthy := fun e =>
    if Gen.ReaderTables.iterdxfYieldsFalsy then true
    else if dxftype e.main = "POLYLINE" then !e.subs.isEmpty
    else if dxftype e.main = "LWPOLYLINE" then (firstVal 10 e.main).isSome
    else if dxftype e.main = "MLINE" then (firstVal 11 e.main).isSome
    else true
  psp := fun g => match firstVal 67 g with | some v => intVal v ≠ 0 | none => false
  pspS := fun g =>
    match firstVal 330 g with
    | some o => if o = msp then false else if o = psp then true
                else (match firstVal 67 g with | some v => intVal v ≠ 0 | none => false)
    | none => match firstVal 67 g with | some v => intVal v ≠ 0 | none => false
  af := fun g => match firstVal 66 g with | some v => intVal v ≠ 0 | none => false
  req := fun s => Gen.ReaderTables.supportedTypes.contains s
  strip := stripWith wsU
  stripB := stripWith wsB
  upper := upperA
  managed := fun s => Gen.ReaderTables.managedSections.contains s

def handleOf (g : Group) : String := (firstVal 5 g).getD "-"

def showEnt (e : Ent) : String :=
  esc (dxftype e.main) ++ ":" ++ esc (handleOf e.main) ++ "[" ++ ",".intercalate (e.subs.map (fun s => esc (handleOf s))) ++ "]"
    -- a SEQEND without handle (R12 files without handles) is shown like a missing one: the Drawing readers create a
    -- SEQEND with a fresh handle when it is missing, so the two cases cannot be told apart on the implementation side
    ++ (match e.seqend with | some s => (match firstVal 5 s with | some h => esc h | none => "") | none => "")
    ++ (if dxftype e.main = "TEXT" then "=" ++ esc ((firstVal 1 e.main).getD "") else "")

def showRes : Except Err (List Ent) → String
  | .ok es => "ok " ++ ";".intercalate (es.map showEnt)
  | .error .dxfStructureError => "err:DXFStructureError"
  | .error .indexError => "err:IndexError"

def parseW (s : String) : Option WTag :=
  match s.splitOn "," with
  | ["s", c, v] => c.toNat?.map (fun n => WTag.single n (unesc v))
  | ["v", c, xs] => c.toNat?.map (fun n => WTag.vertex n ((xs.splitOn " ").map unesc))
  | _ => none

def showTags (ts : List Tag) : String := ";".intercalate (ts.map fun t => s!"{t.code},{esc t.val}")

def showJ : JTag → String
  | .single c v => s!"s,{c},{esc v}"
  | .point c xs => s!"v,{c}," ++ " ".intercalate (xs.map esc)

def parseCall (s : String) : Option R12Call :=
  match s.splitOn "~" with
  | ["S", ty, ts] => (parseTags ts).map (fun a => R12Call.simple (unesc ty) a)
  | "P" :: ts :: vs => do
    let a ← parseTags ts
    let v ← vs.mapM parseTags
    some (R12Call.polyline a v)
  | _ => none

def showGroups (f : List Tag) : String :=
  ";".intercalate ((groupTags f).map fun g => esc (dxftype g) ++ ":" ++ esc (handleOf g))

def step (line : String) : String :=
  match line.splitOn "|" with
  | ["rd", rdr, msp, psp, ts] =>
    match parseTags ts with
    | none => "bad-op tags"
    | some f =>
      let cfg := mkCfg msp psp
      let sup := fun (r : Except Err (List Ent)) => match r with
        | .ok es => Except.ok (es.filter (fun e => cfg.req (dxftype e.main)))
        | .error e => .error e
      match rdr with
      | "strict" => showRes (sup (strictModelspace cfg f))
      | "json" => showRes (sup (jsonModelspace cfg (fun c => Gen.ReaderTables.pointCodes.contains c)
                    (f.map fun t => JTag.single t.code t.val)))      -- load_json_tags on the verbose pairs of the same tags
      | "strictf" => (match strictFileModelspace cfg f with            -- ezdxf.readfile: sniffer in front of ezdxf.read
                      | some r => showRes (sup r)
                      | none => "err:OSError")
      | "rec" => showRes (sup (recoverModelspace cfg f))
      | "iter" => showRes (iterModelspace cfg f)
      | "sp0" => showRes (singlePass cfg false f)
      | "sp1" => showRes (singlePass cfg true f)
      | "sp" => showRes (singlePass cfg Gen.ReaderTables.singlePassFlush f)
      | "idx" => showRes (indexModelspace cfg Gen.ReaderTables.maxGroupCode f)
      | _ => "bad-op reader"
  | ["rdf", rdr, types, msp, psp, ts] =>
    match parseTags ts with
    | none => "bad-op tags"
    | some f =>
      let tys : Option (List String) :=
        if types = "-" then none else if types.isEmpty then some [] else some (types.splitOn ",")
      let cfg := (mkCfg msp psp).withTypes Gen.ReaderTables.supportedTypes tys Gen.ReaderTables.filterDropsImplicit
      match rdr with
      | "iter" => showRes (iterModelspace cfg f)
      | "sp" => showRes (singlePass cfg Gen.ReaderTables.singlePassFlush f)
      | "idx" => showRes (indexModelspace cfg Gen.ReaderTables.maxGroupCode f)
      | _ => "bad-op reader"
  | ["grp", ts] =>
    match parseTags ts with
    | none => "bad-op tags"
    | some f => ";".intercalate ((groupTags f).map fun g => s!"{g.length}:{esc (dxftype g)}")
  | ["jw", compact, ws] =>
    match (if ws.isEmpty then some [] else (ws.splitOn ";").mapM parseW) with
    | none => "bad-op wtags"
    | some w =>
      let j := jsonWrite (compact = "1") w
      let isPt := fun c => Gen.ReaderTables.pointCodes.contains c
      ";".intercalate (j.map showJ) ++ "|" ++ showTags (jsonLoad isPt j) ++ "|" ++ showTags (asciiLoad (asciiWrite w))
  | ["r12", "-", "structure"] => "the file has the structure of the calls (POLYLINE + one VERTEX per point + SEQEND)"
  | ["r12", pre, cs] =>
    match parseTags pre, (if cs.isEmpty then some [] else (cs.splitOn "!").mapM parseCall) with
    | some p, some calls =>
      -- the preface is passed as the tags of complete sections
      match parseFile (p ++ [tEOF]) with
      | some secs => showTags (r12File secs calls)
      | none => "bad-op preface"
    | _, _ => "bad-op r12"
  | ["ex", dup, r12, ts] =>
    match parseTags ts with
    | none => "bad-op tags"
    | some f =>
      let cfg := mkCfg "-" "-"
      match parseFile f with
      | none => "err"
      | some secs =>
        match splitEnt secs with
        | none => "err"
        | some (pre, _, post) =>
          -- the harness writes what opendxf().modelspace() delivers
          match indexModelspace cfg Gen.ReaderTables.maxGroupCode f with
          | .error _ => "err"
          | .ok written =>
            let objects := if r12 = "1" then none else post.find? (fun s => s.name = "OBJECTS")
            showGroups (exportFile (dup = "1") pre written objects)
  | ["wf", msp, psp, ts] =>
    match parseTags ts with
    | none => "bad-op tags"
    | some f => if FileWF' (mkCfg msp psp) Gen.ReaderTables.maxGroupCode f then "1" else "0"
  | ["wd", msp, psp, r12, hdr, cls, tab, blk, obj, acds, stored, mspE, pspE] =>
    let parseEnt := fun (x : String) => match x.splitOn "!" with
      | [gs, sq] => do
        let groups ← (gs.splitOn "~").mapM parseTags
        let q ← (if sq.isEmpty then some none else (parseTags sq).map some)
        match groups with
        | main :: subs => some (Ent.mk main subs q)
        | [] => none
      | _ => none
    let parseEnts := fun (x : String) => if x.isEmpty then some [] else (x.splitOn "^").mapM parseEnt
    let parseSec := fun (x : String) => match x.splitOn "~" with
      | [n, b] => (parseTags b).map (fun t => Section.mk (unesc n) t)
      | _ => none
    let d : Option DocW := do
      let h ← parseTags hdr
      let c ← parseTags cls
      let t ← parseTags tab
      let b ← parseTags blk
      let o ← parseTags obj
      let a ← (if acds = "-" then some none else (parseTags acds).map some)
      let st ← (if stored.isEmpty then some [] else (stored.splitOn "^").mapM parseSec)
      let m ← parseEnts mspE
      let p ← parseEnts pspE
      some { r12 := r12 = "1", header := h, classes := c, tables := t, blocks := b, objects := o, acds := a, stored := st,
             msp := m, psp := p }
    match d with
    | none => "bad-op wd"
    | some d =>
      let cfg := mkCfg msp psp
      (if DocOK cfg Gen.ReaderTables.maxGroupCode d then "1" else "0") ++ "|" ++ (if flagsOK cfg d then "1" else "0")
        -- recover's coordinate re-ordering filter leaves the written stream alone
        ++ "|" ++ (if tagReorderLayer Gen.ReaderTables.coordinateFixing (writeDoc d) == writeDoc d then "1" else "0")
        ++ "|" ++ showTags (writeDoc d)
  | ["ln", bs] =>
    match (if bs.isEmpty then some [] else (bs.splitOn " ").mapM String.toNat?) with
    | none => "bad-op bytes"
    | some data =>
      let showR := fun (pre : String) (r : Except LErr (List RawTag)) => match r with
        | .ok ts => pre ++ ";".intercalate (ts.map fun t => s!"{t.code},{esc (String.ofList (t.val.map Char.ofNat))}")
        | .error _ => pre ++ "err"
      -- internal_tag_compiler: an odd number of lines is an IndexError there (`C?`) unless a code line fails first
      let chunk := match tagsChunk data with
        | .ok ts => if (readLines (replaceCRLF data)).length % 2 = 1 then "C?" else showR "C" (.ok ts)
        | .error e => showR "C" (.error e)
      showR "T" (tagsText data) ++ "|" ++ showR "B" (tagsBytesLoader data) ++ "|" ++ showR "G" (tagsBinTagger data) ++ "|" ++ chunk
  | ["r12x", hdr, tab, blk, mspT, pspT] =>
    match parseTags hdr, parseTags tab, parseTags blk, parseTags mspT, parseTags pspT with
    | some h, some t, some b, some m, some p =>
      let cfg := mkCfg "-" "-"
      -- the converted entities of the two spaces, linked as the entity linker does
      let d := r12exportDoc h t b (Spec.link cfg (groupTags m)) (Spec.link cfg (groupTags p))
      (if DocOK cfg Gen.ReaderTables.maxGroupCode d then "1" else "0") ++ "|"
        ++ showTags (r12exportFile h t b d.msp d.psp)
    | _, _, _, _, _ => "bad-op r12x"
  | ["xb", ts, npre, obj, wr] =>
    let parse1 := fun (x : String) => match x.splitOn "," with
      | [c, v, f] => c.toNat?.map (fun n => ((⟨n, (unesc v).toList.map Char.toNat⟩ : RawTag), decide (f = "1")))
      | _ => none
    let parse2 := fun (x : String) => match x.splitOn "," with
      | [c, v] => c.toNat?.map (fun n => (⟨n, (unesc v).toList.map Char.toNat⟩ : RawTag))
      | _ => none
    let objP : Option (Option (Nat × Nat)) := if obj = "-" then some none else
      match obj.splitOn "," with
      | [a, b] => (do let x ← a.toNat?; let y ← b.toNat?; pure (some (x, y)))
      | _ => none
    match (if ts.isEmpty then some [] else (ts.splitOn ";").mapM parse1), npre.toNat?, objP,
          (if wr.isEmpty then some [] else (wr.splitOn ";").mapM parse2) with
    | some src, some n, some o, some w => " ".intercalate ((exportBytes src n w o).map toString)
    | _, _, _, _ => "bad-op xb"
  | ["loc", ts] =>
    let parse1 := fun (x : String) => match x.splitOn "," with
      | [c, v, f] => c.toNat?.map (fun n => ((⟨n, (unesc v).toList.map Char.toNat⟩ : RawTag), decide (f = "1")))
      | _ => none
    match (if ts.isEmpty then some [] else (ts.splitOn ";").mapM parse1) with
    | none => "bad-op loc"
    | some raw =>
      -- the locations of the structure tags up to and including EOF (fileindex.load stops there)
      let idx := (List.range raw.length).filter (fun k => match raw[k]? with | some p => p.1.code == 0 | none => false)
      let upto := match idx.find? (fun k => match raw[k]? with | some p => p.1.val == "EOF".toList.map Char.toNat | none => false) with
        | some k => idx.filter (· ≤ k)
        | none => idx
      ",".intercalate (upto.map (fun k => toString (locationOf raw k)))
  | ["gr", msp, psp, ty, base, body, xd] =>
    match parseTags base, parseTags body, parseTags xd with
    | some b, some bo, some x =>
      let cfg := mkCfg msp psp
      let g : GenericRecord := ⟨unesc ty, b, bo, x⟩
      (if genericOK cfg Gen.ReaderTables.maxGroupCode g then "1" else "0") ++ "|"
        ++ (if wEntOK cfg Gen.ReaderTables.maxGroupCode (Ent.single g.group) then "1" else "0") ++ "|" ++ showTags g.group
    | _, _, _ => "bad-op gr"
  | ["ro", ts] =>
    match parseTags ts with
    | none => "bad-op tags"
    | some f => showTags (tagReorderLayer Gen.ReaderTables.coordinateFixing f)
  | ["det", ts] =>
    match parseTags ts with
    | none => "bad-op tags"
    | some f =>
      let tbl := Gen.ReaderTables.codepageTable
      let a := dxfInfo tbl f
      let b := indexInfo tbl f
      s!"{esc a.version},{a.encoding}|{esc b.version},{b.encoding}|{(spInfo tbl f).encoding}|{recoverEnc tbl f}"
  | ["detv", ts] =>
    match parseTags ts with
    | none => "bad-op tags"
    | some f => esc (recoverVersion (mkCfg "-" "-") f)
  | ["bin", bs] =>
    match (bs.splitOn " ").mapM String.toNat? with
    | none => "bad-op bytes"
    | some data =>
      match binScan Gen.ReaderTables.codepageTable Gen.ReaderTables.binScanFull data with
      | none => "err"
      | some i => i.encoding
  | ["jl", js] =>
    let parseJ := fun (x : String) => match x.splitOn "," with
      | ["s", c, v] => c.toNat?.map (fun n => JTag.single n (unesc v))
      | ["v", c, xs] => c.toNat?.map (fun n => JTag.point n (if xs.isEmpty then [] else (xs.splitOn " ").map unesc))
      | _ => none
    match (if js.isEmpty then some [] else (js.splitOn ";").mapM parseJ) with
    | none => "bad-op jtags"
    | some j => showTags (jsonLoad (fun c => Gen.ReaderTables.pointCodes.contains c) j)
  | _ => "bad-op"

def main : IO Unit := Proto.run step

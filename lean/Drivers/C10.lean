/-
Line-protocol driver for C10: the kernels of Gen/Twins{Py,Pyx}.lean (further Vec2/Vec3 kernels, Bezier4P/3P,
construction helpers).  Same protocol as Drivers/C11.lean:
  x|<twin>|<kernel>|<arg>|…                     exact: canonical value
  t|<twin>|<kernel>|<arg>|…|<expected>|<tol>     tolerant: `agree` | `DISAGREE <model value>`
-/
import EzdxfVerif.Model.Rat3
import EzdxfVerif.Gen.TwinsPy
import EzdxfVerif.Gen.TwinsPyx
import EzdxfVerif.Gen.TwinLoopsPy
import EzdxfVerif.Gen.TwinLoopsPyx
import Drivers.Proto
open EzdxfVerif.Rat3 EzdxfVerif.Gen

namespace C10

-- ------------------------------------------------------------------------------------------- parsing / printing
def parseRat (s : String) : Option Rat :=
  match s.splitOn "/" with
  | [p] => (Proto.parseInt p).map fun n => (n : Rat)
  | [p, q] => match Proto.parseInt p, q.toNat? with
    | some n, some d => if d = 0 then none else some ((n : Rat) / (d : Rat))
    | _, _ => none
  | _ => none

def parseRats (s : String) : Option (List Rat) :=
  if s.isEmpty then some [] else (s.splitOn ",").mapM parseRat

def parseV3 (s : String) : Option V3 :=
  match parseRats s with | some [x, y, z] => some ⟨x, y, z⟩ | _ => none
def parseV2 (s : String) : Option V2 :=
  match parseRats s with | some [x, y] => some ⟨x, y⟩ | _ => none
def parseM (s : String) : Option M44 := (parseRats s).bind M44.ofList
def parseBool (s : String) : Option Bool :=
  if s = "T" then some true else if s = "F" then some false else none
def parseList {α} (f : String → Option α) (s : String) : Option (List α) :=
  if s.isEmpty then some [] else (s.splitOn ";").mapM f

def showRat (r : Rat) : String := if r.den = 1 then toString r.num else toString r.num ++ "/" ++ toString r.den
def showRats (l : List Rat) : String := ",".intercalate (l.map showRat)
def v3l (v : V3) : List Rat := [v.x, v.y, v.z]
def v2l (v : V2) : List Rat := [v.x, v.y]
def showErr : PyErr → String
  | .zeroDivision => "ZeroDivisionError" | .typeError => "TypeError" | .valueError => "ValueError"
  | .indexError => "IndexError"
def showB (b : Bool) : String := if b then "T" else "F"

/-- a computed value in canonical flat form -/
inductive Out where
  | ok (vals : List Rat) (tag : String := "")
  | err (e : PyErr)

def Out.show : Out → String
  | .ok vals tag => "ok " ++ tag ++ showRats vals
  | .err e => "err " ++ showErr e

def exV3 : Except PyErr V3 → Out
  | .ok v => .ok (v3l v) | .error e => .err e
def exM : Except PyErr M44 → Out
  | .ok m => .ok m.toList | .error e => .err e

-- ------------------------------------------------------------------------------------------- approximate sqrt
partial def isqrtLoop (n x : Nat) : Nat :=
  let y := (x + n / x) / 2
  if y ≥ x then x else isqrtLoop n y

def isqrt (n : Nat) : Nat := if n = 0 then 0 else isqrtLoop n (2 ^ (n.log2 / 2 + 1))

/-- sqrt(p/q) ≈ isqrt(p·q·4^k) / (q·2^k), k chosen so that the integer root has at least 100 significant bits -/
def sqrtA (a : Rat) : Rat :=
  if a ≤ 0 then 0 else
  let p := a.num.toNat
  let q := a.den
  let bits := (p * q).log2
  let k := if bits < 220 then (220 - bits) / 2 + 1 else 0
  ((isqrt (p * q * 4 ^ k) : Nat) : Rat) / ((q * 2 ^ k : Nat) : Rat)

-- ------------------------------------------------------------------------------------------- tolerance
def absR (a : Rat) : Rat := if a < 0 then -a else a
def maxAbs (l : List Rat) : Rat := l.foldl (fun acc x => if acc < absR x then absR x else acc) 0

def normInf (m : M44) : Rat :=
  let rows := [[m.m0, m.m1, m.m2, m.m3], [m.m4, m.m5, m.m6, m.m7], [m.m8, m.m9, m.m10, m.m11], [m.m12, m.m13, m.m14, m.m15]]
  maxAbs (rows.map fun r => r.foldl (fun acc x => acc + absR x) 0)

def closeLists (tol : Rat → Rat) : List Rat → List Rat → Bool
  | [], [] => true
  | a :: as, b :: bs => decide (absR (a - b) ≤ tol b) && closeLists tol as bs
  | _, _ => false

/-- numeric payload of `expected`; a leading non-numeric tag (e.g. `T;`) is compared exactly -/
def judge (model : Out) (expected : String) (tol : Rat → Rat) : String :=
  match model with
  | .err e => if expected = "err " ++ showErr e then "agree" else "DISAGREE " ++ model.show
  | .ok vals tag =>
    if !expected.startsWith ("ok " ++ tag) then "DISAGREE " ++ model.show else
    match parseRats (expected.drop (3 + tag.length)).toString with
    | some ws => if closeLists tol vals ws then "agree" else "DISAGREE " ++ model.show
    | none => "bad-op expected"


def t4 (p : V3 × V3 × V3 × V3) : List Rat := v3l p.1 ++ v3l p.2.1 ++ v3l p.2.2.1 ++ v3l p.2.2.2
def t3 (p : V3 × V3 × V3) : List Rat := v3l p.1 ++ v3l p.2.1 ++ v3l p.2.2
def t5 (p : V3 × V3 × V3 × V3 × V3) : List Rat := v3l p.1 ++ v3l p.2.1 ++ v3l p.2.2.1 ++ v3l p.2.2.2.1 ++ v3l p.2.2.2.2
def exV2 : Except PyErr V2 → Out
  | .ok v => .ok (v2l v) | .error e => .err e

set_option hygiene false in
local macro "c10_kernels" : command => `(
def run (kernel : String) (a : List String) : Option Out :=
  match kernel, a with
  | "v3bool", [p] => do let p ← parseV3 p; pure (.ok [] (showB (v3bool p)))
  | "v3truediv", [p, k] => do let p ← parseV3 p; let k ← parseRat k; pure (exV3 (v3truediv p k))
  | "v3rmul", [p, k] => do let p ← parseV3 p; let k ← parseRat k; pure (.ok (v3l (v3rmul p k)))
  | "v3radd", [p, q] => do let p ← parseV3 p; let q ← parseV3 q; pure (.ok (v3l (v3radd p q)))
  | "v3xy", [p] => do let p ← parseV3 p; pure (.ok (v3l (v3xy p)))
  | "v3vec2", [p] => do let p ← parseV3 p; pure (.ok (v2l (v3vec2 p)))
  | "v3replaceX", [p, x] => do let p ← parseV3 p; let x ← parseRat x; pure (.ok (v3l (v3replaceX p x)))
  | "v3fromAngle", [l, c, s] => do let l ← parseRat l; let c ← parseRat c; let s ← parseRat s; pure (.ok (v3l (v3fromAngle l c s)))
  | "v3magnitude", [p] => do let p ← parseV3 p; pure (.ok [v3magnitudeS sqrtA p])
  | "v3magnitudeXY", [p] => do let p ← parseV3 p; pure (.ok [v3magnitudeXYS sqrtA p])
  | "v3isParallel", [p, q] => do
      let p ← parseV3 p; let q ← parseV3 q
      match v3isParallelS sqrtA p q with
      | .ok b => pure (.ok [] (showB b))
      | .error e => pure (.err e)
  | "modDistance", [p, q] => do let p ← parseV3 p; let q ← parseV3 q; pure (.ok [modDistanceS sqrtA p q])
  | "modLerp", [p, q, t] => do let p ← parseV3 p; let q ← parseV3 q; let t ← parseRat t; pure (.ok (v3l (modLerp p q t)))
  | "v2bool", [p] => do let p ← parseV2 p; pure (.ok [] (showB (v2bool p)))
  | "v2isnull", [p] => do let p ← parseV2 p; pure (.ok [] (showB (v2isnull p)))
  | "v2truediv", [p, k] => do let p ← parseV2 p; let k ← parseRat k; pure (exV2 (v2truediv p k))
  | "v2rmul", [p, k] => do let p ← parseV2 p; let k ← parseRat k; pure (.ok (v2l (v2rmul p k)))
  | "v2normalize", [p] => do let p ← parseV2 p; pure (exV2 (v2normalizeS sqrtA p))
  | "v2project", [p, q] => do let p ← parseV2 p; let q ← parseV2 q; pure (exV2 (v2projectS sqrtA p q))
  | "v2distance", [p, q] => do let p ← parseV2 p; let q ← parseV2 q; pure (.ok [v2distanceS sqrtA p q])
  | "v2magnitude", [p] => do let p ← parseV2 p; pure (.ok [v2magnitudeS sqrtA p])
  | "v2vec3", [p] => do let p ← parseV2 p; pure (.ok (v3l (v2vec3 p)))
  | "v2fromAngle", [l, c, s] => do let l ← parseRat l; let c ← parseRat c; let s ← parseRat s; pure (.ok (v2l (v2fromAngle l c s)))
  | "bez4Point", [a, b, c, d, t] => do
      let a ← parseV3 a; let b ← parseV3 b; let c ← parseV3 c; let d ← parseV3 d; let t ← parseRat t
      pure (exV3 (bez4Point a b c d t))
  | "bez4Tangent", [a, b, c, d, t] => do
      let a ← parseV3 a; let b ← parseV3 b; let c ← parseV3 c; let d ← parseV3 d; let t ← parseRat t
      pure (exV3 (bez4Tangent a b c d t))
  | "bez4Point2d", [a, b, c, d, t] => do
      let a ← parseV2 a; let b ← parseV2 b; let c ← parseV2 c; let d ← parseV2 d; let t ← parseRat t
      pure (exV3 (bez4Point2d a b c d t))
  | "bez4ControlPoints", [a, b, c, d] => do
      let a ← parseV3 a; let b ← parseV3 b; let c ← parseV3 c; let d ← parseV3 d; pure (.ok (t4 (bez4ControlPoints a b c d)))
  | "bez4Reverse", [a, b, c, d] => do
      let a ← parseV3 a; let b ← parseV3 b; let c ← parseV3 c; let d ← parseV3 d; pure (.ok (t4 (bez4Reverse a b c d)))
  | "bez4Transform", [a, b, c, d, m] => do
      let a ← parseV3 a; let b ← parseV3 b; let c ← parseV3 c; let d ← parseV3 d; let m ← parseM m
      pure (.ok (t4 (bez4Transform a b c d m)))
  | "bez4Approx4", [a, b, c, d] => do
      let a ← parseV3 a; let b ← parseV3 b; let c ← parseV3 c; let d ← parseV3 d; pure (.ok (t5 (bez4Approx4 a b c d)))
  | "bez3Point", [a, b, c, t] => do
      let a ← parseV3 a; let b ← parseV3 b; let c ← parseV3 c; let t ← parseRat t; pure (exV3 (bez3Point a b c t))
  | "bez3Tangent", [a, b, c, t] => do
      let a ← parseV3 a; let b ← parseV3 b; let c ← parseV3 c; let t ← parseRat t; pure (exV3 (bez3Tangent a b c t))
  | "bez3Point2d", [a, b, c, t] => do
      let a ← parseV2 a; let b ← parseV2 b; let c ← parseV2 c; let t ← parseRat t; pure (exV3 (bez3Point2d a b c t))
  | "bez3ControlPoints", [a, b, c] => do
      let a ← parseV3 a; let b ← parseV3 b; let c ← parseV3 c; pure (.ok (t3 (bez3ControlPoints a b c)))
  | "bez3Reverse", [a, b, c] => do
      let a ← parseV3 a; let b ← parseV3 b; let c ← parseV3 c; pure (.ok (t3 (bez3Reverse a b c)))
  | "bez3Transform", [a, b, c, m] => do
      let a ← parseV3 a; let b ← parseV3 b; let c ← parseV3 c; let m ← parseM m; pure (.ok (t3 (bez3Transform a b c m)))
  | "bez3Approx4", [a, b, c] => do
      let a ← parseV3 a; let b ← parseV3 b; let c ← parseV3 c; pure (.ok (t5 (bez3Approx4 a b c)))
  | "lineLine", [a, b, c, d, v, tol] => do
      let a ← parseV2 a; let b ← parseV2 b; let c ← parseV2 c; let d ← parseV2 d; let v ← parseBool v; let tol ← parseRat tol
      match lineLine a b c d v tol with
      | .ok none => pure (.ok [] "none;")
      | .ok (some p) => pure (.ok (v2l p) "some;")
      | .error e => pure (.err e)
  | "clockwise3", [a, b, c] => do
      let a ← parseV2 a; let b ← parseV2 b; let c ← parseV2 c; pure (.ok [] (showB (clockwise3 a b c)))
  | "clockwise4", [a, b, c, d] => do
      let a ← parseV2 a; let b ← parseV2 b; let c ← parseV2 c; let d ← parseV2 d; pure (.ok [] (showB (clockwise4 a b c d)))
  | "rayRay", [a, b, c, d, tol] => do
      let a ← parseV3 a; let b ← parseV3 b; let c ← parseV3 c; let d ← parseV3 d; let tol ← parseRat tol
      match rayRayS sqrtA a b c d tol with
      | .ok l => pure (.ok (l.map v3l).flatten (toString l.length ++ ";"))
      | .error e => pure (.err e)
  | _, _ => none)

namespace Py
open TwinsPy
c10_kernels
end Py

namespace Pyx
open TwinsPyx
c10_kernels
end Pyx


-- ------------------------------------------------------------------------------------------- loops (session 3)
def showInt (i : Int) : String := toString i
def exList : Except PyErr (List Rat) → Out
  | .ok l => .ok l | .error e => .err e
def optOut : Option Out → Out
  | some o => o | none => .ok [] "fuel;"

def parseSeg (s : String) : Option (V3 × V3) :=
  match s.splitOn ">" with
  | [a, b] => do let a ← parseV3 a; let b ← parseV3 b; pure (a, b)
  | _ => none

def showState (st : EzdxfVerif.TwinLoops.LtState) : List Rat := [(st.cur : Rat), st.cdl, if st.isDash then 1 else 0]

/-- several consecutive `line_segment` calls of ONE renderer: "n1,n2,…;" (segments yielded per call) then all end points (the state of the Cython object is not readable from Python) -/
def runSegments (ls : List Rat → Nat → EzdxfVerif.TwinLoops.LtState → V3 → V3 → Rat → Option (Except PyErr (EzdxfVerif.TwinLoops.LtState × List (V3 × V3))))
    (rad : V3 → V3 → Rat) (dashes : List Rat) :
    List (V3 × V3) → EzdxfVerif.TwinLoops.LtState → List Nat → List Rat → Out
  | [], _, counts, vals => .ok vals (",".intercalate (counts.map toString) ++ ";")
  | (a, b) :: rest, st, counts, vals =>
    match ls dashes 1000000 st a b (sqrtA (rad a b)) with
    | none => .ok [] "fuel;"
    | some (.error e) => .err e
    | some (.ok (st', segs)) =>
      runSegments ls rad dashes rest st' (counts ++ [segs.length]) (vals ++ (segs.map fun sg => v3l sg.1 ++ v3l sg.2).flatten)

set_option hygiene false in
local macro "c10_loops" : command => `(
def runLoop (kernel : String) (a : List String) : Option Out :=
  match kernel, a with
  | "findSpan", [knots, order, count, u] => do
      let knots ← parseRats knots; let order ← order.toNat?; let count ← count.toNat?; let u ← parseRat u
      match findSpan knots order count u with
      | some s => pure (.ok [] (showInt s))
      | none => pure (.ok [] "fuel")
  | "basisFuncs", [knots, weights, order, span, u] => do
      let knots ← parseRats knots; let weights ← parseRats weights; let order ← order.toNat?
      let span ← Proto.parseInt span; let u ← parseRat u
      pure (exList (basisFuncs knots weights order span u))
  | "basisVector", [knots, weights, order, count, t] => do
      let knots ← parseRats knots; let weights ← parseRats weights; let order ← order.toNat?; let count ← count.toNat?
      let t ← parseRat t
      pure (optOut ((basisVector knots weights order count t).map exList))
  | "evalPoint", [knots, weights, order, cps, u] => do
      let knots ← parseRats knots; let weights ← parseRats weights; let order ← order.toNat?
      let cps ← parseList parseV3 cps; let u ← parseRat u
      pure (optOut ((evalPoint knots weights order cps u).map exV3))
  | "evalDerivative", [knots, weights, order, cps, u, n, ders] => do
      let knots ← parseRats knots; let weights ← parseRats weights; let order ← order.toNat?
      let cps ← parseList parseV3 cps; let u ← parseRat u; let n ← n.toNat?
      let ders ← parseList parseRats ders
      match evalDerivative EzdxfVerif.TwinLoops.binomPy (fun _ _ _ => .ok ders) knots weights order cps u n with
      | none => pure (.ok [] "fuel;")
      | some (.error e) => pure (.err e)
      | some (.ok vs) => pure (.ok (vs.map v3l).flatten (toString vs.length ++ ";"))
  | "basisDers", [knots, order, span, u, n] => do
      let knots ← parseRats knots; let order ← order.toNat?; let span ← Proto.parseInt span; let u ← parseRat u; let n ← n.toNat?
      match basisFuncsDerivatives knots order span u n with
      | .error e => pure (.err e)
      | .ok rows => pure (.ok rows.flatten (toString rows.length ++ ";"))
  | "evalDerivativeFull", [knots, weights, order, cps, u, n] => do
      let knots ← parseRats knots; let weights ← parseRats weights; let order ← order.toNat?
      let cps ← parseList parseV3 cps; let u ← parseRat u; let n ← n.toNat?
      match evalDerivative EzdxfVerif.TwinLoops.binomPy (basisFuncsDerivatives knots order) knots weights order cps u n with
      | none => pure (.ok [] "fuel;")
      | some (.error e) => pure (.err e)
      | some (.ok vs) => pure (.ok (vs.map v3l).flatten (toString vs.length ++ ";"))
  | "arcParameters", [startA, endA, segments, pi, tanv, table] => do
      -- ceil is exact; tan / cos / sin are the values the implementation's libm returned (tan: one value, cos/sin: table keyed by the exact angle)
      let startA ← parseRat startA; let endA ← parseRat endA; let segments ← parseRat segments; let pi ← parseRat pi; let tanv ← parseRat tanv
      let tab ← parseList (fun e => match e.splitOn ":" with
        | [a, c, s] => do let a ← parseRat a; let c ← parseRat c; let s ← parseRat s; pure (a, c, s)
        | _ => none) table
      let look := fun (a : Rat) => (tab.find? (fun e => e.1 = a)).map (·.2)
      let cosF := fun a => ((look a).map (·.1)).getD 0
      let sinF := fun a => ((look a).map (·.2)).getD 0
      let ceilF := fun (q : Rat) => ((-((-q.num) / (q.den : Int)) : Int) : Rat)
      match arcParameters ceilF (fun _ => tanv) cosF sinF pi startA endA segments with
      | .error e => pure (.err e)
      | .ok l => pure (.ok (l.map fun q => v3l q.1 ++ v3l q.2.1 ++ v3l q.2.2.1 ++ v3l q.2.2.2).flatten (toString l.length ++ ";"))
  | "pointInPolygon", [pt, poly, tol] => do
      let pt ← parseV2 pt; let poly ← parseList parseV2 poly; let tol ← parseRat tol
      match pointInPolygon pt poly tol with
      | .ok r => pure (.ok [] (showInt r))
      | .error e => pure (.err e)
  | "approximate4", [a, b, c, d, n] => do
      let a ← parseV3 a; let b ← parseV3 b; let c ← parseV3 c; let d ← parseV3 d; let n ← parseRat n
      match approximate4 a b c d n with
      | .ok l => pure (.ok (l.map v3l).flatten (toString l.length ++ ";"))
      | .error e => pure (.err e)
  | "approximate3", [a, b, c, n] => do
      let a ← parseV3 a; let b ← parseV3 b; let c ← parseV3 c; let n ← parseRat n
      match approximate3 a b c n with
      | .ok l => pure (.ok (l.map v3l).flatten (toString l.length ++ ";"))
      | .error e => pure (.err e)
  | "approxLength4", [a, b, c, d, n] => do
      let a ← parseV3 a; let b ← parseV3 b; let c ← parseV3 c; let d ← parseV3 d; let n ← parseRat n
      match approximatedLength4 sqrtA a b c d n with
      | .ok l => pure (.ok [l])
      | .error e => pure (.err e)
  | "spanDeg", [st, en, sm, em] => do
      let st ← parseRat st; let en ← parseRat en; let sm ← parseRat sm; let em ← parseRat em
      pure (.ok [spanDeg st en sm em])
  | "spanRad", [st, en, sm, em, tau] => do
      let st ← parseRat st; let en ← parseRat en; let sm ← parseRat sm; let em ← parseRat em; let tau ← parseRat tau
      pure (.ok [spanRad st en sm em tau])
  | "luSolve", [rows, b, m1, m2] => do
      let A ← parseList parseRats rows; let b ← parseRats b; let m1 ← m1.toNat?; let m2 ← m2.toNat?
      match luDecompose A m1 m2 with
      | .error e => pure (.err e)
      | .ok st =>
        match svSolve b st.upper st.lower st.index m1 m2 with
        | .error e => pure (.err e)
        | .ok x => pure (.ok (st.upper.flatten ++ st.lower.flatten ++ x) (",".intercalate (st.index.map toString) ++ ";"))
  | "lineSegments", [dashes, segs] => do
      let dashes ← parseRats dashes; let segs ← parseList parseSeg segs
      pure (runSegments lineSegment lsLength_rad1 dashes segs (EzdxfVerif.TwinLoops.ltInit dashes) [] [])
  | "clockwise", [pts] => do
      let pts ← parseList parseV2 pts
      match clockwise pts with
      | .ok b => pure (.ok [] (showB b))
      | .error e => pure (.err e)
  | _, _ => none)

namespace Py
open TwinLoopsPy
c10_loops
end Py

namespace Pyx
open TwinLoopsPyx
c10_loops
end Pyx

def runNp (a : List String) : Option Out :=
  match a with
  | [pts] => do
      let pts ← parseList parseV2 pts
      match TwinLoopsPyx.clockwiseNp pts with
      | .ok b => pure (.ok [] (showB b))
      | .error e => pure (.err e)
  | _ => none

def runTwin (twin kernel : String) (a : List String) : Option Out :=
  if kernel = "clockwiseNp" then runNp a else
  if twin = "py" then (Py.run kernel a).orElse (fun _ => Py.runLoop kernel a)
  else if twin = "pyx" then (Pyx.run kernel a).orElse (fun _ => Pyx.runLoop kernel a) else none

def parseTol (s : String) : Option (Rat → Rat) :=
  match s.splitOn ":" with
  | ["abs", r] => do let r ← parseRat r; pure fun _ => r
  | ["rel", r, fl] => do
      let r ← parseRat r; let fl ← parseRat fl
      pure fun w => r * (if absR w < fl then fl else absR w)
  | _ => none

def step (line : String) : String :=
  match line.splitOn "|" with
  | "x" :: twin :: kernel :: args =>
    match runTwin twin kernel args with
    | some o => o.show
    | none => "bad-op"
  | "t" :: twin :: kernel :: rest =>
    if rest.length < 2 then "bad-op" else
    let args := rest.take (rest.length - 2)
    let expected := rest[rest.length - 2]!
    match parseTol rest[rest.length - 1]!, runTwin twin kernel args with
    | some tol, some o => judge o expected tol
    | _, _ => "bad-op"
  | _ => "bad-op"

end C10

def main : IO Unit := Proto.run C10.step

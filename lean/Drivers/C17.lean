import EzdxfVerif.Model.Xref
import EzdxfVerif.Model.XrefOv
import EzdxfVerif.Gen.XrefTables
import Drivers.Proto
open EzdxfVerif EzdxfVerif.Xref EzdxfVerif.Gen Proto

/-! line protocol of C17 (strings = space separated code points, lists `;` separated, pairs `>` or `:`) -/

def pStr (s : String) : Option Str := parseNats s
def sStr (s : Str) : String := showNats s

def splitNE (s : String) (sep : String) : List String := if s.isEmpty then [] else s.splitOn sep

def pSigma (s : String) : Option (List (Str × Str)) :=
  (splitNE s ";").mapM fun kv => match kv.splitOn ">" with
    | [k, v] => do let a ← pStr k; let b ← pStr v; pure (a, b)
    | _ => none

def pTags (s : String) : Option (List Tag) :=
  (splitNE s ";").mapM fun cv => match cv.splitOn ":" with
    | [c, v] => do let a ← c.toNat?; let b ← pStr v; pure ⟨a, b⟩
    | _ => none

def sTags (ts : List Tag) : String := ";".intercalate (ts.map fun t => toString t.code ++ ":" ++ sStr t.val)

def lookupFn (σ : List (Str × Str)) : Str → Option Str := fun h => (σ.find? (fun e => e.1 = h)).map (·.2)

def pStrs (s : String) : Option (List Str) := (splitNE s ";").mapM pStr

def pPolicy : String → Option Policy
  | "KEEP" => some .keep | "XREF_PREFIX" => some .xrefPrefix | "NUM_PREFIX" => some .numPrefix | _ => none

def pEntries (s : String) : Option (List (Str × Nat)) :=
  (splitNE s ";").mapM fun kv => match kv.splitOn ":" with
    | [k, v] => do let a ← pStr k; let b ← v.toNat?; pure (a, b)
    | _ => none

def sDecision : Decision → String
  | .useExisting h => "U" ++ toString h
  | .add n => "A" ++ sStr n
  | .error => "E"

/-- the collection variant of `registerAll` (dictionary keys keep their case) -/
def registerColl (pol : Policy) (xref : Str) (system : List Str) : Coll → List (Str × Nat) → List Decision × Coll
  | c, [] => ([], c)
  | c, (name, h) :: rest =>
    match addCollectionEntry pol xref c system name with
    | .add n => let r := registerColl pol xref system (c ++ [(n, h)]) rest; (.add n :: r.1, r.2)
    | d => let r := registerColl pol xref system c rest; (d :: r.1, r.2)

def pKind : String → Option Kind
  | "g" => some .graphic | "t" => some .tableEntry | "o" => some .object | "r" => some .blockRecord
  | "b" => some .block | "e" => some .endblk | _ => none

def optH (n : Nat) : Option Nat := if n = 0 then none else some n

def pNode (s : String) : Option Node :=
  match s.splitOn "," with
  | [h, k, o, ps, b, e, c] => do
    let h ← h.toNat?; let k ← pKind k; let o ← o.toNat?; let ps ← parseNats ps
    let b ← b.toNat?; let e ← e.toNat?; let c ← parseNats c
    pure { handle := h, kind := k, owner := o, ptrs := ps, block := optH b, endblk := optH e, content := c }
  | _ => none

def pNodes (s : String) : Option Db := (splitNE s ";").mapM pNode

def pPairs (s : String) : Option Sigma :=
  (splitNE s ";").mapM fun kv => match kv.splitOn ">" with
    | [k, v] => do let a ← k.toNat?; let b ← v.toNat?; pure (a, b)
    | _ => none

def copyrefMark : Nat := 4294967295
def attrName (a : Nat) : String := (XrefOverrides.attrNames[a]?).getD "?"
def attrId (n : String) : Option Nat := let i := XrefOverrides.attrNames.idxOf n; if i < XrefOverrides.attrNames.length then some i else none

def pAttrNats (s : String) : Option (List (Nat × Nat)) :=
  (splitNE s ";").mapM fun kv => match kv.splitOn "=" with
    | [k, v] => do let a ← attrId k; let b ← v.toNat?; pure (a, b)
    | _ => none

def pAttrStrs (s : String) : Option (List (Nat × Str)) :=
  (splitNE s ";").mapM fun kv => match kv.splitOn "=" with
    | [k, v] => do let a ← attrId k; let b ← pStr v; pure (a, b)
    | _ => none

def pNameMaps (s : String) : Option (List (Nat × Str × Str)) :=
  (splitNE s ";").mapM fun kv => match kv.splitOn ":" with
    | [k, ov] => match ov.splitOn ">" with
      | [o, n] => do let a ← k.toNat?; let b ← pStr o; let c ← pStr n; pure (a, b, c)
      | _ => none
    | _ => none

def pRegs (s : String) : Option (List (Nat × Reg)) :=
  (splitNE s ";").mapM fun kv => match kv.splitOn ":" with
    | [k, "A"] => do let a ← k.toNat?; pure (a, Reg.addNew)
    | [k, v] => if v.startsWith "K" then do let a ← k.toNat?; let b ← (v.drop 1).toNat?; pure (a, Reg.keepExisting b) else none
    | _ => none

def sNode (n : Node) : String :=
  toString n.handle ++ "," ++ showNats n.ptrs ++ "," ++ toString (n.block.getD 0) ++ "," ++ toString (n.endblk.getD 0)
    ++ "," ++ showNats n.content

def sErr : Err → String
  | .attributeError => "AttributeError" | .internalError => "InternalError"

def lexLt : List Nat → List Nat → Bool
  | [], [] => false
  | [], _ :: _ => true
  | _ :: _, [] => false
  | a :: r, b :: t => a < b || (a == b && lexLt r t)

def insertSorted (x : List Nat) : List (List Nat) → List (List Nat)
  | [] => [x]
  | y :: r => if x = y then y :: r else if lexLt x y then x :: y :: r else y :: insertSorted x r

def sortDedup (l : List (List Nat)) : List (List Nat) := l.foldl (fun acc x => insertSorted x acc) []

def pBool : String → Option Bool
  | "1" => some true | "0" => some false | _ => none

def step (line : String) : String :=
  match line.splitOn "|" with
  | ["mp", owner, db, sig, tags] =>
    match pStr owner, pStrs db, pSigma sig, pTags tags with
    | some o, some db, some σ, some ts =>
      sTags (mapPointers (lookupFn σ) ts) ++ "|" ++
        ";".intercalate ((sortDedup (ownerUpdates (lookupFn σ) (fun h => db.contains h) o ts)).map sStr)
    | _, _, _, _ => "bad-op"
  | ["mx", sig, lay, tags] =>
    match pSigma sig, pSigma lay, pTags tags with
    | some σ, some l, some ts => sTags (mapXdata (lookupFn σ) (fun n => ((lookupFn l) n).getD n) ts)
    | _, _, _ => "bad-op"
  | ["mr", sig, rs] =>
    match pSigma sig, pStrs rs with
    | some σ, some rs => match mapReactors (lookupFn σ) rs with
      | none => "none"
      | some m => "set " ++ ";".intercalate ((sortDedup m).map sStr)   -- Reactors stores a set
    | _, _ => "bad-op"
  | ["me", sig, present, h, opt] =>
    match pSigma sig, pStr h, pBool opt, pBool present with
    | some σ, some h, some o, some pr =>
      match mapExistingHandle (lookupFn σ) (if pr then some h else none) o with
      | .untouched => "untouched" | .discarded => "discarded" | .set n => "set " ++ sStr n
    | _, _, _, _ => "bad-op"
  | ["un", name, xref, keys] =>
    match pStr name, pStr xref, pStrs keys with
    | some n, some x, some ks => sStr (getUniqueTableName n x ks)
    | _, _, _ => "bad-op"
  | ["ud", name, xref, keys] =>
    match pStr name, pStr xref, pStrs keys with
    | some n, some x, some ks => sStr (getUniqueDictKey n x ks)
    | _, _, _ => "bad-op"
  | ["pol", kind, pol, xref, table, names] =>
    match pPolicy pol, pStr xref, pEntries table, pEntries names with
    | some p, some x, some t, some ns =>
      let fin (r : List Decision × List (Str × Nat)) : String :=
        if r.1.contains .error then "RAISE DXFValueError" else
        ";".intercalate (r.1.map sDecision) ++ "|" ++ ";".intercalate (r.2.map fun e => sStr e.1)
      match kind with
      | "layer" => fin (registerAll (addLayerEntry p x) t ns)
      | "ltype" => fin (registerAll (addLinetypeEntry p x) t ns)
      | "table" => fin (registerAll (addTableEntry p x) t ns)
      | "block" => fin (registerAll (fun t n => addBlockRecordEntry p x t (fun c => [42, c, 63]) n) t ns)
      | "material" => fin (registerColl p x XrefTables.materialSystemEntries t ns)
      | "standard" => fin (registerColl p x [XrefTables.standardName] t ns)
      | _ => "bad-op"
    | _, _, _, _ => "bad-op"
  | ["sr", pol, xref, keys, decs] =>
    -- the specification checker on the decisions the REAL code took: decs = name:U<handle> | name:A<new name> | name:E ; …
    let pDec (s : String) : Option Decision :=
      if s == "E" then some .error
      else if s.startsWith "U" then (s.drop 1).toNat?.map .useExisting
      else if s.startsWith "A" then (pStr (String.ofList (s.toList.drop 1))).map .add else none
    let pairs := (splitNE decs ";").mapM fun kv => match kv.splitOn ":" with
      | [n, d] => do let a ← pStr n; let b ← pDec d; pure (a, b)
      | _ => none
    match pPolicy pol, pStr xref, pStrs keys, pairs with
    | some p, some x, some ks, some nd =>
      if specRunB p x ks (nd.map fun e => (e.1, 0)) (nd.map (·.2)) then "ok" else "violates"
    | _, _, _, _ => "bad-op"
  | ["wf", src, tgt, sig] =>
    -- the allocation of the REAL CopyMachine: is it well-formed, and does it meet the assumptions of `copy_machine_wf`
    -- (seed = one above the largest handle of the target before the transfer)
    match pNodes src, pNodes tgt, pPairs sig with
    | some s, some t, some σ =>
      let seed := (t.map (·.handle)).foldl max 0 + 1
      (if wfB ⟨s, t⟩ σ then "wf" else "NOT-wf") ++ " " ++ (if allocOkB ⟨s, t⟩ σ seed then "alloc-ok" else "alloc-NOT-ok")
    | _, _, _ => "bad-op"
  | ["tr", src, tgt, sig, regs, placed] =>
    match pNodes src, pNodes tgt, pPairs sig, pRegs regs, parseNats placed with
    | some s, some t, some σ, some rs, some pl =>
      match transferCurrent ⟨s, t⟩ σ rs pl with
      | .error e => "err " ++ sErr e
      | .ok (d, σ') =>
        let new := d.tgt.filter fun n => σ.range.contains n.handle
        -- owner of a copy, when it is the copy of a block record (restore_block_content) and no loading command placed the copy
        let own := fun (n : Node) => if σ.range.contains n.owner && !pl.contains n.handle then n.owner else 0
        "ok " ++ ";".intercalate (new.map fun n => sNode n ++ "," ++ toString (own n)) ++ "|" ++
          ";".intercalate (σ'.map fun e => toString e.1 ++ ">" ++ toString e.2) ++ "|" ++
          (if d.src = s then "src-same" else "src-changed")
    | _, _, _, _, _ => "bad-op"
  | ["ov", cls, sig, attrs] =>
    -- the map_resources chain of entity type `cls` on the handle attributes of one entity: attrs = name=handle;… (absent: not listed)
    match XrefOv.rows.find? (·.cls = cls), pPairs sig, pAttrNats attrs with
    | some r, some σ, some av =>
      let src : XrefOv.Attrs := fun a => (av.find? (·.1 = a)).map (·.2)
      let res := XrefOv.mapAttrs (fun _ => true) σ (fun _ => copyrefMark) r.maps src
      -- an attribute a statement under an undecided test touches cannot be predicted: "T" (matches anything)
      let isUnk := fun (c : XrefOv.Cond) => match c with | .unk _ _ => true | _ => false
      let undecided := fun (a : Nat) => r.maps.any fun e => e.attr == a && isUnk e.cond
      ";".intercalate (r.ptrAttrs.map fun a =>
        attrName a ++ "=" ++ (if undecided a then "T" else match res a with | none => "0" | some v => if v = copyrefMark then "T" else toString v))
    | _, _, _ => "bad-op"
  | ["on", cls, maps, attrs] =>
    -- … on the resource-name attributes: maps = kind:old>new;… (old = case-folded key), attrs = name=<code points>;…
    match XrefOv.rows.find? (·.cls = cls), pNameMaps maps, pAttrStrs attrs with
    | some r, some ms, some av =>
      let src : XrefOv.Names := fun a => (av.find? (·.1 = a)).map (·.2)
      let nm := fun (k : Nat) (s : Str) => match ms.find? (fun m => m.1 = k ∧ m.2.1 = lower s) with | some m => m.2.2 | none => s
      let res := XrefOv.mapNames nm (fun _ => [84]) r.maps src
      ";".intercalate (r.nameAttrs.map fun (a, _) => attrName a ++ "=" ++ (match res a with | none => "-" | some v => sStr v))
    | _, _, _ => "bad-op"
  | ["or", cls, hattrs, nattrs] =>
    -- what the register_resources chain of entity type `cls` hands to the registry for one entity: the (kind, value) pairs of the
    -- statements about DXF attributes, values of absent attributes and null handles left out, sorted
    match XrefOv.rows.find? (·.cls = cls), pAttrNats hattrs, pAttrStrs nattrs with
    | some r, some hv, some nv =>
      let items := r.regs.filterMap fun g =>
        match nv.find? (·.1 = g.1), hv.find? (·.1 = g.1) with
        | some x, _ => some (toString g.2 ++ ":" ++ sStr (lower x.2))     -- names are table keys: case-folded
        | none, some x => if x.2 = 0 then none else some (toString g.2 ++ ":" ++ toString x.2)
        | none, none => none
      ";".intercalate (items.toArray.qsort (· < ·)).toList
    | _, _, _ => "bad-op"
  | _ => "bad-op"

def main : IO Unit := Proto.run step

import EzdxfVerif.Model.Text
import EzdxfVerif.Gen.TextTables
import Drivers.Proto
open EzdxfVerif EzdxfVerif.Text Proto

def sp : Special := Gen.TextTables.special
def kou : Char → Bool := Gen.TextTables.kou

def showErr : PyErr → String
  | .typeError => "TypeError" | .valueError => "ValueError" | .indexError => "IndexError"

def showTok : Token → String
  | .word s => "W:" ++ showCps s
  | .stack u l t => "K:" ++ showCps u ++ "/" ++ showCps l ++ "/" ++ showCps t
  | .space => "SP" | .nbsp => "NB" | .tab => "TAB" | .newParagraph => "NP"
  | .newColumn => "NC" | .wrapAtDimline => "WD"

def step (line : String) : String :=
  match line.splitOn "|" with
  | ["caret", s] => match parseCps s with
    | some t => showCps (caretDecode t) | none => "bad-op"
  | ["split", n, s] => match n.toNat?, parseCps s with
    | some size, some t =>
      if h : 2 ≤ size then ";".intercalate ((splitMText size h t).map showCps) else "bad-op size"
    | _, _ => "bad-op"
  | ["fast", s] => match parseCps s with
    | some t => showCps (fastPlainMText sp t) | none => "bad-op"
  | ["ptext", s] => match parseCps s with
    | some t => showCps (plainText sp kou t) | none => "bad-op"
  | ["tokens", s] => match parseCps s with
    | some t => match parse sp t with
      | .ok ts => "ok " ++ ";".intercalate (ts.map showTok)
      | .error e => "err " ++ showErr e
    | none => "bad-op"
  | ["plain", s] => match parseCps s with
    | some t => match plainMText sp t with
      | .ok ls => "ok " ++ ";".intercalate (ls.map showCps)
      | .error e => "err " ++ showErr e
    | none => "bad-op"
  | _ => "bad-op"

def main : IO Unit := Proto.run step

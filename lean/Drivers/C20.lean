import EzdxfVerif.Model.Text
import EzdxfVerif.Model.TextCtx
import EzdxfVerif.Gen.TextTables
import Drivers.Proto
open EzdxfVerif EzdxfVerif.Text Proto

def sp : Special := Gen.TextTables.special
def kou : Char → Bool := Gen.TextTables.kou

def showErr : PyErr → String
  | .typeError => "TypeError" | .valueError => "ValueError" | .indexError => "IndexError"

def showTok : Token → String
  | .word s => "W:" ++ showCps s
  | .stack u l t => "K:" ++ showCps u ++ "/" ++ showCps l ++ "/" ++ showCps t
  | .space => "SP" | .nbsp => "NB" | .tab => "TAB" | .newParagraph => "NP"
  | .newColumn => "NC" | .wrapAtDimline => "WD"
  | .props s => "P:" ++ showCps s

def parseOp (s : String) : Option EdOp :=
  match s.splitOn ":" with
  | name :: args =>
    match args.mapM parseCps with
    | none => none
    | some a =>
      match name, a with
      | "append", [w] => some (.append w)
      | "font", [n, [b], [i]] => some (.font n (b = '1') (i = '1'))
      | "scale_height", [f] => some (.scaleHeight f)
      | "height", [f] => some (.height f)
      | "width_factor", [f] => some (.widthFactor f)
      | "char_tracking_factor", [f] => some (.charTrackingFactor f)
      | "oblique", [f] => some (.oblique f)
      | "aci", [ds] => some (.aci ds)
      | "rgb", [ds] => some (.rgb ds)
      | "stack", [u, l, [t]] => some (.stack u l t)
      | "group", [w] => some (.group w)
      | "underline", [w] => some (.underline w)
      | "overline", [w] => some (.overline w)
      | "strike_through", [w] => some (.strikeThrough w)
      | "paragraph_none", [] => some (.paragraph none)
      | "paragraph", [a] => some (.paragraph (some a))
      | "newpar", [] => some .newParagraph
      | "align", [[c]] => some (.align c)
      | "const", [[d]] => some (.const d)
      | "group_start", [] => some .groupStart
      | "group_end", [] => some .groupEnd
      | _, _ => none
  | [] => none

/-- rows of a bullet list: `b=c` pairs separated by "," -/
def parseRows (s : String) : Option (List (Str × Str)) :=
  if s.isEmpty then some [] else
  (s.splitOn ",").mapM (fun p => match p.splitOn "=" with
    | [b, c] => match parseCps b, parseCps c with
      | some b, some c => some (b, c) | _, _ => none
    | _ => none)

def parseXOp (s : String) : Option XOp :=
  match s.splitOn ":" with
  | ["tab"] => some .tab
  | ["nbsp"] => some .nbsp
  | ["newcol"] => some .newColumn
  | ["bullets", a, rows] =>
    match (if a = "-" then some none else (parseCps a).map some), parseRows rows with
    | some a, some rows => some (.bulletList a rows)
    | _, _ => none
  | _ => (parseOp s).map .op

def optCps (s : String) : Option (Option Str) :=
  if s = "-" then some none else (parseCps s).map some

def parseTab (s : String) : Option Tab :=
  match s.splitOn "=" with
  | ["L", f] => (parseCps f).map Tab.left
  | ["C", f] => (parseCps f).map Tab.center
  | ["R", f] => (parseCps f).map Tab.right
  | _ => none

def showOpt (o : Option Str) : String := match o with | none => "-" | some f => showCps f

def showTab : Tab → String
  | .left f => "L=" ++ showCps f | .center f => "C=" ++ showCps f | .right f => "R=" ++ showCps f

def showPara (p : ParaProps) : String :=
  showOpt p.indent ++ ";" ++ showOpt p.left ++ ";" ++ showOpt p.right ++ ";" ++
  (match p.align with | none => "-" | some c => toString c.toNat) ++ ";" ++ "/".intercalate (p.tabs.map showTab)

def svalOps : SVal → List (Bool × Str)
  | .init => []
  | .abs f => [(false, f)]
  | .mul v f => svalOps v ++ [(true, f)]

def showSVal (v : SVal) : String :=
  "+".intercalate ((svalOps v).map (fun p => (if p.1 then "M " else "A ") ++ showCps p.2))

def showBool (b : Bool) : String := if b then "1" else "0"

def showCtx (c : Ctx) : String :=
  ",".intercalate [showBool c.underline, showBool c.overline, showBool c.strike, showBool c.continueStroke, toString c.aci,
    (match c.rgb with | none => "-" | some v => toString v), toString c.align,
    (match c.font with | none => "-" | some (n, i, b) => showCps n ++ "/" ++ showBool i ++ "/" ++ showBool b),
    showSVal c.capHeight, showSVal c.widthFactor, showSVal c.charTracking, showOpt c.oblique, showPara c.paragraph]

def step (line : String) : String :=
  match line.splitOn "|" with
  | ["caret", s] => match parseCps s with
    | some t => showCps (caretDecode t) | none => "bad-op"
  | ["split", n, s] => match n.toNat?, parseCps s with
    | some size, some t =>
      match splitMTextE size t with
      | .ok chunks => ";".intercalate (chunks.map showCps)
      | .error e => "err " ++ showErr e
    | _, _ => "bad-op"
  | ["editor", s] =>
    match (if s.isEmpty then some [] else (s.splitOn "/").mapM parseOp) with
    | some ops =>
      showCps (editorText ops) ++ "|" ++ showCps (editorWords ops) ++ "|" ++ (if ops.all EdOp.wf then "1" else "0")
    | none => "bad-op"
  | ["escape", s] => match parseCps s with
    | some t => showCps (escapeLineEndings t) | none => "bad-op"
  | ["fix1", s] => match parseCps s with
    | some t => showCps (fixOneLine t) ++ "|" ++ (if isValidOneLine t then "1" else "0") | none => "bad-op"
  | ["safe", n, s] => match n.toNat?, parseCps s with
    | some k, some t => showCps (safeString t k) | _, _ => "bad-op"
  | ["ptostr", i, l, r, a, ts] =>
    match optCps i, optCps l, optCps r, optCps a, (if ts.isEmpty then some [] else (ts.splitOn "/").mapM parseTab) with
    | some i, some l, some r, some a, some ts =>
      let p : ParaProps := { indent := i, left := l, right := r, align := a.bind List.head?, tabs := ts }
      showOpt p.toArgs
    | _, _, _, _, _ => "bad-op"
  | ["pparse", s] => match parseCps s with
    | some t => showPara (paraParse t) | none => "bad-op"
  | ["xeditor", s] =>
    match (if s.isEmpty then some [] else (s.splitOn "/").mapM parseXOp) with
    | some ops =>
      showCps (xEditorText ops) ++ "|" ++ showCps (xEditorWordsSlow ops) ++ "|" ++
        (if ops.all XOp.fastOk then showCps (xEditorWordsFast ops) else "-") ++ "|" ++ (if ops.all XOp.wf then "1" else "0")
    | none => "bad-op"
  | ["xtokens", s] =>
    match (if s.isEmpty then some [] else (s.splitOn "/").mapM parseXOp) with
    | some ops => ";".intercalate ((xEditorTokens ops).map showTok) ++ "|" ++ (if ops.all XOp.wfT then "1" else "0")
    | none => "bad-op"
  | ["lines", s] => match parseCps s with
    | some t =>
      let items := slowItems sp (caretDecode t)
      ";".intercalate ((splitNone items).map showCps) ++ "|" ++ (if items.all (· != some '\n') then "1" else "0")
    | none => "bad-op"
  | ["ctx", s] => match parseCps s with
    | some t => match parseC sp t with
      | .ok ts => "ok " ++ "#".intercalate (ts.map (fun p => showTok p.1 ++ "@" ++ showCtx p.2))
      | .error e => "err " ++ showErr e
    | none => "bad-op"
  | ["xctokens", s] =>
    match (if s.isEmpty then some [] else (s.splitOn "/").mapM parseXOp) with
    | some ops => "ok " ++ "#".intercalate ((xEditorCTokens ops).map (fun p => showTok p.1 ++ "@" ++ showCtx p.2))
    | none => "bad-op"
  | ["slow", s] => match parseCps s with
    | some t => showCps (slowLoop sp (caretDecode t)) | none => "bad-op"
  | ["export", s] => match parseCps s with
    | some t =>
      let tags := exportMTextContent t
      ";".intercalate (tags.map (fun p => toString p.1 ++ ":" ++ showCps p.2)) ++ "|" ++ showCps (loadMTextContent tags)
    | none => "bad-op"
  | ["wrap", f, s] => match parseCps s with
    | some t =>
      let fast := f = "1"
      let showE (r : Except PyErr String) : String := match r with | .ok x => x | .error e => "err " ++ showErr e
      showE ((mtextPlainText sp fast t).map showCps) ++ "|" ++
        showE ((mtextPlainLines sp fast t).map (fun ls => ";".intercalate (ls.map showCps))) ++ "|" ++
        showCps (allColumnsPlainText sp t) ++ "|" ++ ";".intercalate ((allColumnsPlainLines sp false t).map showCps) ++ "|" ++
        ";".intercalate ((allColumnsPlainLines sp true t).map showCps)
    | none => "bad-op"
  | ["scale", s] => match parseCps s with
    | some t => ";".intercalate ((scaleSegs t).map (fun g => match g with
        | .text x => "T:" ++ showCps x | .scaled n => "S:" ++ showCps n))
    | none => "bad-op"
  | ["nodc", s] => match parseCps s with
    | some t => if noDoubleCaret t then "1" else "0"
    | none => "bad-op"
  | ["argfree", s] => match parseCps s with
    | some t =>
      let d := caretDecode t
      if argFree d then (if argFreeAgree d then "in 1" else "in 0") else "out"
    | none => "bad-op"
  | ["agree", s] => match parseCps s with
    | some t => if agreeClass sp (caretDecode t) then "1" else "0"
    | none => "bad-op"
  | ["fast", s] => match parseCps s with
    | some t => showCps (fastPlainMText sp t) | none => "bad-op"
  | ["ptext", s] => match parseCps s with
    | some t => showCps (plainText sp kou t) | none => "bad-op"
  | ["tokens", s] => match parseCps s with
    | some t => match parse sp t with
      | .ok ts => "ok " ++ ";".intercalate (ts.map showTok)
      | .error e => "err " ++ showErr e
    | none => "bad-op"
  | ["tokensY", s] => match parseCps s with
    | some t => match parseY sp t with
      | .ok ts => "ok " ++ ";".intercalate (ts.map showTok)
      | .error e => "err " ++ showErr e
    | none => "bad-op"
  | ["plain", s] => match parseCps s with
    | some t => match plainMText sp t with
      | .ok ls => "ok " ++ ";".intercalate (ls.map showCps)
      | .error e => "err " ++ showErr e
    | none => "bad-op"
  | _ => "bad-op"

def main : IO Unit := Proto.run step

import EzdxfVerif.Model.Codec
import EzdxfVerif.Model.XTags
import Drivers.Proto
open EzdxfVerif EzdxfVerif.Codec Proto

def showErr : PyErr → String
  | .overflowError => "OverflowError" | .indexError => "IndexError" | .valueError => "ValueError"
  | .structError => "structError" | .dxfStructureError => "dxfStructureError"

def parseVal (s : String) : Option Val :=
  let body : String := (s.drop 1).toString
  if s.startsWith "i" then (Proto.parseInt body).map Val.int
  else if s.startsWith "d" then body.toNat?.map Val.dbl
  else if s.startsWith "b" then (parseNats body).map Val.bin
  else if s.startsWith "s" then (parseNats body).map Val.str
  else none

def showVal : Val → String
  | .int v => "i" ++ toString v
  | .dbl b => "d" ++ toString b
  | .bin d => "b" ++ showNats d
  | .str s => "s" ++ showNats s

def parseTag (s : String) : Option BTag :=
  match s.splitOn ":" with
  | [c, v] => do let code ← c.toNat?; let val ← parseVal v; some ⟨code, val⟩
  | _ => none

def pyShowInt (v : Int) : String := toString v

open EzdxfVerif.XTags in
def parseXTag (s : String) : Option XTags.Tag :=
  match s.splitOn ":" with
  | [c, v] => do let code ← c.toNat?; let val ← parseNats v; some ⟨code, .str val⟩
  | _ => none

open EzdxfVerif.XTags in
def showXTag (t : XTags.Tag) : String :=
  toString t.code ++ ":" ++ (match t.val with | .str s => showNats s | .ref n => "ref" ++ toString n)

def step (line : String) : String :=
  match line.splitOn "|" with
  | ["enc", r, t] =>
    match parseTag t with
    | some tag => (match encTag (r == "1") tag with
      | .ok bs => "ok " ++ showNats bs
      | .error e => "err " ++ showErr e)
    | none => "bad-op"
  | ["dec", r, b] =>
    match parseNats b with
    | some bs => (match decAll (r == "1") (bs.length + 1) bs with
      | .ok ts => "ok " ++ ";".intercalate (ts.map fun t => toString t.code ++ ":" ++ showVal t.val)
      | .error e => "err " ++ showErr e)
    | none => "bad-op"
  | ["showint", v] => (match Proto.parseInt v with | some i => showNats (showInt i) | none => "bad-op")
  | ["showcode", c] => (match c.toNat? with | some n => showNats (showCode n) | none => "bad-op")
  | ["parseint", s] =>
    (match parseNats s with
     | some t => (match Codec.parseInt t with | some i => "ok " ++ toString i | none => "none")
     | none => "bad-op")
  | ["hex", b] => (match parseNats b with | some d => showNats (hexlify d) | none => "bad-op")
  | ["unhex", s] =>
    (match parseNats s with
     | some t => (match unhexlify t with | some d => "ok " ++ showNats d | none => "none")
     | none => "bad-op")
  | ["internal", t] =>
    (match parseNats t with
     | some txt =>
       (match pairLines (internalLines txt) with
        | some ps => "ok " ++ ";".intercalate (ps.map fun p => toString p.1 ++ ":" ++ showNats p.2)
        | none => "err")
     | none => "bad-op")
  | ["xtagsapp", s, sub, g] =>
    (match (if s.isEmpty then some [] else (s.splitOn ";").mapM parseXTag),
           sub.toNat?, (if g.isEmpty then some [] else (g.splitOn ";").mapM parseXTag) with
     | some ts, some k, some grp =>
       (match XTags.setup ts with
        | .ok x => "ok " ++ ";".intercalate ((XTags.iter (XTags.newAppData x k grp)).map showXTag)
        | .error _ => "err")
     | _, _, _ => "bad-op")
  | ["compile", s] =>
    (match parseNats s with
     | some codes =>
       (match compile isPoint (codes.map fun c => (c, ())) with
        | .ok ts => "ok " ++ " ".intercalate (ts.map fun t => match t with
            | .single c _ => "s" ++ toString c
            | .point c xs => "p" ++ toString c ++ "/" ++ toString xs.length)
        | .error e => "err " ++ showErr e)
     | none => "bad-op")
  | ["xtags", s] =>
    (match (if s.isEmpty then some [] else (s.splitOn ";").mapM parseXTag) with
     | some ts =>
       (match XTags.setup ts with
        | .ok x => "ok " ++ toString x.subclasses.length ++ "," ++ toString x.appdata.length ++ ","
            ++ toString x.embedded.length ++ "," ++ toString x.xdata.length ++ "|"
            ++ ";".intercalate ((XTags.iter x).map showXTag)
        | .error .missingAppClose => "err missingAppClose"
        | .error .unexpectedTag => "err unexpectedTag")
     | none => "bad-op")
  | _ => "bad-op"

def main : IO Unit := Proto.run step

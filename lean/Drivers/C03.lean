import EzdxfVerif.Model.Codec
import EzdxfVerif.Model.XTags
import EzdxfVerif.Model.JsonTags
import Drivers.Proto
open EzdxfVerif EzdxfVerif.Codec Proto

def showErr : PyErr → String
  | .overflowError => "OverflowError" | .indexError => "IndexError" | .valueError => "ValueError"
  | .structError => "structError" | .dxfStructureError => "dxfStructureError"

def parseVal (s : String) : Option Val :=
  let body : String := (s.drop 1).toString
  if s.startsWith "i" then (Proto.parseInt body).map Val.int
  else if s.startsWith "d" then body.toNat?.map Val.dbl
  else if s.startsWith "b" then (parseNats body).map Val.bin
  else if s.startsWith "s" then (parseNats body).map Val.str
  else none

def showVal : Val → String
  | .int v => "i" ++ toString v
  | .dbl b => "d" ++ toString b
  | .bin d => "b" ++ showNats d
  | .str s => "s" ++ showNats s

def parseTag (s : String) : Option BTag :=
  match s.splitOn ":" with
  | [c, v] => do let code ← c.toNat?; let val ← parseVal v; some ⟨code, val⟩
  | _ => none

def pyShowInt (v : Int) : String := toString v

open EzdxfVerif.XTags in
def parseXTag (s : String) : Option XTags.Tag :=
  match s.splitOn ":" with
  | [c, v] => do let code ← c.toNat?; let val ← parseNats v; some ⟨code, .str val⟩
  | _ => none

open EzdxfVerif.XTags in
def showXTag (t : XTags.Tag) : String :=
  toString t.code ++ ":" ++ (match t.val with | .str s => showNats s | .ref n => "ref" ++ toString n)

/-! ### session 3: text layer (ASCII, recover, JSON), packed tags -/
open EzdxfVerif.AsciiTags EzdxfVerif.JsonTags

/-- float text table `bits:cps,bits:cps,…` : `fmt` = first entry with the bits, `parse` = first entry with the text -/
def parseFt (s : String) : Option (List (Nat × List Nat)) :=
  if s.isEmpty then some [] else
  (s.splitOn ",").mapM fun e =>
    match e.splitOn ":" with
    | [b, t] => do let bits ← b.toNat?; let txt ← parseNats t; some (bits, txt)
    | _ => none

def ftFmt (tab : List (Nat × List Nat)) (b : Nat) : List Nat :=
  match tab.find? (fun e => e.1 == b) with | some e => e.2 | none => [63]
def ftParse (tab : List (Nat × List Nat)) (t : List Nat) : Option Nat :=
  (tab.find? (fun e => e.2 == t)).map (·.1)

def showTErr : TErr → String
  | .structure => "structure" | .value => "value" | .decode => "decode" | .unsupported => "unsupported"

def parseCVal (s : String) : Option Val := parseVal s

def parseCTag (s : String) : Option (CTag Val) :=
  match s.splitOn ":" with
  | [c, v] =>
    if v.startsWith "p" then do
      let code ← c.toNat?
      let body : String := (v.drop 1).toString
      let xs ← (if body.isEmpty then some [] else (body.splitOn ",").mapM fun t => t.toNat?.map Val.dbl)
      some (.point code xs)
    else do let code ← c.toNat?; let val ← parseVal v; some (.single code val)
  | _ => none

def parseCTags (s : String) : Option (List (CTag Val)) :=
  if s.isEmpty then some [] else (s.splitOn ";").mapM parseCTag

def showPtVal : Val → String
  | .dbl b => toString b
  | v => "?" ++ showVal v

def showCTag : CTag Val → String
  | .single c v => toString c ++ ":" ++ showVal v
  | .point c xs => toString c ++ ":p" ++ ",".intercalate (xs.map showPtVal)

def showCTags (r : Except TErr (List (CTag Val))) : String :=
  match r with
  | .ok ts => "ok " ++ ";".intercalate (ts.map showCTag)
  | .error e => "err " ++ showTErr e

def showNum : Num → String
  | .int v => "i" ++ toString v
  | .flt t => "f" ++ showNats t

def showJVal : JVal → String
  | .str s => "s" ++ showNats s
  | .num n => showNum n
  | .nums xs => "l" ++ ",".intercalate (xs.map showNum)

/-- checksum of the escapes of all code points of a range (exhaustive tie of `escChar` to json.dumps) -/
def escRangeSum (lo hi : Nat) : Nat :=
  (List.range (hi - lo)).foldl (fun acc i =>
    let e := escChar (lo + i)
    (e.foldl (fun a x => (a * 131 + x + 1) % 1000000007) acc)) 7

def step2 (line : String) : String :=
  match line.splitOn "|" with
  | ["jesc", s] => (match parseNats s with | some t => showNats (jsonDumps t) | none => "bad-op")
  | ["jescrange", lo, hi] =>
    (match lo.toNat?, hi.toNat? with | some a, some b => toString (escRangeSum a b) | _, _ => "bad-op")
  | ["jstr", s] =>
    (match parseNats s with
     | some t => (match scanStr t with
        | some (v, r) => "ok " ++ showNats v ++ "|" ++ toString r.length
        | none => "none")
     | none => "bad-op")
  | ["jmerge", s] => (match parseNats s with | some t => showNats (mergePairs t) | none => "bad-op")
  | ["jnum", s] =>
    (match parseNats s with
     | some t => (match scanNumber t with
        | some (n, r) => "ok " ++ showNum n ++ "|" ++ toString r.length
        | none => "none")
     | none => "bad-op")
  | ["isfloatlit", s] => (match parseNats s with | some t => (if isFloatLit t then "1" else "0") | none => "bad-op")
  | ["jdoc", s] =>
    (match parseNats s with
     | some t => (match parseDoc t with
        | some ps => "ok " ++ ";".intercalate (ps.map fun p => showNum p.1 ++ "=" ++ showJVal p.2)
        | none => "none")
     | none => "bad-op")
  | ["jload", ft, s] =>
    (match parseFt ft, parseNats s with
     | some tab, some t => showCTags (jsonLoad (ftParse tab) t)
     | _, _ => "bad-op")
  | ["jwrite", c, ft, ts] =>
    (match parseFt ft, parseCTags ts with
     | some tab, some tags => showNats (jsonWrite (ftFmt tab) (c == "1") tags)
     | _, _ => "bad-op")
  | ["arender", ft, ts] =>
    (match parseFt ft, parseCTags ts with
     | some tab, some tags => showNats (render (ftFmt tab) tags)
     | _, _ => "bad-op")
  | ["aload", ft, s] =>
    (match parseFt ft, parseNats s with
     | some tab, some t => showCTags (asciiLoad (ftParse tab) t)
     | _, _ => "bad-op")
  | ["iload", ft, s] =>
    (match parseFt ft, parseNats s with
     | some tab, some t => showCTags (internalLoad (ftParse tab) t)
     | _, _ => "bad-op")
  | ["rload", ft, s] =>
    (match parseFt ft, parseNats s with
     | some tab, some t => showCTags (recoverLoad (ftParse tab) t)
     | _, _ => "bad-op")
  | ["univnl", s] => (match parseNats s with | some t => showNats (univNL t) | none => "bad-op")
  | ["crlf", s] => (match parseNats s with | some t => showNats (toCRLF t) | none => "bad-op")
  | ["readlines", s] =>
    (match parseNats s with
     | some t => ";".intercalate ((readLines t).map showNats)
     | none => "bad-op")
  | ["strip", s] => (match parseNats s with | some t => showNats (strip t) | none => "bad-op")
  | ["stripb", s] => (match parseNats s with | some t => showNats (upperB (stripB t)) | none => "bad-op")
  | ["pyint", s] =>
    (match parseNats s with
     | some t => (match pyIntWs t with | some i => "ok " ++ toString i | none => "none")
     | none => "bad-op")
  | ["vaexport", code, vs] =>
    (match code.toNat?, (if vs.isEmpty then some [] else (vs.splitOn ";").mapM parseNats) with
     | some c, some vl => ";".intercalate ((vaExport c vl).map fun p => toString p.1 ++ ":" ++ toString p.2)
     | _, _ => "bad-op")
  | ["vafrom", size, code, ts] =>
    (match size.toNat?, code.toNat?, parseCTags ts with
     | some sz, some c, some tags =>
       (match vaFromTags sz c tags with
        | some vs => "ok " ++ ";".intercalate (vs.map fun v => ",".intercalate (v.map showPtVal))
        | none => "err")
     | _, _, _ => "bad-op")
  | ["scanver", s] =>
    (match parseNats s with
     | some d => showNats (scanVersion d) ++ "|" ++ (if loaderR12 d then "1" else "0")
     | none => "bad-op")
  | ["tlfrom", code, ts] =>
    (match code.toNat?, (if ts.isEmpty then some [] else (ts.splitOn ";").mapM fun e =>
        match e.splitOn ":" with
        | [c, v] => do let a ← c.toNat?; let b ← v.toNat?; some (a, b)
        | _ => none) with
     | some c, some fl => showNats (tlFromTags c fl)
     | _, _ => "bad-op")
  | ["group", k, ts] =>
    (match k.toNat?, parseNats ts with
     | some kk, some codes =>
       let tagged := codes.zipIdx
       ";".intercalate ((groupTags (fun p : Nat × Nat => p.1 == kk) tagged).map fun g =>
         " ".intercalate (g.map fun p => toString p.1 ++ ":" ++ toString p.2))
     | _, _ => "bad-op")
  | ["bwrite", r, ts] =>
    (match parseCTags ts with
     | some tags => (match binWrite (r == "1") id tags with
        | .ok bs => "ok " ++ showNats bs
        | .error e => "err " ++ showErr e)
     | none => "bad-op")
  | ["bload", r, b] =>
    (match parseNats b with
     | some bs => showCTags (binLoad (r == "1") id bs)
     | none => "bad-op")
  | ["pfloat", s] =>
    (match parseNats s with
     | some t => (match parseFloat t with | some b => "ok " ++ toString b | none => "none")
     | none => "bad-op")
  | ["fltcheck", b, s] =>
    (match b.toNat?, parseNats s with
     | some bits, some t => (if floatLitOK bits t then "1" else "0")
     | _, _ => "bad-op")
  | ["scanr12", s] =>
    (match parseNats s with
     | some d => (if loaderR12 d then "1" else "0")
     | none => "bad-op")
  | ["bchunks", s] =>
    (match parseNats s with
     | some d => ";".intercalate ((binChunks d).map showNats) ++ "#" ++ toString (binChunks d).length
     | none => "bad-op")
  | _ => "bad-op"

def step (line : String) : String :=
  match line.splitOn "|" with
  | ["enc", r, t] =>
    match parseTag t with
    | some tag => (match encTag (r == "1") tag with
      | .ok bs => "ok " ++ showNats bs
      | .error e => "err " ++ showErr e)
    | none => "bad-op"
  | ["dec", r, b] =>
    match parseNats b with
    | some bs => (match decAll (r == "1") (bs.length + 1) bs with
      | .ok ts => "ok " ++ ";".intercalate (ts.map fun t => toString t.code ++ ":" ++ showVal t.val)
      | .error e => "err " ++ showErr e)
    | none => "bad-op"
  | ["showint", v] => (match Proto.parseInt v with | some i => showNats (showInt i) | none => "bad-op")
  | ["showcode", c] => (match c.toNat? with | some n => showNats (showCode n) | none => "bad-op")
  | ["parseint", s] =>
    (match parseNats s with
     | some t => (match Codec.parseInt t with | some i => "ok " ++ toString i | none => "none")
     | none => "bad-op")
  | ["hex", b] => (match parseNats b with | some d => showNats (hexlify d) | none => "bad-op")
  | ["unhex", s] =>
    (match parseNats s with
     | some t => (match unhexlify t with | some d => "ok " ++ showNats d | none => "none")
     | none => "bad-op")
  | ["internal", t] =>
    (match parseNats t with
     | some txt =>
       (match pairLines (internalLines txt) with
        | some ps => "ok " ++ ";".intercalate (ps.map fun p => toString p.1 ++ ":" ++ showNats p.2)
        | none => "err")
     | none => "bad-op")
  | ["xtagsapp", s, sub, g] =>
    (match (if s.isEmpty then some [] else (s.splitOn ";").mapM parseXTag),
           sub.toNat?, (if g.isEmpty then some [] else (g.splitOn ";").mapM parseXTag) with
     | some ts, some k, some grp =>
       (match XTags.setup ts with
        | .ok x => "ok " ++ ";".intercalate ((XTags.iter (XTags.newAppData x k grp)).map showXTag)
        | .error _ => "err")
     | _, _, _ => "bad-op")
  | ["compile", s] =>
    (match parseNats s with
     | some codes =>
       (match compile isPoint (codes.map fun c => (c, ())) with
        | .ok ts => "ok " ++ " ".intercalate (ts.map fun t => match t with
            | .single c _ => "s" ++ toString c
            | .point c xs => "p" ++ toString c ++ "/" ++ toString xs.length)
        | .error e => "err " ++ showErr e)
     | none => "bad-op")
  | ["xtags", s] =>
    (match (if s.isEmpty then some [] else (s.splitOn ";").mapM parseXTag) with
     | some ts =>
       (match XTags.setup ts with
        | .ok x => "ok " ++ toString x.subclasses.length ++ "," ++ toString x.appdata.length ++ ","
            ++ toString x.embedded.length ++ "," ++ toString x.xdata.length ++ "|"
            ++ ";".intercalate ((XTags.iter x).map showXTag)
        | .error .missingAppClose => "err missingAppClose"
        | .error .unexpectedTag => "err unexpectedTag")
     | none => "bad-op")
  | _ => step2 line

def main : IO Unit := Proto.run step

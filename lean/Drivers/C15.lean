import EzdxfVerif.Model.BBox
import EzdxfVerif.Model.BBoxTree
import EzdxfVerif.Gen.BBoxKernels
import Drivers.Proto
open EzdxfVerif EzdxfVerif.BBox Proto

/-! Line protocol driver of C15.  Numbers are `p` or `p/q`; a point is `x,y[,z]`; a box is `E` (empty) or
    the coordinates of extmin followed by those of extmax; lists of points are `;` separated. -/

def parseRat (s : String) : Option Rat :=
  match s.splitOn "/" with
  | [n] => (parseInt n).map (fun i => (i : Rat))
  | [n, d] => match parseInt n, d.toNat? with
    | some i, some k => if k = 0 then none else some ((i : Rat) / (k : Rat))
    | _, _ => none
  | _ => none

def showRat (r : Rat) : String :=
  if r.den = 1 then toString r.num else toString r.num ++ "/" ++ toString r.den

def parseRats (s : String) : Option (List Rat) := (s.splitOn ",").mapM parseRat

def parseV3 (s : String) : Option V3 :=
  match parseRats s with
  | some [x, y, z] => some ⟨x, y, z⟩
  | _ => none

def parseV2 (s : String) : Option V2 :=
  match parseRats s with
  | some [x, y] => some ⟨x, y⟩
  | _ => none

def parseBox3 (s : String) : Option Box3 :=
  if s = "E" then some .empty else
  match parseRats s with
  | some [a, b, c, d, e, f] => some (.mk ⟨a, b, c⟩ ⟨d, e, f⟩)
  | _ => none

def parseBox2 (s : String) : Option Box2 :=
  if s = "E" then some .empty else
  match parseRats s with
  | some [a, b, c, d] => some (.mk ⟨a, b⟩ ⟨c, d⟩)
  | _ => none

def parseList {α} (f : String → Option α) (sep : String) (s : String) : Option (List α) :=
  if s.isEmpty then some [] else (s.splitOn sep).mapM f

def showV3 (v : V3) : String := showRat v.x ++ "," ++ showRat v.y ++ "," ++ showRat v.z
def showV2 (v : V2) : String := showRat v.x ++ "," ++ showRat v.y

def showBox3 : Box3 → String
  | .empty => "E"
  | .mk lo hi => showV3 lo ++ "," ++ showV3 hi

def showBox2 : Box2 → String
  | .empty => "E"
  | .mk lo hi => showV2 lo ++ "," ++ showV2 hi

def tf (b : Bool) : String := if b then "T" else "F"

def showOpt {α} (f : α → String) : Option α → String
  | none => "N"
  | some a => f a

def showVerts {α} (f : α → String) : Option (List α) → String
  | none => "ValueError"
  | some vs => "/".intercalate (vs.map f)

def pair3 (a b : Box3) : String :=
  ";".intercalate [showBox3 (a.union b), showBox3 (a.intersection b), tf (a.hasIntersection b), tf (a.hasOverlap b),
    tf (a.contains b)]

def pair2 (a b : Box2) : String :=
  ";".intercalate [showBox2 (a.union b), showBox2 (a.intersection b), tf (a.hasIntersection b), tf (a.hasOverlap b),
    tf (a.contains b)]

/-- the same observables through the kernels generated from the current source -/
def gpair3 (a b : Box3) : String :=
  open Gen.BBoxKernels in
  match a, b with
  | .mk al ah, .mk bl bh =>
    let hi := hasIntersection3 true true al.x al.y al.z ah.x ah.y ah.z bl.x bl.y bl.z bh.x bh.y bh.z
    let ho := hasOverlap3 true true al.x al.y al.z ah.x ah.y ah.z bl.x bl.y bl.z bh.x bh.y bh.z
    let inter := match intersection3 hi al.x al.y al.z ah.x ah.y ah.z bl.x bl.y bl.z bh.x bh.y bh.z with
      | none => Box3.empty
      | some pts => Box3.empty.extend (pts.map (fun t => ⟨t.1, t.2.1, t.2.2⟩))
    let ins := fun (p : V3) => inside3 true al.x al.y al.z ah.x ah.y ah.z p.x p.y p.z
    ";".intercalate [showBox3 inter, tf hi, tf ho, tf (contains ins bl bh)]
  | _, _ => "-"

def gpair2 (a b : Box2) : String :=
  open Gen.BBoxKernels in
  match a, b with
  | .mk al ah, .mk bl bh =>
    let hi := hasIntersection2 true true al.x al.y ah.x ah.y bl.x bl.y bh.x bh.y
    let ho := hasOverlap2 true true al.x al.y ah.x ah.y bl.x bl.y bh.x bh.y
    let inter := match intersection2 hi al.x al.y ah.x ah.y bl.x bl.y bh.x bh.y with
      | none => Box2.empty
      | some pts => Box2.empty.extend (pts.map (fun t => ⟨t.1, t.2⟩))
    let ins := fun (p : V2) => inside2 true al.x al.y ah.x ah.y p.x p.y
    ";".intercalate [showBox2 inter, tf hi, tf ho, tf (contains ins bl bh)]
  | _, _ => "-"

def parseKey (s : String) : Option (Option Nat) :=
  if s = "n" then some none else s.toNat?.map some

def parsePrim (s : String) : Option Prim :=
  match s.splitOn "=" with
  | [k, b] => match parseKey k, parseBox3 b with
    | some k, some b => some ⟨k, b⟩
    | _, _ => none
  | _ => none

def parseEnt (s : String) : Option Ent :=
  match s.splitOn ":" with
  | [k, ps] => match parseKey k, parseList parsePrim "&" ps with
    | some k, some ps => some ⟨k, ps⟩
    | _, _ => none
  | _ => none

def parseEntry (s : String) : Option (Nat × Box3) :=
  match s.splitOn "=" with
  | [k, b] => match k.toNat?, parseBox3 b with
    | some k, some b => some (k, b)
    | _, _ => none
  | _ => none

def insertSorted (e : Nat × Box3) : List (Nat × Box3) → List (Nat × Box3)
  | [] => [e]
  | h :: t => if e.1 ≤ h.1 then e :: h :: t else h :: insertSorted e t

def insertSortedStr (s : String) : List String → List String
  | [] => [s]
  | h :: t => if s ≤ h then s :: h :: t else h :: insertSortedStr s t

/-- keys >= 2^41 stand for uuid keys (`Cache(uuid=True)`): such entries are shown as `u=box`, sorted by text -/
def showCache (c : Cache) : String :=
  let real := c.boxes.filter (fun e => e.1 < 2199023255552)
  let virt := c.boxes.filter (fun e => !(e.1 < 2199023255552))
  let sorted := real.foldl (fun acc e => insertSorted e acc) []
  let vs := (virt.map (fun e => showBox3 e.2)).foldl (fun acc s => insertSortedStr s acc) []
  "~".intercalate (sorted.map (fun e => toString e.1 ++ "=" ++ showBox3 e.2) ++ vs.map (fun s => "u=" ++ s)) ++ "|" ++
    toString c.hits ++ "|" ++ toString c.misses

/-! ### session 3: paths, cubic boxes, entity trees -/

/-- a command: `L:e`, `M:e`, `C3:c:e`, `C4:c1:c2:e` -/
def parseCmd (s : String) : Option Cmd :=
  match s.splitOn ":" with
  | ["L", e] => (parseV3 e).map Cmd.lineTo
  | ["M", e] => (parseV3 e).map Cmd.moveTo
  | ["C3", c, e] => match parseV3 c, parseV3 e with
    | some c, some e => some (.curve3To c e) | _, _ => none
  | ["C4", c1, c2, e] => match parseV3 c1, parseV3 c2, parseV3 e with
    | some c1, some c2, some e => some (.curve4To c1 c2 e) | _, _, _ => none
  | _ => none

/-- the stub used by stream X4: every curve box is the box of the control points of the segment -/
def stubBoxes : SegBoxes := ⟨fun s c1 c2 e => extents3 [s, c1, c2, e], fun s c e => extents3 [s, c, e]⟩

def boxPair (b : Box3) : V3 × V3 := match b with
  | .mk lo hi => (lo, hi)
  | .empty => (⟨0, 0, 0⟩, ⟨0, 0, 0⟩)

/-- `precise_bbox` run through the loop body generated from the current source -/
def genPrecise (p : Path) : Box3 :=
  open Gen.BBoxKernels in
  if p.cmds.isEmpty then .empty else
  let bb4 := fun s c1 c2 e => boxPair (stubBoxes.bb4 s c1 c2 e)
  let bb3 := fun s c e => boxPair (stubBoxes.bb3 s c e)
  let z : V3 := ⟨0, 0, 0⟩
  let r := p.cmds.foldl (fun (acc : List V3 × V3) c =>
    let st := match c with
      | .lineTo e => preciseStep bb4 bb3 Prod.fst Prod.snd 1 acc.2 e z z z
      | .curve3To c e => preciseStep bb4 bb3 Prod.fst Prod.snd 2 acc.2 e z z c
      | .curve4To c1 c2 e => preciseStep bb4 bb3 Prod.fst Prod.snd 3 acc.2 e c1 c2 z
      | .moveTo e => preciseStep bb4 bb3 Prod.fst Prod.snd 4 acc.2 e z z z
    (acc.1 ++ st.1, st.2)) ([p.start], p.start)
  extents3 r.1

def grid (x : Rat) : Int := (x * 1048576 + 1 / 2).floor

def showGridV (v : V3) : String := toString (grid v.x) ++ "," ++ toString (grid v.y) ++ "," ++ toString (grid v.z)

def showGridBox : Box3 → String
  | .empty => "E"
  | .mk lo hi => showGridV lo ++ "," ++ showGridV hi

def tolReal : Rat := 1 / 1000000000000

/-- `cubic_bezier_bbox` with the parameters collected by the kernel generated from the current source -/
def genCubicBBox (p0 p1 p2 p3 : V3) : Box3 :=
  open Gen.BBoxKernels in
  let ps := cubicAxisParams tolReal ratSqrt p0.x p1.x p2.x p3.x ++ cubicAxisParams tolReal ratSqrt p0.y p1.y p2.y p3.y ++
    cubicAxisParams tolReal ratSqrt p0.z p1.z p2.z p3.z
  extents3 (p0 :: p3 :: ps.map (bezier4V p0 p1 p2 p3))

def parseAff (s : String) : Option Aff :=
  match parseRats s with
  | some [a, b, c, d, e, f, g, h, i, j, k, l] => some ⟨a, b, c, d, e, f, g, h, i, j, k, l⟩
  | _ => none

def parsePts (s : String) : Option Path :=
  match parseList parseV3 ";" s with
  | some (p :: ps) => some ⟨p, ps.map Cmd.lineTo⟩
  | _ => none

/-- forest in prefix form, space separated tokens: `N` | `L key pts F` | `I key aff F(block) F(rest)` -/
def parseForest : Nat → List String → Option (Forest × List String)
  | 0, _ => none
  | _ + 1, "N" :: r => some (.nil, r)
  | f + 1, "L" :: k :: pts :: r =>
    match parseKey k, parsePts pts, parseForest f r with
    | some k, some p, some (rest, r') => some (.leaf k p rest, r')
    | _, _, _ => none
  | f + 1, "I" :: k :: m :: r =>
    match parseKey k, parseAff m, parseForest f r with
    | some k, some m, some (blk, r') =>
      match parseForest f r' with
      | some (rest, r'') => some (.insert k m [] blk rest, r'')
      | none => none
    | _, _, _ => none
  -- INSERT by its parameters: J key base scale co,si insert F(block) F(rest)
  | f + 1, "J" :: k :: b :: s :: cs :: i :: r =>
    match parseKey k, parseV3 b, parseV3 s, parseV2 cs, parseV3 i, parseForest f r with
    | some k, some b, some s, some cs, some i, some (blk, r') =>
      match parseForest f r' with
      | some (rest, r'') => some (.insert k (insertAff b s i cs.x cs.y) [] blk rest, r'')
      | none => none
    | _, _, _, _, _, _ => none
  -- INSERT in an OCS with the axes ux uy uz: K key ux uy uz base scale co,si insert F(block) F(rest)
  | f + 1, "K" :: k :: ux :: uy :: uz :: b :: s :: cs :: i :: r =>
    match parseKey k, parseV3 ux, parseV3 uy, parseV3 uz, parseV3 b, parseV3 s, parseV2 cs, parseV3 i, parseForest f r with
    | some k, some ux, some uy, some uz, some b, some s, some cs, some i, some (blk, r') =>
      match parseForest f r' with
      | some (rest, r'') => some (.insert k (ocsAff ux uy uz b s i cs.x cs.y) [] blk rest, r'')
      | none => none
    | _, _, _, _, _, _, _, _, _ => none
  -- MINSERT: G key base scale co,si insert cols,rows,colspacing,rowspacing F(block) F(rest)
  | f + 1, "G" :: k :: b :: s :: cs :: i :: g :: r =>
    match parseKey k, parseV3 b, parseV3 s, parseV2 cs, parseV3 i, parseRats g, parseForest f r with
    | some k, some b, some s, some cs, some i, some [cols, rows, csp, rsp], some (blk, r') =>
      match parseForest f r' with
      | some (rest, r'') =>
        some (minsert k (insertAff b s i cs.x cs.y) cs.x cs.y csp rsp cols.num.toNat rows.num.toNat blk rest, r'')
      | none => none
    | _, _, _, _, _, _, _ => none
  | _, _ => none

def showKey : Option Nat → String
  | none => "n"
  | some k => toString k

def showEnt (e : Ent) : String :=
  showKey e.key ++ ":" ++ "&".intercalate (e.prims.map (fun q => showKey q.key ++ "=" ++ showGridBox q.box))

def showCmd : Cmd → String
  | .lineTo e => "L:" ++ showV3 e
  | .moveTo e => "M:" ++ showV3 e
  | .curve3To c e => "C3:" ++ showV3 c ++ ":" ++ showV3 e
  | .curve4To c1 c2 e => "C4:" ++ showV3 c1 ++ ":" ++ showV3 c2 ++ ":" ++ showV3 e

def step3 (line : String) : String :=
  match line.splitOn "|" with
  | ["pathstub", s, cmds] => match parseV3 s, parseList parseCmd ";" cmds with
    | some s, some cs =>
      let p : Path := ⟨s, cs⟩
      ";".intercalate [showBox3 (p.preciseBBox stubBoxes), showBox3 (genPrecise p), showBox3 (extents3 p.controlVertices),
        showBox3 (pathsBBox stubBoxes false [p]), showBox3 (pathsBBox stubBoxes true [p])]
    | _, _ => "bad-op"
  | ["pathreal", s, cmds] => match parseV3 s, parseList parseCmd ";" cmds with
    | some s, some cs =>
      let p : Path := ⟨s, cs⟩
      showGridBox (p.preciseBBox (realBoxes tolReal ratSqrt)) ++ ";" ++ (if decide (p.CurvesOK tolReal ratSqrt) then "T" else "F")
    | _, _ => "bad-op"
  | ["cubic", p0, p1, p2, p3] => match parseV3 p0, parseV3 p1, parseV3 p2, parseV3 p3 with
    | some p0, some p1, some p2, some p3 =>
      ";".intercalate [showGridBox (cubicBBox tolReal ratSqrt p0 p1 p2 p3), showGridBox (genCubicBBox p0 p1 p2 p3),
        if decide (CurveOK tolReal ratSqrt p0 p1 p2 p3) then "T" else "F"]
    | _, _, _, _ => "bad-op"
  | ["quad", p0, p1, p2] => match parseV3 p0, parseV3 p1, parseV3 p2 with
    | some p0, some p1, some p2 =>
      let g := genCubicBBox p0 ⟨Gen.BBoxKernels.quadControl1 p0.x p1.x p2.x, Gen.BBoxKernels.quadControl1 p0.y p1.y p2.y,
          Gen.BBoxKernels.quadControl1 p0.z p1.z p2.z⟩ ⟨Gen.BBoxKernels.quadControl2 p0.x p1.x p2.x,
          Gen.BBoxKernels.quadControl2 p0.y p1.y p2.y, Gen.BBoxKernels.quadControl2 p0.z p1.z p2.z⟩ p2
      showGridBox (quadBBox tolReal ratSqrt p0 p1 p2) ++ ";" ++ showGridBox g
    | _, _, _ => "bad-op"
  | ["addbez4", pen, chain] => match parseV3 pen, parseList (fun s => parseList parseV3 ":" s) ";" chain with
    | some pen, some cs =>
      let curves := cs.filterMap (fun c => match c with | [s, c1, c2, e] => some (s, c1, c2, e) | _ => none)
      if curves.length != cs.length then "bad-op" else
      ";".intercalate ((addBezier4 (fun a b => a == b) (fun a b => a == b) pen curves).map showCmd)
    | _, _ => "bad-op"
  | ["addbez3", pen, chain] => match parseV3 pen, parseList (fun s => parseList parseV3 ":" s) ";" chain with
    | some pen, some cs =>
      let r := cs.foldl (fun (acc : List Cmd × V3 × Bool) c => match c with
        | [s, c, e] => (acc.1 ++ addBezier3Step (fun a b => a == b) (fun a b => a == b) acc.2.1 s c e, e, acc.2.2)
        | _ => (acc.1, acc.2.1, false)) ([], pen, true)
      if r.2.2 then ";".intercalate (r.1.map showCmd) else "bad-op"
    | _, _ => "bad-op"
  | ["primfast", kind, pts] => match parseList parseV3 ";" pts with
    | some ps =>
      -- `Primitive.bbox(fast=True)`: path primitives -> box of `control_vertices()` (`Path.box`), mesh -> box of the vertices
      let rep : PrimRep :=
        if kind = "path" then
          match ps with
          | p :: rest => .path ⟨p, rest.map Cmd.lineTo⟩
          | [] => .none
        else if kind = "line" then
          match ps with
          | [a, b] => .line a b
          | _ => .none
        else if kind = "point" then
          match ps with
          | [a] => .point a
          | _ => .none
        else .mesh ps
      showBox3 (rep.box stubBoxes true) ++ ";" ++ showBox3 (extents3 rep.controlPoints)
    | none => "bad-op"
  | ["inval", entries, hits, misses, keys] =>
    match parseList parseEntry "~" entries, hits.toNat?, misses.toNat?, parseList parseKey "," keys with
    | some boxes, some h, some m, some ks => showCache ((Cache.mk boxes h m).invalidate ks)
    | _, _, _, _ => "bad-op"
  | ["selc", c, r, b] => match parseV2 c, parseRat r, parseBox2 b with
    | some c, some r, some b =>
      let s : SelCircle := ⟨c, r⟩
      let g := match b with
        | .mk lo hi =>
          (match Gen.BBoxKernels.circleOverlap (s.bbox.hasOverlap b) c.x c.y lo.x lo.y hi.x hi.y with
            | none => false
            | some v => s.vertexInside ⟨v.1, v.2⟩)
        | .empty => false
      ";".intercalate [tf (s.inside b), tf (s.outside b), tf (s.overlapping b), tf g]
    | _, _, _ => "bad-op"
  | ["selw", p1, p2, b] => match parseV2 p1, parseV2 p2, parseBox2 b with
    | some p1, some p2, some b =>
      let w : SelWindow := ⟨p1, p2⟩
      ";".intercalate [tf (w.inside b), tf (w.outside b), tf (w.overlapping b)]
    | _, _, _ => "bad-op"
  | ["tree", fast, rp, toks] =>
    let ts := (toks.splitOn " ").filter (fun s => !s.isEmpty)
    match parseForest (ts.length + 1) ts with
    | some (f, []) =>
      let repr : Aff → Bool := fun _ => rp = "1"
      let es := toEnts repr (realBoxes tolReal ratSqrt) (fast = "1") f
      ";".intercalate (es.map showEnt) ++ "|" ++ showGridBox (extentsOf false ⟨[], 0, 0⟩ es).1 ++ "|" ++
        showGridBox (extentsOf true ⟨[], 0, 0⟩ es).1 ++ "|" ++ toString f.depth
    | _ => "bad-op"
  | _ => "bad-op"

def step (line : String) : String :=
  if line.startsWith "path" || line.startsWith "cubic|" || line.startsWith "quad|" || line.startsWith "tree|" ||
      line.startsWith "sel" || line.startsWith "inval|" || line.startsWith "primfast|" || line.startsWith "addbez" then step3 line else
  match line.splitOn "|" with
  | ["pair3", a, b] => match parseBox3 a, parseBox3 b with
    | some a, some b => pair3 a b ++ ";" ++ gpair3 a b | _, _ => "bad-op"
  | ["pair2", a, b] => match parseBox2 a, parseBox2 b with
    | some a, some b => pair2 a b ++ ";" ++ gpair2 a b | _, _ => "bad-op"
  | ["pair32", a, b] => match parseBox3 a, parseBox2 b with
    | some a, some b => pair3 a b.to3 | _, _ => "bad-op"
  | ["pair23", a, b] => match parseBox2 a, parseBox3 b with
    | some a, some b => pair2 a b.to2 | _, _ => "bad-op"
  | ["box3", a] => match parseBox3 a with
    | some a => ";".intercalate [tf a.hasData, tf a.isEmpty, showOpt showV3 a.size, showOpt showV3 a.center,
        showBox3 (extendAll [a]), tf (decide a.WF), showVerts showV2 a.rectVertices, showVerts showV3 a.cubeVertices]
    | none => "bad-op"
  | ["box2", a] => match parseBox2 a with
    | some a => ";".intercalate [tf a.hasData, tf a.isEmpty, showOpt showV2 a.size, showOpt showV2 a.center, tf (decide a.WF),
        showVerts showV2 a.rectVertices]
    | none => "bad-op"
  | ["pt3", a, p] => match parseBox3 a, parseV3 p with
    | some a, some p => tf (a.inside p) ++ ";" ++ showBox3 (a.extend [p]) | _, _ => "bad-op"
  | ["pt2", a, p] => match parseBox2 a, parseV2 p with
    | some a, some p => tf (a.inside p) ++ ";" ++ showBox2 (a.extend [p]) | _, _ => "bad-op"
  | ["pts3", a, ps] => match parseBox3 a, parseList parseV3 ";" ps with
    | some a, some ps => "/".intercalate [showBox3 (Box3.ofPoints ps), showBox3 (a.extend ps), tf (a.allInside ps), tf (a.anyInside ps)]
    | _, _ => "bad-op"
  | ["pts2", a, ps] => match parseBox2 a, parseList parseV2 ";" ps with
    | some a, some ps => "/".intercalate [showBox2 (Box2.ofPoints ps), showBox2 (a.extend ps), tf (a.allInside ps), tf (a.anyInside ps)]
    | _, _ => "bad-op"
  | ["grow3", a, v] => match parseBox3 a, parseRat v with
    | some a, some v => (match a.grow v with | none => "ValueError" | some g => showBox3 g)
    | _, _ => "bad-op"
  | ["grow2", a, v] => match parseBox2 a, parseRat v with
    | some a, some v => (match a.grow v with | none => "ValueError" | some g => showBox2 g)
    | _, _ => "bad-op"
  | ["bez4", p0, p1, p2, p3, t] => match parseV3 p0, parseV3 p1, parseV3 p2, parseV3 p3, parseRat t with
    | some p0, some p1, some p2, some p3, some t =>
      let g : V3 := ⟨Gen.BBoxKernels.bezier4Point (p1.x - p0.x) (p2.x - p0.x) (p3.x - p0.x) p0.x t,
        Gen.BBoxKernels.bezier4Point (p1.y - p0.y) (p2.y - p0.y) (p3.y - p0.y) p0.y t,
        Gen.BBoxKernels.bezier4Point (p1.z - p0.z) (p2.z - p0.z) (p3.z - p0.z) p0.z t⟩
      showV3 (bezier4V p0 p1 p2 p3 t) ++ ";" ++ showV3 g ++ ";" ++ tf ((extents3 [p0, p1, p2, p3]).inside (bezier4V p0 p1 p2 p3 t))
    | _, _, _, _, _ => "bad-op"
  | ["bez3", p0, p1, p2, t] => match parseV3 p0, parseV3 p1, parseV3 p2, parseRat t with
    | some p0, some p1, some p2, some t =>
      let g : V3 := ⟨Gen.BBoxKernels.bezier3Point (p1.x - p0.x) (p2.x - p0.x) p0.x t,
        Gen.BBoxKernels.bezier3Point (p1.y - p0.y) (p2.y - p0.y) p0.y t,
        Gen.BBoxKernels.bezier3Point (p1.z - p0.z) (p2.z - p0.z) p0.z t⟩
      showV3 (bezier3V p0 p1 p2 t) ++ ";" ++ showV3 g ++ ";" ++ tf ((extents3 [p0, p1, p2]).inside (bezier3V p0 p1 p2 t))
    | _, _, _, _ => "bad-op"
  | ["cache", fn, uc, entries, hits, misses, ents] =>
    match parseList parseEntry "~" entries, hits.toNat?, misses.toNat?, parseList parseEnt ";" ents with
    | some boxes, some h, some m, some es =>
      let c : Cache := ⟨boxes, h, m⟩
      let u := uc = "1"
      if fn = "flat" then
        let r := multiFlat u c es
        "~".intercalate (r.1.map showBox3) ++ "|" ++ showBox3 (extentsOf u c es).1 ++ "|" ++ showCache r.2
      else if fn = "rec" then
        let r := multiRecursive u c (es.flatMap Ent.prims)
        "~".intercalate (r.1.map showBox3) ++ "|" ++ showBox3 (extendAll r.1) ++ "|" ++ showCache r.2
      else "bad-op"
    | _, _, _, _ => "bad-op"
  | _ => "bad-op"

def main : IO Unit := Proto.run step

import EzdxfVerif.Model.BBox
import EzdxfVerif.Gen.BBoxKernels
import Drivers.Proto
open EzdxfVerif EzdxfVerif.BBox Proto

/-! Line protocol driver of C15.  Numbers are `p` or `p/q`; a point is `x,y[,z]`; a box is `E` (empty) or
    the coordinates of extmin followed by those of extmax; lists of points are `;` separated. -/

def parseRat (s : String) : Option Rat :=
  match s.splitOn "/" with
  | [n] => (parseInt n).map (fun i => (i : Rat))
  | [n, d] => match parseInt n, d.toNat? with
    | some i, some k => if k = 0 then none else some ((i : Rat) / (k : Rat))
    | _, _ => none
  | _ => none

def showRat (r : Rat) : String :=
  if r.den = 1 then toString r.num else toString r.num ++ "/" ++ toString r.den

def parseRats (s : String) : Option (List Rat) := (s.splitOn ",").mapM parseRat

def parseV3 (s : String) : Option V3 :=
  match parseRats s with
  | some [x, y, z] => some ⟨x, y, z⟩
  | _ => none

def parseV2 (s : String) : Option V2 :=
  match parseRats s with
  | some [x, y] => some ⟨x, y⟩
  | _ => none

def parseBox3 (s : String) : Option Box3 :=
  if s = "E" then some .empty else
  match parseRats s with
  | some [a, b, c, d, e, f] => some (.mk ⟨a, b, c⟩ ⟨d, e, f⟩)
  | _ => none

def parseBox2 (s : String) : Option Box2 :=
  if s = "E" then some .empty else
  match parseRats s with
  | some [a, b, c, d] => some (.mk ⟨a, b⟩ ⟨c, d⟩)
  | _ => none

def parseList {α} (f : String → Option α) (sep : String) (s : String) : Option (List α) :=
  if s.isEmpty then some [] else (s.splitOn sep).mapM f

def showV3 (v : V3) : String := showRat v.x ++ "," ++ showRat v.y ++ "," ++ showRat v.z
def showV2 (v : V2) : String := showRat v.x ++ "," ++ showRat v.y

def showBox3 : Box3 → String
  | .empty => "E"
  | .mk lo hi => showV3 lo ++ "," ++ showV3 hi

def showBox2 : Box2 → String
  | .empty => "E"
  | .mk lo hi => showV2 lo ++ "," ++ showV2 hi

def tf (b : Bool) : String := if b then "T" else "F"

def showOpt {α} (f : α → String) : Option α → String
  | none => "N"
  | some a => f a

def pair3 (a b : Box3) : String :=
  ";".intercalate [showBox3 (a.union b), showBox3 (a.intersection b), tf (a.hasIntersection b), tf (a.hasOverlap b),
    tf (a.contains b)]

def pair2 (a b : Box2) : String :=
  ";".intercalate [showBox2 (a.union b), showBox2 (a.intersection b), tf (a.hasIntersection b), tf (a.hasOverlap b),
    tf (a.contains b)]

/-- the same observables through the kernels generated from the current source -/
def gpair3 (a b : Box3) : String :=
  open Gen.BBoxKernels in
  match a, b with
  | .mk al ah, .mk bl bh =>
    let hi := hasIntersection3 true true al.x al.y al.z ah.x ah.y ah.z bl.x bl.y bl.z bh.x bh.y bh.z
    let ho := hasOverlap3 true true al.x al.y al.z ah.x ah.y ah.z bl.x bl.y bl.z bh.x bh.y bh.z
    let inter := match intersection3 hi al.x al.y al.z ah.x ah.y ah.z bl.x bl.y bl.z bh.x bh.y bh.z with
      | none => Box3.empty
      | some pts => Box3.empty.extend (pts.map (fun t => ⟨t.1, t.2.1, t.2.2⟩))
    let ins := fun (p : V3) => inside3 true al.x al.y al.z ah.x ah.y ah.z p.x p.y p.z
    ";".intercalate [showBox3 inter, tf hi, tf ho, tf (contains ins bl bh)]
  | _, _ => "-"

def gpair2 (a b : Box2) : String :=
  open Gen.BBoxKernels in
  match a, b with
  | .mk al ah, .mk bl bh =>
    let hi := hasIntersection2 true true al.x al.y ah.x ah.y bl.x bl.y bh.x bh.y
    let ho := hasOverlap2 true true al.x al.y ah.x ah.y bl.x bl.y bh.x bh.y
    let inter := match intersection2 hi al.x al.y ah.x ah.y bl.x bl.y bh.x bh.y with
      | none => Box2.empty
      | some pts => Box2.empty.extend (pts.map (fun t => ⟨t.1, t.2⟩))
    let ins := fun (p : V2) => inside2 true al.x al.y ah.x ah.y p.x p.y
    ";".intercalate [showBox2 inter, tf hi, tf ho, tf (contains ins bl bh)]
  | _, _ => "-"

def parseKey (s : String) : Option (Option Nat) :=
  if s = "n" then some none else s.toNat?.map some

def parsePrim (s : String) : Option Prim :=
  match s.splitOn "=" with
  | [k, b] => match parseKey k, parseBox3 b with
    | some k, some b => some ⟨k, b⟩
    | _, _ => none
  | _ => none

def parseEnt (s : String) : Option Ent :=
  match s.splitOn ":" with
  | [k, ps] => match parseKey k, parseList parsePrim "&" ps with
    | some k, some ps => some ⟨k, ps⟩
    | _, _ => none
  | _ => none

def parseEntry (s : String) : Option (Nat × Box3) :=
  match s.splitOn "=" with
  | [k, b] => match k.toNat?, parseBox3 b with
    | some k, some b => some (k, b)
    | _, _ => none
  | _ => none

def insertSorted (e : Nat × Box3) : List (Nat × Box3) → List (Nat × Box3)
  | [] => [e]
  | h :: t => if e.1 ≤ h.1 then e :: h :: t else h :: insertSorted e t

def showCache (c : Cache) : String :=
  let sorted := c.boxes.foldl (fun acc e => insertSorted e acc) []
  "~".intercalate (sorted.map (fun e => toString e.1 ++ "=" ++ showBox3 e.2)) ++ "|" ++ toString c.hits ++ "|" ++ toString c.misses

def step (line : String) : String :=
  match line.splitOn "|" with
  | ["pair3", a, b] => match parseBox3 a, parseBox3 b with
    | some a, some b => pair3 a b ++ ";" ++ gpair3 a b | _, _ => "bad-op"
  | ["pair2", a, b] => match parseBox2 a, parseBox2 b with
    | some a, some b => pair2 a b ++ ";" ++ gpair2 a b | _, _ => "bad-op"
  | ["pair32", a, b] => match parseBox3 a, parseBox2 b with
    | some a, some b => pair3 a b.to3 | _, _ => "bad-op"
  | ["pair23", a, b] => match parseBox2 a, parseBox3 b with
    | some a, some b => pair2 a b.to2 | _, _ => "bad-op"
  | ["box3", a] => match parseBox3 a with
    | some a => ";".intercalate [tf a.hasData, tf a.isEmpty, showOpt showV3 a.size, showOpt showV3 a.center,
        showBox3 (extendAll [a]), tf (decide a.WF)]
    | none => "bad-op"
  | ["box2", a] => match parseBox2 a with
    | some a => ";".intercalate [tf a.hasData, tf a.isEmpty, showOpt showV2 a.size, showOpt showV2 a.center, tf (decide a.WF)]
    | none => "bad-op"
  | ["pt3", a, p] => match parseBox3 a, parseV3 p with
    | some a, some p => tf (a.inside p) ++ ";" ++ showBox3 (a.extend [p]) | _, _ => "bad-op"
  | ["pt2", a, p] => match parseBox2 a, parseV2 p with
    | some a, some p => tf (a.inside p) ++ ";" ++ showBox2 (a.extend [p]) | _, _ => "bad-op"
  | ["pts3", a, ps] => match parseBox3 a, parseList parseV3 ";" ps with
    | some a, some ps => "/".intercalate [showBox3 (Box3.ofPoints ps), showBox3 (a.extend ps), tf (a.allInside ps), tf (a.anyInside ps)]
    | _, _ => "bad-op"
  | ["pts2", a, ps] => match parseBox2 a, parseList parseV2 ";" ps with
    | some a, some ps => "/".intercalate [showBox2 (Box2.ofPoints ps), showBox2 (a.extend ps), tf (a.allInside ps), tf (a.anyInside ps)]
    | _, _ => "bad-op"
  | ["grow3", a, v] => match parseBox3 a, parseRat v with
    | some a, some v => (match a.grow v with | none => "ValueError" | some g => showBox3 g)
    | _, _ => "bad-op"
  | ["grow2", a, v] => match parseBox2 a, parseRat v with
    | some a, some v => (match a.grow v with | none => "ValueError" | some g => showBox2 g)
    | _, _ => "bad-op"
  | ["bez4", p0, p1, p2, p3, t] => match parseV3 p0, parseV3 p1, parseV3 p2, parseV3 p3, parseRat t with
    | some p0, some p1, some p2, some p3, some t =>
      let g : V3 := ⟨Gen.BBoxKernels.bezier4Point (p1.x - p0.x) (p2.x - p0.x) (p3.x - p0.x) p0.x t,
        Gen.BBoxKernels.bezier4Point (p1.y - p0.y) (p2.y - p0.y) (p3.y - p0.y) p0.y t,
        Gen.BBoxKernels.bezier4Point (p1.z - p0.z) (p2.z - p0.z) (p3.z - p0.z) p0.z t⟩
      showV3 (bezier4V p0 p1 p2 p3 t) ++ ";" ++ showV3 g ++ ";" ++ tf ((extents3 [p0, p1, p2, p3]).inside (bezier4V p0 p1 p2 p3 t))
    | _, _, _, _, _ => "bad-op"
  | ["bez3", p0, p1, p2, t] => match parseV3 p0, parseV3 p1, parseV3 p2, parseRat t with
    | some p0, some p1, some p2, some t =>
      let g : V3 := ⟨Gen.BBoxKernels.bezier3Point (p1.x - p0.x) (p2.x - p0.x) p0.x t,
        Gen.BBoxKernels.bezier3Point (p1.y - p0.y) (p2.y - p0.y) p0.y t,
        Gen.BBoxKernels.bezier3Point (p1.z - p0.z) (p2.z - p0.z) p0.z t⟩
      showV3 (bezier3V p0 p1 p2 t) ++ ";" ++ showV3 g ++ ";" ++ tf ((extents3 [p0, p1, p2]).inside (bezier3V p0 p1 p2 t))
    | _, _, _, _ => "bad-op"
  | ["cache", fn, uc, entries, hits, misses, ents] =>
    match parseList parseEntry "~" entries, hits.toNat?, misses.toNat?, parseList parseEnt ";" ents with
    | some boxes, some h, some m, some es =>
      let c : Cache := ⟨boxes, h, m⟩
      let u := uc = "1"
      if fn = "flat" then
        let r := multiFlat u c es
        "~".intercalate (r.1.map showBox3) ++ "|" ++ showBox3 (extentsOf u c es).1 ++ "|" ++ showCache r.2
      else if fn = "rec" then
        let r := multiRecursive u c (es.flatMap Ent.prims)
        "~".intercalate (r.1.map showBox3) ++ "|" ++ showBox3 (extendAll r.1) ++ "|" ++ showCache r.2
      else "bad-op"
    | _, _, _, _ => "bad-op"
  | _ => "bad-op"

def main : IO Unit := Proto.run step

import EzdxfVerif.Model.Storage
import Drivers.Proto
open EzdxfVerif EzdxfVerif.XTags EzdxfVerif.Storage Proto

/-  line protocol of property C02
    tags     code:cps;code:cps;…        (cps = space separated code points)
    records  tags/tags/…
    rt|alive,alive,…|tags     -> <export(load t)>|<export(load(export(load t)))>     each part `ok tags` or `err kind`
    spec|alive,…|tags         -> wf ord|canon tags
    sect|records              -> ok tags | err kind        (stored sections of load_dxf_structure -> export)
    struct|records            -> ok name=count;… | err kind (load_dxf_structure + the deletion in Drawing._load)
    custom|name:value;…       -> tag:value;…               (HeaderSection custom property stack)
    written|r2004|name;name;…|tag:value;… -> name:value;…  (where HeaderSection.export_dxf puts them; r2004 = 1 for DXF R2004+)
    xrec|alive,…|tags         -> ok tags | err kind        (XRECORD: load -> export)
    classes|name:cpp;…        -> name:cpp;…                (ClassesSection.register) -/

def natDigits (n : Nat) : List Nat := (toString n).toList.map Char.toNat

def showV : V → String
  | .str s => showNats s
  | .ref n => showNats (natDigits n)

def parseTag (s : String) : Option Tag :=
  match s.splitOn ":" with
  | [c, v] => do let code ← c.toNat?; let val ← parseNats v; some ⟨code, .str val⟩
  | _ => none

def parseTags (s : String) : Option (List Tag) :=
  if s.isEmpty then some [] else (s.splitOn ";").mapM parseTag

def showTags (ts : List Tag) : String :=
  ";".intercalate (ts.map fun t => toString t.code ++ ":" ++ showV t.val)

def parseAlive (s : String) : Option (List V) :=
  if s.isEmpty then some [] else (s.splitOn ",").mapM (fun h => (parseNats h).map V.str)

def showErr : Storage.Err → String
  | .missingAppClose => "missingAppClose" | .unexpectedTag => "unexpectedTag" | .noType => "noType"
  | .xdictError => "xdictError" | .badReactor => "badReactor"

def showRes : Except Storage.Err (List Tag) → String
  | .ok ts => "ok " ++ showTags ts
  | .error e => "err " ++ showErr e

def parsePairs (s : String) : Option (List (V × V)) :=
  if s.isEmpty then some [] else
  (s.splitOn ";").mapM fun p => match p.splitOn ":" with
    | [a, b] => do let x ← parseNats a; let y ← parseNats b; some (V.str x, V.str y)
    | _ => none

def showPairs (ps : List (V × V)) : String :=
  ";".intercalate (ps.map fun p => showV p.1 ++ ":" ++ showV p.2)

def showSErr : SErr → String
  | .missingEndsec => "missingEndsec" | .endsecWithoutSection => "endsecWithoutSection"
  | .missingName => "missingName" | .missingEof => "missingEof"

def b01 (b : Bool) : String := if b then "1" else "0"

def step (line : String) : String :=
  match line.splitOn "|" with
  | ["rt", a, t] =>
    (match parseAlive a, parseTags t with
     | some al, some ts =>
       let alive := fun v => al.contains v
       let r1 := roundtrip alive ts
       let r2 := match r1 with
         | .ok u => showRes (roundtrip alive u)
         | .error _ => "-"
       showRes r1 ++ "|" ++ r2
     | _, _ => "bad-op")
  | ["spec", a, t] =>
    (match parseAlive a, parseTags t with
     | some al, some ts =>
       let alive := fun v => al.contains v
       b01 (entityWF alive ts) ++ " " ++ b01 (entityOrdered ts) ++ "|" ++ showTags (canon ts)
     | _, _ => "bad-op")
  | ["sect", r] =>
    (match (if r.isEmpty then some [] else (r.splitOn "/").mapM parseTags) with
     | some recs => (match passSections recs with
       | .ok ts => "ok " ++ showTags ts
       | .error e => "err " ++ showSErr e)
     | none => "bad-op")
  | ["struct", r] =>
    (match (if r.isEmpty then some [] else (r.splitOn "/").mapM parseTags) with
     | some recs => (match loadStructure recs with
       | .ok secs => "ok " ++ ";".intercalate ((secs.filter fun p => !isDeleted p.1).map fun p =>
           showV p.1 ++ "=" ++ toString p.2.length)
       | .error e => "err " ++ showSErr e)
     | none => "bad-op")
  | ["custom", g] =>
    (match parsePairs g with
     | some gs => showPairs (customLoad gs)
     | none => "bad-op")
  | ["written", v, names, g] =>
    (match (if names.isEmpty then some [] else (names.splitOn ";").mapM (fun n => (parseNats n).map V.str)), parsePairs g with
     | some ns, some ps => showPairs (customWritten (v == "1") ns ps)
     | _, _ => "bad-op")
  | ["xrec", a, t] =>
    (match parseAlive a, parseTags t with
     | some al, some ts =>
       (match load ts with
        | .error e => "err " ++ showErr e
        | .ok e => showRes (exportXRecord (fun v => al.contains v) e))
     | _, _ => "bad-op")
  | ["classes", g] =>
    (match parsePairs g with
     | some cs => showPairs (register [] cs)
     | none => "bad-op")
  | _ => "bad-op"

def main : IO Unit := Proto.run step

import EzdxfVerif.Model.Storage
import EzdxfVerif.Model.StorageDoc
import Drivers.Proto
open EzdxfVerif EzdxfVerif.XTags EzdxfVerif.Storage EzdxfVerif.StorageDoc Proto

/-  line protocol of property C02
    tags     code:cps;code:cps;…        (cps = space separated code points)
    records  tags/tags/…
    rt|alive,alive,…|tags     -> <export(load t)>|<export(load(export(load t)))>     each part `ok tags` or `err kind`
    spec|alive,…|tags         -> wf ord|canon tags
    sect|records              -> ok tags | err kind        (stored sections of load_dxf_structure -> export)
    struct|records            -> ok name=count;… | err kind (load_dxf_structure + the deletion in Drawing._load)
    custom|name:value;…       -> tag:value;…               (HeaderSection custom property stack)
    written|r2004|name;name;…|tag:value;… -> name:value;…  (where HeaderSection.export_dxf puts them; r2004 = 1 for DXF R2004+)
    xrec|alive,…|tags         -> ok tags | err kind        (XRECORD: load -> export)
    classes|name:cpp;…        -> name:cpp;…                (ClassesSection.register)
    ents|msp|psp|alive,…|records -> ok tags | err kind     (ENTITIES: linker, layout distribution, export; an implemented record is
                                                            answered as (0,type),(5,handle), linked sub-records as nothing)
    objs|alive,…|records      -> ok tags | err kind        (OBJECTS)
    blocks|alive,…|key,key,…|records -> ok tags | err kind (BLOCKS: definitions in the order of the BLOCK_RECORD table keys)
    file|ver|msp|psp|alive,…|key,…|records -> ok tags | err kind (whole file, ver = 1027 for AC1027; TABLES answered as (0,TABLES))
    class|r2004|tags          -> ok tags | none            (DXFClass load -> export)
    clsec|r2004|records       -> ok tags | none            (ClassesSection load -> export, no required classes)
    clsecr|r2004|records      -> ok tags | none            (ClassesSection load -> add_required_classes -> export, without a document)
    hdr|ver|vertext|name:code:value;… -> ok tags           (HeaderSection load -> export; value conversion = castStub)
    hsec|ver|tags             -> ok tags | none            (HEADER section at tag level: validator, groups, export; tags behind (2, HEADER))
    proxy|alive,…|tags        -> ok tags | err kind        (ACADProxyEntity; the AcDbEntity subclass is echoed)
    generic|alive,…|tags      -> ok base tags#xdata tags | err kind (DXFEntity.export_base_class / export_xdata of an implemented class)
    thead|alive,…|count|tags  -> ok tags | err kind        (TableHead load -> export, R2000+)
    dict|tags                 -> ok tags                   (Dictionary.load_dict -> export_dict; tags of the AcDbDictionary subclass)
    acds|records              -> ok tags | none            (AcDsDataSection; first record = section head) -/

def natDigits (n : Nat) : List Nat := (toString n).toList.map Char.toNat

def showV : V → String
  | .str s => showNats s
  | .ref n => showNats (natDigits n)

def parseTag (s : String) : Option Tag :=
  match s.splitOn ":" with
  | [c, v] => do let code ← c.toNat?; let val ← parseNats v; some ⟨code, .str val⟩
  | _ => none

def parseTags (s : String) : Option (List Tag) :=
  if s.isEmpty then some [] else (s.splitOn ";").mapM parseTag

def showTags (ts : List Tag) : String :=
  ";".intercalate (ts.map fun t => toString t.code ++ ":" ++ showV t.val)

def parseAlive (s : String) : Option (List V) :=
  if s.isEmpty then some [] else (s.splitOn ",").mapM (fun h => (parseNats h).map V.str)

def showErr : Storage.Err → String
  | .missingAppClose => "missingAppClose" | .unexpectedTag => "unexpectedTag" | .noType => "noType"
  | .xdictError => "xdictError" | .badReactor => "badReactor"

def showRes : Except Storage.Err (List Tag) → String
  | .ok ts => "ok " ++ showTags ts
  | .error e => "err " ++ showErr e

def parsePairs (s : String) : Option (List (V × V)) :=
  if s.isEmpty then some [] else
  (s.splitOn ";").mapM fun p => match p.splitOn ":" with
    | [a, b] => do let x ← parseNats a; let y ← parseNats b; some (V.str x, V.str y)
    | _ => none

/-- name:code:value;… -/
def parseTriples (s : String) : Option (List (V × Tag)) :=
  if s.isEmpty then some [] else
  (s.splitOn ";").mapM fun p => match p.splitOn ":" with
    | [a, c, b] => do let x ← parseNats a; let code ← c.toNat?; let y ← parseNats b; some (V.str x, ⟨code, .str y⟩)
    | _ => none

def showPairs (ps : List (V × V)) : String :=
  ";".intercalate (ps.map fun p => showV p.1 ++ ":" ++ showV p.2)

def showSErr : SErr → String
  | .missingEndsec => "missingEndsec" | .endsecWithoutSection => "endsecWithoutSection"
  | .missingName => "missingName" | .missingEof => "missingEof"

def b01 (b : Bool) : String := if b then "1" else "0"

def parseRecs (r : String) : Option (List Rec) :=
  if r.isEmpty then some [] else (r.splitOn "/").mapM parseTags

def firstVal (code : Nat) (r : Rec) : Option V := (r.find? (fun t => t.code == code)).map (·.val)

def strOf (s : String) : List Nat := s.toList.map Char.toNat

/-- the stand-in for the implemented classes: type and handle; sub-entities are written by their parent -/
def stubKnown (r : Rec) (_ : List Rec) : List Tag :=
  if recType r == .str (strOf "ATTRIB") || recType r == .str (strOf "VERTEX") || recType r == .str (strOf "SEQEND") then []
  else [⟨0, recType r⟩, ⟨5, (firstVal 5 r).getD (.str [])⟩]

def isDigits (l : List Nat) : Bool := !l.isEmpty && l.all (fun c => 48 ≤ c && c ≤ 57)

def isIntText : V → Bool
  | .str (45 :: r) => isDigits r
  | .str (43 :: r) => isDigits r
  | .str l => isDigits l
  | .ref _ => false

/-- digits [. digits] with an optional sign -/
def isDecimalText (v : V) : Bool :=
  match v with
  | .str l =>
    let l := match l with | 45 :: r => r | 43 :: r => r | _ => l
    let a := l.takeWhile (fun c => c != 46)
    let b := (l.dropWhile (fun c => c != 46)).drop 1
    if l.contains 46 then (isDigits a || a.isEmpty) && (isDigits b || b.isEmpty) && !(a.isEmpty && b.isEmpty) else isDigits a
  | .ref _ => false

open EzdxfVerif.Gen.StorageTables in
/-- stand-in for `_cast_header_value` on the texts the generators use (value typing is C03): text stays text, an integer / a float
    code takes integer / decimal texts, a point cannot be made from a single value -/
def castStub (c : Nat) (t : Tag) : Option V :=
  if c == 10 then none
  else if intCodes.contains c then (if isIntText t.val then some t.val else none)
  else if floatCodes.contains c then (if isDecimalText t.val then some t.val else none)
  else some t.val

def stubCfg (msp psp : V) (al : List V) : DocCfg :=
  { alive := fun v => al.contains v
    known := stubKnown
    knownPsp := fun r =>
      if firstVal 330 r == some msp then false else if firstVal 330 r == some psp then true
      else match firstVal 67 r with | some v => v != .str [48] | none => false
    attribsFollow := fun r => match firstVal 66 r with | some v => v != .str [48] | none => false
    msp := msp, psp := psp
    skipObject := fun _ => false
    castHeader := castStub }

def showDErr : DErr → String
  | .ent e => showErr e
  | .link => "link"
  | .struct e => showSErr e
  | .classes => "classes"
  | .acds => "acds"
  | .header => "header"

def showDRes : Except DErr (List Tag) → String
  | .ok ts => "ok " ++ showTags ts
  | .error e => "err " ++ showDErr e

def showOpt : Option (List Tag) → String
  | some ts => "ok " ++ showTags ts
  | none => "none"

open EzdxfVerif.Gen.StorageTables in
def stubSection : SectionPart → List Tag
  | .tables => [⟨0, .str (strOf "TABLES")⟩]
  | _ => []

def step2 (line : String) : Option String :=
  match line.splitOn "|" with
  | ["ents", m, p, a, r] =>
    (match parseNats m, parseNats p, parseAlive a, parseRecs r with
     | some m, some p, some al, some recs => some (showDRes (entitiesPass (stubCfg (.str m) (.str p) al) recs))
     | _, _, _, _ => some "bad-op")
  | ["objs", a, r] =>
    (match parseAlive a, parseRecs r with
     | some al, some recs => some (showDRes (objectsPass (stubCfg (.str []) (.str []) al) recs []))
     | _, _ => some "bad-op")
  | ["blocks", a, o, r] =>
    (match parseAlive a, parseAlive o, parseRecs r with
     | some al, some order, some recs =>
       let bc : BlockCfg := { key := fun r => firstVal 2 r,
                              layoutBlock := fun n => n == .str (strOf "*Model_Space") || n == .str (strOf "*Paper_Space") }
       some (showDRes (blocksPass (stubCfg (.str []) (.str []) al) bc order (fun n => [⟨0, .str (strOf "ORPHAN")⟩, ⟨2, n⟩]) recs))
     | _, _, _ => some "bad-op")
  | ["file", v, m, p, a, o, r] =>
    (match v.toNat?, parseNats m, parseNats p, parseAlive a, parseAlive o, parseRecs r with
     | some ver, some m, some p, some al, some order, some recs =>
       let bc : BlockCfg := { key := fun r => firstVal 2 r,
                              layoutBlock := fun n => n == .str (strOf "*Model_Space") || n == .str (strOf "*Paper_Space") }
       some (showDRes (loadSaveFile (stubCfg (.str m) (.str p) al) bc order (fun n => [⟨0, .str (strOf "ORPHAN")⟩, ⟨2, n⟩])
         ver (.str (strOf ("AC" ++ toString ver))) [] stubSection [] recs))
     | _, _, _, _, _, _ => some "bad-op")
  | ["class", v, t] =>
    (match parseTags t with
     | some ts => some (showOpt ((classLoad ts).map (classExport (v == "1"))))
     | none => some "bad-op")
  | ["clsec", v, r] =>
    (match parseRecs r with
     | some recs => some (showOpt (classesPass (v == "1") recs []))
     | none => some "bad-op")
  | ["clsecr", v, r] =>
    (match parseRecs r with
     | some recs => some (showOpt (classesPass (v != "0") recs (requiredExtra (v != "0"))))
     | none => some "bad-op")
  | ["hdr", ver, vt, g] =>
    (match ver.toNat?, parseNats vt, parseTriples g with
     | some ver, some vt, some gs => some ("ok " ++ showTags (headerTagsOf ver (headerPass ver (.str vt) castStub gs)))
     | _, _, _ => some "bad-op")
  | ["hsec", ver, t] =>
    (match ver.toNat?, parseTags t with
     | some ver, some ts => some (showOpt (headerSectionPass ver (.str (strOf ("AC" ++ toString ver))) castStub ts))
     | _, _ => some "bad-op")
  | ["proxy", a, t] =>
    (match parseAlive a, parseTags t with
     | some al, some ts =>
       (match load ts with
        | .error e => some ("err " ++ showErr e)
        | .ok e => some (showRes (exportProxy (fun v => al.contains v) (e.subs.headD []) e)))
     | _, _ => some "bad-op")
  | ["generic", a, t] =>
    (match parseAlive a, parseTags t with
     | some al, some ts =>
       (match load ts with
        | .error e => some ("err " ++ showErr e)
        | .ok e => (match reactorsPart e.reactors with
          | .error x => some ("err " ++ showErr x)
          | .ok re => some ("ok " ++ showTags (baseOut (fun v => al.contains v) e re) ++ "#" ++ showTags (xdataOut e))))
     | _, _ => some "bad-op")
  | ["thead", a, c, t] =>
    (match parseAlive a, parseNats c, parseTags t with
     | some al, some cnt, some ts =>
       (match load ts, tableName ts with
        | .error e, _ => some ("err " ++ showErr e)
        | .ok _, none => some "err noName"
        | .ok e, some n => some (showRes (exportTableHead (fun v => al.contains v) (.str cnt) n e)))
     | _, _, _ => some "bad-op")
  | ["dict", t] =>
    (match parseTags t with
     | some ts => some ("ok " ++ showTags (dictExport (dictLoad ts)))
     | none => some "bad-op")
  | ["acds", r] =>
    (match parseRecs r with
     | some (head :: recs) => some (showOpt (acdsPass head recs))
     | _ => some "bad-op")
  | _ => none

def step (line : String) : String :=
  match step2 line with
  | some s => s
  | none =>
  match line.splitOn "|" with
  | ["rt", a, t] =>
    (match parseAlive a, parseTags t with
     | some al, some ts =>
       let alive := fun v => al.contains v
       let r1 := roundtrip alive ts
       let r2 := match r1 with
         | .ok u => showRes (roundtrip alive u)
         | .error _ => "-"
       showRes r1 ++ "|" ++ r2
     | _, _ => "bad-op")
  | ["spec", a, t] =>
    (match parseAlive a, parseTags t with
     | some al, some ts =>
       let alive := fun v => al.contains v
       b01 (entityWF alive ts) ++ " " ++ b01 (entityOrdered ts) ++ "|" ++ showTags (canon ts)
     | _, _ => "bad-op")
  | ["sect", r] =>
    (match (if r.isEmpty then some [] else (r.splitOn "/").mapM parseTags) with
     | some recs => (match passSections recs with
       | .ok ts => "ok " ++ showTags ts
       | .error e => "err " ++ showSErr e)
     | none => "bad-op")
  | ["struct", r] =>
    (match (if r.isEmpty then some [] else (r.splitOn "/").mapM parseTags) with
     | some recs => (match loadStructure recs with
       | .ok secs => "ok " ++ ";".intercalate ((secs.filter fun p => !isDeleted p.1).map fun p =>
           showV p.1 ++ "=" ++ toString p.2.length)
       | .error e => "err " ++ showSErr e)
     | none => "bad-op")
  | ["custom", g] =>
    (match parsePairs g with
     | some gs => showPairs (customLoad gs)
     | none => "bad-op")
  | ["written", v, names, g] =>
    (match (if names.isEmpty then some [] else (names.splitOn ";").mapM (fun n => (parseNats n).map V.str)), parsePairs g with
     | some ns, some ps => showPairs (customWritten (v == "1") ns ps)
     | _, _ => "bad-op")
  | ["xrec", a, t] =>
    (match parseAlive a, parseTags t with
     | some al, some ts =>
       (match load ts with
        | .error e => "err " ++ showErr e
        | .ok e => showRes (exportXRecord (fun v => al.contains v) e))
     | _, _ => "bad-op")
  | ["classes", g] =>
    (match parsePairs g with
     | some cs => showPairs (register [] cs)
     | none => "bad-op")
  | _ => "bad-op"

def main : IO Unit := Proto.run step

import EzdxfVerif.Model.Heap
import EzdxfVerif.Model.HeapRecipe
import Drivers.Proto
open EzdxfVerif.Heap Proto

/-! Line protocol of C16.
  run|<heap>|<rootA>|<rootB>|<frozen>|<a or b>|<writes>|<depth>   ->  <tree of A>#<tree of B>
    heap   = objects separated by ';', object = <i|c|k>:<slot>,<slot>,...  slot = v<int> | o<addr> | n<addr>
    frozen = addresses separated by ' '
    writes = separated by ';':  S:path:i:v  N:path:i:a  P:path:v  O:path  E:path:i  W:path:i:<c|k|i>:v v v
             Q:path:<c|k|i>:v v v  L:path:i:path  M:path:path      (path = indices separated by '.')
    tree   = v<int> | n<addr> | ~ (cut) | ! (dangling) | <i|c|k>(<tree> <tree> ...)
  copy|<cls>=<policy letters>,...|<cls>=<blank part trees>;...|<tree>   ->  tree of the model copy
    policy letters: d deepcopy, a alias, s shallow, r reset, i init (value of a default instance), e strategy copy
    input tree tokens (space separated):  v<int>  n<addr>  <i|c|k><addr>[ ... ]  e<cls>@<addr>[ ... ]
    output tokens: v<int>  n<addr>  s<addr> (the object of the source itself)  <i|c|k>[ ... ]  e<cls>[ ... ]
  copyp|<cls>=<ppol> <ppol> ...;...|<env tree>;...|<tree>   ->  tree of the model copy `copyTop` (program recipes)
    pol  = d | a | e | g<i> | C( <tree> ) | E( <pol> ) | F( <pol> ... )
    ppol = 1 <pol> | ?n <pol> <pol> | ?k<path> <pol> <pol>         (path = child indices separated by '.')
  typed|<cls>=<ty> <ty> ...;...|<frozen addresses>|<tree>   ->  ok | ill-typed      (`wt` of Model/HeapRecipe.lean)
    ty   = * | o | L( <ty> ) | O( <ty> ... )
  safe|<recipe table>|<type table>   ->  true | false        (`partsSafe` class by class) -/

def parseKind (s : String) : Option Kind :=
  if s = "i" then some .imm else if s = "c" then some .cell else if s = "k" then some .cont else none

def parseSlot (s : String) : Option Ref :=
  if s.startsWith "v" then (parseInt (s.drop 1).toString).map Ref.val
  else if s.startsWith "o" then (s.drop 1).toNat?.map Ref.own
  else if s.startsWith "n" then (s.drop 1).toNat?.map Ref.nav
  else none

def parseObj (s : String) : Option Obj :=
  match s.splitOn ":" with
  | [k, ss] => do
    let kind ← parseKind k
    let slots ← if ss.isEmpty then some [] else (ss.splitOn ",").mapM parseSlot
    some ⟨kind, slots⟩
  | _ => none

def parseHeap (s : String) : Option Heap :=
  if s.isEmpty then some [] else (s.splitOn ";").mapM parseObj

def parsePath (s : String) : Option (List Nat) :=
  if s.isEmpty then some [] else (s.splitOn ".").mapM (fun t => t.toNat?)

def parseInts (s : String) : Option (List Int) :=
  if s.isEmpty then some [] else (s.splitOn " ").mapM parseInt

def parseWrite (s : String) : Option Write :=
  match s.splitOn ":" with
  | ["S", p, i, v] => do some (.setVal (← parsePath p) (← i.toNat?) (← parseInt v))
  | ["N", p, i, a] => do some (.setNav (← parsePath p) (← i.toNat?) (← a.toNat?))
  | ["P", p, v] => do some (.push (← parsePath p) (← parseInt v))
  | ["O", p] => do some (.pop (← parsePath p))
  | ["E", p, i] => do some (.erase (← parsePath p) (← i.toNat?))
  | ["W", p, i, k, vs] => do some (.setNew (← parsePath p) (← i.toNat?) (← parseKind k) (← parseInts vs))
  | ["Q", p, k, vs] => do some (.pushNew (← parsePath p) (← parseKind k) (← parseInts vs))
  | ["L", p, i, q] => do some (.link (← parsePath p) (← i.toNat?) (← parsePath q))
  | ["M", p, q] => do some (.pushLink (← parsePath p) (← parsePath q))
  | _ => none

def showKind : Kind → String
  | .imm => "i" | .cell => "c" | .cont => "k"

partial def showTree : Tree → String
  | .leaf v => "v" ++ toString v
  | .navref a => "n" ++ toString a
  | .cut => "~"
  | .dangling => "!"
  | .node k cs => showKind k ++ "(" ++ " ".intercalate (cs.map showTree) ++ ")"

mutual
  partial def parseT : List String → Option (ATree × List String)
    | [] => none
    | tok :: rest =>
      if tok.startsWith "v" then (parseInt (tok.drop 1).toString).map (fun v => (.leaf v, rest))
      else if tok.startsWith "n" then ((tok.drop 1).toNat?).map (fun a => (.navr a, rest))
      else if tok.endsWith "[" then
        let body : String := (tok.dropEnd 1).toString
        if body.startsWith "e" then
          match (body.drop 1).toString.splitOn "@" with
          | [c, a] => do
            let (cs, rest') ← parseTs rest
            some (.ent (← a.toNat?) (← c.toNat?) cs, rest')
          | _ => none
        else do
          let k ← parseKind (body.take 1).toString
          let a ← (body.drop 1).toNat?
          let (cs, rest') ← parseTs rest
          some (.node a k cs, rest')
      else none
  partial def parseTs : List String → Option (List ATree × List String)
    | [] => none
    | "]" :: rest => some ([], rest)
    | toks => do
      let (t, rest) ← parseT toks
      let (ts, rest') ← parseTs rest
      some (t :: ts, rest')
end

def parseTree (s : String) : Option ATree :=
  match parseT ((s.splitOn " ").filter (· ≠ "")) with
  | some (t, []) => some t
  | _ => none

def parseTrees (s : String) : Option (List ATree) :=
  match parseTs (((s.splitOn " ").filter (· ≠ "")) ++ ["]"]) with
  | some (ts, []) => some ts
  | _ => none

def parsePolicy (c : Char) : Option Policy :=
  if c = 'd' then some .deep else if c = 'a' then some .alias else if c = 's' then some .shallow
  else if c = 'r' then some .reset else if c = 'i' then some .init else if c = 'e' then some .ents else none

def parseAssoc {α : Type} (s : String) (sep : String) (f : String → Option α) : Option (List (Nat × α)) :=
  if s.isEmpty then some [] else
  (s.splitOn sep).mapM (fun item =>
    match item.splitOn "=" with
    | [k, v] => do some ((← k.toNat?), (← f v))
    | _ => none)

def lookupD {α : Type} (tbl : List (Nat × α)) (d : α) (k : Nat) : α :=
  match tbl.find? (fun p => p.1 = k) with
  | some p => p.2
  | none => d

partial def deepImm : ATree → Bool
  | .leaf _ => true
  | .navr _ => false
  | .share _ o => deepImm o
  | .node _ k cs => k == .imm && cs.all deepImm
  | .ent _ _ _ => false

partial def showA : ATree → String
  | .leaf v => "v" ++ toString v
  | .navr a => "n" ++ toString a
  | .share a o => if deepImm o then showA o else "s" ++ toString a
  | .node _ k cs => showKind k ++ "[ " ++ " ".intercalate (cs.map showA) ++ " ]"
  | .ent _ c cs => "e" ++ toString c ++ "[ " ++ " ".intercalate (cs.map showA) ++ " ]"

mutual
  partial def parsePol : List String → Option (Pol × List String)
    | [] => none
    | tok :: rest =>
      if tok = "d" then some (.deep, rest)
      else if tok = "a" then some (.alias, rest)
      else if tok = "e" then some (.ents, rest)
      else if tok = "C(" then
        match parseT rest with
        | some (t, ")" :: rest') => some (.const t, rest')
        | _ => none
      else if tok = "E(" then
        match parsePol rest with
        | some (p, ")" :: rest') => some (.each p, rest')
        | _ => none
      else if tok = "F(" then
        match parsePols rest with
        | some (ps, rest') => some (.fields ps, rest')
        | none => none
      else if tok.startsWith "g" then ((tok.drop 1).toNat?).map (fun i => (.gen i, rest))
      else none
  partial def parsePols : List String → Option (List Pol × List String)
    | [] => none
    | ")" :: rest => some ([], rest)
    | toks => do
      let (p, rest) ← parsePol toks
      let (ps, rest') ← parsePols rest
      some (p :: ps, rest')
end

def parseDotted (s : String) : Option (List Nat) :=
  if s.isEmpty then some [] else (s.splitOn ".").mapM (fun t => t.toNat?)

partial def parsePPols : List String → Option (List PPol)
  | [] => some []
  | tok :: rest =>
    if tok = "1" then do
      let (p, rest') ← parsePol rest
      let ps ← parsePPols rest'
      some (.one p :: ps)
    else if tok.startsWith "?" then do
      let c ← (if tok = "?n" then some Test.notNone
               else if tok.startsWith "?k" then (parseDotted (tok.drop 2).toString).map Test.nonEmpty else none)
      let (p, r1) ← parsePol rest
      let (q, r2) ← parsePol r1
      let ps ← parsePPols r2
      some (.cond c p q :: ps)
    else none

mutual
  partial def parseTy : List String → Option (Ty × List String)
    | [] => none
    | tok :: rest =>
      if tok = "*" then some (.any, rest)
      else if tok = "o" then some (.ok, rest)
      else if tok = "L(" then
        match parseTy rest with
        | some (t, ")" :: rest') => some (.coll t, rest')
        | _ => none
      else if tok = "O(" then
        match parseTys rest with
        | some (ts, rest') => some (.obj ts, rest')
        | none => none
      else none
  partial def parseTys : List String → Option (List Ty × List String)
    | [] => none
    | ")" :: rest => some ([], rest)
    | toks => do
      let (t, rest) ← parseTy toks
      let (ts, rest') ← parseTys rest
      some (t :: ts, rest')
end

partial def parseTyList : List String → Option (List Ty)
  | [] => some []
  | toks => do
    let (t, rest) ← parseTy toks
    let ts ← parseTyList rest
    some (t :: ts)

def toks (s : String) : List String := (s.splitOn " ").filter (· ≠ "")

def parseTable {α : Type} (s : String) (f : List String → Option (List α)) : Option (List (Nat × List α)) :=
  if s.isEmpty then some [] else
  (s.splitOn ";").mapM (fun item =>
    match item.splitOn "=" with
    | [k, v] => do some ((← k.trimAscii.toString.toNat?), (← f (toks v)))
    | _ => none)

def parseEnv (s : String) : Option (List ATree) :=
  if s.isEmpty then some [] else (s.splitOn ";").mapM parseTree

def step (line : String) : String :=
  match line.splitOn "|" with
  | ["run", hp, ra, rb, fr, who, ws, depth] =>
    match parseHeap hp, ra.toNat?, rb.toNat?, parseNats fr, depth.toNat?,
          (if ws.isEmpty then some [] else (ws.splitOn ";").mapM parseWrite) with
    | some h, some a, some b, some frozen, some n, some writes =>
      let root := if who = "a" then a else b
      let h' := applyAll frozen root h writes
      showTree (observe h' n (.own a)) ++ "#" ++ showTree (observe h' n (.own b))
    | _, _, _, _, _, _ => "bad-op parse"
  | ["copy", rcs, bls, tr] =>
    match parseAssoc rcs "," (fun v => v.toList.mapM parsePolicy), parseAssoc bls ";" parseTrees, parseTree tr with
    | some rc, some bl, some t => showA (copyT (lookupD rc []) (lookupD bl []) t)
    | _, _, _ => "bad-op parse"
  | ["copyp", rcs, envs, tr] =>
    match parseTable rcs parsePPols, parseEnv envs, parseTree tr with
    | some rc, some env, some t => showA (copyTop (lookupL rc) (fun i => env.getD i (.leaf NONE)) t)
    | _, _, _ => "bad-op parse"
  | ["typed", tys, fr, tr] =>
    match parseTable tys parseTyList, parseNats fr, parseTree tr with
    | some cty, some fro, some t => if wt fro (lookupL cty) t then "ok" else "ill-typed"
    | _, _, _ => "bad-op parse"
  | ["safe", rcs, tys] =>
    match parseTable rcs parsePPols, parseTable tys parseTyList with
    | some rc, some cty => toString (tableSafe rc cty)
    | _, _ => "bad-op parse"
  | _ => "bad-op"

def main : IO Unit := Proto.run step
